#!/usr/bin/env python3
"""Regenerates MANIFEST.json from the table below (run after adding a property's check)."""
import json, os, subprocess
ROOT = os.path.dirname(os.path.abspath(__file__))
props = [json.loads(l) for l in open(os.path.join(ROOT, "properties.jsonl"))]
# id -> (engine, technique, level text, level_note, design_ref)
CLAIMS = json.load(open(os.path.join(ROOT, "claims.json")))
hooks_commits = subprocess.run("git -C /repo log --format=%h --grep='^verif hook' ", shell=True, capture_output=True, text=True).stdout.split()
m = {
 "version": 1,
 "setup_cmd": "./setup.sh",
 "hooks": {"guard": "verif", "enable": "go build -tags verif (hook call lines call package github.com/jirenius/go-res/verifhook, whose functions are empty without the tag; verif_export.go exports two unexported validators and the reconnect/disconnect handlers the service installs on a nats.Conn)",
           "baseline_off_cmd": "cd /repo && go test -vet=off -count=1 ./...",
           "source_commits": hooks_commits, "add_only": True},
 "engines": [], "checks": [], "not_applicable": [],
 "notes": "Machine-checked proof in Coq 8.16.1 of executable Gallina models, tied to /repo by a correspondence check on every run (see DESIGN.md). ./check <id> --tier quick|thorough; known findings in known_findings.json.",
}
engines = {}
for p in props:
    pid = p["id"]
    c = CLAIMS.get(pid)
    if not c or not os.path.exists(os.path.join(ROOT, "checks", pid + ".json")):
        m["not_applicable"].append({"property_id": pid, "reason": (c or {}).get("na_reason", "check not built yet in this round (model/theorems/correspondence pending); the technique applies, see DESIGN.md section 6")})
        continue
    engines.setdefault(c["engine"], []).append(pid)
    m["checks"].append({
        "property_id": pid,
        "quick_cmd": "./check %s --tier quick" % pid,
        "thorough_cmd": "./check %s --tier thorough" % pid,
        "evidence_file": "/verif/evidence/%s.json" % pid,
        "replay_cmd_template": "./check %s --replay {path}" % pid,
        "engine": c["engine"],
        "level_claimed": {"category": "proof", "text": c["text"], "design_ref": c.get("design_ref", "DESIGN.md section 6, " + pid)},
        "level_note": c["note"],
        "technique": c["technique"],
    })
for e, ps in engines.items():
    m["engines"].append({"name": e, "path": "coq/" + e, "serves_properties": ps, "kind_free_text": "Gallina model + Coq theorems + Go correspondence harness"})
json.dump(m, open(os.path.join(ROOT, "MANIFEST.json"), "w"), indent=1)
print("claimed:", [c["property_id"] for c in m["checks"]], "not_applicable:", len(m["not_applicable"]))
