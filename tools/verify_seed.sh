#!/bin/sh
# verify a seeded change in its scratch worktree: suite passes with it, demo fails with it and passes without it
id=$1; base=${SEEDBASE:-/tmp/seed}; wt=$base/wt_$id; out=$base/out_$id
export GOFLAGS=-mod=mod GOPROXY=off GOSUMDB=off GOTOOLCHAIN=local
cd $wt || exit 9
git checkout -q -- . 2>/dev/null; git clean -fdq 2>/dev/null
git apply $out/patch.diff || { echo "$id: patch does not apply"; exit 8; }
go build ./... && go build -tags verif ./... || { echo "$id: build fails"; exit 7; }
if go test -vet=off -count=1 ./... >$base/test_$id.log 2>&1; then echo "$id: suite passes with patch"; else echo "$id: SUITE FAILS with patch"; tail -5 $base/test_$id.log; fi
sh $out/demo/run.sh $wt >$base/demo_with_$id.log 2>&1; a=$?
git apply -R $out/patch.diff
sh $out/demo/run.sh $wt >$base/demo_without_$id.log 2>&1; b=$?
git checkout -q -- . 2>/dev/null; git clean -fdq 2>/dev/null
echo "$id: demo exit with patch=$a without=$b ($( [ $a -ne 0 ] && [ $b -eq 0 ] && echo CONFIRMED || echo NOT-CONFIRMED ))"
