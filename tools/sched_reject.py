#!/usr/bin/env python3
# debug helper: show the labels around the first rejected label of each mismatching scheduler case
import sys,re,glob,subprocess,os
d=os.path.abspath(sys.argv[1]); prop=sys.argv[2]
for f in sorted(glob.glob(d+'/cases_%s_*.v'%prop)):
    r=subprocess.run(['coqc','-Q','/verif/coq','GoRes',os.path.basename(f)],capture_output=True,text=True,cwd=d)
    out=r.stdout+r.stderr
    m=re.search(r'M\s*=\s*(.*?)\n\s*:',out,re.S)
    if not m: print(f, out[-300:]); continue
    pairs=re.findall(r'\((\d+),\s*(\d+)\)',m.group(1))
    if not pairs: continue
    s=open(f).read()
    cases=re.split(r'\nSC ', s)[1:]
    for i,code in pairs:
        i=int(i); code=int(code)
        labs=re.findall(r'L[A-Z][A-Za-z]+[^;\]]*',cases[i].split('] [')[0])
        print(f, i, code, len(labs))
        for j in range(max(0,code-int(sys.argv[3]) if len(sys.argv)>3 else code-18),min(len(labs),code+3)):
            print('  ',j, labs[j], '<== REJECT' if j==code-1 else '')
