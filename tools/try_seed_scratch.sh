#!/bin/sh
# developer tool: try a kept seeded change WITHOUT touching /repo's working tree - a scratch worktree of /repo's HEAD
# gets the patch, the checks are run against it (VERIF_REPO), and the worktree is removed. Several can run at once.
# The authoritative procedure remains tools/try_seed.sh (apply to /repo, run, undo).
# usage: tools/try_seed_scratch.sh <dir under seeded/ | path to a patch.diff> <check ids...>
cd /verif
if [ -f "$1" ]; then pf=$(readlink -f "$1"); tag=$(basename $(dirname "$pf")); else pf=$(pwd)/seeded/$1/patch.diff; tag=$1; fi; shift
[ -f "$pf" ] || { echo "no $pf"; exit 2; }
wt=/tmp/scratch_${tag}_$$
git -C /repo worktree add -q --detach $wt HEAD || exit 3
trap 'git -C /repo worktree remove --force '$wt' 2>/dev/null; rm -rf '$wt EXIT INT TERM
git -C $wt apply "$pf" || { echo "patch does not apply"; exit 4; }
for c in "$@"; do
  VERIF_REPO=$wt VERIF_TAG=$tag ./check $c 2>&1 | grep -E "^(check|VIOLATION|KNOWN-FINDING)|no longer checks" | cut -c1-400 | sed "s|^|[$tag/$c] |"
  for f in replays/$c-*-$tag*.json; do [ -f "$f" ] && python3 -c "
import json,sys; r=json.load(open('$f')); print('   replay:', json.dumps({k:r.get(k) for k in ('what','kind','code','tags','no_longer_checks')})[:500]); print('   desc:', json.dumps(r.get('desc'))[:400])"; rm -f "$f"; done
done
