#!/bin/sh
# apply a kept seeded change to /repo, run the given checks, undo it straight afterwards
# usage: tools/try_seed.sh <dir under seeded/> <check ids...>
cd /verif
d=seeded/$1; shift
[ -f $d/patch.diff ] || { echo "no $d/patch.diff"; exit 2; }
mkdir -p .work
if [ -z "$VERIF_REPO_LOCKED" ]; then VERIF_REPO_LOCKED=1 exec flock -x .work/repo.lock "$0" "$(basename $d)" "$@"; fi
git -C /repo diff --quiet || { echo "/repo is dirty"; exit 3; }
git -C /repo apply $(pwd)/$d/patch.diff || { echo "patch does not apply"; exit 4; }
trap 'git -C /repo checkout -- . ; git -C /repo clean -fdq' EXIT INT TERM
for c in "$@"; do
  ./check $c 2>&1 | grep -E "^(check|VIOLATION|KNOWN-FINDING)|no longer checks" | cut -c1-400 | sed "s|^|[$c] |"
  ls replays/$c-* >/dev/null 2>&1 && for f in replays/$c-*; do python3 -c "
import json,sys; r=json.load(open('$f')); print('   replay:', json.dumps({k:r.get(k) for k in ('what','kind','code','tags','no_longer_checks')})[:500]); print('   desc:', json.dumps(r.get('desc'))[:400])"; done
  rm -f replays/$c-*
done
