#!/bin/sh
# Runs every claimed check (quick by default) on the current /repo tree and prints one line per check.
cd "$(dirname "$0")"
tier=${1:-quick}
for p in $(python3 -c "import json;print(' '.join(c['property_id'] for c in json.load(open('MANIFEST.json'))['checks']))"); do
  ./check $p --tier $tier 2>&1 | grep -E "^(check|VIOLATION|KNOWN-FINDING)" | cut -c1-300
done
