// Package common holds what every correspondence harness shares: the single
// PRNG all random choices derive from, printers of Go values as Coq terms, and
// the meta.json / shard writer read by /verif/check.
package common

import (
	"crypto/sha256"
	"encoding/hex"
	"encoding/json"
	"flag"
	"fmt"
	"os"
	"path/filepath"
	"sort"
	"strconv"
	"strings"
)

// Rng is splitmix64.
type Rng struct{ s uint64 }

func NewRng(seed uint64) *Rng { return &Rng{s: seed} }
func (r *Rng) Next() uint64 {
	r.s += 0x9e3779b97f4a7c15
	z := r.s
	z = (z ^ (z >> 30)) * 0xbf58476d1ce4e5b9
	z = (z ^ (z >> 27)) * 0x94d049bb133111eb
	return z ^ (z >> 31)
}
func (r *Rng) Intn(n int) int {
	if n <= 0 {
		return 0
	}
	return int(r.Next() % uint64(n))
}
func (r *Rng) Bool() bool        { return r.Next()&1 == 1 }
func (r *Rng) Chance(p int) bool { return r.Intn(100) < p }
func (r *Rng) Pick(xs []string) string {
	return xs[r.Intn(len(xs))]
}

// Opts are the flags every harness takes.
type Opts struct {
	Tier   string
	Seed   uint64
	Out    string
	Replay string
	N      int
}

func ParseOpts() Opts {
	var o Opts
	flag.StringVar(&o.Tier, "tier", "quick", "quick|thorough")
	flag.Uint64Var(&o.Seed, "seed", 1, "PRNG seed")
	flag.StringVar(&o.Out, "out", "", "output directory")
	flag.StringVar(&o.Replay, "replay", "", "replay file (json) to re-run instead of generating")
	flag.IntVar(&o.N, "n", 0, "override number of generated cases")
	flag.Parse()
	if o.Out == "" {
		fmt.Fprintln(os.Stderr, "missing -out")
		os.Exit(2)
	}
	os.MkdirAll(o.Out, 0o755)
	return o
}

// ---- Coq term printers ----

func B(s string) string { // bytes as list N
	if len(s) == 0 {
		return "[]"
	}
	var sb strings.Builder
	sb.WriteByte('[')
	for i := 0; i < len(s); i++ {
		if i > 0 {
			sb.WriteByte(';')
		}
		sb.WriteString(strconv.Itoa(int(s[i])))
	}
	sb.WriteByte(']')
	return sb.String()
}
func Bool(b bool) string {
	if b {
		return "true"
	}
	return "false"
}
func OptB(s string, ok bool) string {
	if !ok {
		return "None"
	}
	return "(Some " + B(s) + ")"
}
func OptN(n int, ok bool) string {
	if !ok {
		return "None"
	}
	return "(Some " + strconv.Itoa(n) + ")"
}
func N(n int) string {
	if n < 0 {
		panic("negative N")
	}
	return strconv.Itoa(n)
}
func Z(n int) string {
	if n < 0 {
		return "(" + strconv.Itoa(n) + ")%Z"
	}
	return strconv.Itoa(n) + "%Z"
}
func Nat(n int) string { return strconv.Itoa(n) + "%nat" }
func AMap(m map[string]string) string {
	keys := make([]string, 0, len(m))
	for k := range m {
		keys = append(keys, k)
	}
	sort.Strings(keys)
	parts := make([]string, len(keys))
	for i, k := range keys {
		parts[i] = "(" + B(k) + "," + B(m[k]) + ")"
	}
	return "[" + strings.Join(parts, ";") + "]"
}
func OptAMap(m map[string]string, ok bool) string {
	if !ok {
		return "None"
	}
	return "(Some " + AMap(m) + ")"
}
func List(xs []string) string { return "[" + strings.Join(xs, ";") + "]" }
func BList(xs []string) string {
	ys := make([]string, len(xs))
	for i, x := range xs {
		ys[i] = B(x)
	}
	return List(ys)
}

// ---- output ----

// Case is one generated case: its Coq term and what the driver needs to report it.
type Case struct {
	Term       string      // Coq term of the engine's case type
	Desc       interface{} // human-readable replayable description (goes to replays/)
	Tags       []string    // classification used to match known findings
	Nontrivial bool
	Key        string // canonical form for distinct counting ("" = Term)
}

type Meta struct {
	Property           string                 `json:"property"`
	Evaluations        int                    `json:"evaluations"`
	DistinctNontrivial int                    `json:"distinct_nontrivial"`
	Rule               string                 `json:"rule"`
	Samples            []interface{}          `json:"samples"`
	Distribution       map[string]int         `json:"input_distribution"`
	Shards             []string               `json:"shards"`
	ShardOffsets       []int                  `json:"shard_offsets"`
	Cases              []CaseMeta             `json:"cases"`
	Extra              map[string]interface{} `json:"extra,omitempty"`
	ImplViolations     []ImplViolation        `json:"impl_violations,omitempty"`
}
type CaseMeta struct {
	Desc interface{} `json:"desc"`
	Tags []string    `json:"tags,omitempty"`
}

// ImplViolation is a property violation the harness itself observed at run time
// (hang, panic, race report ...), i.e. not decided by the Coq oracle.
type ImplViolation struct {
	What string      `json:"what"`
	Desc interface{} `json:"desc"`
	Tags []string    `json:"tags,omitempty"`
}

// Emit writes the shards and meta.json.  header is the Coq prelude (imports);
// caseType the Coq type of a case; every shard defines `cases`, M and V.
func Emit(o Opts, prop, header, caseType, rule string, cases []Case, dist map[string]int, extra map[string]interface{}, impl []ImplViolation, shardSize int) {
	if shardSize <= 0 {
		shardSize = 500
	}
	m := Meta{Property: prop, Evaluations: len(cases), Rule: rule, Distribution: dist, Extra: extra, ImplViolations: impl}
	seen := map[string]bool{}
	for i, c := range cases {
		k := c.Key
		if k == "" {
			k = c.Term
		}
		h := sha256.Sum256([]byte(k))
		hk := hex.EncodeToString(h[:8])
		if c.Nontrivial && !seen[hk] {
			seen[hk] = true
			m.DistinctNontrivial++
			if len(m.Samples) < 5 {
				m.Samples = append(m.Samples, c.Desc)
			}
		}
		m.Cases = append(m.Cases, CaseMeta{Desc: c.Desc, Tags: c.Tags})
		_ = i
	}
	if len(m.Samples) == 0 && len(cases) > 0 {
		m.Samples = append(m.Samples, cases[0].Desc)
	}
	for off, k := 0, 0; off < len(cases) || (off == 0 && k == 0); off, k = off+shardSize, k+1 {
		end := off + shardSize
		if end > len(cases) {
			end = len(cases)
		}
		name := fmt.Sprintf("cases_%s_%d.v", prop, k)
		var sb strings.Builder
		fmt.Fprintf(&sb, "(* property=%s seed=%d tier=%s shard=%d *)\n", prop, o.Seed, o.Tier, k)
		sb.WriteString(header)
		sb.WriteString("\nOpen Scope N_scope.\n")
		fmt.Fprintf(&sb, "Definition cases : list %s := [\n", caseType)
		for i := off; i < end; i++ {
			sb.WriteString(cases[i].Term)
			if i+1 < end {
				sb.WriteString(";\n")
			}
		}
		sb.WriteString("\n].\n")
		sb.WriteString("Definition M := Eval vm_compute in mismatches cases.\nDefinition V := Eval vm_compute in violations cases.\nPrint M.\nPrint V.\n")
		os.WriteFile(filepath.Join(o.Out, name), []byte(sb.String()), 0o644)
		m.Shards = append(m.Shards, name)
		m.ShardOffsets = append(m.ShardOffsets, off)
		if len(cases) == 0 {
			break
		}
	}
	b, _ := json.MarshalIndent(m, "", " ")
	os.WriteFile(filepath.Join(o.Out, "meta.json"), b, 0o644)
}

// LoadReplay reads the "desc" of a replay file into v.
func LoadReplay(path string, v interface{}) error {
	b, err := os.ReadFile(path)
	if err != nil {
		return err
	}
	var r struct {
		Desc json.RawMessage `json:"desc"`
	}
	if err := json.Unmarshal(b, &r); err != nil {
		return err
	}
	return json.Unmarshal(r.Desc, v)
}
