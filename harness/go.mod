module verifharness

go 1.18

require (
	github.com/dgraph-io/badger v1.6.2
	github.com/jirenius/go-res v0.0.0
	github.com/nats-io/nats-server/v2 v2.1.8
	github.com/nats-io/nats.go v1.10.0
)

require (
	github.com/AndreasBriese/bbloom v0.0.0-20190825152654-46b345b51c96 // indirect
	github.com/cespare/xxhash v1.1.0 // indirect
	github.com/dgraph-io/ristretto v0.0.2 // indirect
	github.com/dustin/go-humanize v1.0.0 // indirect
	github.com/golang/protobuf v1.4.0 // indirect
	github.com/jirenius/keylock v1.0.0 // indirect
	github.com/jirenius/taskqueue v1.1.0 // indirect
	github.com/jirenius/timerqueue v1.0.0 // indirect
	github.com/nats-io/jwt v0.3.2 // indirect
	github.com/nats-io/nkeys v0.1.4 // indirect
	github.com/nats-io/nuid v1.0.1 // indirect
	github.com/pkg/errors v0.8.1 // indirect
	golang.org/x/crypto v0.0.0-20200323165209-0ec3e9974c59 // indirect
	golang.org/x/net v0.0.0-20190620200207-3b0461eec859 // indirect
	golang.org/x/sys v0.0.0-20190726091711-fc99dfbffb4e // indirect
	google.golang.org/protobuf v1.22.0 // indirect
)

replace github.com/jirenius/go-res => /repo
