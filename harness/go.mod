module verifharness

go 1.18

require (
	github.com/jirenius/go-res v0.0.0
	github.com/nats-io/nats.go v1.10.0
)

require (
	github.com/jirenius/timerqueue v1.0.0 // indirect
	github.com/nats-io/jwt v0.3.2 // indirect
	github.com/nats-io/nkeys v0.1.4 // indirect
	github.com/nats-io/nuid v1.0.1 // indirect
	golang.org/x/crypto v0.0.0-20200323165209-0ec3e9974c59 // indirect
)

replace github.com/jirenius/go-res => /repo
