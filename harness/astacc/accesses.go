package astacc

import (
	"fmt"
	"go/ast"
	"go/parser"
	"go/token"
	"os"
	"path/filepath"
	"sort"
	"strings"
)

// Access is one syntactic use of a shared field of Service / work / queryEvent in go-res.
type Access struct {
	Func   string // enclosing function (Recv.Name)
	Struct string // Service | work | queryEvent
	Field  string
	Write  bool
	Locked bool // syntactically between s.mu.Lock() and s.mu.Unlock() (or in a function documented as called with the lock held)
	Atomic bool // argument of a sync/atomic call
	Sync   bool // method call on a self-synchronising field (sync.WaitGroup, sync.Cond, chan op)
	Region int  // number of the critical section of s.mu inside Func the access lies in (0 = not under the lock)
}

// The tracked fields are ALL named fields of the three structs, read from the type declarations of the source
// on every run: a field added by a change shows up in the table and, being unclassified by the policy
// (Sched/Access.v loc_ok), is reported until it is classified. (The embedded *Mux is not a shared-state field.)
var serviceFields, workFields, qeFields map[string]bool

func structFields(files []*ast.File, name string) map[string]bool {
	out := map[string]bool{}
	for _, f := range files {
		for _, d := range f.Decls {
			gd, ok := d.(*ast.GenDecl)
			if !ok {
				continue
			}
			for _, sp := range gd.Specs {
				ts, ok := sp.(*ast.TypeSpec)
				if !ok || ts.Name.Name != name {
					continue
				}
				st, ok := ts.Type.(*ast.StructType)
				if !ok {
					continue
				}
				for _, fl := range st.Fields.List {
					for _, n := range fl.Names {
						out[n.Name] = true
					}
				}
			}
		}
	}
	return out
}

// functions that run with s.mu held by their caller / via defer for their whole body
var lockedFuncs = map[string]bool{"work.processQueue": true, "Service.startWorker": true}

// receiver / variable names and their struct
func structOf(recvType string, x ast.Expr, env map[string]string) string {
	switch e := x.(type) {
	case *ast.Ident:
		if t, ok := env[e.Name]; ok {
			return t
		}
	case *ast.SelectorExpr: // w.s.mu , qe.r.s.nc , r.s.nc , qr.s.nc
		if e.Sel.Name == "s" {
			return "Service"
		}
	}
	return ""
}

// Collect extracts the access table from the go-res source tree at repo.
func Collect(repo string) ([]Access, error) {
	fset := token.NewFileSet()
	var out []Access
	names := []string{"service.go", "worker.go", "queryevent.go", "resource.go", "request.go", "getrequest.go", "mux.go"}
	var files []*ast.File
	for _, name := range names {
		f, err := parser.ParseFile(fset, filepath.Join(repo, name), nil, 0)
		if err != nil {
			return nil, err
		}
		files = append(files, f)
	}
	serviceFields, workFields, qeFields = structFields(files, "Service"), structFields(files, "work"), structFields(files, "queryEvent")
	if len(serviceFields) == 0 || len(workFields) == 0 || len(qeFields) == 0 {
		return nil, fmt.Errorf("struct declarations of Service / work / queryEvent not found")
	}
	for _, f := range files {
		for _, d := range f.Decls {
			fd, ok := d.(*ast.FuncDecl)
			if !ok || fd.Body == nil {
				continue
			}
			env := map[string]string{}
			fname := fd.Name.Name
			if fd.Recv != nil && len(fd.Recv.List) > 0 {
				t := fd.Recv.List[0].Type
				if st, ok := t.(*ast.StarExpr); ok {
					t = st.X
				}
				if id, ok := t.(*ast.Ident); ok {
					fname = id.Name + "." + fname
					if len(fd.Recv.List[0].Names) > 0 {
						rn := fd.Recv.List[0].Names[0].Name
						switch id.Name {
						case "Service":
							env[rn] = "Service"
						case "work":
							env[rn] = "work"
						case "queryEvent":
							env[rn] = "queryEvent"
						}
					}
				}
			}
			// local variables of known struct types: w := &work{...}, qe := &queryEvent{...} / v.(*queryEvent), w = s.workqueue[0], w, ok = s.rwork[wid]
			ast.Inspect(fd.Body, func(n ast.Node) bool {
				switch a := n.(type) {
				case *ast.AssignStmt:
					for i, l := range a.Lhs {
						id, ok := l.(*ast.Ident)
						if !ok {
							continue
						}
						var r ast.Expr
						if i < len(a.Rhs) {
							r = a.Rhs[i]
						} else if len(a.Rhs) == 1 {
							r = a.Rhs[0]
						}
						s := exprString(r)
						switch {
						case strings.Contains(s, "work{") || strings.Contains(s, "s.workqueue[") || strings.Contains(s, "s.rwork["):
							env[id.Name] = "work"
						case strings.Contains(s, "queryEvent"):
							env[id.Name] = "queryEvent"
						}
					}
				case *ast.DeclStmt:
					if gd, ok := a.Decl.(*ast.GenDecl); ok {
						for _, sp := range gd.Specs {
							if vs, ok := sp.(*ast.ValueSpec); ok && vs.Type != nil && strings.Contains(exprString(vs.Type), "work") {
								for _, nm := range vs.Names {
									env[nm.Name] = "work"
								}
							}
						}
					}
				}
				return true
			})
			w := &walker{fname: fname, env: env, locked: lockedFuncs[fname]}
			if w.locked {
				w.nreg, w.region = 1, 1
			}
			w.block(fd.Body.List)
			out = append(out, w.out...)
		}
	}
	// canonical: dedupe and sort
	seen := map[string]bool{}
	var res []Access
	for _, a := range out {
		k := fmt.Sprintf("%v", a)
		if !seen[k] {
			seen[k] = true
			res = append(res, a)
		}
	}
	sort.Slice(res, func(i, j int) bool { return fmt.Sprintf("%v", res[i]) < fmt.Sprintf("%v", res[j]) })
	return res, nil
}

type walker struct {
	fname  string
	env    map[string]string
	locked bool
	out    []Access
	region int // current critical section number (valid while locked)
	nreg   int
}

func exprString(e ast.Expr) string {
	if e == nil {
		return ""
	}
	var sb strings.Builder
	ast.Inspect(e, func(n ast.Node) bool {
		switch x := n.(type) {
		case *ast.Ident:
			sb.WriteString(x.Name)
			sb.WriteByte('.')
		case *ast.CompositeLit:
			sb.WriteString(exprString(x.Type) + "{")
		case *ast.IndexExpr:
			sb.WriteString(exprString(x.X))
			sb.WriteString("[")
			return false
		}
		return true
	})
	s := sb.String()
	s = strings.ReplaceAll(s, ".[", "[")
	s = strings.ReplaceAll(s, ".{", "{")
	return s
}

func isMuCall(e ast.Expr, method string) bool {
	c, ok := e.(*ast.CallExpr)
	if !ok {
		return false
	}
	sel, ok := c.Fun.(*ast.SelectorExpr)
	if !ok || sel.Sel.Name != method {
		return false
	}
	in, ok := sel.X.(*ast.SelectorExpr)
	return ok && in.Sel.Name == "mu"
}

// blockUntilUnlock walks statements until the lock is released (used for loop wrap-around).
func (w *walker) blockUntilUnlock(stmts []ast.Stmt) {
	for _, st := range stmts {
		if !w.locked {
			return
		}
		w.stmt(st)
	}
}

func (w *walker) block(stmts []ast.Stmt) {
	for _, st := range stmts {
		w.stmt(st)
	}
}

func (w *walker) stmt(st ast.Stmt) {
	switch s := st.(type) {
	case *ast.ExprStmt:
		if isMuCall(s.X, "Lock") {
			w.locked = true
			w.nreg++
			w.region = w.nreg
			return
		}
		if isMuCall(s.X, "Unlock") {
			w.locked = false
			return
		}
		w.expr(s.X, false)
	case *ast.DeferStmt:
		if isMuCall(s.Call, "Unlock") { // defer s.mu.Unlock(): locked for the rest of the function
			return
		}
		w.expr(s.Call, false)
	case *ast.AssignStmt:
		for _, r := range s.Rhs {
			w.expr(r, false)
		}
		for _, l := range s.Lhs {
			w.expr(l, true)
		}
	case *ast.IncDecStmt:
		w.expr(s.X, true)
	case *ast.IfStmt:
		if s.Init != nil {
			w.stmt(s.Init)
		}
		w.expr(s.Cond, false)
		saved := w.locked
		w.block(s.Body.List)
		after := w.locked
		w.locked = saved
		if s.Else != nil {
			w.stmt(s.Else)
		}
		// a branch that unlocks and returns does not unlock the fall-through path
		if endsWithReturn(s.Body.List) {
			w.locked = saved
		} else {
			w.locked = after
		}
	case *ast.BlockStmt:
		w.block(s.List)
	case *ast.ForStmt:
		if s.Init != nil {
			w.stmt(s.Init)
		}
		if s.Cond != nil {
			w.expr(s.Cond, false)
		}
		w.block(s.Body.List)
		if s.Post != nil {
			w.stmt(s.Post)
		}
		// wrap-around: the critical section open at the end of the body continues into the condition
		// (and, when the condition holds, into the body up to its first Unlock)
		if s.Cond != nil {
			w.expr(s.Cond, false)
		}
		if w.locked {
			saved, savedReg, savedN := w.locked, w.region, w.nreg
			w.blockUntilUnlock(s.Body.List)
			w.locked, w.region, w.nreg = saved, savedReg, savedN
		}
	case *ast.RangeStmt:
		w.expr(s.X, false)
		w.block(s.Body.List)
	case *ast.ReturnStmt:
		for _, r := range s.Results {
			w.expr(r, false)
		}
	case *ast.GoStmt:
		// the spawned function runs later without the lock
		saved := w.locked
		w.locked = false
		w.expr(s.Call, false)
		w.locked = saved
	case *ast.SwitchStmt:
		if s.Init != nil {
			w.stmt(s.Init)
		}
		if s.Tag != nil {
			w.expr(s.Tag, false)
		}
		for _, c := range s.Body.List {
			cc := c.(*ast.CaseClause)
			for _, e := range cc.List {
				w.expr(e, false)
			}
			saved := w.locked
			w.block(cc.Body)
			w.locked = saved
		}
	case *ast.TypeSwitchStmt:
		for _, c := range s.Body.List {
			saved := w.locked
			w.block(c.(*ast.CaseClause).Body)
			w.locked = saved
		}
	case *ast.SelectStmt:
		for _, c := range s.Body.List {
			cc := c.(*ast.CommClause)
			if cc.Comm != nil {
				w.stmt(cc.Comm)
			}
			w.block(cc.Body)
		}
	case *ast.SendStmt:
		w.expr(s.Chan, false)
		w.expr(s.Value, false)
	case *ast.LabeledStmt:
		w.stmt(s.Stmt)
	case *ast.DeclStmt:
	}
}

func endsWithReturn(l []ast.Stmt) bool {
	if len(l) == 0 {
		return false
	}
	_, ok := l[len(l)-1].(*ast.ReturnStmt)
	return ok
}

func (w *walker) record(sel *ast.SelectorExpr, write, atomic, sync bool) {
	st := structOf("", sel.X, w.env)
	f := sel.Sel.Name
	switch st {
	case "Service":
		if !serviceFields[f] {
			return
		}
	case "work":
		if !workFields[f] {
			return
		}
	case "queryEvent":
		if !qeFields[f] {
			return
		}
	default:
		return
	}
	if f == "mu" {
		return
	}
	reg := 0
	if w.locked {
		reg = w.region
	}
	w.out = append(w.out, Access{Func: w.fname, Struct: st, Field: f, Write: write, Locked: w.locked, Atomic: atomic, Sync: sync, Region: reg})
}

func (w *walker) expr(e ast.Expr, write bool) {
	switch x := e.(type) {
	case nil:
	case *ast.SelectorExpr:
		w.record(x, write, false, false)
		w.expr(x.X, false)
	case *ast.CallExpr:
		// atomic.XxxInt32(&s.state, ...)
		if sel, ok := x.Fun.(*ast.SelectorExpr); ok {
			if id, ok := sel.X.(*ast.Ident); ok && id.Name == "atomic" {
				for _, a := range x.Args {
					if u, ok := a.(*ast.UnaryExpr); ok && u.Op == token.AND {
						if s2, ok := u.X.(*ast.SelectorExpr); ok {
							w.record(s2, strings.HasPrefix(sel.Sel.Name, "Store") || strings.HasPrefix(sel.Sel.Name, "CompareAndSwap") || strings.HasPrefix(sel.Sel.Name, "Add"), true, false)
							continue
						}
					}
					w.expr(a, false)
				}
				return
			}
			// calls that run user-supplied code (the logger and, through errorf, the OnError hook; the OnServe /
			// OnDisconnect / OnReconnect hooks): recorded as accesses to the pseudo field "usercode", which the
			// policy requires to lie outside every critical section of s.mu (user code may re-enter the service)
			if structOf("", sel.X, w.env) == "Service" {
				switch sel.Sel.Name {
				case "errorf", "infof", "tracef", "debugf", "onServe", "onError", "onDisconnect", "onReconnect":
					reg := 0
					if w.locked {
						reg = w.region
					}
					w.out = append(w.out, Access{Func: w.fname, Struct: "Service", Field: "usercode", Write: false, Locked: w.locked, Region: reg})
				}
			}
			// method call on a field: s.wg.Add(), s.workcond.Signal(), s.nc.Publish(), s.queryTQ.Add(), qe.sub.Drain()
			if in, ok := sel.X.(*ast.SelectorExpr); ok {
				switch in.Sel.Name {
				case "wg", "workcond":
					w.record(in, false, false, true)
					w.expr(in.X, false)
					for _, a := range x.Args {
						w.expr(a, false)
					}
					return
				}
			}
			// delete(s.rwork, k) / append(s.workqueue, w) / close(s.inCh) / close(qe.done)
		}
		if id, ok := x.Fun.(*ast.Ident); ok {
			switch id.Name {
			case "delete":
				if len(x.Args) > 0 {
					w.expr(x.Args[0], true)
					for _, a := range x.Args[1:] {
						w.expr(a, false)
					}
					return
				}
			case "close":
				if len(x.Args) == 1 {
					if s2, ok := x.Args[0].(*ast.SelectorExpr); ok {
						w.record(s2, false, false, true)
						w.expr(s2.X, false)
						return
					}
				}
			}
		}
		w.expr(x.Fun, false)
		for _, a := range x.Args {
			w.expr(a, false)
		}
	case *ast.FuncLit:
		// closures run later (callbacks handed to runWith etc.): not under the current lock
		saved := w.locked
		w.locked = false
		w.block(x.Body.List)
		w.locked = saved
	case *ast.UnaryExpr:
		if x.Op == token.ARROW { // <-qe.ch
			if s2, ok := x.X.(*ast.SelectorExpr); ok {
				w.record(s2, false, false, true)
				w.expr(s2.X, false)
				return
			}
		}
		w.expr(x.X, write && x.Op == token.AND)
	case *ast.BinaryExpr:
		w.expr(x.X, false)
		w.expr(x.Y, false)
	case *ast.IndexExpr:
		w.expr(x.X, write) // s.rwork[k] = v writes the map
		w.expr(x.Index, false)
	case *ast.SliceExpr:
		w.expr(x.X, false)
		w.expr(x.Low, false)
		w.expr(x.High, false)
	case *ast.StarExpr:
		w.expr(x.X, write)
	case *ast.ParenExpr:
		w.expr(x.X, write)
	case *ast.CompositeLit:
		for _, el := range x.Elts {
			if kv, ok := el.(*ast.KeyValueExpr); ok {
				w.expr(kv.Value, false)
			} else {
				w.expr(el, false)
			}
		}
	case *ast.TypeAssertExpr:
		w.expr(x.X, false)
	case *ast.KeyValueExpr:
		w.expr(x.Value, false)
	}
}

// CoqAcc prints an access as a Coq term of type Sched.Access.acc.
func CoqAcc(a Access) string {
	b := func(x bool) string {
		if x {
			return "true"
		}
		return "false"
	}
	return fmt.Sprintf("Acc %q %q %q %s %s %s %s %d", a.Func, a.Struct, a.Field, b(a.Write), b(a.Locked), b(a.Atomic), b(a.Sync), a.Region)
}

// CoqTable prints the generated file coq/Sched/AccessTable.v.
func CoqTable(acc []Access) string {
	s := "(* GENERATED by `harness/cmd/race table-coq` from /repo's source (go/ast). Do not edit: the C16 check\n   regenerates the table on every run and compares it with this file. *)\nFrom Coq Require Import String List NArith.\nImport ListNotations.\nFrom GoRes Require Import Sched.Access.\nLocal Open Scope string_scope.\nLocal Open Scope N_scope.\nDefinition access_table : list acc := [\n"
	for i, a := range acc {
		s += "  " + CoqAcc(a)
		if i+1 < len(acc) {
			s += ";"
		}
		s += "\n"
	}
	return s + "].\n"
}

// RepoDir is the checkout of the library the harness was built against: /repo, unless the developer tool
// tools/try_seed_scratch.sh points the driver at a scratch copy (VERIF_REPO).
func RepoDir() string {
	if d := os.Getenv("VERIF_REPO"); d != "" {
		return d
	}
	return "/repo"
}
