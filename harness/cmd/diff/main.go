// Correspondence harness for C10 (store.Handler: modelDiff, collectionDiff,
// changeHandler, getResource).
//
// A real res.Service runs on a small recording res.Conn.  Eight store.Handler
// resources are registered (model|collection x +-Transformer x +-Default), each
// on its own mockstore.  A case = one resource id, an initial store content and a
// history of mockstore write transactions; for every transaction the harness
// records exactly what the service published (subject + payload, parsed) and the
// get response before/after.  Values are classified into the Coq type jv
// (primitive / reference / soft reference / data value) by this file's own JSON
// classifier, not by store.Value.
package main

import (
	"bytes"
	"encoding/hex"
	"encoding/json"
	"errors"
	"flag"
	"fmt"
	"os"
	"regexp"
	"sort"
	"strconv"
	"strings"
	"sync"
	"time"

	res "github.com/jirenius/go-res"
	"github.com/jirenius/go-res/store"
	"github.com/jirenius/go-res/store/mockstore"
	nats "github.com/nats-io/nats.go"

	. "verifharness/common"
)

// ---------------------------------------------------------------- recording connection

type pubMsg struct {
	subj string
	data []byte
}

type recConn struct {
	mu      sync.Mutex
	inCh    chan *nats.Msg
	events  []pubMsg
	replies map[string]chan []byte
	// markReplies: get responses leave a marker in events (wire order of response vs. events)
	markReplies bool
	nInbox  int
}

func (c *recConn) Publish(subj string, payload []byte) error {
	c.mu.Lock()
	defer c.mu.Unlock()
	if ch, ok := c.replies[subj]; ok {
		if c.markReplies {
			// keep the position of the response in the wire order
			c.events = append(c.events, pubMsg{replyMarker, nil})
		}
		ch <- append([]byte(nil), payload...)
		return nil
	}
	c.events = append(c.events, pubMsg{subj, append([]byte(nil), payload...)})
	return nil
}
func (c *recConn) PublishRequest(subj, reply string, data []byte) error {
	return c.Publish(subj, data)
}
func (c *recConn) ChanSubscribe(subj string, ch chan *nats.Msg) (*nats.Subscription, error) {
	c.mu.Lock()
	c.inCh = ch
	c.mu.Unlock()
	return &nats.Subscription{Subject: subj}, nil
}
func (c *recConn) ChanQueueSubscribe(subj, queue string, ch chan *nats.Msg) (*nats.Subscription, error) {
	return c.ChanSubscribe(subj, ch)
}
func (c *recConn) Close() {}

func (c *recConn) take() []pubMsg {
	c.mu.Lock()
	defer c.mu.Unlock()
	e := c.events
	c.events = nil
	return e
}

var errHang = errors.New("no get response within 10 s")

const replyMarker = "<get-response>"

func (c *recConn) get(rid string) ([]byte, error) {
	return c.await(c.getAsync(rid))
}

func (c *recConn) getAsync(rid string) (string, chan []byte) {
	c.mu.Lock()
	c.nInbox++
	inbox := fmt.Sprintf("_INBOX.h.%d", c.nInbox)
	ch := make(chan []byte, 4)
	c.replies[inbox] = ch
	in := c.inCh
	c.mu.Unlock()
	in <- &nats.Msg{Subject: "get." + rid, Reply: inbox, Data: nil}
	return inbox, ch
}

func (c *recConn) await(inbox string, ch chan []byte) ([]byte, error) {
	var out []byte
	var err error
	select {
	case out = <-ch:
	case <-time.After(10 * time.Second):
		err = errHang
	}
	c.mu.Lock()
	delete(c.replies, inbox)
	c.mu.Unlock()
	return out, err
}

// quietLogger counts error log entries (e.g. "diff failed ...") and drops everything else.
type quietLogger struct {
	mu   sync.Mutex
	errs []string
}

func (l *quietLogger) Infof(format string, v ...interface{})  {}
func (l *quietLogger) Tracef(format string, v ...interface{}) {}
func (l *quietLogger) Errorf(format string, v ...interface{}) {
	l.mu.Lock()
	l.errs = append(l.errs, fmt.Sprintf(format, v...))
	l.mu.Unlock()
}
func (l *quietLogger) takeErrs() []string {
	l.mu.Lock()
	defer l.mu.Unlock()
	e := l.errs
	l.errs = nil
	return e
}

// ---------------------------------------------------------------- values

// el describes one RES value. Upper-case kinds "P", "W", "D" are "p", "w", "d" with the JSON
// text T stored verbatim.  K: "p" primitive (T = JSON text), "w" primitive wrapped
// as {"data":T}, "r" reference (T = rid), "s" soft reference, "d" data value (T = JSON
// text of an object or array).
type el struct {
	K string `json:"k"`
	T string `json:"t"`
}

// valDesc describes a stored value. Shapes 3, 4, 5 are values outside the property's domain (see goValue).
// Shape: 0 natural Go values ([]interface{} /
// map[string]interface{}), 1 []store.Value / map[string]store.Value, 2 json.RawMessage.
type valDesc struct {
	Keys  []string `json:"keys,omitempty"` // model only, parallel to Els
	Els   []el     `json:"els"`
	Shape int      `json:"shape"`
}

func parseJSON(t string) interface{} {
	var x interface{}
	if err := json.Unmarshal([]byte(t), &x); err != nil {
		panic("bad generated json " + t)
	}
	return x
}

func (e el) goValue() interface{} {
	switch e.K {
	case "p":
		return parseJSON(e.T)
	case "w":
		return res.DataValue[interface{}]{Data: parseJSON(e.T)}
	case "r":
		return res.Ref(e.T)
	case "s":
		return res.SoftRef(e.T)
	case "d":
		return res.DataValue[interface{}]{Data: parseJSON(e.T)}
	// raw variants: the JSON text is kept verbatim (no detour through float64 / Go maps), so
	// numbers beyond 2^53, 1.0 vs 1, escapes and the key order inside data values survive
	case "P":
		return json.RawMessage(e.T)
	case "W", "D":
		return res.DataValue[json.RawMessage]{Data: json.RawMessage(e.T)}
	// "S": a Go string given by the hex of its bytes (control bytes, DEL, invalid UTF-8, astral runes ...)
	case "S":
		b, err := hex.DecodeString(e.T)
		if err != nil {
			panic(err)
		}
		return string(b)
	// "J": any RES value written as raw JSON (T verbatim), e.g. a reference spelling out "soft":false
	case "J":
		return json.RawMessage(e.T)
	// "U": a user struct for a reference, both members always marshalled (no omitempty); T = "<rid>|true" or "<rid>|false"
	case "U":
		i := strings.LastIndexByte(e.T, '|')
		return struct {
			RID  string `json:"rid"`
			Soft bool   `json:"soft"`
		}{e.T[:i], e.T[i+1:] == "true"}
	}
	panic("bad el kind")
}

func (d *valDesc) goValue(coll bool) interface{} {
	switch d.Shape {
	case 3: // the JSON kind of the OTHER resource type (array for a model handler, object for a collection handler)
		o := *d
		o.Shape = 0
		if coll {
			o.Keys = make([]string, len(o.Els))
			for i := range o.Els {
				o.Keys[i] = fmt.Sprintf("k%d", i)
			}
		}
		return o.goValue(!coll)
	case 4: // does not marshal at all
		if coll {
			return []interface{}{1, make(chan int)}
		}
		return map[string]interface{}{"a": 1, "c": make(chan int)}
	case 6: // a concrete Go type ([]string, []int, []float64, []res.Ref, map[string]string/int/res.Ref, a struct) when the elements allow it
		if v, ok := d.typed(coll); ok {
			return v
		}
		o := *d
		o.Shape = 0
		return o.goValue(coll)
	case 5: // marshals, but holds something that is no RES value (a bare nested object / array)
		if coll {
			return []interface{}{1, []interface{}{2, 3}, map[string]interface{}{"x": 1}}
		}
		return map[string]interface{}{"a": 1, "o": map[string]interface{}{"x": 1}}
	}
	var nat interface{}
	if coll {
		l := make([]interface{}, len(d.Els))
		for i, e := range d.Els {
			l[i] = e.goValue()
		}
		nat = l
	} else {
		m := make(map[string]interface{}, len(d.Els))
		for i, e := range d.Els {
			m[d.Keys[i]] = e.goValue()
		}
		nat = m
	}
	if d.Shape == 0 {
		return nat
	}
	raw, err := json.Marshal(nat)
	if err != nil {
		panic(err)
	}
	if d.Shape == 2 {
		return json.RawMessage(raw)
	}
	if coll {
		var v []store.Value
		if err := json.Unmarshal(raw, &v); err != nil {
			panic(err)
		}
		if v == nil {
			v = []store.Value{}
		}
		return v
	}
	var v map[string]store.Value
	if err := json.Unmarshal(raw, &v); err != nil {
		panic(err)
	}
	return v
}

// typedModel is the struct served for shape 6 models over the keys a, b, c, d.
type typedModel struct {
	A *int     `json:"a,omitempty"`
	B *string  `json:"b,omitempty"`
	C *res.Ref `json:"c,omitempty"`
	D *float64 `json:"d,omitempty"`
}

var intRe = regexp.MustCompile(`^-?[0-9]{1,9}$`)

func (e el) asString() (string, bool) {
	switch e.K {
	case "S":
		return e.goValue().(string), true
	case "p":
		if strings.HasPrefix(e.T, `"`) {
			return parseJSON(e.T).(string), true
		}
	}
	return "", false
}
func (e el) asInt() (int, bool) {
	if e.K == "p" && intRe.MatchString(e.T) {
		n, _ := strconv.Atoi(e.T)
		return n, true
	}
	return 0, false
}
func (e el) asFloat() (float64, bool) {
	if e.K == "p" {
		if f, ok := parseJSON(e.T).(float64); ok {
			return f, true
		}
	}
	return 0, false
}

// typed builds the value with a concrete Go type, if all elements are of one fitting kind.
func (d *valDesc) typed(coll bool) (interface{}, bool) {
	all := func(f func(e el) bool) bool {
		for _, e := range d.Els {
			if !f(e) {
				return false
			}
		}
		return true
	}
	isS := func(e el) bool { _, ok := e.asString(); return ok }
	isI := func(e el) bool { _, ok := e.asInt(); return ok }
	isF := func(e el) bool { _, ok := e.asFloat(); return ok }
	isR := func(e el) bool { return e.K == "r" }
	if coll {
		switch {
		case all(isS):
			l := make([]string, len(d.Els))
			for i, e := range d.Els {
				l[i], _ = e.asString()
			}
			return l, true
		case all(isI):
			l := make([]int, len(d.Els))
			for i, e := range d.Els {
				l[i], _ = e.asInt()
			}
			return l, true
		case all(isF):
			l := make([]float64, len(d.Els))
			for i, e := range d.Els {
				l[i], _ = e.asFloat()
			}
			return l, true
		case all(isR):
			l := make([]res.Ref, len(d.Els))
			for i, e := range d.Els {
				l[i] = res.Ref(e.T)
			}
			return l, true
		}
		return nil, false
	}
	// struct over the keys a (int), b (string), c (reference), d (number)
	fits := len(d.Els) > 0
	for i, e := range d.Els {
		switch d.Keys[i] {
		case "a":
			fits = fits && isI(e)
		case "b":
			fits = fits && isS(e)
		case "c":
			fits = fits && isR(e)
		case "d":
			fits = fits && isF(e)
		default:
			fits = false
		}
	}
	if fits {
		var m typedModel
		for i, e := range d.Els {
			switch d.Keys[i] {
			case "a":
				n, _ := e.asInt()
				m.A = &n
			case "b":
				x, _ := e.asString()
				m.B = &x
			case "c":
				r := res.Ref(e.T)
				m.C = &r
			case "d":
				f, _ := e.asFloat()
				m.D = &f
			}
		}
		return m, true
	}
	switch {
	case all(isS):
		m := make(map[string]string, len(d.Els))
		for i, e := range d.Els {
			m[d.Keys[i]], _ = e.asString()
		}
		return m, true
	case all(isI):
		m := make(map[string]int, len(d.Els))
		for i, e := range d.Els {
			m[d.Keys[i]], _ = e.asInt()
		}
		return m, true
	case all(isR):
		m := make(map[string]res.Ref, len(d.Els))
		for i, e := range d.Els {
			m[d.Keys[i]] = res.Ref(e.T)
		}
		return m, true
	}
	return nil, false
}

// specialStrings: every control byte, DEL, invalid UTF-8, surrogate bytes, astral / non-printable runes,
// line separators, quotes and backslashes - as el values of kind "S".
var specialStrings = func() []el {
	var out []el
	add := func(s string) { out = append(out, el{"S", hex.EncodeToString([]byte(s))}) }
	for b := 0; b < 0x20; b++ {
		add("c" + string([]byte{byte(b)}))
	}
	for _, s := range []string{"\x7f", "del\x7f.", "\xff", "a\xc3(", "\xed\xa0\x80", "\U0001F600", "\U000E0001", "\U0010FFFF",
		"\u2028", "\u2029", "\ufffd", "\u0085", "\u00ad", "\"\\/", "\x1b[0m", "\a\v\x01", ""} {
		add(s)
	}
	return out
}()

// ---------------------------------------------------------------- JSON -> Coq terms

func firstByte(b []byte) byte {
	b = bytes.TrimLeft(b, " \t\r\n")
	if len(b) == 0 {
		return 0
	}
	return b[0]
}

// classify one RES value; del reports the delete action.
func classify(raw json.RawMessage) (term string, del bool, ok bool) {
	raw = bytes.TrimSpace(raw)
	switch firstByte(raw) {
	case 0, '[':
		return "", false, false
	case '{':
		var o map[string]json.RawMessage
		if json.Unmarshal(raw, &o) != nil {
			return "", false, false
		}
		if r, has := o["rid"]; has && string(bytes.TrimSpace(r)) != "null" {
			var rid string
			if json.Unmarshal(r, &rid) != nil || rid == "" || len(o) > 2 {
				return "", false, false
			}
			soft := false
			if s, has := o["soft"]; has {
				if json.Unmarshal(s, &soft) != nil {
					return "", false, false
				}
			} else if len(o) != 1 {
				return "", false, false
			}
			if soft {
				return "(JSoft " + B(rid) + ")", false, true
			}
			return "(JRef " + B(rid) + ")", false, true
		}
		if a, has := o["action"]; has {
			var act string
			if json.Unmarshal(a, &act) != nil || act != "delete" || len(o) != 1 {
				return "", false, false
			}
			return "", true, true
		}
		if d, has := o["data"]; has && len(o) == 1 {
			d = bytes.TrimSpace(d)
			if c := firstByte(d); c == '{' || c == '[' {
				return "(JData " + B(string(d)) + ")", false, true
			}
			return "(JPrim " + B(string(d)) + ")", false, true
		}
		return "", false, false
	default:
		return "(JPrim " + B(string(raw)) + ")", false, true
	}
}

// rvTerm turns the JSON of a model / collection into a Coq term of type rv jv.
func rvTerm(raw []byte) (string, bool) {
	switch firstByte(raw) {
	case '{':
		var o map[string]json.RawMessage
		if json.Unmarshal(raw, &o) != nil {
			return "", false
		}
		keys := make([]string, 0, len(o))
		for k := range o {
			keys = append(keys, k)
		}
		sort.Strings(keys)
		parts := make([]string, len(keys))
		for i, k := range keys {
			t, del, ok := classify(o[k])
			if !ok || del {
				return "", false
			}
			parts[i] = "(" + B(k) + "," + t + ")"
		}
		return "(RM " + List(parts) + ")", true
	case '[':
		var l []json.RawMessage
		if json.Unmarshal(raw, &l) != nil {
			return "", false
		}
		parts := make([]string, len(l))
		for i, x := range l {
			t, del, ok := classify(x)
			if !ok || del {
				return "", false
			}
			parts[i] = t
		}
		return "(RC " + List(parts) + ")", true
	}
	return "", false
}

// optRvOrBad is optRvOfGo for stored values and create data: what does not marshal or is not a
// model / collection of RES values is the model's RBad.
func optRvOrBad(v interface{}) string {
	if t := optRvOfGo(v); t != "None" {
		return t
	}
	return "(Some RBad)"
}

func optRvOfGo(v interface{}) string {
	raw, err := json.Marshal(v)
	if err != nil {
		return "None"
	}
	t, ok := rvTerm(raw)
	if !ok {
		return "None"
	}
	return "(Some " + t + ")"
}

// get response -> (Coq term of type ig, summary for descriptions)
func igTerm(resp []byte) (string, string) {
	var r struct {
		Result *struct {
			Model      json.RawMessage `json:"model"`
			Collection json.RawMessage `json:"collection"`
		} `json:"result"`
		Error *struct {
			Code string `json:"code"`
		} `json:"error"`
	}
	if json.Unmarshal(resp, &r) != nil {
		return "IGBad", "bad"
	}
	if r.Error != nil {
		if r.Error.Code == "system.notFound" {
			return "IGMissing", "missing"
		}
		return "IGErr", "error:" + r.Error.Code
	}
	if r.Result == nil {
		return "IGBad", "bad"
	}
	raw := r.Result.Model
	if raw == nil {
		raw = r.Result.Collection
	}
	if raw == nil {
		return "IGBad", "bad"
	}
	t, ok := rvTerm(raw)
	if !ok {
		return "IGBad", "bad"
	}
	return "(IGValue " + t + ")", string(raw)
}

// published message -> Coq term (rid, iev)
func evTerm(m pubMsg, createData *[]string, kinds map[string]int) string {
	bad := func() string { kinds["bad"]++; return "(" + B(m.subj) + ",IBad)" }
	if !strings.HasPrefix(m.subj, "event.") {
		return bad()
	}
	rest := m.subj[len("event."):]
	i := strings.LastIndexByte(rest, '.')
	if i < 0 {
		return bad()
	}
	rid, name := rest[:i], rest[i+1:]
	var t string
	switch name {
	case "change":
		var p struct {
			Values map[string]json.RawMessage `json:"values"`
		}
		if json.Unmarshal(m.data, &p) != nil || p.Values == nil {
			return bad()
		}
		keys := make([]string, 0, len(p.Values))
		for k := range p.Values {
			keys = append(keys, k)
		}
		sort.Strings(keys)
		parts := make([]string, len(keys))
		for j, k := range keys {
			vt, del, ok := classify(p.Values[k])
			if !ok {
				return bad()
			}
			if del {
				parts[j] = "(" + B(k) + ",None)"
			} else {
				parts[j] = "(" + B(k) + ",Some " + vt + ")"
			}
		}
		t = "IChange " + List(parts)
	case "add":
		var p struct {
			Value json.RawMessage `json:"value"`
			Idx   *int            `json:"idx"`
		}
		if json.Unmarshal(m.data, &p) != nil || p.Idx == nil || *p.Idx < 0 {
			return bad()
		}
		vt, del, ok := classify(p.Value)
		if !ok || del {
			return bad()
		}
		t = "IAdd " + vt + " " + N(*p.Idx)
	case "remove":
		var p struct {
			Idx *int `json:"idx"`
		}
		if json.Unmarshal(m.data, &p) != nil || p.Idx == nil || *p.Idx < 0 {
			return bad()
		}
		t = "IRemove " + N(*p.Idx)
	case "create":
		d := "None"
		if len(*createData) > 0 {
			d = (*createData)[0]
			*createData = (*createData)[1:]
		}
		t = "ICreate " + d
	case "delete":
		t = "IDelete"
	default:
		return bad()
	}
	kinds[name]++
	return "(" + B(rid) + "," + t + ")"
}

// ---------------------------------------------------------------- the transformers used by the harness
// (user code from go-res' point of view).  Both are visibly NOT the identity and depend only on
// the JSON of the value:
//   collection: error (ErrNotFound) if an element is the string "!hide"; elements equal to the
//               string "_" are dropped; the string "T" is put in front;
//   model:      error if it has the key "deleted"; keys starting with '_' are dropped; the
//               property "~t":"T" is added.
// transformFn accepts any Go value that marshals to a JSON array/object.
// strictTransformFn only accepts the Go types the harness stores under a strict configuration
// ([]interface{}, []store.Value, map[string]interface{}, map[string]store.Value) and returns an
// error for everything else - in particular for a json.RawMessage such as the handler's Default,
// which is documented as pre-transformed and must never be handed to Transform.
func transformFn(id string, v interface{}) (interface{}, error) {
	raw, err := json.Marshal(v)
	if err != nil {
		return nil, err
	}
	switch firstByte(raw) {
	case '[':
		var l []json.RawMessage
		if err := json.Unmarshal(raw, &l); err != nil {
			return nil, err
		}
		out := make([]json.RawMessage, 0, len(l)+1)
		out = append(out, json.RawMessage(`"T"`))
		for _, x := range l {
			switch string(x) {
			case `"!hide"`:
				return nil, store.ErrNotFound
			case `"_"`:
			default:
				out = append(out, x)
			}
		}
		return out, nil
	case '{':
		var o map[string]json.RawMessage
		if err := json.Unmarshal(raw, &o); err != nil {
			return nil, err
		}
		if _, has := o["deleted"]; has {
			return nil, store.ErrNotFound
		}
		for k := range o {
			if strings.HasPrefix(k, "_") {
				delete(o, k)
			}
		}
		o["~t"] = json.RawMessage(`"T"`)
		return o, nil
	}
	return nil, store.ErrNotFound
}

var errWrongType = errors.New("transform: unexpected Go type of stored value")

func strictTransformFn(id string, v interface{}) (interface{}, error) {
	switch v.(type) {
	case []interface{}, []store.Value, map[string]interface{}, map[string]store.Value:
		return transformFn(id, v)
	}
	return nil, errWrongType
}

// ---------------------------------------------------------------- service under test

type hcfg struct {
	coll, def bool
	trans     int    // 0 none, 1 IDTransformer(transformFn), 2 IDTransformer(strictTransformFn),
	//                  3 TransformFuncs hiding ids that start with '0' + nil Transform, 4 TransformFuncs(nil, nil, transformFn)
	name      string // m0..m5, c0..c5
	tf        func(id string, v interface{}) (interface{}, error)
	st               *mockstore.Store
	defGo            interface{}
}

func (h *hcfg) prefix() string { return "test." + h.name + "." }
func (h *hcfg) rid(key string) string {
	return h.prefix() + key
}
func (h *hcfg) id(key string) string {
	if h.trans != 0 && h.trans != 4 {
		return key
	}
	return h.prefix() + key
}

// coqTrans is the transformer flavour of Run_C10.hcase.
func (h *hcfg) coqTrans() int { return []int{0, 1, 1, 2, 3}[h.trans] }

const nCfg = 8

// gate holds a get at one point (inside Transform, or inside the MarshalJSON of the served value) until released.
// One-shot: it fires for the armed id once.
type gate struct {
	mu      sync.Mutex
	id      string
	armed   bool
	entered chan struct{}
	release chan struct{}
}

func (g *gate) arm(id string) {
	g.mu.Lock()
	g.id, g.armed = id, true
	g.entered, g.release = make(chan struct{}), make(chan struct{})
	g.mu.Unlock()
}
func (g *gate) hit(id string) {
	g.mu.Lock()
	if !g.armed || g.id != id {
		g.mu.Unlock()
		return
	}
	g.armed = false
	e, r := g.entered, g.release
	g.mu.Unlock()
	close(e)
	<-r
}

// gatedVal is a stored value whose MarshalJSON passes the gate (a "slow" marshaller).
type gatedVal struct {
	g     *gate
	id    string
	inner interface{}
}

func (v gatedVal) MarshalJSON() ([]byte, error) {
	v.g.hit(v.id)
	return json.Marshal(v.inner)
}

type world struct {
	gate       gate
	s          *res.Service
	c          *recConn
	cfgs       []*hcfg
	createData []string
	impl       []ImplViolation
	log        *quietLogger
}

// gated passes the gate before transforming (the harness' own calls of h.tf are not gated).
func (w *world) gated(tf func(id string, v interface{}) (interface{}, error)) func(id string, v interface{}) (interface{}, error) {
	return func(id string, v interface{}) (interface{}, error) {
		w.gate.hit(id)
		return tf(id, v)
	}
}

func newWorld() *world {
	w := &world{c: &recConn{replies: map[string]chan []byte{}}, log: &quietLogger{}}
	s := res.NewService("test")
	s.SetLogger(w.log)
	for _, coll := range []bool{false, true} {
		for k := 0; k < nCfg; k++ {
			// 0..3: bit0 = transformFn, bit1 = Default; 4 = strict transformer, 5 = strict transformer + Default;
			// 6 = TransformFuncs whose RIDToID / IDToRID return "" for ids starting with '0', nil Transform, + Default;
			// 7 = TransformFuncs(nil, nil, transformFn): rid = id
			h := &hcfg{coll: coll, trans: k & 1, def: k&2 == 2, st: mockstore.NewStore()}
			switch k {
			case 4, 5:
				h.trans, h.def = 2, k == 5
			case 6:
				h.trans, h.def = 3, true
			case 7:
				h.trans, h.def = 4, false
			}
			var tr store.Transformer
			switch h.trans {
			case 1:
				h.tf = transformFn
				tr = store.IDTransformer("id", w.gated(h.tf))
			case 2:
				h.tf = strictTransformFn
				tr = store.IDTransformer("id", w.gated(h.tf))
			case 3:
				h.tf = func(id string, v interface{}) (interface{}, error) { return v, nil }
				tr = store.TransformFuncs(
					func(rid string, pp map[string]string) string {
						if strings.HasPrefix(pp["id"], "0") {
							return ""
						}
						return pp["id"]
					},
					func(id string, v interface{}, p res.Pattern) string {
						if strings.HasPrefix(id, "0") {
							return ""
						}
						return string(p.ReplaceTag("id", id))
					}, nil)
			case 4:
				h.tf = transformFn
				tr = store.TransformFuncs(nil, nil, w.gated(transformFn))
			}
			// half of the handlers are built through the option API, half as struct literals
			var sh store.Handler
			if k%2 == 1 || k == 6 {
				sh = store.Handler{}.WithStore(h.st)
				if tr != nil {
					sh = sh.WithTransformer(tr)
				}
			} else {
				sh = store.Handler{Store: h.st, Transformer: tr}
			}
			var typ res.Option = res.Model
			h.name = fmt.Sprintf("m%d", k)
			if coll {
				typ = res.Collection
				h.name = fmt.Sprintf("c%d", k)
			}
			if h.def {
				if coll {
					h.defGo = []interface{}{1, "def", res.Ref("test.dflt")}
				} else {
					h.defGo = map[string]interface{}{"a": 1, "d": "def"}
				}
				if k%2 == 1 || k == 6 {
					sh = sh.WithDefault(h.defGo)
				} else {
					sh.Default = h.defGo
				}
			}
			s.Handle(h.name+".$id", typ, sh)
			s.AddListener(h.name+".$id", func(ev *res.Event) {
				if ev.Name == "create" {
					w.createData = append(w.createData, optRvOrBad(ev.Data))
				}
			})
			w.cfgs = append(w.cfgs, h)
		}
	}
	served := make(chan struct{})
	s.SetOnServe(func(*res.Service) { close(served) })
	go func() {
		if err := s.Serve(w.c); err != nil {
			fmt.Fprintln(os.Stderr, "serve:", err)
			os.Exit(3)
		}
	}()
	select {
	case <-served:
	case <-time.After(10 * time.Second):
		fmt.Fprintln(os.Stderr, "service did not start")
		os.Exit(3)
	}
	w.c.take() // system.reset
	w.s = s
	return w
}

func (w *world) close() {
	done := make(chan struct{})
	go func() { w.s.Shutdown(); close(done) }()
	select {
	case <-done:
	case <-time.After(3 * time.Second):
	}
}

// ---------------------------------------------------------------- cases

type opDesc struct {
	Op  string   `json:"op"` // create | update | delete
	Val *valDesc `json:"val,omitempty"`
}
type caseDesc struct {
	Cfg  string   `json:"cfg"` // m0..m3 / c0..c3: bit0 transformer, bit1 default; 4 strict transformer, 5 strict transformer + default
	Key  string   `json:"key"`
	Init *valDesc `json:"init,omitempty"`
	Ops  []opDesc `json:"ops"`
	Kind string   `json:"kind"`
	// Store: "" = mockstore as is (bare store.ErrNotFound / store.ErrDuplicate);
	// "wrapped" = the store reports a missing value / a duplicate with errors that WRAP the
	// sentinels (fmt.Errorf("...: %w", store.ErrNotFound)), as store.ReadTxn/WriteTxn allow;
	// "readerr" = Value() fails with an unrelated error.
	Store string `json:"store,omitempty"`
}

// wrapStore makes the mockstore report missing values and duplicates with wrapping errors.
func wrapStore(st *mockstore.Store, on bool) {
	if !on {
		st.OnValue, st.OnCreate, st.OnUpdate, st.OnDelete = nil, nil, nil, nil
		return
	}
	st.OnValue = func(st *mockstore.Store, id string) (interface{}, error) {
		v, ok := st.Resources[id]
		if !ok {
			return nil, fmt.Errorf("wrapstore: no value for %q: %w", id, store.ErrNotFound)
		}
		return v, nil
	}
	st.OnCreate = func(st *mockstore.Store, id string, v interface{}) error {
		if _, ok := st.Resources[id]; ok {
			return fmt.Errorf("wrapstore: %q exists: %w", id, store.ErrDuplicate)
		}
		if st.Resources == nil {
			st.Resources = map[string]interface{}{}
		}
		st.Resources[id] = v
		return nil
	}
	st.OnUpdate = func(st *mockstore.Store, id string, v interface{}) (interface{}, error) {
		before, ok := st.Resources[id]
		if !ok {
			return nil, fmt.Errorf("wrapstore: cannot update %q: %w", id, store.ErrNotFound)
		}
		st.Resources[id] = v
		return before, nil
	}
	st.OnDelete = func(st *mockstore.Store, id string) (interface{}, error) {
		before, ok := st.Resources[id]
		if !ok {
			return nil, fmt.Errorf("wrapstore: cannot delete %q: %w", id, store.ErrNotFound)
		}
		delete(st.Resources, id)
		return before, nil
	}
}

func (w *world) cfgByName(n string) *hcfg {
	for _, h := range w.cfgs {
		if h.name == n {
			return h
		}
	}
	panic("no cfg " + n)
}

func safely(f func()) (p interface{}) {
	defer func() { p = recover() }()
	f()
	return nil
}

// noRawShape replaces the json.RawMessage shape and the concrete Go types by natural Go values.
func noRawShape(d *caseDesc) {
	fix := func(v *valDesc) {
		if v != nil && (v.Shape == 2 || v.Shape == 6) {
			v.Shape = 0
		}
	}
	fix(d.Init)
	for i := range d.Ops {
		fix(d.Ops[i].Val)
	}
}

func (w *world) run(d caseDesc, dist map[string]int) Case {
	h := w.cfgByName(d.Cfg)
	id, rid := h.id(d.Key), h.rid(d.Key)
	var c Case
	c.Desc = d
	c.Tags = []string{d.Cfg}
	if h.trans != 0 {
		c.Tags = append(c.Tags, "transformer")
	}
	if h.trans == 2 {
		c.Tags = append(c.Tags, "strict-transformer")
	}
	if h.def {
		c.Tags = append(c.Tags, "default")
	}
	tOf := func(v interface{}) string {
		if h.trans == 0 {
			return "None"
		}
		tv, err := h.tf(id, v)
		if err != nil {
			dist["transform_error"]++
			return "None"
		}
		return optRvOfGo(tv)
	}
	storeN := 0
	if d.Store == "readerr" {
		// Value() fails with an error that neither is nor wraps store.ErrNotFound
		storeN = 2
		c.Tags = append(c.Tags, "read-error-store")
		h.st.OnValue = func(st *mockstore.Store, id string) (interface{}, error) {
			return nil, errors.New("readerr: disk on fire")
		}
		defer wrapStore(h.st, false)
		dist["case_readerr_store"]++
	}
	if d.Store == "wrapped" {
		storeN = 1
		c.Tags = append(c.Tags, "wrapped-store")
		if !h.def {
			c.Tags = append(c.Tags, "wrapped-store-no-default")
		}
		wrapStore(h.st, true)
		defer wrapStore(h.st, false)
		dist["case_wrapped_store"]++
	}
	initT, tinitT := "None", "None"
	if d.Init != nil {
		gv := d.Init.goValue(h.coll)
		h.st.Add(id, gv)
		initT, tinitT = optRvOrBad(gv), tOf(gv)
	}
	getT := func() (string, string) {
		resp, err := w.c.get(rid)
		if err != nil {
			w.impl = append(w.impl, ImplViolation{What: "get request not answered", Desc: d, Tags: c.Tags})
			return "IGBad", "hang"
		}
		return igTerm(resp)
	}
	w.c.take()
	g0, prevSum := getT()
	var steps []string
	evTotal := 0
	for _, o := range d.Ops {
		var gv interface{}
		valT, tvalT := "None", "None"
		opn := 2
		if o.Op != "delete" {
			gv = o.Val.goValue(h.coll)
			valT, tvalT = optRvOrBad(gv), tOf(gv)
			opn = 0
			if o.Op == "update" {
				opn = 1
			}
		}
		w.createData = nil
		var err error
		p := safely(func() {
			txn := h.st.Write(id)
			defer txn.Close()
			switch o.Op {
			case "create":
				err = txn.Create(gv)
			case "update":
				err = txn.Update(gv)
			default:
				err = txn.Delete()
			}
		})
		if p != nil {
			w.impl = append(w.impl, ImplViolation{What: fmt.Sprintf("panic in write transaction / change handler: %v", p), Desc: d, Tags: append(c.Tags, "panic")})
			dist["panic"]++
		}
		msgs := w.c.take()
		for _, e := range w.log.takeErrs() {
			switch {
			case strings.Contains(e, "diff failed"):
				dist["log_diff_failed"]++
			case strings.Contains(e, "error getting resource"):
				dist["log_no_handler_for_rid"]++
			default:
				dist["log_other_error"]++
			}
		}
		kinds := map[string]int{}
		evs := make([]string, len(msgs))
		cd := w.createData
		for i, m := range msgs {
			evs[i] = evTerm(m, &cd, kinds)
		}
		for k, n := range kinds {
			dist["ev_"+k] += n
		}
		if kinds["add"] > 0 && kinds["remove"] > 0 {
			dist["step_removes_and_adds"]++
		}
		evTotal += len(msgs)
		g, sum := getT()
		dist["steps"]++
		if err != nil {
			dist["step_write_failed"]++
		} else if len(msgs) == 0 {
			dist["step_ok_no_event"]++
			if sum == prevSum && valT != "None" {
				dist["step_raw_changed_repr_same_or_equal"]++
			}
		}
		if h.def && err == nil && o.Op != "update" && kinds["create"] == 0 && kinds["delete"] == 0 {
			dist["step_default_substituted"]++
		}
		prevSum = sum
		steps = append(steps, fmt.Sprintf("HS %d %s %s %s %s %s", opn, valT, tvalT, Bool(err == nil), List(evs), g))
	}
	// leave the store clean
	h.st.Lock()
	delete(h.st.Resources, id)
	h.st.Unlock()
	defT := "None"
	if h.def {
		defT = optRvOfGo(h.defGo)
	}
	c.Term = fmt.Sprintf("CH (HC %s %s %s %s %s %s %s %s\n %s)", Bool(h.coll), fmt.Sprintf("%d %d", h.coqTrans(), storeN), defT, B(h.prefix()), B(id),
		initT, tinitT, g0, List(steps))
	c.Nontrivial = evTotal > 0
	return c
}

// ---------------------------------------------------------------- generators

var elemPool = []el{
	{"p", "1"}, {"p", "2"}, {"p", "3"}, {"p", `"a"`}, {"p", `"b"`}, {"p", "true"}, {"p", "null"}, {"p", "1.5"},
	{"p", `"<&>"`}, {"p", `"_"`}, {"w", "1"}, {"w", `"a"`},
	{"r", "test.x"}, {"r", "test.y"}, {"s", "test.x"}, {"s", "test.z"},
	{"d", `{"a":1}`}, {"d", `[1,2]`}, {"d", `{"a":1,"b":[true,null]}`},
}
var keyPool = []string{"a", "b", "c", "d", "e", "f", "g", "_h", "_i", "k1", "k2", "k3", "name", "é", ""}

// confusable: groups of values that are DIFFERENT for store.Value.Equal (byte-wise on the JSON
// text of primitives and of the data member) but that a lossy or normalising comparison would
// conflate: numbers colliding as float64 (around +-2^53, +-2^63, overflow, underflow, 18th digit),
// 1 / 1.0 / 1e0, escapes, and key order / number spelling / such numbers nested in data values.
var confusable = [][]el{
	{{"P", "9007199254740992"}, {"P", "9007199254740993"}, {"P", "9007199254740992.0"}, {"P", "9.007199254740992e15"}},
	{{"P", "-9007199254740992"}, {"P", "-9007199254740993"}},
	{{"P", "9223372036854775807"}, {"P", "9223372036854775808"}, {"P", "9223372036854775809"}},
	{{"P", "-9223372036854775808"}, {"P", "-9223372036854775809"}},
	{{"P", "1e400"}, {"P", "2e400"}},
	{{"P", "1e-400"}, {"P", "0"}, {"P", "-0"}, {"P", "0.0"}},
	{{"P", "0.1234567890123456781"}, {"P", "0.1234567890123456782"}},
	{{"P", "1"}, {"P", "1.0"}, {"P", "1e0"}, {"W", "1"}, {"W", "1.0"}},
	{{"P", `"A"`}, {"P", `"\u0041"`}, {"W", `"\u0041"`}},
	{{"P", `"\u00e9"`}, {"P", `"é"`}},
	{{"D", `{"a":1,"b":2}`}, {"D", `{"b":2,"a":1}`}, {"D", `{"a":1.0,"b":2}`}, {"D", `{"a":1,"b":2,"a":1}`}},
	{{"D", `{"n":9007199254740992}`}, {"D", `{"n":9007199254740993}`}},
	{{"D", `[9007199254740992,9007199254740993]`}, {"D", `[9007199254740993,9007199254740992]`}, {"D", `[9007199254740992,9007199254740992]`}},
	{{"D", `{"o":{"k":[1e400,{"x":-9223372036854775808}]}}`}, {"D", `{"o":{"k":[2e400,{"x":-9223372036854775809}]}}`}},
	{{"D", `{"s":"A"}`}, {"D", `{"s":"\u0041"}`}},
	{{"D", `[0.1234567890123456781]`}, {"D", `[0.1234567890123456782]`}, {"D", `[0.12345678901234567810]`}},
	{{"D", `[]`}, {"D", `{}`}, {"D", `[[]]`}},
	// references: the soft flag decides by its VALUE.  absent / "soft":false (any key order, spacing, user struct)
	// are one and the same reference (EQUAL: no event); "soft":true is the soft reference (DIFFERENT: event)
	{{"r", "test.x"}, {"J", `{"rid":"test.x","soft":false}`}, {"J", `{"soft":false,"rid":"test.x"}`}, {"U", "test.x|false"},
		{"J", `{ "rid" : "test.x" ,  "soft" : false }`},
		{"s", "test.x"}, {"J", `{"rid":"test.x","soft":true}`}, {"J", `{"soft":true,"rid":"test.x"}`}, {"U", "test.x|true"},
		{"J", "{\n\t\"soft\": true,\n\t\"rid\": \"test.x\"\n}"}},
	{{"J", `{"rid":"test.y?q=1","soft":false}`}, {"J", `{"rid":"test.y?q=1","soft":true}`}, {"r", "test.y?q=1"}, {"s", "test.y?q=1"}},
}

// sibling returns another member of e's confusable group (ok=false if e is in none).
func sibling(r *Rng, e el) (el, bool) {
	for _, g := range confusable {
		for i, x := range g {
			if x == e {
				j := r.Intn(len(g) - 1)
				if j >= i {
					j++
				}
				return g[j], true
			}
		}
	}
	return e, false
}

func randConfusable(r *Rng) el {
	g := confusable[r.Intn(len(confusable))]
	return g[r.Intn(len(g))]
}

func randEl(r *Rng, small bool) el {
	if r.Chance(18) {
		return randConfusable(r)
	}
	if r.Chance(5) {
		return specialStrings[r.Intn(len(specialStrings))]
	}
	if small {
		return elemPool[r.Intn(5)]
	}
	if r.Chance(3) {
		return el{"p", `"!hide"`}
	}
	return elemPool[r.Intn(len(elemPool))]
}

func randVal(r *Rng, coll bool, maxLen int) *valDesc {
	n := r.Intn(maxLen + 1)
	small := r.Chance(50)
	d := &valDesc{Shape: []int{0, 0, 0, 1, 2, 6, 6}[r.Intn(7)]}
	if coll {
		for i := 0; i < n; i++ {
			d.Els = append(d.Els, randEl(r, small))
		}
		return d
	}
	perm := permute(r, len(keyPool))
	for i := 0; i < n && i < len(perm); i++ {
		d.Keys = append(d.Keys, keyPool[perm[i]])
		d.Els = append(d.Els, randEl(r, small))
	}
	if r.Chance(4) {
		d.Keys = append(d.Keys, "deleted")
		d.Els = append(d.Els, el{"p", "true"})
	}
	return d
}

func permute(r *Rng, n int) []int {
	p := make([]int, n)
	for i := range p {
		p[i] = i
	}
	for i := n - 1; i > 0; i-- {
		j := r.Intn(i + 1)
		p[i], p[j] = p[j], p[i]
	}
	return p
}

func cloneVal(d *valDesc) *valDesc {
	n := &valDesc{Shape: d.Shape}
	n.Keys = append([]string(nil), d.Keys...)
	n.Els = append([]el(nil), d.Els...)
	return n
}

// mutate derives the next value from the previous one by a few edits.
func mutate(r *Rng, prev *valDesc, coll bool, maxLen int) *valDesc {
	if prev == nil || r.Chance(15) {
		return randVal(r, coll, maxLen)
	}
	d := cloneVal(prev)
	d.Shape = []int{0, 0, 0, 1, 2, 6, 6}[r.Intn(7)]
	if r.Chance(10) {
		return d // same content (possibly another Go shape)
	}
	small := r.Chance(50)
	edits := 1 + r.Intn(4)
	// near-equal edits: an element becomes a sibling of its confusable group, or (collections)
	// a confusable element gets its sibling as neighbour / two neighbours of one group swap
	if r.Chance(45) {
		for i := range d.Els {
			sib, ok := sibling(r, d.Els[i])
			if !ok || !r.Chance(60) {
				continue
			}
			switch {
			case coll && i+1 < len(d.Els) && r.Chance(35):
				if _, same := sibling(r, d.Els[i+1]); same {
					d.Els[i], d.Els[i+1] = d.Els[i+1], d.Els[i]
					continue
				}
				d.Els[i] = sib
			case coll && len(d.Els) < maxLen && r.Chance(30):
				d.Els = append(d.Els[:i+1], append([]el{sib}, d.Els[i+1:]...)...)
			default:
				d.Els[i] = sib
			}
		}
		if r.Chance(60) {
			return d
		}
	}
	for e := 0; e < edits; e++ {
		n := len(d.Els)
		if coll {
			switch k := r.Intn(8); {
			case k < 2 && n < maxLen: // insert
				p := r.Intn(n + 1)
				d.Els = append(d.Els[:p], append([]el{randEl(r, small)}, d.Els[p:]...)...)
			case k < 4 && n > 0: // delete
				p := r.Intn(n)
				d.Els = append(d.Els[:p], d.Els[p+1:]...)
			case k < 5 && n > 0: // replace
				d.Els[r.Intn(n)] = randEl(r, small)
			case k < 6 && n > 1: // swap
				p, q := r.Intn(n), r.Intn(n)
				d.Els[p], d.Els[q] = d.Els[q], d.Els[p]
			case k < 7 && n > 1: // move
				p := r.Intn(n)
				x := d.Els[p]
				d.Els = append(d.Els[:p], d.Els[p+1:]...)
				q := r.Intn(len(d.Els) + 1)
				d.Els = append(d.Els[:q], append([]el{x}, d.Els[q:]...)...)
			case n > 0 && n < maxLen: // duplicate an element elsewhere
				x := d.Els[r.Intn(n)]
				q := r.Intn(n + 1)
				d.Els = append(d.Els[:q], append([]el{x}, d.Els[q:]...)...)
			}
		} else {
			switch k := r.Intn(6); {
			case k < 2 && n < maxLen: // set a (possibly new) key
				key := keyPool[r.Intn(len(keyPool))]
				found := false
				for i := range d.Keys {
					if d.Keys[i] == key {
						d.Els[i] = randEl(r, small)
						found = true
					}
				}
				if !found {
					d.Keys = append(d.Keys, key)
					d.Els = append(d.Els, randEl(r, small))
				}
			case k < 4 && n > 0: // delete a key
				p := r.Intn(n)
				d.Keys = append(d.Keys[:p], d.Keys[p+1:]...)
				d.Els = append(d.Els[:p], d.Els[p+1:]...)
			case n > 0: // change a value
				d.Els[r.Intn(n)] = randEl(r, small)
			}
		}
	}
	return d
}

func randHistory(r *Rng, cfgName string, coll bool, key string, maxLen int) caseDesc {
	d := caseDesc{Cfg: cfgName, Key: key, Kind: "random"}
	var cur *valDesc
	if r.Chance(60) {
		cur = randVal(r, coll, maxLen)
		d.Init = cur
	}
	last := cur
	exists := cur != nil
	nops := 1 + r.Intn(10)
	for i := 0; i < nops; i++ {
		k := r.Intn(100)
		var o opDesc
		if exists {
			switch {
			case k < 62:
				o = opDesc{Op: "update", Val: mutate(r, last, coll, maxLen)}
			case k < 88:
				o = opDesc{Op: "delete"}
			default:
				o = opDesc{Op: "create", Val: mutate(r, last, coll, maxLen)}
			}
		} else {
			switch {
			case k < 76:
				o = opDesc{Op: "create", Val: mutate(r, last, coll, maxLen)}
			case k < 88:
				o = opDesc{Op: "update", Val: mutate(r, last, coll, maxLen)}
			default:
				o = opDesc{Op: "delete"}
			}
		}
		switch {
		case o.Op == "create" && !exists:
			exists, last = true, o.Val
		case o.Op == "update" && exists:
			last = o.Val
		case o.Op == "delete" && exists:
			exists = false
		}
		d.Ops = append(d.Ops, o)
	}
	return d
}

func allLists(alpha []string, maxLen int) [][]el {
	out := [][]el{nil}
	level := [][]el{nil}
	for n := 1; n <= maxLen; n++ {
		var next [][]el
		for _, l := range level {
			for _, a := range alpha {
				next = append(next, append(append([]el(nil), l...), el{"p", a}))
			}
		}
		out = append(out, next...)
		level = next
	}
	return out
}

// ---------------------------------------------------------------- size-scaling family (oracle only)

// bigDesc is the compact, replayable description of one long-collection update: the two
// collections of integers are regenerated from it (generator seed + sizes), never listed.
//   before = prefix ++ midA ++ suffix,  after = prefix ++ midB ++ suffix
// Middle: "disjoint" (no common element), "shuffled" (midB is a permutation of midA, padded /
// cut to its length), "mostly_equal" (midB = midA with ~3% replacements, insertions, deletions;
// first and last element always differ so that the trimmed sizes are the ones asked for).
type bigDesc struct {
	Cfg     string `json:"cfg"`
	Key     string `json:"key"`
	Kind    string `json:"kind"` // "size"
	GenSeed uint64 `json:"gen_seed"`
	MidA    int    `json:"mid_a"`
	MidB    int    `json:"mid_b"`
	Prefix  int    `json:"prefix"`
	Suffix  int    `json:"suffix"`
	Middle  string `json:"middle"`
}

func (d bigDesc) build() (a, b []int) {
	r := NewRng(d.GenSeed*1000003 + uint64(d.MidA)*31 + uint64(d.MidB))
	var pre, suf, ma, mb []int
	for i := 0; i < d.Prefix; i++ {
		pre = append(pre, 1+i)
	}
	for i := 0; i < d.Suffix; i++ {
		suf = append(suf, 5001+i)
	}
	for i := 0; i < d.MidA; i++ {
		ma = append(ma, 10000+i)
	}
	fresh := 30000
	next := func() int { fresh++; return fresh }
	switch d.Middle {
	case "disjoint":
		for j := 0; j < d.MidB; j++ {
			mb = append(mb, next())
		}
	case "shuffled":
		perm := permute(r, d.MidA)
		for j := 0; j < d.MidB; j++ {
			if j < d.MidA {
				mb = append(mb, ma[perm[j]])
			} else {
				mb = append(mb, next())
			}
		}
	default: // mostly_equal
		mb = append(mb, ma...)
		for len(mb) > d.MidB && len(mb) > 2 {
			p := 1 + r.Intn(len(mb)-2)
			mb = append(mb[:p], mb[p+1:]...)
		}
		for len(mb) < d.MidB {
			p := 0
			if len(mb) > 0 {
				p = r.Intn(len(mb))
			}
			mb = append(mb[:p], append([]int{next()}, mb[p:]...)...)
		}
		for k := 0; k < len(mb)/33; k++ {
			mb[r.Intn(len(mb))] = next()
		}
	}
	// the ends of the two middles differ, so nothing more is trimmed
	if len(ma) > 0 && len(mb) > 0 {
		if mb[0] == ma[0] {
			mb[0] = next()
		}
		if mb[len(mb)-1] == ma[len(ma)-1] {
			mb[len(mb)-1] = next()
		}
	}
	a = append(append(append([]int{}, pre...), ma...), suf...)
	b = append(append(append([]int{}, pre...), mb...), suf...)
	return
}

func intsTerm(xs []int) string {
	var sb strings.Builder
	sb.WriteByte('[')
	for i, x := range xs {
		if i > 0 {
			sb.WriteByte(';')
		}
		sb.WriteString(N(x))
	}
	sb.WriteByte(']')
	return sb.String()
}

// get response -> the collection as integers
func intsOfGet(resp []byte) ([]int, bool) {
	var r struct {
		Result *struct {
			Collection *[]int `json:"collection"`
		} `json:"result"`
	}
	if json.Unmarshal(resp, &r) != nil || r.Result == nil || r.Result.Collection == nil {
		return nil, false
	}
	for _, x := range *r.Result.Collection {
		if x < 0 {
			return nil, false
		}
	}
	return *r.Result.Collection, true
}

func (w *world) runBig(d bigDesc, dist map[string]int) Case {
	h := w.cfgByName(d.Cfg)
	if !h.coll || h.trans != 0 {
		panic("size cases run on collection resources without transformer")
	}
	id, rid := h.id(d.Key), h.rid(d.Key)
	c := Case{Desc: d, Tags: []string{d.Cfg, "size"}}
	a, b := d.build()
	toGo := func(xs []int) []interface{} {
		l := make([]interface{}, len(xs))
		for i, x := range xs {
			l[i] = x
		}
		return l
	}
	bad := 0
	setBad := func(code int) {
		if bad == 0 {
			bad = code
		}
	}
	h.st.Add(id, toGo(a))
	w.c.take()
	var old, new_ []int
	if resp, err := w.c.get(rid); err != nil {
		w.impl = append(w.impl, ImplViolation{What: "get request not answered", Desc: d, Tags: c.Tags})
		setBad(6)
	} else if xs, ok := intsOfGet(resp); ok {
		old = xs
	} else {
		setBad(6)
	}
	p := safely(func() {
		txn := h.st.Write(id)
		defer txn.Close()
		if err := txn.Update(toGo(b)); err != nil {
			panic(err)
		}
	})
	if p != nil {
		w.impl = append(w.impl, ImplViolation{What: fmt.Sprintf("panic in write transaction / change handler: %v", p), Desc: d, Tags: append(c.Tags, "panic")})
		dist["panic"]++
	}
	msgs := w.c.take()
	w.log.takeErrs()
	var sb strings.Builder
	sb.WriteByte('[')
	for i, m := range msgs {
		if i > 0 {
			sb.WriteByte(';')
		}
		var ev struct {
			Value *int `json:"value"`
			Idx   *int `json:"idx"`
		}
		switch {
		case m.subj == "event."+rid+".remove" && json.Unmarshal(m.data, &ev) == nil && ev.Idx != nil && *ev.Idx >= 0:
			sb.WriteString("BR " + N(*ev.Idx))
		case m.subj == "event."+rid+".add" && json.Unmarshal(m.data, &ev) == nil && ev.Idx != nil && *ev.Idx >= 0 && ev.Value != nil && *ev.Value >= 0:
			sb.WriteString("BA " + N(*ev.Value) + " " + N(*ev.Idx))
		default:
			sb.WriteString("BR 0")
			switch {
			case !strings.HasPrefix(m.subj, "event."+rid+"."):
				setBad(5)
			case strings.HasSuffix(m.subj, ".create") || strings.HasSuffix(m.subj, ".delete") || strings.HasSuffix(m.subj, ".change"):
				setBad(2)
			default:
				setBad(6)
			}
		}
	}
	sb.WriteByte(']')
	if resp, err := w.c.get(rid); err != nil {
		w.impl = append(w.impl, ImplViolation{What: "get request not answered", Desc: d, Tags: c.Tags})
		setBad(6)
	} else if xs, ok := intsOfGet(resp); ok {
		new_ = xs
	} else {
		setBad(6)
	}
	h.st.Lock()
	delete(h.st.Resources, id)
	h.st.Unlock()
	dist["size_events"] += len(msgs)
	if d.MidA*d.MidB > 1<<20 {
		dist["size_mn_above_2^20"]++
	}
	if d.MidA*d.MidB > dist["size_max_mn"] {
		dist["size_max_mn"] = d.MidA * d.MidB
	}
	c.Term = fmt.Sprintf("CB (BC %s\n %s\n %s %d)", intsTerm(old), intsTerm(new_), sb.String(), bad)
	c.Key = fmt.Sprintf("size %+v", d)
	c.Nontrivial = len(msgs) > 0
	return c
}

// sizeFamily: collection pairs whose differing middle has a size around a power of two and just
// beyond, x {no common prefix, prefix 1, prefix k, suffix only, both} x {disjoint, shuffled,
// mostly equal middle}.  full = every combination for that size, otherwise the middle kind rotates.
func sizeFamily(tier string, seed uint64) []bigDesc {
	type sz struct {
		a, b int
		full bool
	}
	sizes := []sz{{255, 255, false}, {256, 256, false}, {257, 256, false}, {1023, 1023, false}, {1024, 1024, false},
		{1025, 1025, true}, {1100, 1100, false}, {700, 1600, false}, {2100, 2050, false}}
	if tier == "thorough" {
		sizes = []sz{{127, 128, true}, {255, 255, true}, {256, 256, true}, {257, 256, true}, {511, 513, true}, {1023, 1023, true},
			{1024, 1024, true}, {1025, 1024, true}, {1024, 1025, true}, {1025, 1025, true}, {1100, 1100, true}, {700, 1600, true},
			{300, 4000, true}, {2047, 2049, true}, {2100, 2050, true}, {3000, 3000, false}, {4095, 4097, false}, {5000, 5000, false}}
	}
	shapes := [][2]int{{0, 0}, {1, 0}, {17, 0}, {0, 9}, {5, 3}} // (prefix, suffix)
	kinds := []string{"disjoint", "shuffled", "mostly_equal"}
	var out []bigDesc
	k := 0
	for _, s := range sizes {
		for _, ps := range shapes {
			for ki, kind := range kinds {
				if !s.full && ki != k%3 {
					continue
				}
				cfg := "c0"
				if len(out)%2 == 1 {
					cfg = "c2"
				}
				out = append(out, bigDesc{Cfg: cfg, Kind: "size", GenSeed: seed, MidA: s.a, MidB: s.b,
					Prefix: ps[0], Suffix: ps[1], Middle: kind})
			}
			k++
		}
	}
	return out
}

// ---------------------------------------------------------------- registration cases

// regDesc: s.Handle("x.$id", <type option>, store.Handler) on a fresh service.
type regDesc struct {
	Kind  string `json:"kind"`  // "reg"
	Store bool   `json:"store"` // Store set
	Def   int    `json:"def"`   // 0 none, 1 unmarshalable, 2 object, 3 array, 4 other JSON
	Typ   int    `json:"typ"`   // 0 unset, 1 res.Model, 2 res.Collection, 3 another value
	API   bool   `json:"api"`   // built with WithStore/WithTransformer/WithDefault instead of a struct literal
}

func runReg(d regDesc, dist map[string]int) Case {
	c := Case{Desc: d, Tags: []string{"registration"}}
	lg := &quietLogger{}
	s := res.NewService("reg")
	s.SetLogger(lg)
	st := mockstore.NewStore()
	if d.Typ == 2 {
		st.Add("reg.x.1", []interface{}{1, 2})
	} else {
		st.Add("reg.x.1", map[string]interface{}{"a": 1})
	}
	var def interface{}
	switch d.Def {
	case 1:
		def = map[string]interface{}{"c": make(chan int)}
	case 2:
		def = map[string]interface{}{"a": 1}
	case 3:
		def = []interface{}{1}
	case 4:
		def = []interface{}{"str", 5, map[string]int(nil)}[(d.Typ+map[bool]int{false: 0, true: 1}[d.API])%3]
	}
	var sh store.Handler
	if d.API {
		if d.Store {
			sh = sh.WithStore(st)
		}
		sh = sh.WithTransformer(nil)
		if d.Def != 0 {
			sh = sh.WithDefault(def)
		}
	} else {
		if d.Store {
			sh.Store = st
		}
		sh.Default = def
	}
	var opts []res.Option
	switch d.Typ {
	case 1:
		opts = append(opts, res.Model)
	case 2:
		opts = append(opts, res.Collection)
	case 3:
		opts = append(opts, res.OptionFunc(func(h *res.Handler) { h.Type = res.ResourceType(99) }))
	}
	opts = append(opts, sh)
	p := safely(func() { s.Handle("x.$id", opts...) })
	pc := 0
	if p != nil {
		msg := fmt.Sprint(p)
		switch {
		case msg == "no Store is set":
			pc = 1
		case strings.HasPrefix(msg, "error marshaling default handler value"):
			pc = 2
		case msg == "Default value for TypeModel must be a json object.":
			pc = 3
		case msg == "no Type is set":
			pc = 4
		case msg == "Type must be set to TypeModel or TypeCollection":
			pc = 5
		default:
			pc = 9
		}
	}
	s.Handle("dummy", res.GetModel(func(r res.ModelRequest) { r.NotFound() }))
	conn := &recConn{replies: map[string]chan []byte{}}
	served := make(chan struct{})
	s.SetOnServe(func(*res.Service) { close(served) })
	go s.Serve(conn)
	gc := 9
	select {
	case <-served:
		if resp, err := conn.get("reg.x.1"); err == nil {
			var r struct {
				Result *struct {
					Model      json.RawMessage `json:"model"`
					Collection json.RawMessage `json:"collection"`
				} `json:"result"`
				Error *struct {
					Code string `json:"code"`
				} `json:"error"`
			}
			if json.Unmarshal(resp, &r) == nil {
				switch {
				case r.Result != nil && (string(r.Result.Model) == `{"a":1}` || string(r.Result.Collection) == `[1,2]`):
					gc = 0
				case r.Error != nil && r.Error.Code == "system.notFound":
					gc = 1
				case r.Error != nil && r.Error.Code == "system.internalError":
					gc = 2
				}
			}
		}
		done := make(chan struct{})
		go func() { s.Shutdown(); close(done) }()
		select {
		case <-done:
		case <-time.After(3 * time.Second):
		}
	case <-time.After(5 * time.Second):
	}
	dist[fmt.Sprintf("reg_panic_%d", pc)]++
	c.Term = fmt.Sprintf("CR (RG %s %d %d %d %d)", Bool(d.Store), d.Def, d.Typ, pc, gc)
	c.Key = fmt.Sprintf("reg %+v", d)
	c.Nontrivial = pc != 0
	return c
}

// runConc: a get is held (inside Transform, or inside the served value's MarshalJSON) while another
// goroutine performs a write transaction on the same id.  The wire order of the get response and the
// events is recorded; the client applies only the events that follow its get response and must then hold
// what a fresh get serves.  On the unchanged code the read transaction is held until the response is out,
// so the writer blocks and every event follows the response.  d.Ops has exactly one op.
func (w *world) runConc(d caseDesc, dist map[string]int) Case {
	h := w.cfgByName(d.Cfg)
	id, rid := h.id(d.Key), h.rid(d.Key)
	c := Case{Desc: d, Tags: []string{d.Cfg, "concurrent"}}
	tOf := func(v interface{}) string {
		if h.trans == 0 {
			return "None"
		}
		tv, err := h.tf(id, v)
		if err != nil {
			return "None"
		}
		return optRvOfGo(tv)
	}
	wrapv := func(v interface{}) interface{} {
		if h.trans == 0 {
			return gatedVal{&w.gate, id, v}
		}
		return v
	}
	gv0 := d.Init.goValue(h.coll)
	h.st.Add(id, wrapv(gv0))
	initT, tinitT := optRvOrBad(gv0), tOf(gv0)
	w.c.take()
	w.log.takeErrs()
	w.createData = nil
	w.c.mu.Lock()
	w.c.markReplies = true
	w.c.mu.Unlock()
	w.gate.arm(id)
	inbox, ch := w.c.getAsync(rid)
	hang := func(what string) {
		w.impl = append(w.impl, ImplViolation{What: what, Desc: d, Tags: c.Tags})
	}
	select {
	case <-w.gate.entered:
	case <-time.After(10 * time.Second):
		hang("gated get never reached the gate")
	}
	o := d.Ops[0]
	var gv interface{}
	valT, tvalT, opn := "None", "None", 2
	if o.Op != "delete" {
		gv = o.Val.goValue(h.coll)
		valT, tvalT, opn = optRvOrBad(gv), tOf(gv), 1
	}
	var werr error
	wdone := make(chan struct{})
	go func() {
		defer close(wdone)
		txn := h.st.Write(id)
		defer txn.Close()
		if o.Op == "delete" {
			werr = txn.Delete()
		} else {
			werr = txn.Update(wrapv(gv))
		}
	}()
	early := false
	select {
	case <-wdone:
		early = true // the write went through while the get was still being answered
	case <-time.After(40 * time.Millisecond):
	}
	close(w.gate.release)
	resp, gerr := w.c.await(inbox, ch)
	select {
	case <-wdone:
	case <-time.After(10 * time.Second):
		hang("write transaction did not finish after the get response")
	}
	w.c.mu.Lock()
	w.c.markReplies = false
	w.c.mu.Unlock()
	msgs := w.c.take()
	w.log.takeErrs()
	g0 := "IGBad"
	if gerr == nil {
		g0, _ = igTerm(resp)
	} else {
		hang("get request not answered")
	}
	// only what follows the response reaches the client
	after, before := []pubMsg{}, 0
	seen := false
	for _, m := range msgs {
		switch {
		case m.subj == replyMarker:
			seen = true
		case seen:
			after = append(after, m)
		default:
			before++
		}
	}
	kinds := map[string]int{}
	cd := w.createData
	evs := make([]string, len(after))
	for i, m := range after {
		evs[i] = evTerm(m, &cd, kinds)
	}
	if early {
		dist["conc_write_overtook_get"]++
	}
	if before > 0 {
		dist["conc_events_before_response"] += before
		c.Tags = append(c.Tags, "events-before-response")
	}
	gf := "IGBad"
	if r2, err := w.c.get(rid); err == nil {
		gf, _ = igTerm(r2)
	} else {
		hang("get request not answered")
	}
	h.st.Lock()
	delete(h.st.Resources, id)
	h.st.Unlock()
	defT := "None"
	if h.def {
		defT = optRvOfGo(h.defGo)
	}
	step := fmt.Sprintf("HS %d %s %s %s %s %s", opn, valT, tvalT, Bool(werr == nil), List(evs), gf)
	c.Term = fmt.Sprintf("CH (HC %s %d 0 %s %s %s %s %s %s\n [%s])", Bool(h.coll), h.coqTrans(), defT, B(h.prefix()), B(id),
		initT, tinitT, g0, step)
	c.Nontrivial = len(msgs) > 1
	dist["case_concurrent"]++
	return c
}

// Without a Default, getResource answers a wrapped not-found with r.Error(err), and res.ToError
// only recognises a *res.Error by type assertion: such a get is answered system.internalError
// (not system.notFound).  The wrapped-store variant is therefore generated for handlers with a
// Default only, unless this flag is given.
var wrapNoDefault = flag.Bool("wrap-nodefault", false, "also run the wrapping store variant on handlers without Default")

func main() {
	o := ParseOpts()
	r := NewRng(o.Seed)
	w := newWorld()
	var cases []Case
	dist := map[string]int{}
	nkey := 0
	add := func(d caseDesc) {
		nkey++
		if d.Key == "" {
			d.Key = fmt.Sprintf("k%d", nkey)
		}
		if o.Replay == "" && w.cfgByName(d.Cfg).trans == 2 {
			noRawShape(&d)
		}
		if o.Replay == "" && d.Store == "wrapped" && !w.cfgByName(d.Cfg).def && !*wrapNoDefault {
			d.Store = ""
		}
		c := w.run(d, dist)
		dist["case_"+d.Kind]++
		dist["cfg_"+d.Cfg]++
		if c.Nontrivial {
			dist["nontrivial"]++
		}
		cases = append(cases, c)
	}
	var bigCases []Case
	addBig := func(d bigDesc) {
		nkey++
		if d.Key == "" {
			d.Key = fmt.Sprintf("s%d", nkey)
		}
		c := w.runBig(d, dist)
		dist["case_size"]++
		dist["cfg_"+d.Cfg]++
		if c.Nontrivial {
			dist["nontrivial"]++
		}
		bigCases = append(bigCases, c)
	}
	var probe struct {
		Kind string `json:"kind"`
	}
	if o.Replay != "" {
		if err := LoadReplay(o.Replay, &probe); err != nil {
			panic(err)
		}
	}
	if o.Replay != "" && probe.Kind == "concurrent" {
		var d caseDesc
		if err := LoadReplay(o.Replay, &d); err != nil {
			panic(err)
		}
		cases = append(cases, w.runConc(d, dist))
	} else if o.Replay != "" && probe.Kind == "reg" {
		var d regDesc
		if err := LoadReplay(o.Replay, &d); err != nil {
			panic(err)
		}
		cases = append(cases, runReg(d, dist))
	} else if o.Replay != "" && probe.Kind == "size" {
		var d bigDesc
		if err := LoadReplay(o.Replay, &d); err != nil {
			panic(err)
		}
		addBig(d)
	} else if o.Replay != "" {
		var d caseDesc
		if err := LoadReplay(o.Replay, &d); err != nil {
			panic(err)
		}
		d.Kind = "replay"
		add(d)
	} else {
		// (e) size-scaling family (oracle only, see Run_C10.v)
		for _, d := range sizeFamily(o.Tier, o.Seed) {
			addBig(d)
		}
		// (a) ALL ordered pairs of collections over {1,2,3}: store holds a, Update(b)
		maxLen := 3
		if o.Tier == "thorough" {
			maxLen = 4
		}
		lists := allLists([]string{"1", "2", "3"}, maxLen)
		k := 0
		for _, a := range lists {
			for _, b := range lists {
				cfg := fmt.Sprintf("c%d", k%nCfg)
				k++
				add(caseDesc{Cfg: cfg, Kind: "exhaustive_collection_pair",
					Init: &valDesc{Els: a}, Ops: []opDesc{{Op: "update", Val: &valDesc{Els: b}}}})
			}
		}
		// (b) all ordered pairs of models over keys {a,b} with values {absent,1,2}
		var models []*valDesc
		for _, va := range []string{"", "1", "2"} {
			for _, vb := range []string{"", "1", "2"} {
				m := &valDesc{}
				if va != "" {
					m.Keys, m.Els = append(m.Keys, "a"), append(m.Els, el{"p", va})
				}
				if vb != "" {
					m.Keys, m.Els = append(m.Keys, "b"), append(m.Els, el{"p", vb})
				}
				models = append(models, m)
			}
		}
		for _, a := range models {
			for _, b := range models {
				cfg := fmt.Sprintf("m%d", k%nCfg)
				k++
				add(caseDesc{Cfg: cfg, Kind: "exhaustive_model_pair", Init: a, Ops: []opDesc{{Op: "update", Val: b}}})
			}
		}
		// (c) create / delete / default / transformer corner cases on every configuration
		for _, h := range w.cfgs {
			v1 := &valDesc{Keys: []string{"a", "b"}, Els: []el{{"p", "1"}, {"p", "2"}}}
			v2 := &valDesc{Keys: []string{"b", "c"}, Els: []el{{"p", "2"}, {"r", "test.x"}}}
			hid := &valDesc{Keys: []string{"a", "deleted"}, Els: []el{{"p", "1"}, {"p", "true"}}}
			sam := &valDesc{Keys: []string{"a", "b", "_x"}, Els: []el{{"p", "1"}, {"p", "2"}, {"p", "9"}}}
			dfl := &valDesc{Keys: []string{"a", "d"}, Els: []el{{"p", "1"}, {"p", `"def"`}}}
			if h.coll {
				v1 = &valDesc{Els: []el{{"p", "1"}, {"p", "2"}}}
				v2 = &valDesc{Els: []el{{"p", "2"}, {"r", "test.x"}, {"p", "1"}}}
				hid = &valDesc{Els: []el{{"p", "1"}, {"p", `"!hide"`}}}
				sam = &valDesc{Els: []el{{"p", `"_"`}, {"p", "1"}, {"p", `"_"`}, {"p", "2"}}}
				dfl = &valDesc{Els: []el{{"p", "1"}, {"p", `"def"`}, {"r", "test.dflt"}}}
			}
			add(caseDesc{Cfg: h.name, Kind: "corner", Ops: []opDesc{{"create", v1}, {"update", v2}, {"delete", nil}, {"delete", nil}, {"create", v2}, {"create", v1}}})
			add(caseDesc{Cfg: h.name, Kind: "corner", Init: v1, Ops: []opDesc{{"update", hid}, {"update", v2}, {"update", hid}, {"delete", nil}, {"create", hid}, {"update", v1}}})
			add(caseDesc{Cfg: h.name, Kind: "corner", Init: v1, Ops: []opDesc{{"update", sam}, {"update", v1}, {"delete", nil}, {"create", dfl}, {"delete", nil}, {"update", v1}}})
		}
		// (c') the entry of a default-backed resource is created, updated, deleted, re-created ...
		//      (every configuration; the interesting ones are Transformer + Default)
		for _, h := range w.cfgs {
			for shape := 0; shape < 2; shape++ {
				mk := func(keys []string, els ...el) *valDesc {
					if h.coll {
						keys = nil
					}
					return &valDesc{Keys: keys, Els: els, Shape: shape}
				}
				x1 := mk([]string{"a", "d"}, el{"p", "1"}, el{"p", `"def"`})
				x2 := mk([]string{"a", "b"}, el{"p", "2"}, el{"r", "test.x"})
				x3 := mk([]string{"d", "_h", "c"}, el{"p", `"def"`}, el{"p", `"_"`}, el{"p", "3"})
				x4 := mk(nil)
				for _, stv := range []string{"", "wrapped"} {
					if stv == "wrapped" && !h.def && !*wrapNoDefault {
						continue
					}
					add(caseDesc{Cfg: h.name, Kind: "default_backed", Store: stv, Ops: []opDesc{
						{"create", x1}, {"update", x2}, {"delete", nil}, {"create", x2}, {"update", x3}, {"update", x1},
						{"delete", nil}, {"create", x4}, {"delete", nil}}})
					add(caseDesc{Cfg: h.name, Kind: "default_backed", Store: stv, Init: x2, Ops: []opDesc{
						{"delete", nil}, {"create", x3}, {"update", x4}, {"update", x2}, {"delete", nil}, {"update", x1}, {"create", x1}}})
				}
			}
		}
		// (c'') confusable pairs: every ordered pair x,y of one confusable group as
		//       {k:x}->{k:y},  [x]->[y],  [x,y]->[y,x],  [1,x,2]->[1,y,2,x]
		for _, g := range confusable {
			for _, x := range g {
				for _, y := range g {
					if x == y {
						continue
					}
					one := el{"p", "1"}
					two := el{"p", "2"}
					shape := []int{0, 1, 2}[k%3]
					mcfg := fmt.Sprintf("m%d", k%nCfg)
					ccfg := fmt.Sprintf("c%d", k%nCfg)
					k++
					add(caseDesc{Cfg: mcfg, Kind: "confusable_pair", Init: &valDesc{Keys: []string{"k", "z"}, Els: []el{x, one}, Shape: shape},
						Ops: []opDesc{{"update", &valDesc{Keys: []string{"k", "z"}, Els: []el{y, one}, Shape: shape}}}})
					add(caseDesc{Cfg: ccfg, Kind: "confusable_pair", Init: &valDesc{Els: []el{x}, Shape: shape},
						Ops: []opDesc{{"update", &valDesc{Els: []el{y}, Shape: shape}}, {"update", &valDesc{Els: []el{x, y}, Shape: shape}},
							{"update", &valDesc{Els: []el{y, x}, Shape: shape}}, {"update", &valDesc{Els: []el{one, x, two}, Shape: shape}},
							{"update", &valDesc{Els: []el{one, y, two, x}, Shape: shape}}}})
				}
			}
		}
		// (c3) coverage families
		for _, h := range w.cfgs {
			v1 := &valDesc{Keys: []string{"a", "b"}, Els: []el{{"p", "1"}, {"p", "2"}}}
			v2 := &valDesc{Keys: []string{"b", "c"}, Els: []el{{"p", "2"}, {"r", "test.x"}}}
			hid := &valDesc{Keys: []string{"a", "deleted"}, Els: []el{{"p", "1"}, {"p", "true"}}}
			hid2 := &valDesc{Keys: []string{"deleted", "z"}, Els: []el{{"p", "false"}, {"p", "9"}}}
			if h.coll {
				v1 = &valDesc{Els: []el{{"p", "1"}, {"p", "2"}}}
				v2 = &valDesc{Els: []el{{"p", "2"}, {"r", "test.x"}, {"p", "1"}}}
				hid = &valDesc{Els: []el{{"p", "1"}, {"p", `"!hide"`}}}
				hid2 = &valDesc{Els: []el{{"p", `"!hide"`}, {"p", "7"}, {"p", "8"}}}
			}
			// a store whose reads fail with an unrelated error: every get is an error, events as usual
			add(caseDesc{Cfg: h.name, Kind: "read_error", Store: "readerr", Init: v1,
				Ops: []opDesc{{"update", v2}, {"delete", nil}, {"create", v1}}})
			// Transform fails for the value before AND after (both sides missing)
			if h.trans != 0 && h.trans != 3 {
				add(caseDesc{Cfg: h.name, Kind: "both_hidden", Init: hid,
					Ops: []opDesc{{"update", hid2}, {"update", v1}, {"update", hid}, {"update", hid2}, {"delete", nil}, {"create", hid}}})
			}
			// ids for which RIDToID / IDToRID return "": never served, nothing published
			if h.trans == 3 {
				for _, key := range []string{"0h", "0", "00x"} {
					add(caseDesc{Cfg: h.name, Key: key, Kind: "hidden_id",
						Ops: []opDesc{{"create", v1}, {"update", v2}, {"delete", nil}, {"create", v2}, {"delete", nil}}})
					add(caseDesc{Cfg: h.name, Key: key, Kind: "hidden_id", Init: v1, Ops: []opDesc{{"update", v2}, {"delete", nil}}})
				}
			}
			// values outside the domain (wrong JSON kind for the type, not marshallable, not RES values):
			// the diff fails, nothing is published; correspondence only
			if h.trans == 0 {
				w3 := &valDesc{Els: v1.Els, Shape: 3}
				w4 := &valDesc{Shape: 4}
				w5 := &valDesc{Shape: 5}
				add(caseDesc{Cfg: h.name, Kind: "bad_value", Init: v1, Ops: []opDesc{{"update", w3}, {"update", v1}, {"update", w4},
					{"update", v2}, {"update", w5}, {"update", w3}, {"update", w4}, {"delete", nil}, {"create", w5}, {"delete", nil},
					{"create", w4}, {"update", v1}, {"delete", nil}, {"create", w3}, {"update", w3}}})
				add(caseDesc{Cfg: h.name, Kind: "bad_value", Init: w4, Ops: []opDesc{{"update", v1}, {"update", w5}, {"delete", nil}}})
			}
		}
		// (c5) concrete Go types: []string with every special string added / moved one at a time, and
		//      []int, []float64, []res.Ref, map[string]string, map[string]int, a struct
		for _, cfg := range []string{"c0", "c2", "c6"} {
			for start := 0; start < len(specialStrings); start += 9 {
				cur := []el{{"p", `"a"`}, {"p", `"b"`}}
				d := caseDesc{Cfg: cfg, Kind: "typed_strings", Init: &valDesc{Els: cur, Shape: 6}}
				for i := start; i < start+9 && i < len(specialStrings); i++ {
					pos := (i * 7) % (len(cur) + 1)
					cur = append(append(append([]el{}, cur[:pos]...), specialStrings[i]), cur[pos:]...)
					d.Ops = append(d.Ops, opDesc{"update", &valDesc{Els: cur, Shape: 6}})
					if i%3 == 2 { // move the first element to the end
						cur = append(append([]el{}, cur[1:]...), cur[0])
						d.Ops = append(d.Ops, opDesc{"update", &valDesc{Els: cur, Shape: 6}})
					}
				}
				d.Ops = append(d.Ops, opDesc{"delete", nil}, opDesc{"create", &valDesc{Els: cur[:len(cur)/2], Shape: 6}})
				add(d)
			}
		}
		for _, cfg := range []string{"0", "2", "6"} {
			tc := func(els ...el) *valDesc { return &valDesc{Els: els, Shape: 6} }
			tm := func(keys []string, els ...el) *valDesc { return &valDesc{Keys: keys, Els: els, Shape: 6} }
			sp := specialStrings
			add(caseDesc{Cfg: "c" + cfg, Kind: "typed_misc", Init: tc(el{"p", "1"}, el{"p", "2"}, el{"p", "3"}), Ops: []opDesc{
				{"update", tc(el{"p", "3"}, el{"p", "1"}, el{"p", "-7"})}, {"update", tc(el{"p", "1.5"}, el{"p", "3"}, el{"p", "1e21"})},
				{"update", tc(el{"r", "test.x"}, el{"r", "test.y"})}, {"update", tc(el{"r", "test.y"}, el{"r", "test.z"}, el{"r", "test.x"})},
				{"update", tc(sp[27], sp[1])}, {"update", tc()}, {"delete", nil}, {"create", tc(sp[0x1b], el{"p", `"a"`}, sp[33])}}})
			add(caseDesc{Cfg: "m" + cfg, Kind: "typed_misc", Init: tm([]string{"x", "y"}, sp[7], el{"p", `"a"`}), Ops: []opDesc{
				{"update", tm([]string{"x", "y", "z"}, sp[7], sp[0x1b], sp[34])}, {"update", tm([]string{"x", "z"}, el{"p", "1"}, el{"p", "2"})},
				{"update", tm([]string{"a", "b", "c", "d"}, el{"p", "5"}, sp[11], el{"r", "test.x"}, el{"p", "2.5"})},
				{"update", tm([]string{"a", "b"}, el{"p", "6"}, sp[36])}, {"update", tm([]string{"q"}, el{"r", "test.y"})},
				{"delete", nil}, {"create", tm([]string{"b"}, sp[39])}}})
		}
		// (c6) a get held inside Transform / MarshalJSON while another goroutine writes the same id
		for _, h := range w.cfgs {
			if h.trans == 3 {
				continue
			}
			v1 := &valDesc{Keys: []string{"a", "b"}, Els: []el{{"p", "1"}, {"p", "2"}}}
			v2 := &valDesc{Keys: []string{"b", "c"}, Els: []el{{"p", "3"}, {"r", "test.x"}}}
			if h.coll {
				v1 = &valDesc{Els: []el{{"p", "1"}, {"p", "2"}}}
				v2 = &valDesc{Els: []el{{"p", "2"}, {"r", "test.x"}, {"p", "1"}}}
			}
			nkey++
			cases = append(cases, w.runConc(caseDesc{Cfg: h.name, Key: fmt.Sprintf("g%d", nkey), Kind: "concurrent", Init: v1, Ops: []opDesc{{"update", v2}}}, dist))
			nkey++
			cases = append(cases, w.runConc(caseDesc{Cfg: h.name, Key: fmt.Sprintf("g%d", nkey), Kind: "concurrent", Init: v2, Ops: []opDesc{{"delete", nil}}}, dist))
		}
		// (c4) registration: every combination of Store set / Default kind / Type, both ways of building the handler
		for _, api := range []bool{false, true} {
			for _, st := range []bool{true, false} {
				for def := 0; def <= 4; def++ {
					for typ := 0; typ <= 3; typ++ {
						cases = append(cases, runReg(regDesc{Kind: "reg", Store: st, Def: def, Typ: typ, API: api}, dist))
						dist["case_reg"]++
					}
				}
			}
		}
		// (d) random histories
		n := 560
		maxEl := 12
		if o.Tier == "thorough" {
			n = 12000
		}
		if o.N > 0 {
			n = o.N
		}
		for i := 0; i < n; i++ {
			h := w.cfgs[r.Intn(len(w.cfgs))]
			ml := maxEl
			if r.Chance(40) {
				ml = 5
			}
			d := randHistory(r, h.name, h.coll, "", ml)
			if r.Chance(35) {
				d.Store = "wrapped"
			}
			add(d)
		}
	}
	w.close()
	// spread the long cases over the first shards (the exhaustive short pairs, cheap to evaluate);
	// round-robin by size so that every such shard gets a similar load
	if len(bigCases) > 0 {
		sort.SliceStable(bigCases, func(i, j int) bool { return len(bigCases[i].Term) > len(bigCases[j].Term) })
		var rr []Case
		for sh := 0; sh < 6; sh++ {
			for i := sh; i < len(bigCases); i += 6 {
				rr = append(rr, bigCases[i])
			}
		}
		bigCases = rr
		var merged []Case
		every := (len(cases)*6/10)/len(bigCases) + 1
		bi := 0
		for i, c := range cases {
			if i%every == 0 && bi < len(bigCases) {
				merged = append(merged, bigCases[bi])
				bi++
			}
			merged = append(merged, c)
		}
		merged = append(merged, bigCases[bi:]...)
		cases = merged
	}
	Emit(o, "C10", "From GoRes Require Import Run.Run_C10.", "ccase",
		"real res.Service + mockstore + store.Handler in 16 configurations (model|collection x {no Transformer, IDTransformer with a non-identity Transform accepting any value, "+
			"IDTransformer with a non-identity Transform that rejects every Go type but the stored ones (e.g. the json.RawMessage Default)} x +-Default, "+
			"TransformFuncs hiding some ids with nil Transform + Default, TransformFuncs(nil,nil,f)), half built with the With* option API; "+
			"ALL ordered pairs of collections of length <= 3 (quick) / <= 4 (thorough) over {1,2,3} as store content a then Update(b); "+
			"all pairs of models over 2 keys x {absent,1,2}; corner histories (create/delete/default/transform error; create-update-delete-recreate of the entry of a default-backed resource) per configuration; "+
			"served values of concrete Go types ([]string, []int, []float64, []res.Ref, map[string]string/int/res.Ref, struct) incl. strings with every control byte, DEL, invalid UTF-8, astral and non-printable runes, added/moved one at a time; "+
			"concurrent histories: a get held inside Transform / MarshalJSON while another goroutine writes the same id - the client applies only events that follow its get response on the wire; "+
			"coverage families: read-error store, Transform failing on both sides, ids hidden by RIDToID/IDToRID = \"\", values outside the domain (wrong JSON kind, unmarshallable, no RES values), "+
			"80 registration cases (Store set?, Default none/unmarshallable/object/array/other, Type unset/model/collection/invalid, struct literal vs With* API) with the documented panics as outcomes; "+
			"store variant 'wrapped' (missing value / duplicate reported with errors that wrap store.ErrNotFound / store.ErrDuplicate) on handlers with a Default for 35% of the random and all default-backed histories; "+
			"references spelled as res.Ref/res.SoftRef, raw JSON with \"soft\":false / \"soft\":true in either key order and spacing, and user structs without omitempty (flag flips = event, spelling changes = no event); "+
			"confusable values (different for Value.Equal, equal for a lossy/normalising comparison: numbers around +-2^53, +-2^63, 1e400, 1e-400/0/-0, 18th fraction digit, 1/1.0/1e0, \\u escapes, key order / number spelling inside data values, also nested) stored verbatim: "+
			"every ordered pair of each group as model and collection updates (replace, swap places, with context), 18% of random elements, and near-equal edits (element -> sibling, sibling neighbour, swap) in 45% of the random updates; "+
			"random histories of 1-10 write transactions (Create/Update/Delete incl. failing ones) over models and collections of up to 12 "+
			"primitives, references, soft references and data values, each value derived from the previous by insert/delete/replace/swap/move/duplicate "+
			"edits, stored as natural Go values, []store.Value/map[string]store.Value or json.RawMessage; "+
			"size-scaling family (oracle only): one Update of a collection of integers prefix++midA++suffix -> prefix++midB++suffix with |midA|,|midB| around powers of two and just beyond "+
			"(255..2100 quick, 127..5000 thorough, incl. |midA|*|midB| just below/above 2^20) x (prefix,suffix) in {(0,0),(1,0),(17,0),(0,9),(5,3)} x {disjoint, shuffled, mostly-equal middle}; "+
			"non-trivial = at least one event was published; "+
			"distinct by the whole case term",
		cases, dist, nil, w.impl, 250)
}
