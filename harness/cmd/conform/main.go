// Correspondence harness for C07: everything a real res.Service publishes is
// recorded on a recording res.Conn, parsed into the Coq JSON AST of
// coq/Conform/Json.v (objects with keys sorted, numbers as text, payloads that
// are not JSON as raw bytes) together with the context the harness knows (reply
// subject of which request / query request, HTTP flag), and emitted with the
// inputs (handler scripts, values, meta) so that Coq evaluates
//   - violations: the validator `conformant` on the REAL messages, and
//   - mismatches: the model's publications for the same inputs.
package main

import (
	"bytes"
	"encoding/json"
	"errors"
	"fmt"
	"io"
	"math"
	"reflect"
	"sort"
	"strconv"
	"strings"
	"sync"
	"time"

	res "github.com/jirenius/go-res"
	"github.com/jirenius/go-res/verifhook"
	nats "github.com/nats-io/nats.go"

	. "verifharness/common"
)

// ---------------------------------------------------------------- JSON AST

type J struct {
	K byte // n b # s a o
	B bool
	S string
	A []J
	O []M
}
type M struct {
	Key string
	V   J
}

func parseVal(dec *json.Decoder) (J, error) {
	t, err := dec.Token()
	if err != nil {
		return J{}, err
	}
	switch v := t.(type) {
	case json.Delim:
		switch v {
		case '[':
			j := J{K: 'a'}
			for dec.More() {
				x, err := parseVal(dec)
				if err != nil {
					return J{}, err
				}
				j.A = append(j.A, x)
			}
			if _, err := dec.Token(); err != nil {
				return J{}, err
			}
			return j, nil
		case '{':
			j := J{K: 'o'}
			for dec.More() {
				kt, err := dec.Token()
				if err != nil {
					return J{}, err
				}
				k, ok := kt.(string)
				if !ok {
					return J{}, errors.New("key")
				}
				x, err := parseVal(dec)
				if err != nil {
					return J{}, err
				}
				j.O = append(j.O, M{k, x})
			}
			if _, err := dec.Token(); err != nil {
				return J{}, err
			}
			sort.SliceStable(j.O, func(a, b int) bool { return j.O[a].Key < j.O[b].Key })
			return j, nil
		}
		return J{}, errors.New("delim")
	case nil:
		return J{K: 'n'}, nil
	case bool:
		return J{K: 'b', B: v}, nil
	case json.Number:
		return J{K: '#', S: string(v)}, nil
	case string:
		return J{K: 's', S: v}, nil
	}
	return J{}, errors.New("token")
}

// parseJSON parses a complete JSON text; ok=false when b is not (exactly one) JSON value.
func parseJSON(b []byte) (J, bool) {
	if !json.Valid(b) {
		return J{}, false
	}
	dec := json.NewDecoder(bytes.NewReader(b))
	dec.UseNumber()
	j, err := parseVal(dec)
	if err != nil {
		return J{}, false
	}
	if _, err := dec.Token(); err != io.EOF {
		return J{}, false
	}
	return j, true
}

// cs prints a Go string as a Coq bytes term.
func cs(s string) string {
	if len(s) == 0 {
		return "[]"
	}
	for i := 0; i < len(s); i++ {
		if s[i] < 32 || s[i] > 126 || s[i] == '"' {
			return B(s)
		}
	}
	return `(s2b "` + s + `")`
}
func csList(xs []string) string {
	ys := make([]string, len(xs))
	for i, x := range xs {
		ys[i] = cs(x)
	}
	return List(ys)
}
func csOptList(xs []string) string {
	if xs == nil {
		return "None"
	}
	return "(Some " + csList(xs) + ")"
}

func (j J) coq() string {
	switch j.K {
	case 'n':
		return "JNull"
	case 'b':
		return "(JBool " + Bool(j.B) + ")"
	case '#':
		return "(JNum " + cs(j.S) + ")"
	case 's':
		return "(JStr " + cs(j.S) + ")"
	case 'a':
		xs := make([]string, len(j.A))
		for i, x := range j.A {
			xs[i] = x.coq()
		}
		return "(JArr " + List(xs) + ")"
	default:
		return "(JObj " + membersCoq(j.O) + ")"
	}
}
func membersCoq(ms []M) string {
	xs := make([]string, len(ms))
	for i, m := range ms {
		xs[i] = "(" + cs(m.Key) + "," + m.V.coq() + ")"
	}
	return List(xs)
}

// sanitize gives the string as it is after a trip through encoding/json
// (invalid UTF-8 replaced), i.e. the AST-level string.
func sanitize(s string) string {
	b, _ := json.Marshal(s)
	var out string
	json.Unmarshal(b, &out)
	return out
}

func zc(n int64) string {
	if n < 0 {
		return "(" + strconv.FormatInt(n, 10) + ")%Z"
	}
	return strconv.FormatInt(n, 10) + "%Z"
}

// ---------------------------------------------------------------- handler values

type HVal struct {
	Name string
	Go   interface{}
	kind int // 0 nil interface, 1 marshals to j, 2 marshal error msg
	j    J
	msg  string
}

func mkVal(name string, v interface{}) HVal {
	h := HVal{Name: name, Go: v}
	if v == nil {
		return h
	}
	b, err := json.Marshal(v)
	if err != nil {
		h.kind, h.msg = 2, sanitize(err.Error())
		return h
	}
	j, ok := parseJSON(b)
	if !ok {
		panic("harness: json.Marshal output does not parse: " + string(b))
	}
	h.kind, h.j = 1, j
	return h
}
func (h HVal) coq() string {
	switch h.kind {
	case 0:
		return "HNil"
	case 1:
		return "(HV " + h.j.coq() + ")"
	}
	return "(HBad " + cs(h.msg) + ")"
}
func (h HVal) bad() bool { return h.kind == 2 }

type badMarshaler struct{}

func (badMarshaler) MarshalJSON() ([]byte, error) { return nil, errors.New(`boom "quoted" <x>`) }

type invalidMarshaler struct{}

func (invalidMarshaler) MarshalJSON() ([]byte, error) { return []byte("{"), nil }

type resErrMarshaler struct{}

func (resErrMarshaler) MarshalJSON() ([]byte, error) {
	return nil, &res.Error{Code: "custom.code", Message: "from marshaler"}
}

type cyc struct{ Next *cyc }
type tagged struct {
	A int               `json:"a"`
	B string            `json:"b,omitempty"`
	C *tagged           `json:"c"`
	D map[string]string `json:"d,omitempty"`
	e int
}
type keyStruct struct{ A int }

func goodValues() []HVal {
	var nilPtr *tagged
	var nilSlice []int
	var nilMap map[string]int
	return []HVal{
		mkVal("nil", nil),
		mkVal("true", true),
		mkVal("int", 42),
		mkVal("negint", -7),
		mkVal("float", 3.5),
		mkVal("bigfloat", 1e21),
		mkVal("smallfloat", 1e-7),
		mkVal("uint64max", uint64(math.MaxUint64)),
		mkVal("jsonNumber", json.Number("12.50")),
		mkVal("emptystr", ""),
		mkVal("plain", "hello world"),
		mkVal("quotes", `say "hi" \ back`),
		mkVal("control", "a\x01b\nc\td\re\x7f\x00"),
		mkVal("nonascii", "åäö ñ € 😀 日本"),
		mkVal("html", "<script>&amp;</script>"),
		mkVal("linesep", "a\u2028b\u2029c"),
		mkVal("badutf8", "ok\xff\xfe\xc3(end"),
		mkVal("emptyobj", map[string]interface{}{}),
		mkVal("emptyarr", []interface{}{}),
		mkVal("nilslice", nilSlice),
		mkVal("nilmap", nilMap),
		mkVal("nilptr", nilPtr),
		mkVal("nested", map[string]interface{}{"b": []interface{}{1, "two", nil, map[string]interface{}{"x": 1.5}}, "a": map[string]interface{}{"z": nil, "y": []int{}}, "é\"": "v"}),
		mkVal("deep", []interface{}{[]interface{}{[]interface{}{[]interface{}{map[string]interface{}{"k": []interface{}{}}}}}}),
		mkVal("intkeys", map[int]string{10: "a", 9: "b", -1: "c"}),
		mkVal("struct", tagged{A: 1, C: &tagged{A: 2, B: "x", D: map[string]string{"k": "v"}}}),
		mkVal("structptr", &tagged{A: 0}),
		mkVal("ref", res.Ref("test.model.1")),
		mkVal("refq", res.Ref("test.model.1?a=b&c=\"d\"")),
		mkVal("badref", res.Ref("a..b\n")),
		mkVal("softref", res.SoftRef("test.coll.2")),
		mkVal("datavalue", res.DataValue[[]int]{Data: []int{1, 2, 3}}),
		mkVal("datavalueobj", res.NewDataValue(map[string]interface{}{"foo": []string{"bar"}})),
		mkVal("deleteaction", res.DeleteAction),
		mkVal("raw", json.RawMessage(`{"z": 1, "a": [1, 2 ,3], "s": "é\n"}`)),
		mkVal("rawdup", json.RawMessage(`{"a":1,"a":2}`)),
		mkVal("rawnull", json.RawMessage(`null`)),
		mkVal("bytes", []byte("bin\x00")),
		mkVal("mixed", []interface{}{res.Ref("a.b"), res.SoftRef("c.d"), res.DataValue[interface{}]{Data: nil}, true, 1, "s"}),
		mkVal("responseLike", map[string]interface{}{"error": map[string]interface{}{"code": 1}, "result": nil, "meta": 1}),
		// pre-encoded values that ARE valid JSON (json.Marshal validates and compacts them)
		mkVal("rawobj", json.RawMessage(`{"foo":"bar"}`)),
		mkVal("rawarr", json.RawMessage(`[1,2,3]`)),
		mkVal("rawobjws", json.RawMessage(" \n{ \"foo\" : [ 1 , {\"a\":null} ] }\t ")),
		mkVal("rawarrws", json.RawMessage("[ 1 ,\n 2 ]\n")),
		mkVal("rawnil", json.RawMessage(nil)),
		mkVal("rawstr", json.RawMessage(`"just a string"`)),
		mkVal("rawptr", &rawObj),
		mkVal("bytesmarshaler", bytesMarshaler(" { \"k\" : [true] } ")),
		mkVal("bytesmarshalerarr", bytesMarshaler("[{\"x\":1}]")),
		mkVal("rawinmap", map[string]interface{}{"m": json.RawMessage(`{"a": 1}`), "c": json.RawMessage(`[ ]`), "n": json.RawMessage(nil)}),
		mkVal("rawinslice", []interface{}{json.RawMessage(`{"a":[1, 2]}`), bytesMarshaler("[1]"), []json.RawMessage{json.RawMessage(`1`), json.RawMessage(` "s" `)}}),
		mkVal("rawinstruct", struct {
			R json.RawMessage  `json:"r"`
			P *json.RawMessage `json:"p"`
			O json.RawMessage  `json:"o,omitempty"`
		}{R: json.RawMessage(`{"z": 0}`), P: &rawObj}),
	}
}

var rawObj = json.RawMessage(`{"p": [1]}`)
var rawBad = json.RawMessage(`{"p": [1}`)

// bytesMarshaler is a type whose MarshalJSON returns its bytes as they are (pre-encoded value)
type bytesMarshaler string

func (b bytesMarshaler) MarshalJSON() ([]byte, error) { return []byte(b), nil }
func badValues() []HVal {
	c := &cyc{}
	c.Next = c
	return []HVal{
		mkVal("chan", make(chan int)),
		mkVal("func", func() {}),
		mkVal("structkeymap", map[keyStruct]int{{1}: 1}),
		mkVal("nan", math.NaN()),
		mkVal("inf", math.Inf(1)),
		mkVal("complex", complex(1, 2)),
		mkVal("badmarshaler", badMarshaler{}),
		mkVal("invalidmarshaler", invalidMarshaler{}),
		mkVal("reserrmarshaler", resErrMarshaler{}),
		mkVal("cycle", c),
		mkVal("nestedchan", []interface{}{1, map[string]interface{}{"ok": 1, "bad": make(chan string)}}),
		mkVal("nestedfunc", map[string]interface{}{"f": func(int) int { return 0 }}),
		mkVal("refptrchan", &struct{ C chan int }{}),
		// pre-encoded values with the 'right' first byte that are NOT valid JSON: json.Marshal rejects them
		mkVal("rawtruncobj", json.RawMessage(`{"foo":"bar"`)),
		mkVal("rawtruncarr", json.RawMessage(`[1,2,3`)),
		mkVal("rawnovalue", json.RawMessage(`{"foo":}`)),
		mkVal("rawdangling", json.RawMessage(`[1,2,]`)),
		mkVal("rawextraclose", json.RawMessage(`{"a":1}}`)),
		mkVal("rawextraclosearr", json.RawMessage(`[1]]`)),
		mkVal("rawtrailing", json.RawMessage(`{"a":1},"extra":{"injected":true}`)),
		mkVal("rawtrailingarr", json.RawMessage(`[1],"extra":[2]`)),
		mkVal("rawtwovalues", json.RawMessage(`{"a":1} {"b":2}`)),
		mkVal("rawempty", json.RawMessage{}),
		mkVal("rawspace", json.RawMessage("  ")),
		mkVal("rawbadstring", json.RawMessage("{\"a\":\"\x01\"}")),
		mkVal("rawbadptr", &rawBad),
		mkVal("bytesmarshalertrunc", bytesMarshaler(`{"a":1`)),
		mkVal("bytesmarshalertrailing", bytesMarshaler(`[1],"x":[2]`)),
		mkVal("bytesmarshalerempty", bytesMarshaler("")),
		mkVal("rawbadinmap", map[string]interface{}{"ok": json.RawMessage(`{"a":1}`), "bad": json.RawMessage(`{"a":1`)}),
		mkVal("rawbadinslice", []interface{}{1, json.RawMessage(`[1,2,]`)}),
		mkVal("rawbadinstruct", struct {
			R json.RawMessage `json:"r"`
		}{R: json.RawMessage(`{"foo":}`)}),
		mkVal("rawbadslice", []json.RawMessage{json.RawMessage(`[1]`), json.RawMessage(`[1`)}),
	}
}

var goods, bads, allVals []HVal

func init() {
	goods, bads = goodValues(), badValues()
	for _, b := range bads {
		if !b.bad() {
			panic("harness: value expected to be unmarshalable marshals: " + b.Name)
		}
	}
	for _, g := range goods {
		if g.bad() {
			panic("harness: value expected to marshal does not: " + g.Name + ": " + g.msg)
		}
	}
	allVals = append(append([]HVal{}, goods...), bads...)
}

// ---------------------------------------------------------------- errors and panics

type errv struct {
	code, msg string
	data      HVal
}

func (e errv) coq() string {
	return "(RErr " + cs(sanitize(e.code)) + " " + cs(sanitize(e.msg)) + " " + e.data.coq() + ")"
}
func (e errv) goErr() *res.Error { return &res.Error{Code: e.code, Message: e.msg, Data: e.data.Go} }

type errarg struct {
	kind int // 0 nil ptr, 1 *Error, 2 other error, 3 nil interface
	e    errv
	msg  string
}

func (a errarg) coq() string {
	switch a.kind {
	case 0:
		return "ENilPtr"
	case 1:
		return "(EErr " + a.e.coq() + ")"
	case 2:
		return "(EOther " + cs(sanitize(a.msg)) + ")"
	}
	return "ENilIface"
}
func (a errarg) goErr() error {
	switch a.kind {
	case 0:
		return (*res.Error)(nil)
	case 1:
		return a.e.goErr()
	case 2:
		return errors.New(a.msg)
	}
	return nil
}
func (a errarg) name() string {
	return []string{"nil*Error", "*Error", "error", "nil"}[a.kind] + func() string {
		if a.kind == 1 {
			return "{" + a.e.code + "," + a.e.data.Name + "}"
		}
		return ""
	}()
}

type pkv struct {
	kind int // 0 *Error, 1 nil *Error, 2 error, 3 string, 4 other value
	e    errv
	msg  string
	n    int
}

func (p pkv) coq() string {
	switch p.kind {
	case 0:
		return "(PPtr (Some " + p.e.coq() + "))"
	case 1:
		return "(PPtr None)"
	case 4:
		return "(PMsg " + cs(strconv.Itoa(p.n)) + ")"
	}
	return "(PMsg " + cs(sanitize(p.msg)) + ")"
}
func (p pkv) value() interface{} {
	switch p.kind {
	case 0:
		return p.e.goErr()
	case 1:
		return (*res.Error)(nil)
	case 2:
		return errors.New(p.msg)
	case 3:
		return p.msg
	}
	return p.n
}

// as the error returned by an Apply* handler
func (p pkv) asError() error {
	switch p.kind {
	case 0:
		return p.e.goErr()
	case 1:
		return (*res.Error)(nil)
	case 4:
		return errors.New(strconv.Itoa(p.n))
	}
	return errors.New(p.msg)
}
func (p pkv) name() string {
	return []string{"*Error", "nil*Error", "error", "string", "int"}[p.kind]
}

type applyv struct {
	kind int // 0 absent 1 ok 2 nop 3 fail
	p    pkv
}

func (a applyv) coq() string {
	switch a.kind {
	case 0:
		return "ApAbsent"
	case 1:
		return "ApOk"
	case 2:
		return "ApNop"
	}
	return "(ApFail " + a.p.coq() + ")"
}

// ---------------------------------------------------------------- recording connection

type pubRec struct {
	subj string
	data []byte
}

type recConn struct {
	mu        sync.Mutex
	log       []pubRec
	inCh      chan *nats.Msg
	inboxes   map[string]chan *nats.Msg
	lastInbox string
	failSub   bool
	pubCh     chan struct{}
}

func newConn() *recConn {
	return &recConn{inboxes: map[string]chan *nats.Msg{}, pubCh: make(chan struct{}, 1)}
}
func (c *recConn) Publish(subject string, payload []byte) error {
	c.mu.Lock()
	c.log = append(c.log, pubRec{subject, append([]byte(nil), payload...)})
	c.mu.Unlock()
	select {
	case c.pubCh <- struct{}{}:
	default:
	}
	return nil
}
func (c *recConn) PublishRequest(subject, reply string, data []byte) error {
	return c.Publish(subject, data)
}
func (c *recConn) ChanSubscribe(subject string, ch chan *nats.Msg) (*nats.Subscription, error) {
	return c.ChanQueueSubscribe(subject, "", ch)
}
func (c *recConn) ChanQueueSubscribe(subject, queue string, ch chan *nats.Msg) (*nats.Subscription, error) {
	c.mu.Lock()
	defer c.mu.Unlock()
	if strings.HasPrefix(subject, "_INBOX.") {
		if c.failSub {
			c.failSub = false
			c.lastInbox = ""
			return nil, errors.New("harness: subscription refused")
		}
		c.inboxes[subject] = ch
		c.lastInbox = subject
	} else {
		c.inCh = ch
	}
	return &nats.Subscription{Subject: subject}, nil
}
func (c *recConn) Close() {}
func (c *recConn) snapshot() []pubRec {
	c.mu.Lock()
	defer c.mu.Unlock()
	return append([]pubRec(nil), c.log...)
}

type nopLogger struct{}

func (nopLogger) Infof(string, ...interface{})  {}
func (nopLogger) Errorf(string, ...interface{}) {}
func (nopLogger) Tracef(string, ...interface{}) {}

// ---------------------------------------------------------------- environment of one case

type cfgv struct {
	setRes, setAcc []string // nil = not set
	withApply      bool
}

func (c cfgv) coq() string {
	return fmt.Sprintf("(Cfg %s %s %s true true)", cs("test"), csOptList(c.setRes), csOptList(c.setAcc))
}

type pendReq struct {
	script []ract
	wire   []byte // payload as sent on the wire
	reply  string
}

func reqKey(rtype, rname, method string) string { return rtype + "." + rname + "." + method }

type env struct {
	cfg      cfgv
	s        *res.Service
	conn     *recConn
	serveErr chan error
	idx      int
	nreply   int
	ctxs     map[string]string // reply subject -> Coq ctx term
	curApply applyv
	pending  map[string]*pendReq // type.resource.method -> what the handler of that request runs / must observe
	seen     []string            // Coq terms (reply, (IsHTTP, CID)) as observed by the handlers
	curQuery []qact
	qmu      sync.Mutex
	impl     []string
	tags     map[string]bool
	dist     map[string]int
	lastQRid string
}

var (
	doneMu sync.Mutex
	doneCh = map[string]chan struct{}{}
)

func init() {
	verifhook.SetNote(func(pt string, s string, n int) {
		if pt != "request-done" {
			return
		}
		doneMu.Lock()
		ch := doneCh[s]
		delete(doneCh, s)
		doneMu.Unlock()
		if ch != nil {
			close(ch)
		}
	})
}

const waitFor = 10 * time.Second

var hitMu sync.Mutex

func (e *env) hit(k string) { hitMu.Lock(); e.dist[k]++; hitMu.Unlock() }

// resource patterns: name -> Coq restype
func restypeOf(rname string) string {
	switch {
	case strings.HasPrefix(rname, "test.model."):
		return "RTModel"
	case strings.HasPrefix(rname, "test.coll."):
		return "RTCollection"
	}
	return "RTUnset"
}

func (e *env) start() {
	e.conn = newConn()
	s := res.NewService("test")
	s.SetLogger(nopLogger{})
	s.SetWorkerCount(2)
	s.SetQueryEventDuration(3 * time.Second)
	if e.cfg.setRes != nil || e.cfg.setAcc != nil {
		s.SetOwnedResources(e.cfg.setRes, e.cfg.setAcc)
	}
	run := func(r *res.Request) {
		e.qmu.Lock()
		p := e.pending[reqKey(r.Type(), r.ResourceName(), r.Method())]
		e.qmu.Unlock()
		if p == nil {
			e.impl = append(e.impl, "handler called for a request the harness did not send: "+reqKey(r.Type(), r.ResourceName(), r.Method()))
			return
		}
		e.checkObserved(r, p)
		for i := range p.script {
			p.script[i].do(e, r)
		}
	}
	for _, p := range []struct {
		pat string
		opt res.Option
	}{{"model.$id", res.Model}, {"coll.$id", res.Collection}, {"any.$id", nil}, {"deep.$a.x.$b", nil}} {
		opts := []res.Option{
			res.Access(func(r res.AccessRequest) { run(r.(*res.Request)) }),
			res.GetResource(func(r res.GetRequest) { run(r.(*res.Request)) }),
			res.Call("*", func(r res.CallRequest) { run(r.(*res.Request)) }),
			res.Auth("*", func(r res.AuthRequest) { run(r.(*res.Request)) }),
			res.New(func(r res.NewRequest) { run(r.(*res.Request)) }),
		}
		if p.opt != nil {
			opts = append(opts, p.opt)
		}
		if e.cfg.withApply {
			opts = append(opts,
				res.ApplyChange(func(r res.Resource, ch map[string]interface{}) (map[string]interface{}, error) {
					switch e.curApply.kind {
					case 2:
						return map[string]interface{}{}, nil
					case 3:
						return nil, e.curApply.p.asError()
					}
					return map[string]interface{}{"old": 1}, nil
				}),
				res.ApplyAdd(func(r res.Resource, v interface{}, idx int) error {
					if e.curApply.kind == 3 {
						return e.curApply.p.asError()
					}
					return nil
				}),
				res.ApplyRemove(func(r res.Resource, idx int) (interface{}, error) {
					if e.curApply.kind == 3 {
						return nil, e.curApply.p.asError()
					}
					return "removed", nil
				}),
				res.ApplyCreate(func(r res.Resource, data interface{}) error {
					if e.curApply.kind == 3 {
						return e.curApply.p.asError()
					}
					return nil
				}),
				res.ApplyDelete(func(r res.Resource) (interface{}, error) {
					if e.curApply.kind == 3 {
						return nil, e.curApply.p.asError()
					}
					return "deleted", nil
				}))
		}
		s.Handle(p.pat, opts...)
	}
	s.Handle("bare.$id", res.Call("foo", func(r res.CallRequest) { r.OK(nil) }))
	started := make(chan struct{})
	s.SetOnServe(func(*res.Service) { close(started) })
	e.s = s
	e.serveErr = make(chan error, 1)
	go func() { e.serveErr <- s.Serve(e.conn) }()
	select {
	case <-started:
	case err := <-e.serveErr:
		panic(fmt.Sprint("harness: Serve returned: ", err))
	case <-time.After(waitFor):
		panic("harness: service did not start")
	}
}

// wireReq mirrors the documented request payload; decoding the wire bytes into a FRESH value gives
// what the handler must observe (an absent field = zero value).
type wireReq struct {
	CID        string              `json:"cid"`
	Params     json.RawMessage     `json:"params"`
	Token      json.RawMessage     `json:"token"`
	Header     map[string][]string `json:"header"`
	Host       string              `json:"host"`
	RemoteAddr string              `json:"remoteAddr"`
	URI        string              `json:"uri"`
	Query      string              `json:"query"`
	IsHTTP     bool                `json:"isHttp"`
}

// checkObserved reports request fields the handler sees that differ from the request as sent
// (e.g. state leaking from an earlier request on the same service).
func (e *env) checkObserved(r *res.Request, p *pendReq) {
	var w wireReq
	if len(p.wire) > 0 {
		if err := json.Unmarshal(p.wire, &w); err != nil {
			return
		}
	}
	e.seen = append(e.seen, fmt.Sprintf("(%s,(%s,%s))", cs(p.reply), Bool(r.IsHTTP()), cs(sanitize(r.CID()))))
	var diff []string
	chk := func(name string, got, want interface{}) {
		if !reflect.DeepEqual(got, want) {
			diff = append(diff, fmt.Sprintf("%s=%v (sent %v)", name, got, want))
		}
	}
	if r.IsHTTP() != w.IsHTTP || r.CID() != w.CID { // compared with the model in Coq (mismatch code 5)
		e.tags["request-field-leak"] = true
		e.hit("leak:isHttp-or-cid")
	}
	chk("RawParams", string(r.RawParams()), string(w.Params))
	chk("RawToken", string(r.RawToken()), string(w.Token))
	chk("Header", r.Header(), w.Header)
	chk("Host", r.Host(), w.Host)
	chk("RemoteAddr", r.RemoteAddr(), w.RemoteAddr)
	chk("URI", r.URI(), w.URI)
	chk("Query", r.Query(), w.Query)
	if len(diff) > 0 {
		e.tags["request-field-leak"] = true
		e.impl = append(e.impl, "handler observes request fields that differ from the request as sent on the wire: "+strings.Join(diff, ", ")+" payload="+strconv.Quote(string(p.wire)))
	}
}

func (e *env) stop() {
	e.s.Shutdown()
	select {
	case <-e.serveErr:
	case <-time.After(waitFor):
		e.impl = append(e.impl, "Serve did not return after Shutdown")
	}
}

func (e *env) newReply(prefix string) string {
	e.nreply++
	return fmt.Sprintf("_%s.c%d.r%d", prefix, e.idx, e.nreply)
}

// ---------------------------------------------------------------- actions (Go side + Coq term)

type wact struct {
	name string
	coq  func() string
	do   func(e *env, r res.Resource)
}
type ract struct {
	name string
	coq  func() string
	do   func(e *env, r *res.Request)
}
type qact struct {
	name string
	coq  func() string
	do   func(e *env, r res.QueryRequest)
}

func konst(s string) func() string { return func() string { return s } }

func fieldsCoq(m map[string]interface{}) (string, bool) {
	if len(m) == 0 {
		return "(Some [])", false
	}
	b, err := json.Marshal(m)
	if err != nil {
		return "None", true
	}
	j, _ := parseJSON(b)
	return "(Some " + membersCoq(j.O) + ")", false
}

func wCustom(name string, v HVal) wact {
	return wact{"Event(" + name + "," + v.Name + ")",
		konst("(WEvent (EvCustom " + cs(name) + " " + v.coq() + "))"),
		func(e *env, r res.Resource) {
			e.hit("ev:custom")
			if v.bad() {
				e.hit("branch:event-marshal-fail")
			}
			if name == "create" && v.kind != 0 {
				e.tags["custom-create-payload"] = true
			}
			r.Event(name, v.Go)
		}}
}
func wChange(mname string, m map[string]interface{}, ap applyv) wact {
	f, bad := fieldsCoq(m)
	return wact{"ChangeEvent(" + mname + ")", konst("(WEvent (EvChange " + f + " " + ap.coq() + "))"),
		func(e *env, r res.Resource) {
			e.hit("ev:change")
			if bad {
				e.hit("branch:event-marshal-fail")
			}
			e.curApply = ap
			r.ChangeEvent(m)
		}}
}
func wAdd(v HVal, idx int, ap applyv) wact {
	return wact{fmt.Sprintf("AddEvent(%s,%d)", v.Name, idx), konst(fmt.Sprintf("(WEvent (EvAdd %s %s %s))", v.coq(), zc(int64(idx)), ap.coq())),
		func(e *env, r res.Resource) {
			e.hit("ev:add")
			if v.bad() {
				e.hit("branch:event-marshal-fail")
			}
			e.curApply = ap
			r.AddEvent(v.Go, idx)
		}}
}
func wRemove(idx int, ap applyv) wact {
	return wact{fmt.Sprintf("RemoveEvent(%d)", idx), konst(fmt.Sprintf("(WEvent (EvRemove %s %s))", zc(int64(idx)), ap.coq())),
		func(e *env, r res.Resource) { e.hit("ev:remove"); e.curApply = ap; r.RemoveEvent(idx) }}
}
func wCreate(ap applyv) wact {
	return wact{"CreateEvent", konst("(WEvent (EvCreate " + ap.coq() + "))"),
		func(e *env, r res.Resource) {
			e.hit("ev:create")
			e.curApply = ap
			r.CreateEvent(map[string]interface{}{"a": 1})
		}}
}
func wDelete(ap applyv) wact {
	return wact{"DeleteEvent", konst("(WEvent (EvDelete " + ap.coq() + "))"),
		func(e *env, r res.Resource) { e.hit("ev:delete"); e.curApply = ap; r.DeleteEvent() }}
}
func wReaccess() wact {
	return wact{"ReaccessEvent", konst("(WEvent EvReaccess)"), func(e *env, r res.Resource) { e.hit("ev:reaccess"); r.ReaccessEvent() }}
}
func wResetEvent() wact {
	return wact{"ResetEvent", konst("(WEvent EvReset)"), func(e *env, r res.Resource) { e.hit("ev:reset"); r.ResetEvent() }}
}
func wQueryEvent(fail bool) wact {
	inbox := ""
	ok := false
	return wact{fmt.Sprintf("QueryEvent(fail=%v)", fail),
		func() string { return fmt.Sprintf("(WEvent (EvQuery %s %s))", cs(inbox), Bool(ok)) },
		func(e *env, r res.Resource) {
			e.hit("ev:query")
			e.conn.mu.Lock()
			e.conn.failSub = fail
			e.conn.mu.Unlock()
			r.QueryEvent(func(qr res.QueryRequest) {
				if qr == nil {
					return
				}
				e.qmu.Lock()
				script := e.curQuery
				e.qmu.Unlock()
				for i := range script {
					script[i].do(e, qr)
				}
			})
			e.conn.mu.Lock()
			inbox = e.conn.lastInbox
			e.conn.mu.Unlock()
			ok = inbox != ""
			if ok {
				e.lastQRid = r.ResourceName()
			}
		}}
}
func wSvc(a svcv) wact {
	return wact{a.name, konst("(WSvc " + a.coq + ")"), func(e *env, r res.Resource) { a.do(e, r.Service()) }}
}
func wPanic(p pkv) wact {
	return wact{"panic(" + p.name() + ")", konst("(WPanic " + p.coq() + ")"), func(e *env, r res.Resource) {
		e.hit("panic:" + p.name())
		panic(p.value())
	}}
}

type svcv struct {
	name string
	coq  string
	do   func(e *env, s *res.Service)
}

func sReset(rs, acs []string) svcv {
	return svcv{fmt.Sprintf("Reset(%q,%q)", rs, acs), "(SReset " + csList(rs) + " " + csList(acs) + ")",
		func(e *env, s *res.Service) { e.hit("svc:reset"); s.Reset(rs, acs) }}
}
func sResetAll() svcv {
	return svcv{"ResetAll", "SResetAll", func(e *env, s *res.Service) { e.hit("svc:resetall"); s.ResetAll() }}
}
func sToken(cid string, v HVal) svcv {
	return svcv{"TokenEvent(" + strconv.Quote(cid) + "," + v.Name + ")", "(STokenEvent " + cs(cid) + " " + v.coq() + ")",
		func(e *env, s *res.Service) {
			e.hit("svc:token")
			if v.bad() {
				e.hit("branch:event-marshal-fail")
			}
			s.TokenEvent(cid, v.Go)
		}}
}
func sTokenID(cid, tid string, v HVal) svcv {
	return svcv{"TokenEventWithID(" + strconv.Quote(cid) + "," + strconv.Quote(tid) + "," + v.Name + ")",
		"(STokenEventID " + cs(cid) + " " + cs(sanitize(tid)) + " " + v.coq() + ")",
		func(e *env, s *res.Service) { e.hit("svc:tokenid"); s.TokenEventWithID(cid, tid, v.Go) }}
}
func sTokenReset(subject string, tids []string) svcv {
	st := make([]string, len(tids))
	for i, t := range tids {
		st[i] = sanitize(t)
	}
	return svcv{fmt.Sprintf("TokenReset(%q,%q)", subject, tids), "(STokenReset " + cs(subject) + " " + csList(st) + ")",
		func(e *env, s *res.Service) { e.hit("svc:tokenreset"); s.TokenReset(subject, tids...) }}
}

func aW(w wact) ract {
	return ract{w.name, func() string { return "(AW " + w.coq() + ")" }, func(e *env, r *res.Request) { w.do(e, r) }}
}
func aReply(name, coq string, f func(r *res.Request)) ract {
	return ract{name, konst("(AReply " + coq + ")"), func(e *env, r *res.Request) { e.hit("reply:" + strings.SplitN(name, "(", 2)[0]); f(r) }}
}
func aOK(v HVal) ract {
	return aReply("OK("+v.Name+")", "(KOK "+v.coq()+")", func(r *res.Request) { r.OK(v.Go) })
}
func aResource(rid string) ract {
	return aReply("Resource("+strconv.Quote(rid)+")", "(KResource "+cs(rid)+")", func(r *res.Request) { r.Resource(rid) })
}
func aError(a errarg) ract {
	return aReply("Error("+a.name()+")", "(KError "+a.coq()+")", func(r *res.Request) { r.Error(a.goErr()) })
}
func aNotFound() ract { return aReply("NotFound", "KNotFound", func(r *res.Request) { r.NotFound() }) }
func aMethodNotFound() ract {
	return aReply("MethodNotFound", "KMethodNotFound", func(r *res.Request) { r.MethodNotFound() })
}
func aInvalidParams(m string) ract {
	return aReply("InvalidParams("+strconv.Quote(m)+")", "(KInvalidParams "+cs(sanitize(m))+")", func(r *res.Request) { r.InvalidParams(m) })
}
func aInvalidQuery(m string) ract {
	return aReply("InvalidQuery("+strconv.Quote(m)+")", "(KInvalidQuery "+cs(sanitize(m))+")", func(r *res.Request) { r.InvalidQuery(m) })
}
func aAccess(get bool, call string) ract {
	return aReply(fmt.Sprintf("Access(%v,%q)", get, call), "(KAccess "+Bool(get)+" "+cs(sanitize(call))+")", func(r *res.Request) { r.Access(get, call) })
}
func aAccessDenied() ract {
	return aReply("AccessDenied", "KAccessDenied", func(r *res.Request) { r.AccessDenied() })
}
func aAccessGranted() ract {
	return aReply("AccessGranted", "KAccessGranted", func(r *res.Request) { r.AccessGranted() })
}
func aModel(v HVal, q string) ract {
	return aReply("Model("+v.Name+","+strconv.Quote(q)+")", "(KModel "+v.coq()+" "+cs(sanitize(q))+")", func(r *res.Request) {
		if q == "" {
			r.Model(v.Go)
		} else {
			r.QueryModel(v.Go, q)
		}
	})
}
func aCollection(v HVal, q string) ract {
	return aReply("Collection("+v.Name+","+strconv.Quote(q)+")", "(KCollection "+v.coq()+" "+cs(sanitize(q))+")", func(r *res.Request) {
		if q == "" {
			r.Collection(v.Go)
		} else {
			r.QueryCollection(v.Go, q)
		}
	})
}
func aNew(rid string) ract {
	return aReply("New("+strconv.Quote(rid)+")", "(KNew "+cs(rid)+")", func(r *res.Request) { r.New(res.Ref(rid)) })
}
func aTimeout(d time.Duration) ract {
	return ract{"Timeout(" + d.String() + ")", konst("(ATimeout " + zc(int64(d)) + ")"), func(e *env, r *res.Request) { e.hit("timeout"); r.Timeout(d) }}
}
func aStatus(n int) ract {
	return ract{fmt.Sprintf("SetResponseStatus(%d)", n), konst("(ASetStatus " + zc(int64(n)) + ")"), func(e *env, r *res.Request) {
		e.hit("meta:status")
		if !r.IsHTTP() {
			e.hit("branch:setter-nonhttp-panics")
		}
		r.SetResponseStatus(n)
	}}
}
func aHeader(k string, vs []string) ract {
	sv := make([]string, len(vs))
	for i, v := range vs {
		sv[i] = sanitize(v)
	}
	return ract{fmt.Sprintf("Header[%q]=%q", k, vs), konst("(AHeader " + cs(sanitize(k)) + " " + csList(sv) + ")"), func(e *env, r *res.Request) {
		e.hit("meta:header")
		if !r.IsHTTP() {
			e.hit("branch:setter-nonhttp-panics")
		}
		r.ResponseHeader()[k] = vs
	}}
}
func aStatusIfHTTP(n int) ract {
	return ract{fmt.Sprintf("if IsHTTP{SetResponseStatus(%d)}", n), konst("(ASetStatusIfHTTP " + zc(int64(n)) + ")"), func(e *env, r *res.Request) {
		e.hit("meta:status-if-http")
		if r.IsHTTP() {
			r.SetResponseStatus(n)
		}
	}}
}
func aHeaderIfHTTP(k string, vs []string) ract {
	sv := make([]string, len(vs))
	for i, v := range vs {
		sv[i] = sanitize(v)
	}
	return ract{fmt.Sprintf("if IsHTTP{Header[%q]=%q}", k, vs), konst("(AHeaderIfHTTP " + cs(sanitize(k)) + " " + csList(sv) + ")"), func(e *env, r *res.Request) {
		e.hit("meta:header-if-http")
		if r.IsHTTP() {
			r.ResponseHeader()[k] = vs
		}
	}}
}
func aToken(v HVal) ract {
	return ract{"TokenEvent(" + v.Name + ")", konst("(ATokenEvent " + v.coq() + ")"), func(e *env, r *res.Request) { e.hit("req:tokenevent"); r.TokenEvent(v.Go) }}
}

func qW(w wact) qact {
	return qact{w.name, func() string { return "(QW " + w.coq() + ")" }, func(e *env, r res.QueryRequest) { w.do(e, r) }}
}
func qSimple(name, coq string, f func(r res.QueryRequest)) qact {
	return qact{name, konst(coq), func(e *env, r res.QueryRequest) { e.hit("q:" + strings.SplitN(name, "(", 2)[0]); f(r) }}
}
func qModel(v HVal) qact {
	return qSimple("QModel("+v.Name+")", "(QModel "+v.coq()+")", func(r res.QueryRequest) { r.Model(v.Go) })
}
func qCollection(v HVal) qact {
	return qSimple("QCollection("+v.Name+")", "(QCollection "+v.coq()+")", func(r res.QueryRequest) { r.Collection(v.Go) })
}
func qNotFound() qact {
	return qSimple("QNotFound", "QNotFound", func(r res.QueryRequest) { r.NotFound() })
}
func qInvalidQuery(m string) qact {
	return qSimple("QInvalidQuery("+strconv.Quote(m)+")", "(QInvalidQuery "+cs(sanitize(m))+")", func(r res.QueryRequest) { r.InvalidQuery(m) })
}
func qError(a errarg) qact {
	return qSimple("QError("+a.name()+")", "(QError "+a.coq()+")", func(r res.QueryRequest) { r.Error(a.goErr()) })
}
func qTimeout(d time.Duration) qact {
	return qSimple("QTimeout("+d.String()+")", "(QTimeout "+zc(int64(d))+")", func(r res.QueryRequest) { r.Timeout(d) })
}
func qChange(mname string, m map[string]interface{}) qact {
	f, _ := fieldsCoq(m)
	return qSimple("QChange("+mname+")", "(QChange "+f+")", func(r res.QueryRequest) { r.ChangeEvent(m) })
}
func qAdd(v HVal, idx int) qact {
	return qSimple(fmt.Sprintf("QAdd(%s,%d)", v.Name, idx), fmt.Sprintf("(QAdd %s %s)", v.coq(), zc(int64(idx))), func(r res.QueryRequest) { r.AddEvent(v.Go, idx) })
}
func qRemove(idx int) qact {
	return qSimple(fmt.Sprintf("QRemove(%d)", idx), fmt.Sprintf("(QRemove %s)", zc(int64(idx))), func(r res.QueryRequest) { r.RemoveEvent(idx) })
}

// ---------------------------------------------------------------- top-level items

type top struct {
	name string
	coq  func() string
	run  func(e *env)
}

func tStart() top { return top{"Start", konst("TStart"), func(e *env) {}} }

type reqv struct {
	rtype   string // access get call auth
	rname   string
	method  string
	http    bool
	cid     string
	raw     []byte   // payload override (nil = built from the fields)
	noReply bool     // delivered WITHOUT a reply subject (must be followed by a probe request on the same resource)
	keys    []string // optional payload fields to write (nil = legacy: all of cid, isHttp, token, params);
	// with keys set, "isHttp" is written only if http is true or "isHttp" is listed, "cid" only if listed
	disp   string // Coq dispatch term when not DRun
	script []ract
}

func tRequest(q reqv) top {
	reply := ""
	return top{
		func() string {
			n := make([]string, len(q.script))
			for i, a := range q.script {
				n[i] = a.name
			}
			wire := ""
			if q.raw != nil {
				wire = " payload=" + strconv.Quote(string(q.raw))
			} else if q.keys != nil {
				wire = " fields=" + strings.Join(q.keys, ",")
			}
			if q.noReply {
				wire += " NO-REPLY-SUBJECT"
			}
			return fmt.Sprintf("%s %s http=%v%s %s[%s]", q.rtype, q.rname, q.http, wire, q.disp, strings.Join(n, "; "))
		}(),
		func() string {
			d := q.disp
			if d == "" {
				xs := make([]string, len(q.script))
				for i, a := range q.script {
					xs[i] = a.coq()
				}
				d = "(DRun " + List(xs) + ")"
			}
			return fmt.Sprintf("(TRequest (Req (Res %s %s) %s %s %s) %s)", cs(q.rname), restypeOf(q.rname), cs(reply), cs(q.cid), Bool(q.http), d)
		},
		func(e *env) {
			e.hit("top:request:" + q.rtype)
			if q.http {
				e.hit("request:http")
			}
			if q.noReply {
				e.hit("request:no-reply-subject")
				e.nreply++
			} else {
				reply = e.newReply("REPLY")
				e.ctxs[reply] = fmt.Sprintf("(CReply %s %s)", Bool(q.http), cs(reply))
			}
			subj := q.rtype + "." + q.rname
			if q.rtype == "call" || q.rtype == "auth" {
				subj += "." + q.method
			}
			data := q.raw
			if data == nil && q.keys != nil {
				m := map[string]interface{}{}
				if q.http {
					m["isHttp"] = true
				}
				for _, k := range q.keys {
					switch k {
					case "isHttp":
						m["isHttp"] = q.http
					case "cid":
						m["cid"] = q.cid
					case "token":
						m["token"] = map[string]interface{}{"user": "u" + strconv.Itoa(e.nreply)}
					case "params":
						m["params"] = []interface{}{e.nreply, "p"}
					case "query":
						m["query"] = "q=" + strconv.Itoa(e.nreply)
					case "header":
						m["header"] = map[string][]string{"Origin": {"http://h" + strconv.Itoa(e.nreply)}}
					case "host":
						m["host"] = "host" + strconv.Itoa(e.nreply)
					case "remoteAddr":
						m["remoteAddr"] = "10.0.0." + strconv.Itoa(e.nreply)
					case "uri":
						m["uri"] = "/ws?" + strconv.Itoa(e.nreply)
					}
				}
				data, _ = json.Marshal(m)
			} else if data == nil {
				m := map[string]interface{}{"cid": q.cid, "isHttp": q.http, "token": map[string]interface{}{"user": "x"}, "params": map[string]interface{}{"p": 1}}
				if q.rtype == "get" {
					m = map[string]interface{}{"isHttp": q.http}
					if q.cid != "" {
						m["cid"] = q.cid
					}
				}
				data, _ = json.Marshal(m)
			}
			meth := ""
			if q.rtype == "call" || q.rtype == "auth" {
				meth = q.method
			}
			e.qmu.Lock()
			e.pending[reqKey(q.rtype, q.rname, meth)] = &pendReq{q.script, data, reply}
			e.qmu.Unlock()
			if q.noReply {
				// dropped by handleRequest without any completion note: not waited for; the probe request
				// that follows on the same resource (same worker queue) is the barrier
				e.conn.inCh <- &nats.Msg{Subject: subj, Reply: "", Data: data}
				return
			}
			ch := make(chan struct{})
			doneMu.Lock()
			doneCh[subj] = ch
			doneMu.Unlock()
			e.conn.inCh <- &nats.Msg{Subject: subj, Reply: reply, Data: data}
			select {
			case <-ch:
			case <-time.After(waitFor):
				e.impl = append(e.impl, "request not finished after 10s: "+subj)
			}
		}}
}

func tWith(rname string, script []wact) top {
	return top{
		func() string {
			n := make([]string, len(script))
			for i, a := range script {
				n[i] = a.name
			}
			return "With " + rname + " [" + strings.Join(n, "; ") + "]"
		}(),
		func() string {
			xs := make([]string, len(script))
			for i, a := range script {
				xs[i] = a.coq()
			}
			return fmt.Sprintf("(TWith (Res %s %s) %s)", cs(rname), restypeOf(rname), List(xs))
		},
		func(e *env) {
			e.hit("top:with")
			done := make(chan struct{})
			err := e.s.With(rname, func(r res.Resource) {
				defer close(done)
				defer func() {
					if v := recover(); v != nil {
						e.hit("with:panic-recovered-by-harness")
					}
				}()
				for i := range script {
					script[i].do(e, r)
				}
			})
			if err != nil {
				panic("harness: With: " + err.Error())
			}
			select {
			case <-done:
			case <-time.After(waitFor):
				e.impl = append(e.impl, "With callback not finished after 10s: "+rname)
			}
		}}
}

// a query request on the inbox of the query event sent last
func tQuery(payload []byte, disp string, script []qact) top {
	qreply, rname := "", ""
	return top{
		func() string {
			n := make([]string, len(script))
			for i, a := range script {
				n[i] = a.name
			}
			return "Query " + disp + "[" + strings.Join(n, "; ") + "]"
		}(),
		func() string {
			d := disp
			if d == "" {
				xs := make([]string, len(script))
				for i, a := range script {
					xs[i] = a.coq()
				}
				d = "(QRun " + List(xs) + ")"
			}
			return fmt.Sprintf("(TQuery (Res %s %s) %s %s)", cs(rname), restypeOf(rname), cs(qreply), d)
		},
		func(e *env) {
			e.hit("top:query")
			e.conn.mu.Lock()
			inbox := e.conn.lastInbox
			ch := e.conn.inboxes[inbox]
			e.conn.mu.Unlock()
			rname = e.lastQRid
			qreply = e.newReply("QREPLY")
			e.ctxs[qreply] = "(CQueryReply " + cs(qreply) + ")"
			if ch == nil {
				panic("harness: no query inbox")
			}
			e.qmu.Lock()
			e.curQuery = script
			e.qmu.Unlock()
			ch <- &nats.Msg{Subject: inbox, Reply: qreply, Data: payload}
			// wait for the response, then for the callback to return (barrier on the same group)
			deadline := time.After(waitFor)
			for {
				found := false
				for _, p := range e.conn.snapshot() {
					if p.subj == qreply && !bytes.HasPrefix(p.data, []byte("timeout:")) {
						found = true
					}
				}
				if found {
					break
				}
				select {
				case <-e.conn.pubCh:
				case <-time.After(20 * time.Millisecond):
				case <-deadline:
					e.impl = append(e.impl, "query request not answered after 10s")
					return
				}
			}
			done := make(chan struct{})
			e.s.With(rname, func(res.Resource) { close(done) })
			select {
			case <-done:
			case <-time.After(waitFor):
				e.impl = append(e.impl, "query callback did not return after 10s")
			}
		}}
}

func tSvc(a svcv) top {
	return top{a.name, konst("(TSvc " + a.coq + ")"), func(e *env) {
		e.hit("top:svc")
		defer func() {
			if v := recover(); v != nil {
				e.hit("svc:panic-recovered-by-harness")
			}
		}()
		a.do(e, e.s)
	}}
}

// ---------------------------------------------------------------- one case

type caseDef struct {
	cfg  cfgv
	tops []top
}

type desc struct {
	Gen     string `json:"gen"`
	Idx     int    `json:"idx"`
	Seed    uint64 `json:"seed"`
	Summary string `json:"summary,omitempty"`
}

func runCase(idx int, d desc, cd caseDef, dist map[string]int) (Case, []ImplViolation) {
	e := &env{cfg: cd.cfg, idx: idx, ctxs: map[string]string{}, tags: map[string]bool{}, dist: dist, pending: map[string]*pendReq{}}
	e.start()
	for i := range cd.tops {
		cd.tops[i].run(e)
	}
	e.stop()
	log := e.conn.snapshot()
	obs := make([]string, len(log))
	nontrivial := false
	for i, p := range log {
		ctx, ok := e.ctxs[p.subj]
		if !ok {
			ctx = "CEvent"
		}
		var pay string
		if j, ok := parseJSON(p.data); ok {
			pay = "(PJson " + j.coq() + ")"
		} else {
			pay = "(PRaw " + cs(string(p.data)) + ")"
		}
		obs[i] = fmt.Sprintf("(Pub %s %s %s)", cs(p.subj), pay, ctx)
		if i > 0 {
			nontrivial = true
		}
	}
	ts := make([]string, len(cd.tops))
	names := make([]string, len(cd.tops))
	for i, t := range cd.tops {
		ts[i] = t.coq()
		names[i] = t.name
	}
	d.Summary = strings.Join(names[1:], " | ")
	if len(d.Summary) > 600 {
		d.Summary = d.Summary[:600] + "..."
	}
	c := Case{
		Term:       fmt.Sprintf("CC %s\n %s\n %s\n %s", cd.cfg.coq(), List(ts), List(obs), List(e.seen)),
		Desc:       d,
		Nontrivial: nontrivial,
		Key:        cd.cfg.coq() + "|" + strings.Join(names, "|"),
	}
	for t := range e.tags {
		c.Tags = append(c.Tags, t)
	}
	sort.Strings(c.Tags)
	dist["messages"] += len(log)
	var iv []ImplViolation
	for _, w := range e.impl {
		iv = append(iv, ImplViolation{What: w, Desc: d, Tags: c.Tags})
	}
	return c, iv
}

// ---------------------------------------------------------------- generators

type metav struct {
	name string
	acts []ract
}

func metas() []metav {
	return []metav{
		{"none", nil},
		{"status", []ract{aStatus(404)}},
		{"header", []ract{aHeader("Set-Cookie", []string{"a=b; Path=/", "c=\"d\""})}},
		{"both", []ract{aStatus(303), aHeader("Location", []string{"/x?y=<z>&w"}), aHeader("X-Empty", []string{})}},
		{"hdr-reset", []ract{aHeader("B", []string{"1"}), aHeader("A", []string{"é"}), aHeader("B", []string{"2", "3"}), aStatus(-5), aStatus(0)}},
	}
}

var rnames = []string{"test.model.1", "test.coll.42", "test.any.x-y_z", "test.deep.a.x.b", "test.model.$weird!~"}

func errvs() []errv {
	return []errv{
		{"custom.error", "Custom \"msg\" <é>", goods[0]},
		{"", "", goods[0]},
		{"system.notFound", "Not found", mkVal("data0", 0)},
	}
}

var changeMaps = []struct {
	name string
	m    map[string]interface{}
}{
	{"nil", nil},
	{"empty", map[string]interface{}{}},
	{"simple", map[string]interface{}{"a": 1, "b": "x\"y"}},
	{"del+ref", map[string]interface{}{"gone": res.DeleteAction, "r": res.Ref("test.model.2"), "s": res.SoftRef("x.y"), "d": res.DataValue[[]int]{Data: []int{1}}, "n": nil}},
	{"bad", map[string]interface{}{"ok": 1, "ch": make(chan int)}},
}

func apOK(with bool) applyv {
	if with {
		return applyv{kind: 1}
	}
	return applyv{}
}

func directed() []caseDef {
	var out []caseDef
	add := func(cfg cfgv, ts ...top) { out = append(out, caseDef{cfg, append([]top{tStart()}, ts...)}) }
	def := cfgv{}
	wa := cfgv{withApply: true}
	call := func(http bool, script ...ract) top {
		return tRequest(reqv{rtype: "call", rname: "test.model.1", method: "do", http: http, cid: "cid1", script: script})
	}
	// configurations / start
	add(def)
	add(cfgv{setRes: []string{"test.>"}, setAcc: []string{"test.>"}})
	add(cfgv{setRes: []string{"test.a", "test.b.*", "weird name\""}, setAcc: []string{}})
	add(cfgv{setRes: []string{}, setAcc: []string{">"}})
	add(cfgv{setRes: nil, setAcc: []string{"test.é"}})
	// OK with every value x meta
	ms := metas()
	for _, v := range allVals {
		for mi, m := range ms {
			if mi > 2 && !v.bad() && v.kind != 0 {
				continue
			}
			add(def, call(true, append(append([]ract{}, m.acts...), aOK(v))...))
		}
		add(def, call(false, aOK(v)))
	}
	// Model / Collection with every value
	for i, v := range allVals {
		q := ""
		if i%3 == 1 {
			q = "a=1&b=\"2\""
		}
		add(def, tRequest(reqv{rtype: "get", rname: "test.model.1", script: []ract{aModel(v, q)}}))
		add(def, tRequest(reqv{rtype: "get", rname: "test.coll.42", script: []ract{aCollection(v, q)}}))
	}
	// Error values: data x meta
	for _, v := range allVals {
		e := errarg{kind: 1, e: errv{"custom.withData", "msg", v}}
		add(def, call(false, aError(e)))
		add(def, call(true, aStatus(500), aError(e)))
	}
	for _, ev := range errvs() {
		add(def, call(false, aError(errarg{kind: 1, e: ev})))
	}
	for _, m := range ms {
		for _, a := range []errarg{{kind: 0}, {kind: 2, msg: "plain \"error\" \xff"}, {kind: 3}} {
			add(def, call(true, append(append([]ract{}, m.acts...), aError(a))...))
			add(def, call(false, aError(a)))
		}
	}
	// all other reply kinds x meta x http
	others := func() []ract {
		return []ract{aNotFound(), aMethodNotFound(), aInvalidParams(""), aInvalidParams("bad \"p\""), aInvalidQuery(""), aInvalidQuery("q<>"),
			aAccess(true, "*"), aAccess(false, "set,foo"), aAccess(true, ""), aAccess(false, ""), aAccessDenied(), aAccessGranted(),
			aResource("test.model.2"), aResource("test.model.2?q=1"), aResource("bad..rid"), aResource(""), aResource("a.b*"), aResource("?"), aResource("a.?x"), aResource("å.b"),
			aNew("test.model.3"), aNew("bad rid"), aNew("a.b.")}
	}
	for mi, m := range ms {
		for i := range others() {
			add(def, call(true, append(append([]ract{}, m.acts...), others()[i])...))
			if mi == 0 {
				add(def, call(false, others()[i]))
			}
		}
	}
	// request types
	for _, rt := range []string{"access", "get", "call", "auth"} {
		for _, rn := range rnames {
			add(def, tRequest(reqv{rtype: rt, rname: rn, method: "m", http: rt != "get", cid: "c", script: []ract{aOK(goods[2])}}))
		}
		add(def, tRequest(reqv{rtype: rt, rname: "test.model.1", method: "m", script: nil}))             // missing response
		add(def, tRequest(reqv{rtype: rt, rname: "test.nomatch.at.all", method: "m", disp: "DNoMatch"})) // no handler
		for _, raw := range []string{"{", "nulx", "{\"cid\":1,}", "\"é", "[1 2]"} {
			add(def, tRequest(reqv{rtype: rt, rname: "test.model.1", method: "m", raw: []byte(raw), disp: "(DBadJson " + cs(syntaxErr(raw)) + ")"}))
		}
	}
	add(def, tRequest(reqv{rtype: "call", rname: "test.model.1", method: "m", raw: []byte(`[]`), disp: "(DBadJson " + cs("json: cannot unmarshal array into Go value of type res.resRequest") + ")"}))
	add(def, tRequest(reqv{rtype: "call", rname: "test.model.1", method: "m", raw: []byte(``), script: []ract{aOK(goods[0])}}))
	add(def, tRequest(reqv{rtype: "call", rname: "test.model.1", method: "new", http: true, cid: "c", script: []ract{aNew("test.model.9")}}))
	add(def, tRequest(reqv{rtype: "get", rname: "test.bare.1", disp: "DNoGet"}))
	add(def, tRequest(reqv{rtype: "call", rname: "test.bare.1", method: "other", disp: "DNoMethod"}))
	add(def, tRequest(reqv{rtype: "auth", rname: "test.bare.1", method: "foo", disp: "DNoMethod"}))
	add(def, tRequest(reqv{rtype: "access", rname: "test.bare.1", disp: "DNoAccess"}))
	// setters on non-HTTP requests panic; setters after reply panic
	add(def, call(false, aStatus(404), aOK(goods[1])))
	add(def, call(false, aHeader("X", []string{"y"}), aOK(goods[1])))
	add(def, call(false, aOK(goods[1]), aStatus(404)))
	add(def, call(true, aOK(goods[1]), aStatus(404)))
	add(def, call(true, aStatus(201), aOK(goods[1]), aHeader("X", []string{"y"})))
	add(def, call(true, aStatus(0), aOK(goods[0])))
	// timeouts
	for _, d := range []time.Duration{0, 1, 999999, time.Millisecond, 1500 * time.Millisecond, time.Hour, math.MaxInt64, -1, -time.Second} {
		add(def, call(false, aTimeout(d), aOK(goods[0])))
		add(def, call(true, aStatus(200), aOK(goods[2]), aTimeout(d)))
	}
	// panics
	pks := []pkv{{kind: 0, e: errvs()[0]}, {kind: 0, e: errv{"x.y", "with bad data", bads[0]}}, {kind: 1}, {kind: 2, msg: "an error \"q\""}, {kind: 3, msg: "a string <&>"}, {kind: 4, n: 123}}
	for _, p := range pks {
		add(def, call(false, aW(wPanic(p))))
		add(def, call(true, aStatus(418), aHeader("X-P", []string{"1"}), aW(wPanic(p))))
		add(def, call(true, aOK(goods[1]), aW(wPanic(p))))
		add(def, tWith("test.model.1", []wact{wReaccess(), wPanic(p), wReaccess()}))
	}
	add(def, call(false, aOK(goods[1]), aOK(goods[2])))
	add(def, call(false, aNotFound(), aError(errarg{kind: 0})))
	// request TokenEvent
	for _, v := range allVals {
		add(def, tRequest(reqv{rtype: "auth", rname: "test.model.1", method: "login", http: true, cid: "bl3c7qiv9bc5lckvk9k0", script: []ract{aToken(v), aOK(goods[0])}}))
	}
	// events from With and from handlers
	for _, with := range []bool{false, true} {
		cfg := def
		if with {
			cfg = wa
		}
		ap := apOK(with)
		for _, rn := range rnames {
			add(cfg, tWith(rn, []wact{wChange("simple", changeMaps[2].m, ap), wAdd(goods[2], 0, ap), wRemove(3, ap), wCreate(ap), wDelete(ap), wReaccess(), wResetEvent(), wCustom("custom", goods[22])}))
		}
		for _, cm := range changeMaps {
			add(cfg, tWith("test.model.1", []wact{wChange(cm.name, cm.m, ap)}))
			add(cfg, tWith("test.any.1", []wact{wChange(cm.name, cm.m, ap)}))
			add(cfg, call(false, aW(wChange(cm.name, cm.m, ap)), aOK(goods[0])))
		}
		add(cfg, tWith("test.coll.1", []wact{wChange("simple", changeMaps[2].m, ap)}))
		for _, idx := range []int{0, 1, 7, 1 << 40, -1} {
			add(cfg, tWith("test.coll.1", []wact{wAdd(goods[10], idx, ap), wRemove(idx, ap)}))
			add(cfg, tWith("test.any.1", []wact{wRemove(idx, ap), wAdd(goods[0], idx, ap)}))
			add(cfg, call(false, aW(wAdd(goods[10], idx, ap))))
		}
		add(cfg, tWith("test.model.1", []wact{wAdd(goods[1], 0, ap)}))
		add(cfg, tWith("test.model.1", []wact{wRemove(0, ap)}))
	}
	for _, v := range allVals {
		add(def, tWith("test.coll.1", []wact{wAdd(v, 2, applyv{}), wCustom("foo", v)}))
	}
	for _, p := range pks {
		for _, k := range []int{2, 3} {
			ap := applyv{kind: k, p: p}
			add(wa, tWith("test.any.1", []wact{wChange("simple", changeMaps[2].m, ap), wReaccess()}))
			add(wa, call(false, aW(wAdd(goods[1], 0, ap)), aOK(goods[0])))
			add(wa, call(true, aStatus(400), aW(wRemove(0, ap))))
			add(wa, call(false, aW(wCreate(ap))))
			add(wa, tWith("test.model.1", []wact{wDelete(ap)}))
		}
	}
	// custom event names
	for _, n := range []string{"change", "delete", "add", "remove", "patch", "reaccess", "unsubscribe", "query", "create", "reset", "token", "custom", "Foo_bar-1", "", "a.b", "a*", "a>", "a?", "a b", "é", "x\n", "~!$", ">"} {
		add(def, tWith("test.model.1", []wact{wCustom(n, goods[0])}))
		add(def, tWith("test.model.1", []wact{wCustom(n, goods[22])}))
		add(def, call(false, aW(wCustom(n, goods[2])), aOK(goods[0])))
	}
	// service level
	svcs := []svcv{
		sReset(nil, nil), sReset([]string{}, []string{}), sReset([]string{"test.>"}, nil), sReset(nil, []string{"test.a", "b"}), sReset([]string{"x", "y \"z\""}, []string{">"}),
		sResetAll(),
		sTokenReset("auth.test.renew", []string{"t1"}), sTokenReset("auth.test.renew", []string{"t1", "", "é\""}), sTokenReset("auth.test.renew", nil),
		sTokenReset("", []string{"t"}), sTokenReset("a..b", []string{"t"}), sTokenReset("a.*", []string{"t"}), sTokenReset("a.>", []string{"t"}), sTokenReset("a.$b", []string{"t"}), sTokenReset("a.b$c", []string{"t"}), sTokenReset("a.b?", []string{"t"}), sTokenReset("a b", []string{"t"}), sTokenReset("a.b>", []string{"t"}), sTokenReset("a.b*", []string{"t"}), sTokenReset("x", []string{"t"}),
	}
	for _, cid := range []string{"cid", "bl3c7qiv9bc5lckvk9k0", "", "a.b", "a*", "a b", "é", ">", "a?", "~"} {
		svcs = append(svcs, sToken(cid, goods[22]), sTokenID(cid, "tid1", goods[0]))
	}
	for _, v := range allVals {
		svcs = append(svcs, sToken("cid", v))
	}
	for _, tid := range []string{"", "t", "t \"q\" é"} {
		svcs = append(svcs, sTokenID("cid", tid, goods[25]), sTokenID("cid", tid, bads[0]))
	}
	for i, a := range svcs {
		add(def, tSvc(a))
		if i%3 == 0 {
			add(def, tWith("test.model.1", []wact{wSvc(a)}))
			add(def, call(i%2 == 0, aW(wSvc(a)), aOK(goods[0])))
		}
	}
	for _, cfg := range []cfgv{{setRes: []string{"test.>"}, setAcc: []string{"test.>"}}, {setRes: []string{"a", "b"}, setAcc: []string{}}, {setRes: []string{}, setAcc: []string{">"}}} {
		add(cfg, tSvc(sResetAll()), tWith("test.model.1", []wact{wSvc(sResetAll())}))
	}
	// query events
	qe := func(rn string) top { return tWith(rn, []wact{wQueryEvent(false)}) }
	q := func(script ...qact) top { return tQuery([]byte(`{"query":"a=1&b=2"}`), "", script) }
	add(def, tWith("test.model.1", []wact{wQueryEvent(true)}))
	add(def, call(false, aW(wQueryEvent(false)), aOK(goods[0])), q())
	add(def, qe("test.model.1"), q())
	add(def, qe("test.model.1"), tQuery([]byte(`{`), "(QBadJson "+cs(syntaxErr("{"))+")", nil))
	add(def, qe("test.model.1"), tQuery([]byte(`{"query":tru}`), "(QBadJson "+cs(syntaxErr(`{"query":tru}`))+")", nil))
	add(def, qe("test.model.1"), tQuery([]byte(`{}`), "QMissingQuery", nil))
	add(def, qe("test.model.1"), tQuery(nil, "QMissingQuery", nil))
	add(def, qe("test.model.1"), tQuery([]byte(`{"query":""}`), "QMissingQuery", nil), q(qNotFound()))
	for _, v := range allVals {
		add(def, qe("test.model.1"), q(qModel(v)))
		add(def, qe("test.coll.1"), q(qCollection(v)))
		add(def, qe("test.coll.1"), q(qAdd(v, 1), qRemove(0)))
		add(def, qe("test.any.1"), q(qError(errarg{kind: 1, e: errv{"a.b", "m", v}})))
	}
	for _, cm := range changeMaps {
		add(def, qe("test.model.1"), q(qChange(cm.name, cm.m)))
		add(def, qe("test.any.1"), q(qChange(cm.name, cm.m), qAdd(goods[2], 0), qRemove(5)))
	}
	add(def, qe("test.coll.1"), q(qChange("simple", changeMaps[2].m)))
	add(def, qe("test.coll.1"), q(qModel(goods[17])))
	add(def, qe("test.model.1"), q(qCollection(goods[18])))
	add(def, qe("test.model.1"), q(qAdd(goods[1], 0)))
	add(def, qe("test.model.1"), q(qRemove(0)))
	add(def, qe("test.coll.1"), q(qAdd(goods[1], -1)))
	add(def, qe("test.coll.1"), q(qRemove(-3)))
	for _, a := range []errarg{{kind: 0}, {kind: 2, msg: "oops"}, {kind: 3}, {kind: 1, e: errvs()[0]}} {
		add(def, qe("test.any.1"), q(qError(a)))
		add(def, qe("test.any.1"), q(qAdd(goods[1], 0), qError(a), qRemove(0)))
	}
	add(def, qe("test.any.1"), q(qNotFound()), q(qInvalidQuery("")), q(qInvalidQuery("bad \"q\"")))
	add(def, qe("test.any.1"), q(qNotFound(), qNotFound(), qModel(goods[17])))
	for _, d := range []time.Duration{0, 2500 * time.Millisecond, -1} {
		add(def, qe("test.any.1"), q(qTimeout(d), qAdd(goods[1], 0)))
		add(def, qe("test.any.1"), q(qModel(goods[17]), qTimeout(d)))
	}
	for _, p := range pks {
		add(def, qe("test.any.1"), q(qW(wPanic(p))))
		add(def, qe("test.any.1"), q(qAdd(goods[1], 0), qW(wPanic(p))))
		add(def, qe("test.any.1"), q(qNotFound(), qW(wPanic(p))))
	}
	add(def, qe("test.any.1"), q(qW(wCustom("inquery", goods[22])), qW(wReaccess()), qW(wCreate(applyv{})), qW(wDelete(applyv{})), qW(wResetEvent()), qW(wSvc(sToken("c", goods[1]))), qAdd(goods[1], 0)))
	return out
}

// syntaxErr is the error text json.Unmarshal reports for a syntactically invalid text
// (found by the validity scan, before and independently of the target type).
func syntaxErr(raw string) string {
	var x interface{}
	err := json.Unmarshal([]byte(raw), &x)
	if _, ok := err.(*json.SyntaxError); !ok {
		panic("harness: expected a syntax error for " + raw)
	}
	return sanitize(err.Error())
}

func pickVal(r *Rng) HVal {
	if r.Chance(25) {
		return bads[r.Intn(len(bads))]
	}
	return goods[r.Intn(len(goods))]
}
func pickPk(r *Rng) pkv {
	switch r.Intn(6) {
	case 0:
		return pkv{kind: 0, e: errv{"rnd.code", "rnd msg é", pickVal(r)}}
	case 1:
		return pkv{kind: 1}
	case 2:
		return pkv{kind: 2, msg: "rnd error"}
	case 3:
		return pkv{kind: 3, msg: "rnd \"string\""}
	}
	return pkv{kind: 4, n: r.Intn(1000)}
}
func pickApply(r *Rng, with bool) applyv {
	if !with {
		return applyv{}
	}
	switch r.Intn(6) {
	case 0:
		return applyv{kind: 2}
	case 1:
		return applyv{kind: 3, p: pickPk(r)}
	}
	return applyv{kind: 1}
}
func pickErr(r *Rng) errarg {
	switch r.Intn(6) {
	case 0:
		return errarg{kind: 0}
	case 1:
		return errarg{kind: 2, msg: "other err"}
	case 2:
		return errarg{kind: 3}
	}
	return errarg{kind: 1, e: errv{r.Pick([]string{"a.b", "", "system.custom"}), r.Pick([]string{"", "m", "é\"<"}), pickVal(r)}}
}
func pickSvc(r *Rng) svcv {
	switch r.Intn(6) {
	case 0:
		return sReset([][]string{nil, {"a.>"}, {"x", "y.*"}}[r.Intn(3)], [][]string{nil, {}, {">"}}[r.Intn(3)])
	case 1:
		return sResetAll()
	case 2:
		return sToken(r.Pick([]string{"cid", "c1d", "", "a.b"}), pickVal(r))
	case 3:
		return sTokenID(r.Pick([]string{"cid", "x*"}), r.Pick([]string{"", "tid"}), pickVal(r))
	}
	return sTokenReset(r.Pick([]string{"auth.t.renew", "", "a.*", "x"}), [][]string{nil, {"a"}, {"a", "b"}}[r.Intn(3)])
}
func pickW(r *Rng, with bool, allowQuery bool) wact {
	switch k := r.Intn(14); k {
	case 0:
		names := []string{"custom", "foo", "change", "a.b", "", "delete", "x*", "create"}
		n := r.Pick(names)
		v := pickVal(r)
		return wCustom(n, v)
	case 1, 2:
		cm := changeMaps[r.Intn(len(changeMaps))]
		return wChange(cm.name, cm.m, pickApply(r, with))
	case 3, 4:
		return wAdd(pickVal(r), r.Intn(6)-1, pickApply(r, with))
	case 5:
		return wRemove(r.Intn(6)-1, pickApply(r, with))
	case 6:
		return wCreate(pickApply(r, with))
	case 7:
		return wDelete(pickApply(r, with))
	case 8:
		return wReaccess()
	case 9:
		return wResetEvent()
	case 10, 11:
		return wSvc(pickSvc(r))
	case 12:
		if r.Chance(30) {
			return wPanic(pickPk(r))
		}
		return wCustom("evt", pickVal(r))
	}
	if allowQuery && r.Chance(50) {
		return wQueryEvent(r.Chance(20))
	}
	return wReaccess()
}
func pickR(r *Rng, with bool, http bool, auth bool) ract {
	switch k := r.Intn(20); k {
	case 0, 1, 2:
		return aOK(pickVal(r))
	case 3:
		return aResource(r.Pick([]string{"test.model.1", "a..b", "x.y?q", ""}))
	case 4, 5:
		return aError(pickErr(r))
	case 6:
		return []ract{aNotFound(), aMethodNotFound(), aInvalidParams(""), aInvalidParams("m"), aInvalidQuery(""), aInvalidQuery("q"), aAccessDenied(), aAccessGranted()}[r.Intn(8)]
	case 7:
		return aAccess(r.Bool(), r.Pick([]string{"", "*", "set,get"}))
	case 8:
		return aModel(pickVal(r), r.Pick([]string{"", "q=1"}))
	case 9:
		return aCollection(pickVal(r), r.Pick([]string{"", "q=1"}))
	case 10:
		return aNew(r.Pick([]string{"test.model.7", "no good"}))
	case 11:
		return aTimeout([]time.Duration{0, 5 * time.Second, 123456789, -5}[r.Intn(4)])
	case 12, 13:
		if r.Chance(35) {
			return aStatusIfHTTP([]int{201, 404, 0}[r.Intn(3)])
		}
		if http || r.Chance(25) {
			return aStatus([]int{0, 200, 404, 503, -1}[r.Intn(5)])
		}
		return aTimeout(time.Second)
	case 14, 15:
		if r.Chance(35) {
			return aHeaderIfHTTP(r.Pick([]string{"Location", "X-A"}), [][]string{{"/x"}, {"v1", "v2"}}[r.Intn(2)])
		}
		if http || r.Chance(25) {
			return aHeader(r.Pick([]string{"A", "B", "Set-Cookie", ""}), [][]string{{}, {"v"}, {"v1", "v\"2"}}[r.Intn(3)])
		}
		return aOK(pickVal(r))
	case 16:
		if auth {
			return aToken(pickVal(r))
		}
		return aW(pickW(r, with, false))
	}
	return aW(pickW(r, with, false))
}
func pickQ(r *Rng) qact {
	switch r.Intn(12) {
	case 0:
		return qModel(pickVal(r))
	case 1:
		return qCollection(pickVal(r))
	case 2:
		return qNotFound()
	case 3:
		return qInvalidQuery(r.Pick([]string{"", "iq"}))
	case 4:
		return qError(pickErr(r))
	case 5:
		return qTimeout([]time.Duration{0, 1e9, -1}[r.Intn(3)])
	case 6, 7:
		cm := changeMaps[r.Intn(len(changeMaps))]
		return qChange(cm.name, cm.m)
	case 8, 9:
		return qAdd(pickVal(r), r.Intn(5)-1)
	case 10:
		return qRemove(r.Intn(5) - 1)
	}
	w := pickW(r, false, false)
	if strings.HasPrefix(w.name, "ChangeEvent") || strings.HasPrefix(w.name, "AddEvent") || strings.HasPrefix(w.name, "RemoveEvent") {
		return qNotFound() // these are overridden on a query request
	}
	return qW(w)
}

var optKeys = []string{"token", "params", "query", "header", "host", "remoteAddr", "uri"}

// pickWire chooses how the request is encoded on the wire: fields are OMITTED rather than written
// as zero values (a request not flagged HTTP normally has no isHttp field at all), or the payload
// is empty / null / {}.
func pickWire(r *Rng, q *reqv, needCid bool) {
	if !q.http && !needCid {
		switch r.Intn(10) {
		case 0:
			q.raw, q.cid = []byte(""), ""
			return
		case 1:
			q.raw, q.cid = []byte("null"), ""
			return
		case 2:
			q.raw, q.cid = []byte("{}"), ""
			return
		}
	}
	keys := []string{}
	if !q.http && r.Chance(30) {
		keys = append(keys, "isHttp") // explicit "isHttp":false
	}
	if needCid || r.Chance(60) {
		keys = append(keys, "cid")
	} else {
		q.cid = ""
	}
	for _, k := range optKeys {
		if r.Chance(35) {
			keys = append(keys, k)
		}
	}
	q.keys = keys
}

func pickMetaScript(r *Rng, http bool) []ract {
	var sc []ract
	for j, m := 0, r.Intn(3); j < m; j++ {
		switch r.Intn(5) {
		case 0:
			sc = append(sc, aStatusIfHTTP([]int{201, 404, 503}[r.Intn(3)]))
		case 1:
			sc = append(sc, aHeaderIfHTTP("Location", []string{"/new/" + strconv.Itoa(r.Intn(9))}))
		case 2:
			sc = append(sc, aStatus([]int{201, 302}[r.Intn(2)]))
		case 3:
			sc = append(sc, aHeader("Set-Cookie", []string{"a=b"}))
		default:
			sc = append(sc, aTimeout(time.Second))
		}
	}
	switch r.Intn(8) {
	case 0:
		sc = append(sc, aNotFound())
	case 1:
		sc = append(sc, aAccess(true, "*"))
	case 2:
		sc = append(sc, aError(pickErr(r)))
	case 3:
		sc = append(sc, aResource("test.model.2"))
	case 4: // missing response
	case 5:
		sc = append(sc, aW(wPanic(pickPk(r))))
	default:
		sc = append(sc, aOK(pickVal(r)))
	}
	return sc
}

// seqCase: several requests in a row through ONE running service; every request is validated against
// its OWN flags as sent on the wire (a field that is absent = zero value), so state that leaks from
// one request into a later one shows as meta on a non-HTTP response (V1) / a model mismatch / a
// handler-observed field that was not sent.
func seqCase(seed uint64) caseDef {
	r := NewRng(seed)
	ts := []top{tStart()}
	n := 3 + r.Intn(6)
	for i := 0; i < n; i++ {
		rt := r.Pick([]string{"access", "get", "call", "auth", "call", "auth"})
		http := rt != "get" && (i == 0 || r.Chance(30))
		q := reqv{rtype: rt, rname: rnames[r.Intn(len(rnames))], method: r.Pick([]string{"set", "new", "m"}), http: http, cid: "cid" + strconv.Itoa(r.Intn(100))}
		pickWire(r, &q, false)
		q.noReply = r.Chance(10)
		if r.Chance(75) {
			q.script = pickMetaScript(r, http)
		} else {
			for j, m := 0, r.Intn(5); j < m; j++ {
				q.script = append(q.script, pickR(r, false, http, rt == "auth" && q.cid != ""))
			}
		}
		ts = append(ts, tRequest(q))
		if q.noReply {
			ts = append(ts, probe(q.rname))
		}
	}
	return caseDef{cfgv{}, ts}
}

// probe: an ordinary request on the same resource (= same worker queue) right after a request without
// reply subject; when it is answered, whatever the service did with the earlier request is over
func probe(rname string) top {
	return tRequest(reqv{rtype: "call", rname: rname, method: "probe", cid: "cidP", script: []ract{aOK(goods[1])}})
}

// requests of every type delivered without a reply subject, handlers doing every kind of action:
// the unchanged code drops them (handler not run); nothing may ever be published on the subject ""
func noReplyCases() []caseDef {
	var out []caseDef
	scripts := []func() []ract{
		func() []ract { return []ract{aTimeout(1500 * time.Millisecond), aOK(goods[2])} },
		func() []ract { return []ract{aOK(goods[22])} },
		func() []ract { return []ract{aError(errarg{kind: 1, e: errvs()[0]})} },
		func() []ract { return []ract{aNotFound()} },
		func() []ract { return nil },
		func() []ract { return []ract{aW(wPanic(pkv{kind: 3, msg: "boom"}))} },
		func() []ract { return []ract{aTimeout(0), aW(wPanic(pkv{kind: 1}))} },
		func() []ract {
			return []ract{aW(wCustom("custom", goods[22])), aW(wReaccess()), aW(wResetEvent()), aOK(goods[0])}
		},
		func() []ract {
			return []ract{aStatusIfHTTP(201), aHeader("Location", []string{"/x"}), aTimeout(time.Second), aResource("test.model.2")}
		},
		func() []ract { return []ract{aOK(bads[0])} },
		func() []ract { return []ract{aTimeout(time.Hour), aTimeout(1), aModel(goods[17], "")} },
		func() []ract { return []ract{aOK(goods[1]), aTimeout(time.Second)} },
	}
	for _, rt := range []string{"access", "get", "call", "auth"} {
		for si, sc := range scripts {
			rn := rnames[si%len(rnames)]
			q := reqv{rtype: rt, rname: rn, method: "m", http: rt != "get" && si%2 == 0, cid: "cidN", noReply: true, script: sc()}
			if rt == "auth" && si == 3 {
				q.script = []ract{aToken(goods[22]), aTimeout(time.Second), aOK(goods[0])}
			}
			out = append(out, caseDef{cfgv{}, []top{tStart(), tRequest(q), probe(rn)}})
		}
		// no handler / bad payload / unknown resource without reply subject
		out = append(out, caseDef{cfgv{}, []top{tStart(), tRequest(reqv{rtype: rt, rname: "test.nomatch.x", method: "m", noReply: true, disp: "DNoMatch"}), probe("test.model.1")}})
		out = append(out, caseDef{cfgv{}, []top{tStart(), tRequest(reqv{rtype: rt, rname: "test.model.1", method: "m", noReply: true, raw: []byte("{"), disp: "(DBadJson " + cs(syntaxErr("{")) + ")"}), probe("test.model.1")}})
		out = append(out, caseDef{cfgv{}, []top{tStart(), tRequest(reqv{rtype: rt, rname: "test.bare.1", method: "other", noReply: true, disp: "DNoMethod"}), tRequest(reqv{rtype: "call", rname: "test.bare.1", method: "foo", cid: "c", script: nil, disp: "(DRun [AReply (KOK HNil)])"})}})
	}
	return out
}

func directedSeqs() []caseDef {
	out := noReplyCases()
	firstTypes := []string{"call", "auth", "access"}
	wires := []func(q *reqv){
		func(q *reqv) { q.keys = []string{"cid"} },                    // isHttp absent
		func(q *reqv) { q.keys = []string{"cid", "token", "params"} }, // isHttp absent, other fields
		func(q *reqv) { q.raw, q.cid = []byte(""), "" },               // empty payload
		func(q *reqv) { q.raw, q.cid = []byte("null"), "" },           // null
		func(q *reqv) { q.raw, q.cid = []byte("{}"), "" },             // empty object
		func(q *reqv) { q.keys = []string{"cid", "isHttp"} },          // explicit "isHttp":false
	}
	handlers := []func() []ract{
		func() []ract { return []ract{aStatusIfHTTP(201), aOK(goods[2])} },
		func() []ract { return []ract{aHeaderIfHTTP("Location", []string{"/x"}), aOK(goods[0])} },
		func() []ract { return []ract{aStatus(201), aOK(goods[2])} },
		func() []ract { return []ract{aHeader("Location", []string{"/x"}), aNotFound()} },
		func() []ract {
			return []ract{aStatusIfHTTP(404), aHeaderIfHTTP("X-A", []string{"1", "2"}), aAccess(true, "*")}
		},
	}
	k := 0
	for wi, w := range wires {
		for _, rt := range []string{"access", "get", "call", "auth"} {
			for hi, h := range handlers {
				ft := firstTypes[k%3]
				k++
				first := reqv{rtype: ft, rname: rnames[k%len(rnames)], method: "m", http: true, cid: "cidA", keys: []string{"cid", "token", "params", "header", "host", "remoteAddr", "uri", "query"}}
				if (wi+hi)%2 == 0 {
					first.script = []ract{aStatusIfHTTP(200), aOK(goods[2])}
				} else {
					first.script = []ract{aOK(goods[0])}
				}
				second := reqv{rtype: rt, rname: rnames[(k+1)%len(rnames)], method: "m", cid: "cidB"}
				w(&second)
				second.script = h()
				out = append(out, caseDef{cfgv{}, []top{tStart(), tRequest(first), tRequest(second)}})
			}
		}
	}
	// the flag must not stick: HTTP, then several unflagged requests, HTTP again, unflagged again
	for _, rt := range []string{"access", "call", "auth"} {
		mk := func(http bool, keys []string, sc []ract) top {
			cid := ""
			for _, k := range keys {
				if k == "cid" {
					cid = "cidS"
				}
			}
			return tRequest(reqv{rtype: rt, rname: "test.model.1", method: "m", http: http, cid: cid, keys: keys, script: sc})
		}
		out = append(out, caseDef{cfgv{}, []top{tStart(),
			mk(false, []string{"cid"}, []ract{aStatusIfHTTP(201), aOK(goods[2])}),
			mk(true, []string{"cid", "token"}, []ract{aStatusIfHTTP(201), aOK(goods[2])}),
			mk(false, []string{}, []ract{aStatusIfHTTP(201), aOK(goods[2])}),
			mk(false, []string{"cid"}, []ract{aHeaderIfHTTP("Location", []string{"/y"}), aOK(goods[2])}),
			mk(false, []string{"params"}, []ract{aStatus(302), aOK(goods[2])}),
			mk(true, []string{"cid"}, []ract{aStatus(302), aHeader("Location", []string{"/z"}), aOK(goods[0])}),
			mk(false, []string{"cid", "isHttp"}, []ract{aStatusIfHTTP(201), aOK(goods[2])}),
			mk(false, []string{"cid"}, []ract{aStatusIfHTTP(201), aError(errarg{kind: 1, e: errvs()[0]})}),
		}})
	}
	return out
}

func randomCase(seed uint64) caseDef {
	r := NewRng(seed)
	with := r.Chance(40)
	cfg := cfgv{withApply: with}
	if r.Chance(15) {
		cfg.setRes, cfg.setAcc = []string{"test.>"}, []string{"test.>"}
	}
	ts := []top{tStart()}
	n := 1 + r.Intn(3)
	haveQuery := false
	for i := 0; i < n; i++ {
		switch k := r.Intn(10); {
		case k < 5:
			rt := r.Pick([]string{"access", "get", "call", "auth"})
			http := rt != "get" && r.Chance(50)
			rn := rnames[r.Intn(len(rnames))]
			q := reqv{rtype: rt, rname: rn, method: r.Pick([]string{"set", "new", "m"}), http: http, cid: "cid" + strconv.Itoa(r.Intn(100))}
			if r.Chance(60) {
				pickWire(r, &q, false)
			}
			for j, m := 0, r.Intn(6); j < m; j++ {
				q.script = append(q.script, pickR(r, with, http, rt == "auth" && q.cid != ""))
			}
			q.noReply = r.Chance(8)
			ts = append(ts, tRequest(q))
			if q.noReply {
				ts = append(ts, probe(q.rname))
			}
		case k < 7:
			rn := rnames[r.Intn(len(rnames))]
			var sc []wact
			for j, m := 0, 1+r.Intn(5); j < m; j++ {
				w := pickW(r, with, !haveQuery)
				if strings.HasPrefix(w.name, "QueryEvent(fail=false") {
					haveQuery = true
				}
				sc = append(sc, w)
			}
			ts = append(ts, tWith(rn, sc))
		case k < 8:
			ts = append(ts, tSvc(pickSvc(r)))
		default:
			rn := rnames[r.Intn(4)]
			ts = append(ts, tWith(rn, []wact{wQueryEvent(false)}))
			for j, m := 0, 1+r.Intn(2); j < m; j++ {
				var sc []qact
				for jj, mm := 0, r.Intn(5); jj < mm; jj++ {
					sc = append(sc, pickQ(r))
				}
				ts = append(ts, tQuery([]byte(`{"query":"x=1"}`), "", sc))
			}
			haveQuery = false
		}
	}
	return caseDef{cfg, ts}
}

func main() {
	o := ParseOpts()
	dist := map[string]int{}
	var cases []Case
	var impl []ImplViolation
	addCase := func(d desc, cd caseDef) {
		c, iv := runCase(len(cases), d, cd, dist)
		dist["gen:"+d.Gen]++
		cases = append(cases, c)
		impl = append(impl, iv...)
	}
	if o.Replay != "" {
		var d desc
		if err := LoadReplay(o.Replay, &d); err != nil {
			panic(err)
		}
		switch d.Gen {
		case "directed":
			addCase(d, directed()[d.Idx])
		case "directed-seq":
			addCase(d, directedSeqs()[d.Idx])
		case "seq":
			addCase(d, seqCase(d.Seed))
		default:
			addCase(d, randomCase(d.Seed))
		}
	} else {
		for i, cd := range directed() {
			addCase(desc{Gen: "directed", Idx: i}, cd)
		}
		for i, cd := range directedSeqs() {
			addCase(desc{Gen: "directed-seq", Idx: i}, cd)
		}
		n := 500
		if o.Tier == "thorough" {
			n = 20000
		}
		if o.N > 0 {
			n = o.N
		}
		master := NewRng(o.Seed)
		for i := 0; i < n; i++ {
			s := master.Next()
			addCase(desc{Gen: "random", Seed: s}, randomCase(s))
		}
		for i := 0; i < n/3; i++ {
			s := master.Next()
			addCase(desc{Gen: "seq", Seed: s}, seqCase(s))
		}
	}
	Emit(o, "C07", "From GoRes Require Import Run.Run_C07.\nFrom Coq Require Import String.", "ccase",
		"directed cases (every reply method x every catalogue value incl. 33 unmarshalable ones: chan/func/NaN/failing or invalid MarshalJSON/cycles and 20 pre-encoded json.RawMessage / MarshalJSON-bytes values that are not valid JSON - truncated, missing value, dangling comma, extra closing bracket, trailing data, empty, nested in map/slice/struct - next to valid pre-encoded ones with and without surrounding whitespace x meta combinations x HTTP flag, error values with/without data, nil *Error via Error() and panic(), panics of every kind, Timeout, every event method x resource type x apply outcome, custom event names, Service.Reset/ResetAll/TokenEvent/TokenEventWithID/TokenReset with valid and invalid arguments, query events with query requests) + random handler/With/query scripts of 0-5 actions on a real res.Service over a recording connection + request SEQUENCES on one running service (HTTP-flagged then unflagged / empty / null / explicit-false payloads with fields omitted rather than zeroed, handlers setting meta conditionally on IsHTTP() and unconditionally; each request validated against its own wire flags, handler-observed request fields compared with the wire); every published message is validated; non-trivial = the service published something besides the start-up system.reset; distinct by the list of inputs",
		cases, dist, nil, impl, 250)
}
