// Correspondence harness for C11: drives the real mockstore and the real
// badgerstore (on a scratch BadgerDB) with sequential and concurrent histories
// of Create/Update/Delete/Value/Exists through read and write transactions and
// records, per call, the result class, the OnChange calls made during the call
// (with the goroutine they ran on) and, per history, the final content.
package main

import (
	"bytes"
	"encoding/json"
	"errors"
	"fmt"
	"math"
	"os"
	"runtime"
	"sort"
	"strconv"
	"strings"
	"sync"
	"sync/atomic"
	"time"

	"github.com/dgraph-io/badger"
	"github.com/jirenius/go-res/store"
	"github.com/jirenius/go-res/store/badgerstore"
	"github.com/jirenius/go-res/store/mockstore"

	. "verifharness/common"
)

// ---- descriptions (replayable) ----

type opDesc struct {
	K      string `json:"k"`                 // create|update|delete|value|exists
	N      int    `json:"n,omitempty"`       // payload
	Veto   bool   `json:"veto,omitempty"`    // some BeforeChange listener vetoes this change
	VetoAt int    `json:"veto_at,omitempty"` // 1-based index of the first vetoing listener (external per-call flag; 0 with Veto = 1)
	Mark   bool   `json:"mark,omitempty"`    // the value carries the marker field listener 1 vetoes on
	Wrong  int    `json:"wrong,omitempty"`   // 0 = value of the store's type, 1.. = some other Go type
	Unenc  int    `json:"unenc,omitempty"`   // value of the store's type that cannot be encoded: 1 NaN 2 +Inf 3 -Inf 4 func 5 chan 6 failing MarshalJSON (odd N: nested)
	NewID  string `json:"newid,omitempty"`   // what NewID returns if it is called (mockstore)
	NilEnc bool   `json:"nil_enc,omitempty"` // compact binary types: an empty encoding is returned as nil instead of []byte{}
}

type txnDesc struct {
	ID    string   `json:"id"`
	Write bool     `json:"write"`
	Ops   []opDesc `json:"ops"`
}

type caseDesc struct {
	Store        string      `json:"store"` // badger|mock
	Typed        bool        `json:"typed,omitempty"`
	Bin          string      `json:"bin,omitempty"` // badgerstore typed with a BinaryMarshaler/BinaryUnmarshaler type: ptr (*binPtr), map (binMap, value receivers), val (binVal{}: methods on the pointer only, so the store falls back to JSON)
	Prefix       string      `json:"prefix,omitempty"`
	BeforeChange bool        `json:"before_change,omitempty"`
	Listeners    int         `json:"listeners,omitempty"`      // number of BeforeChange listeners (0 with BeforeChange = 1)
	NoOnChange   bool        `json:"no_on_change,omitempty"`   // no OnChange listener is registered at all
	OnChangeMore int         `json:"on_change_more,omitempty"` // OnChange listeners beyond the first
	Hooks        bool        `json:"hooks,omitempty"`          // mockstore: OnExists/OnValue/OnCreate/OnUpdate/OnDelete set to functions with the default behaviour
	Foreign      string      `json:"foreign_entry,omitempty"`  // badgerstore: raw bytes put under id "a" behind the store's back (directed scenario)
	NewID        bool        `json:"newid,omitempty"`
	Txns         []txnDesc   `json:"txns,omitempty"`       // sequential history
	Goroutines   [][]txnDesc `json:"goroutines,omitempty"` // concurrent history: one list per goroutine
	Order        []string    `json:"observed_order,omitempty"`
	Isolation    *isoDesc    `json:"isolation,omitempty"` // many goroutines, each owning its own ids
}

// isoDesc describes one isolation run: Goroutines goroutines, each owning one id
// nobody else touches, each doing Rounds write/read-back rounds.
type isoDesc struct {
	Goroutines int      `json:"goroutines"`
	Rounds     int      `json:"rounds"`
	Seed       uint64   `json:"seed"`
	Failing    *isoFail `json:"failing,omitempty"`
	Failures   int      `json:"failures,omitempty"`
}

type isoFail struct {
	ID       string `json:"id"`
	Round    int    `json:"round"`
	Where    string `json:"where"`
	Expected string `json:"expected"`
	Got      string `json:"got"`
}

// ---- values ----

type item struct {
	N int       `json:"n"`
	V bool      `json:"v,omitempty"` // marker: the BeforeChange callback vetoes values that carry it
	F float64   `json:"f,omitempty"` // NaN / Inf make the value unencodable
	X *failJSON `json:"x,omitempty"` // non-nil makes the value unencodable
	S *item     `json:"s,omitempty"` // nesting
}

// failJSON is a json.Marshaler that always fails.
type failJSON struct{ N int }

func (failJSON) MarshalJSON() ([]byte, error) { return nil, errors.New("failJSON cannot be encoded") }

// unencodable reports whether the call passes a value of the store's type that the encoder rejects.
func (o opDesc) unencodable() bool {
	return (o.K == "create" || o.K == "update") && o.Wrong == 0 && o.Unenc > 0
}

func badLeaf(kind int, n int) interface{} {
	switch kind {
	case 1:
		return math.NaN()
	case 2:
		return math.Inf(1)
	case 3:
		return math.Inf(-1)
	case 4:
		return (func())(nil)
	case 5:
		return (chan int)(nil)
	}
	return failJSON{n}
}

type otherStruct struct {
	N int `json:"n"`
}

// ---- store types with their own binary encoding (not JSON: a tag byte + the reversed JSON) ----

var errBinEncode = errors.New("binary: value cannot be encoded")

func binEnc(tag byte, v interface{}) ([]byte, error) {
	j, err := json.Marshal(v)
	if err != nil {
		return nil, err
	}
	out := make([]byte, 0, len(j)+1)
	out = append(out, tag)
	for i := len(j) - 1; i >= 0; i-- {
		out = append(out, j[i])
	}
	return out, nil
}

func binDec(tag byte, d []byte, into interface{}) error {
	if len(d) == 0 || d[0] != tag {
		return errors.New("binary: not a value of this store")
	}
	j := make([]byte, 0, len(d)-1)
	for i := len(d) - 1; i >= 1; i-- {
		j = append(j, d[i])
	}
	return json.Unmarshal(j, into)
}

// binPtr: the POINTER implements encoding.BinaryMarshaler and BinaryUnmarshaler (SetType(&binPtr{})).
type binPtr struct {
	N   int  `json:"n"`
	V   bool `json:"v,omitempty"`
	Bad int  `json:"bad,omitempty"` // > 0: MarshalBinary fails
}
type binPtrWire struct {
	N int  `json:"n"`
	V bool `json:"v,omitempty"`
}

func (b *binPtr) MarshalBinary() ([]byte, error) {
	if b.Bad > 0 {
		return nil, errBinEncode
	}
	return binEnc('B', binPtrWire{b.N, b.V})
}
func (b *binPtr) UnmarshalBinary(d []byte) error {
	var w binPtrWire
	if err := binDec('B', d, &w); err != nil {
		return err
	}
	b.N, b.V, b.Bad = w.N, w.V, 0
	return nil
}

// binMap: a map type with VALUE receivers (SetType(binMap{})).
type binMap map[string]interface{}

func (m binMap) MarshalBinary() ([]byte, error) {
	if _, bad := m["bad"]; bad {
		return nil, errBinEncode
	}
	return binEnc('M', map[string]interface{}(m))
}
func (m binMap) UnmarshalBinary(d []byte) error {
	var w map[string]interface{}
	if err := binDec('M', d, &w); err != nil {
		return err
	}
	for k, v := range w {
		m[k] = v
	}
	return nil
}

// binVal: only *binVal has the methods, SetType(binVal{}) therefore stores JSON.
type binVal struct {
	N int     `json:"n"`
	V bool    `json:"v,omitempty"`
	F float64 `json:"f,omitempty"`
}

func (b *binVal) MarshalBinary() ([]byte, error) { return binEnc('V', *b) }
func (b *binVal) UnmarshalBinary(d []byte) error { return binDec('V', d, b) }

// binCompact: pointer type with a compact binary encoding: the zero value is ZERO bytes ([]byte{} or nil),
// small numbers are one byte, everything else is 'L' + length + JSON + padding (large: tens of kilobytes).
type binCompact struct {
	N      int  `json:"n"`
	V      bool `json:"v,omitempty"`
	Pad    int  `json:"pad,omitempty"`
	Bad    int  `json:"bad,omitempty"`
	nilEnc bool
}
type binCompactWire struct {
	N   int  `json:"n"`
	V   bool `json:"v,omitempty"`
	Pad int  `json:"pad,omitempty"`
}

func (b *binCompact) MarshalBinary() ([]byte, error) {
	switch {
	case b.Bad > 0:
		return nil, errBinEncode
	case b.N == 0 && !b.V && b.Pad == 0:
		if b.nilEnc {
			return nil, nil
		}
		return []byte{}, nil
	case b.N >= 1 && b.N <= 9 && !b.V && b.Pad == 0:
		return []byte{byte('0' + b.N)}, nil
	}
	j, _ := json.Marshal(binCompactWire{b.N, b.V, b.Pad})
	out := append([]byte{'L', byte(len(j))}, j...)
	for i := 0; i < b.Pad; i++ {
		out = append(out, byte('a'+i%26))
	}
	return out, nil
}
func (b *binCompact) UnmarshalBinary(d []byte) error {
	*b = binCompact{}
	switch {
	case len(d) == 0:
		return nil
	case len(d) == 1 && d[0] >= '1' && d[0] <= '9':
		b.N = int(d[0] - '0')
		return nil
	case len(d) >= 2 && d[0] == 'L' && len(d) >= 2+int(d[1]):
		var w binCompactWire
		if err := json.Unmarshal(d[2:2+int(d[1])], &w); err != nil {
			return err
		}
		if len(d) != 2+int(d[1])+w.Pad {
			return errors.New("binary: truncated value")
		}
		b.N, b.V, b.Pad = w.N, w.V, w.Pad
		return nil
	}
	return errors.New("binary: not a value of this store")
}

// binCMap: map type with value receivers; the empty map is ZERO bytes.
type binCMap map[string]interface{}

func (m binCMap) MarshalBinary() ([]byte, error) {
	if _, bad := m["bad"]; bad {
		return nil, errBinEncode
	}
	if len(m) == 0 {
		return []byte{}, nil
	}
	return binEnc('M', map[string]interface{}(m))
}
func (m binCMap) UnmarshalBinary(d []byte) error {
	if len(d) == 0 {
		return nil
	}
	var w map[string]interface{}
	if err := binDec('M', d, &w); err != nil {
		return err
	}
	for k, v := range w {
		m[k] = v
	}
	return nil
}

// payload N of the compact types: 0 = the zero value (empty encoding), 1-7 one byte, 8 = large
func compactPad(n int) int {
	if n == 8 {
		return 70000
	}
	return 0
}

// typed says whether values are Go structs (as opposed to untyped maps).
func (cd caseDesc) typed() bool { return cd.Typed || cd.Bin != "" }

func mkBinValue(cd caseDesc, o opDesc) interface{} {
	bad := 0
	if o.unencodable() {
		bad = o.Unenc
	}
	switch o.Wrong {
	case 0:
		switch cd.Bin {
		case "ptr":
			return &binPtr{N: o.N, V: o.Mark, Bad: bad}
		case "compact":
			return &binCompact{N: o.N, V: o.Mark, Pad: compactPad(o.N), Bad: bad, nilEnc: o.NilEnc}
		case "cmap":
			m := binCMap{}
			if o.N != 0 {
				m["n"] = float64(o.N)
			}
			if o.Mark {
				m["v"] = true
			}
			if bad > 0 {
				m["bad"] = float64(bad)
			}
			return m
		case "map":
			m := binMap{"n": float64(o.N)}
			if o.N%3 == 1 {
				m["t"] = "s" + strconv.Itoa(o.N)
			}
			if o.Mark {
				m["v"] = true
			}
			if bad > 0 {
				m["bad"] = float64(bad)
			}
			return m
		default:
			v := binVal{N: o.N, V: o.Mark}
			if bad > 0 {
				v.F = math.NaN() // JSON is what encodes this type
			}
			return v
		}
	case 1:
		return item{N: o.N}
	case 2:
		return "x" + strconv.Itoa(o.N)
	case 3: // the same underlying data in the other pointer-ness / plain map
		switch cd.Bin {
		case "ptr":
			return binPtr{N: o.N}
		case "compact":
			return binCompact{N: o.N}
		case "map", "cmap":
			return map[string]interface{}{"n": float64(o.N)}
		default:
			return &binVal{N: o.N}
		}
	case 9:
		return nil
	}
	return otherStruct{N: o.N}
}

// nl is the number of BeforeChange listeners of a store configuration.
func (cd caseDesc) nl() int {
	if cd.Store != "badger" || !cd.BeforeChange {
		return 0
	}
	if cd.Listeners < 1 {
		return 1
	}
	return cd.Listeners
}

// noc is the number of OnChange listeners of a store configuration.
func (cd caseDesc) noc() int {
	if cd.NoOnChange {
		return 0
	}
	return 1 + cd.OnChangeMore
}

// vetoAt is the 1-based index of the first listener that vetoes the call (0 = none).
func (o opDesc) vetoAt(nl int) int {
	if nl == 0 || !(o.K == "create" || o.K == "update" || o.K == "delete") {
		return 0
	}
	if o.Mark && o.K != "delete" && o.Wrong == 0 {
		return 1
	}
	if o.VetoAt > 0 && o.VetoAt <= nl {
		return o.VetoAt
	}
	if o.Veto && o.VetoAt == 0 && !o.Mark {
		return 1
	}
	return 0
}

// Values of an untyped store only use types that survive the JSON round trip
// unchanged (float64, string, bool, nested maps and slices), so that a value written
// again is deep-equal to the stored one.
func mkValue(cd caseDesc, o opDesc) interface{} {
	if cd.Bin != "" {
		return mkBinValue(cd, o)
	}
	typed := cd.Typed
	switch o.Wrong {
	case 0:
		if typed {
			it := item{N: o.N, V: o.Mark}
			if o.unencodable() {
				bad := item{N: o.N}
				switch o.Unenc {
				case 2:
					bad.F = math.Inf(1)
				case 3:
					bad.F = math.Inf(-1)
				case 6:
					bad.X = &failJSON{o.N}
				default:
					bad.F = math.NaN()
				}
				if o.N%2 == 1 {
					it.S = &bad
				} else {
					bad.V = o.Mark
					it = bad
				}
			}
			return it
		}
		m := map[string]interface{}{"n": float64(o.N)}
		if o.unencodable() {
			if o.N%2 == 1 {
				m["u"] = map[string]interface{}{"k": "x", "bad": []interface{}{1.5, badLeaf(o.Unenc, o.N)}}
			} else {
				m["u"] = badLeaf(o.Unenc, o.N)
			}
		}
		switch o.N % 3 {
		case 1:
			m["t"] = "s" + strconv.Itoa(o.N)
		case 2:
			m["m"] = map[string]interface{}{"k": true, "l": []interface{}{"x", 1.5}}
		}
		if o.Mark {
			m["v"] = true
		}
		return m
	case 1:
		if typed {
			return map[string]interface{}{"n": float64(o.N)}
		}
		return item{N: o.N, V: o.Mark}
	case 2:
		return "x" + strconv.Itoa(o.N)
	case 3:
		if typed {
			return &item{N: o.N}
		}
		return map[string]string{"n": strconv.Itoa(o.N)}
	case 9:
		return nil // nil interface value: not of the store type
	default:
		return otherStruct{N: o.N}
	}
}

// canon is the canonical JSON of a value; values the encoder rejects get a deterministic
// structural description instead (mockstore stores such values as they are).
func canon(v interface{}) string {
	b, err := json.Marshal(v)
	if err != nil {
		return "!unencodable:" + describe(v)
	}
	return string(b)
}

func describe(v interface{}) string {
	switch x := v.(type) {
	case nil:
		return "nil"
	case item:
		s := fmt.Sprintf("item{n:%d v:%v f:%v", x.N, x.V, x.F)
		if x.X != nil {
			s += " x:failJSON"
		}
		if x.S != nil {
			s += " s:" + describe(*x.S)
		}
		return s + "}"
	case *item:
		if x == nil {
			return "nil"
		}
		return "&" + describe(*x)
	case map[string]interface{}:
		keys := make([]string, 0, len(x))
		for k := range x {
			keys = append(keys, k)
		}
		sort.Strings(keys)
		var sb strings.Builder
		sb.WriteString("map{")
		for _, k := range keys {
			sb.WriteString(k + ":" + describe(x[k]) + " ")
		}
		return sb.String() + "}"
	case []interface{}:
		var sb strings.Builder
		sb.WriteString("[")
		for _, e := range x {
			sb.WriteString(describe(e) + " ")
		}
		return sb.String() + "]"
	case failJSON:
		return "failJSON"
	case binVal:
		return fmt.Sprintf("binVal{n:%d v:%v f:%v}", x.N, x.V, x.F)
	case func():
		return "func"
	case chan int:
		return "chan"
	}
	return fmt.Sprintf("%v", v)
}

func marker(v interface{}) bool {
	switch x := v.(type) {
	case item:
		return x.V
	case *item:
		return x != nil && x.V
	case map[string]interface{}:
		b, _ := x["v"].(bool)
		return b
	case *binPtr:
		return x != nil && x.V
	case *binCompact:
		return x != nil && x.V
	case binCMap:
		b, _ := x["v"].(bool)
		return b
	case binMap:
		b, _ := x["v"].(bool)
		return b
	case binVal:
		return x.V
	}
	return false
}

// ---- goroutine identity ----

func goid() int64 {
	var buf [64]byte
	n := runtime.Stack(buf[:], false)
	f := bytes.Fields(buf[:n])
	if len(f) < 2 {
		return -1
	}
	id, err := strconv.ParseInt(string(f[1]), 10, 64)
	if err != nil {
		return -1
	}
	return id
}

// ---- one store under observation ----

type cbRec struct {
	id     string
	before *string
	after  *string
}

type bcRec struct {
	k      int
	id     string
	before *string
	after  *string
}

type activeOp struct {
	desc  opDesc
	isDel bool
	cbs   []cbRec // what OnChange listener 1 saw
	bcs   []bcRec
	ocSeq []int           // OnChange listener indices in call order
	ocs   map[int][]cbRec // what the OnChange listeners beyond the first saw
}

var errVeto = errors.New("vetoed by BeforeChange")

type rig struct {
	cd     caseDesc
	st     store.Store
	mu     sync.Mutex
	active map[int64]*activeOp
	impl   []string // things only the harness can see
}

func (r *rig) note(s string) {
	r.mu.Lock()
	r.impl = append(r.impl, s)
	r.mu.Unlock()
}

func (r *rig) current() *activeOp {
	g := goid()
	r.mu.Lock()
	a := r.active[g]
	r.mu.Unlock()
	return a
}

func optJSON(v interface{}) *string {
	if v == nil {
		return nil
	}
	s := canon(v)
	return &s
}

// onChange is OnChange listener k (1-based, registration order).
func (r *rig) onChange(k int, id string, before, after interface{}) {
	a := r.current()
	if a == nil {
		r.note("OnChange ran on a goroutine that is not inside a mutating call (id " + id + ")")
		return
	}
	a.ocSeq = append(a.ocSeq, k)
	if k > 1 {
		if a.ocs == nil {
			a.ocs = map[int][]cbRec{}
		}
		a.ocs[k] = append(a.ocs[k], cbRec{id, optJSON(before), optJSON(after)})
		return
	}
	a.cbs = append(a.cbs, cbRec{id, optJSON(before), optJSON(after)})
	// the change must already be visible in the store when the callback runs
	var cur interface{}
	switch st := r.st.(type) {
	case *badgerstore.Store:
		if v, err := st.Get(id); err == nil {
			cur = v
		}
	case *mockstore.Store:
		cur = st.Resources[id] // the caller holds the store's write lock on this goroutine
	}
	if want, got := optS(optJSON(after)), optS(optJSON(cur)); want != got {
		r.note("OnChange for id " + id + " ran while the store did not hold the after-value")
	}
}

// beforeChange is listener k (1-based, registration order).  It vetoes when the call's
// external flag names it, and listener 1 also when the value carries the marker field.
func (r *rig) beforeChange(k int, id string, before, after interface{}) error {
	a := r.current()
	if a == nil {
		r.note("BeforeChange ran on a goroutine that is not inside a mutating call (id " + id + ")")
		return nil
	}
	a.bcs = append(a.bcs, bcRec{k, id, optJSON(before), optJSON(after)})
	if a.desc.vetoAt(r.cd.nl()) == k || (k == 1 && after != nil && marker(after)) {
		return errVeto
	}
	return nil
}

func (r *rig) newID() string {
	a := r.current()
	if a == nil {
		r.note("NewID ran on a goroutine that is not inside a call")
		return "orphan"
	}
	return a.desc.NewID
}

func newRig(cd caseDesc, db *badger.DB) *rig {
	r := &rig{cd: cd, active: map[int64]*activeOp{}}
	switch cd.Store {
	case "badger":
		st := badgerstore.NewStore(db)
		switch {
		case cd.Bin == "ptr":
			st.SetType(&binPtr{})
		case cd.Bin == "map":
			st.SetType(binMap{})
		case cd.Bin == "compact":
			st.SetType(&binCompact{})
		case cd.Bin == "cmap":
			st.SetType(binCMap{})
		case cd.Bin == "val":
			st.SetType(binVal{})
		case cd.Typed:
			st.SetType(item{})
		}
		// SetPrefix replaces an earlier prefix (also by the empty one); Type() is the zero value of the store's type
		st.SetPrefix("zz").SetPrefix(cd.Prefix)
		if ty := st.Type(); cd.Bin != "" {
			if want := map[string]string{"ptr": "*main.binPtr", "map": "main.binMap", "val": "main.binVal", "compact": "*main.binCompact", "cmap": "main.binCMap"}[cd.Bin]; fmt.Sprintf("%T", ty) != want {
				r.note(fmt.Sprintf("Type() returned %T", ty))
			}
		} else if (cd.Typed && ty != interface{}(item{})) || (!cd.Typed && fmt.Sprintf("%T|%v", ty, ty) != "map[string]interface {}|map[]") {
			r.note(fmt.Sprintf("Type() returned %T %v", ty, ty))
		}
		for k := 1; k <= cd.nl(); k++ {
			k := k
			st.BeforeChange(func(id string, before, after interface{}) error { return r.beforeChange(k, id, before, after) })
		}
		for k := 1; k <= cd.noc(); k++ {
			k := k
			st.OnChange(func(id string, before, after interface{}) { r.onChange(k, id, before, after) })
		}
		r.st = st
	default:
		st := mockstore.NewStore()
		if cd.NewID {
			st.NewID = r.newID
		}
		if cd.Hooks {
			installHooks(st)
		}
		for k := 1; k <= cd.noc(); k++ {
			k := k
			st.OnChange(func(id string, before, after interface{}) { r.onChange(k, id, before, after) })
		}
		r.st = st
	}
	return r
}

// installHooks sets every override hook of a mockstore to a function that does what the
// store does by default, so that the hook branches of the store run with the same model.
func installHooks(st *mockstore.Store) {
	st.OnExists = func(s *mockstore.Store, id string) bool { _, ok := s.Resources[id]; return ok }
	st.OnValue = func(s *mockstore.Store, id string) (interface{}, error) {
		v, ok := s.Resources[id]
		if !ok {
			return nil, store.ErrNotFound
		}
		return v, nil
	}
	st.OnCreate = func(s *mockstore.Store, id string, v interface{}) error {
		if _, ok := s.Resources[id]; ok {
			return store.ErrDuplicate
		}
		if s.Resources == nil {
			s.Resources = map[string]interface{}{}
		}
		s.Resources[id] = v
		return nil
	}
	st.OnUpdate = func(s *mockstore.Store, id string, v interface{}) (interface{}, error) {
		before, ok := s.Resources[id]
		if !ok {
			return nil, store.ErrNotFound
		}
		s.Resources[id] = v
		return before, nil
	}
	st.OnDelete = func(s *mockstore.Store, id string) (interface{}, error) {
		before, ok := s.Resources[id]
		if !ok {
			return nil, store.ErrNotFound
		}
		delete(s.Resources, id)
		return before, nil
	}
}

// observed outcome of one call
type obs struct {
	id      string
	desc    opDesc
	res     string // Coq term of type result
	cls     string
	cbs     []cbRec
	bcs     []bcRec
	idAfter string // ID() of the transaction right after the call
}

func classify(err error) (string, string) {
	switch {
	case err == nil:
		return "ROk", "ok"
	case errors.Is(err, errPanicked):
		return "RPanic", "panic"
	case errors.Is(err, store.ErrNotFound):
		return "ENotFound", "notfound"
	case errors.Is(err, store.ErrDuplicate):
		return "EDuplicate", "duplicate"
	case errors.Is(err, errVeto):
		return "EVeto", "veto"
	case err.Error() == "missing ID":
		return "EMissingID", "missingid"
	case strings.Contains(err.Error(), "value is of type"):
		return "EType", "type"
	case strings.HasPrefix(err.Error(), "json: unsupported") || strings.HasPrefix(err.Error(), "json: error calling Marshal") || errors.Is(err, errBinEncode):
		return "EEncode", "encode"
	}
	return "EOther", "other:" + err.Error()
}

// call runs one operation of an open transaction on the calling goroutine.
func (r *rig) call(txn interface{}, id string, o opDesc) (ob obs) {
	ob.id, ob.desc = id, o
	g := goid()
	a := &activeOp{desc: o}
	r.mu.Lock()
	r.active[g] = a
	r.mu.Unlock()
	defer func() {
		if p := recover(); p != nil {
			ob.res, ob.cls = "RPanic", "panic"
		}
		r.mu.Lock()
		delete(r.active, g)
		r.mu.Unlock()
		ob.cbs = a.cbs
		ob.bcs = a.bcs
		ob.idAfter = txn.(store.ReadTxn).ID()
		// every further OnChange listener sees what the first one saw, in registration order
		n := r.cd.noc()
		for i, k := range a.ocSeq {
			if k != i%n+1 {
				r.note(fmt.Sprintf("OnChange listeners of a %s on id %q were not called in registration order: %v", o.K, id, a.ocSeq))
				break
			}
		}
		for k := 2; k <= n; k++ {
			if cbTerms(a.ocs[k]) != cbTerms(a.cbs) {
				r.note(fmt.Sprintf("OnChange listener %d of a %s on id %q saw %s, listener 1 saw %s", k, o.K, id, cbTerms(a.ocs[k]), cbTerms(a.cbs)))
			}
		}
	}()
	rt := txn.(store.ReadTxn)
	switch o.K {
	case "value":
		v, err := rt.Value()
		if err == nil {
			ob.res, ob.cls = "(RVal "+B(canon(v))+")", "value"
		} else {
			ob.res, ob.cls = classify(err)
		}
	case "exists":
		ob.res, ob.cls = "(RBool "+Bool(rt.Exists())+")", "exists"
	default:
		wt, ok := txn.(store.WriteTxn)
		if !ok {
			panic("mutation in a read transaction (generator bug)")
		}
		var err error
		switch o.K {
		case "create":
			err = wt.Create(mkValue(r.cd, o))
		case "update":
			err = wt.Update(mkValue(r.cd, o))
		case "delete":
			err = wt.Delete()
		}
		ob.res, ob.cls = classify(err)
	}
	return
}

type txnRun struct {
	desc       txnDesc
	gor        int
	start, end int64
	obs        []obs
}

var clock int64

// runTxn opens, runs and closes one transaction; the interval is [lock acquired, just before Close].
func (r *rig) runTxn(t txnDesc, gor int, yield bool) txnRun {
	tr := txnRun{desc: t, gor: gor}
	var txn interface{}
	if t.Write {
		txn = r.st.Write(t.ID)
	} else {
		txn = r.st.Read(t.ID)
	}
	tr.start = atomic.AddInt64(&clock, 1)
	if got := txn.(store.ReadTxn).ID(); got != t.ID {
		r.note(fmt.Sprintf("ID() of a fresh transaction on %q returned %q", t.ID, got))
	}
	for _, o := range t.Ops {
		if yield {
			runtime.Gosched()
		}
		tr.obs = append(tr.obs, r.call(txn, t.ID, o))
	}
	if yield {
		runtime.Gosched()
	}
	tr.end = atomic.AddInt64(&clock, 1)
	if err := txn.(store.ReadTxn).Close(); err != nil {
		r.note("Close returned " + err.Error())
	}
	// Close on a closed transaction returns an error and must not release the lock a second time
	if err := txn.(store.ReadTxn).Close(); err == nil {
		r.note(fmt.Sprintf("second Close of a transaction on %q returned nil", t.ID))
	}
	return tr
}

var universe = []string{"a", "b", "c", "", "g1", "g2"}

func (r *rig) finalContent() []string {
	var out []string
	for _, id := range universe {
		txn := r.st.Read(id)
		var v interface{}
		var err error
		func() {
			defer func() {
				if p := recover(); p != nil {
					r.note(fmt.Sprintf("Value of %q panicked when reading the final content: %v", id, p))
					v, err = "!panic", nil
				}
			}()
			v, err = txn.Value()
		}()
		txn.Close()
		if err != nil {
			out = append(out, "("+B(id)+",None)")
		} else {
			out = append(out, "("+B(id)+",Some "+B(canon(v))+")")
		}
	}
	return out
}

// ---- Coq terms ----

func optS(s *string) string {
	if s == nil {
		return "None"
	}
	return "(Some " + B(*s) + ")"
}

func opTerm(cd caseDesc, ob obs) string {
	o := ob.desc
	env := fmt.Sprintf("(Env %s %s %s %s)", Bool(o.Wrong != 0), Nat(o.vetoAt(cd.nl())), B(o.NewID), Bool(o.unencodable()))
	var op string
	switch o.K {
	case "create":
		op = fmt.Sprintf("(OCreate %s %s %s)", B(ob.id), B(canon(mkValue(cd, o))), env)
	case "update":
		op = fmt.Sprintf("(OUpdate %s %s %s)", B(ob.id), B(canon(mkValue(cd, o))), env)
	case "delete":
		op = fmt.Sprintf("(ODelete %s %s)", B(ob.id), env)
	case "value":
		op = fmt.Sprintf("(OValue %s)", B(ob.id))
	default:
		op = fmt.Sprintf("(OExists %s)", B(ob.id))
	}
	cbs := make([]string, len(ob.cbs))
	for i, c := range ob.cbs {
		cbs[i] = fmt.Sprintf("(%s,%s,%s)", B(c.id), optS(c.before), optS(c.after))
	}
	return fmt.Sprintf("IO %s %s %s %s %s", op, ob.res, List(cbs), bcTerms(ob.bcs), B(ob.idAfter))
}

func bcTerms(bcs []bcRec) string {
	t := make([]string, len(bcs))
	for i, c := range bcs {
		t[i] = fmt.Sprintf("(%s,%s,%s,%s)", Nat(c.k), B(c.id), optS(c.before), optS(c.after))
	}
	return List(t)
}

func caseTerm(cd caseDesc, runs []txnRun, final []string) string {
	var kind string
	if cd.Store == "badger" {
		kind = "(SBadger " + B(cd.Prefix) + " " + Nat(cd.nl()) + ")"
	} else {
		kind = "(SMock " + Bool(cd.NewID) + ")"
	}
	var ops []string
	for _, tr := range runs {
		for _, ob := range tr.obs {
			ops = append(ops, opTerm(cd, ob))
		}
	}
	return fmt.Sprintf("KC %s %s\n %s\n %s", kind, Bool(cd.noc() > 0), List(ops), List(final))
}

// ---- BadgerDB scratch database, shared by all cases and wiped in between ----

type scratch struct {
	dir  string
	db   *badger.DB
	opts badger.Options
}

// reopen closes the database and opens it again on the same directory.
func (s *scratch) reopen() {
	if err := s.db.Close(); err != nil {
		panic(err)
	}
	db, err := badger.Open(s.opts)
	if err != nil {
		panic(err)
	}
	s.db = db
}

func openScratch() *scratch {
	dir, err := os.MkdirTemp("", "verif-c11-")
	if err != nil {
		panic(err)
	}
	opts := badger.DefaultOptions(dir)
	opts.Logger = nil
	opts.SyncWrites = false
	opts.EventLogging = false
	opts.ValueLogFileSize = 16 << 20
	opts.MaxTableSize = 8 << 20
	db, err := badger.Open(opts)
	if err != nil {
		os.RemoveAll(dir)
		panic(err)
	}
	return &scratch{dir, db, opts}
}

// reopenReadOnly closes the database and opens it again read-only: reads work, every write fails in badger.
func (s *scratch) reopenReadOnly() {
	if err := s.db.Close(); err != nil {
		panic(err)
	}
	o := s.opts
	o.ReadOnly = true
	db, err := badger.Open(o)
	if err != nil {
		panic(err)
	}
	s.db = db
}

func (s *scratch) close() {
	s.db.Close()
	os.RemoveAll(s.dir)
}

func (s *scratch) wipe() {
	var keys [][]byte
	s.db.View(func(txn *badger.Txn) error {
		it := txn.NewIterator(badger.IteratorOptions{})
		defer it.Close()
		for it.Rewind(); it.Valid(); it.Next() {
			keys = append(keys, it.Item().KeyCopy(nil))
		}
		return nil
	})
	if len(keys) == 0 {
		return
	}
	err := s.db.Update(func(txn *badger.Txn) error {
		for _, k := range keys {
			if err := txn.Delete(k); err != nil {
				return err
			}
		}
		return nil
	})
	if err != nil {
		panic(err)
	}
}

// ---- running a case ----

type result struct {
	c    Case
	impl []ImplViolation
	dist map[string]int
}

func tally(cd caseDesc, dist map[string]int, runs []txnRun) (succ, ryw int) {
	stored := map[string]string{} // metric only: last successfully written value per id
	for _, tr := range runs {
		if len(tr.obs) > 1 {
			dist["txn_multi_op"]++
		}
		wrote := false
		for _, ob := range tr.obs {
			cls := ob.cls
			if strings.HasPrefix(cls, "other:") {
				cls = "other"
			}
			dist["res_"+cls]++
			dist["callbacks"] += len(ob.cbs)
			dist["bc_calls"] += len(ob.bcs)
			if ob.desc.K == "update" || ob.desc.K == "create" {
				val := canon(mkValue(cd, ob.desc))
				if cur, ok := stored[ob.id]; ok && cur == val && ob.desc.K == "update" && ob.desc.Wrong == 0 {
					dist["update_to_stored_value"]++
					if ob.desc.vetoAt(cd.nl()) > 0 {
						dist["update_to_stored_value_vetoed"]++
					}
				}
				if ob.cls == "ok" {
					stored[ob.id] = val
				}
			} else if ob.desc.K == "delete" && ob.cls == "ok" {
				delete(stored, ob.id)
			}
			if ob.cls == "ok" {
				succ++
				wrote = true
			} else if ob.desc.K == "value" && wrote {
				ryw++
				dist["read_your_writes_reads"]++
			}
		}
	}
	return
}

func runSequential(cd caseDesc, sc *scratch) result {
	sc.wipe()
	r := newRig(cd, sc.db)
	me := goid()
	var runs []txnRun
	for _, t := range cd.Txns {
		runs = append(runs, r.runTxn(t, 0, false))
	}
	_ = me
	final := r.finalContent()
	res := result{dist: map[string]int{}}
	if cd.Store == "badger" {
		// the stored representation is the one of the store's type: the binary encoding for types
		// whose (pointer / map) value implements BinaryMarshaler+BinaryUnmarshaler, JSON otherwise
		want := map[string]byte{"ptr": 'B', "map": 'M'}[cd.Bin]
		if want == 0 {
			want = '{'
		}
		sc.db.View(func(txn *badger.Txn) error {
			it := txn.NewIterator(badger.DefaultIteratorOptions)
			defer it.Close()
			for it.Rewind(); it.Valid(); it.Next() {
				b, _ := it.Item().ValueCopy(nil)
				if cd.Bin == "compact" || cd.Bin == "cmap" {
					res.dist["raw_len_"+map[bool]string{true: "0", false: map[bool]string{true: "1", false: map[bool]string{true: "large", false: "other"}[len(b) > 1000]}[len(b) == 1]}[len(b) == 0]]++
					if len(b) == 0 || (len(b) == 1 && b[0] >= '1' && b[0] <= '9') || b[0] == 'L' || b[0] == 'M' {
						continue
					}
				}
				if len(b) == 0 || b[0] != want {
					r.note(fmt.Sprintf("stored bytes of key %q are %q, not in the encoding of the store's type", it.Item().Key(), b))
				}
				res.dist["raw_entries_checked"]++
			}
			return nil
		})
		if cd.Bin != "" {
			res.dist["cfg_bin_"+cd.Bin]++
		}
	}
	succ, ryw := tally(cd, res.dist, runs)
	res.c = Case{Term: caseTerm(cd, runs, final), Desc: cd, Nontrivial: succ >= 2 || ryw > 0}
	for _, s := range r.impl {
		res.impl = append(res.impl, ImplViolation{What: s, Desc: cd})
	}
	return res
}

func runConcurrent(cd caseDesc, sc *scratch) result {
	sc.wipe()
	r := newRig(cd, sc.db)
	var wg sync.WaitGroup
	all := make([][]txnRun, len(cd.Goroutines))
	startGate := make(chan struct{})
	for g := range cd.Goroutines {
		wg.Add(1)
		go func(g int) {
			defer wg.Done()
			<-startGate
			for _, t := range cd.Goroutines[g] {
				all[g] = append(all[g], r.runTxn(t, g, true))
			}
		}(g)
	}
	close(startGate)
	done := make(chan struct{})
	go func() { wg.Wait(); close(done) }()
	res := result{dist: map[string]int{}}
	select {
	case <-done:
	case <-time.After(30 * time.Second):
		res.impl = append(res.impl, ImplViolation{What: "concurrent transactions did not finish within 30 s (hang)", Desc: cd, Tags: []string{"hang"}})
		res.c = Case{Term: caseTerm(cd, nil, nil), Desc: cd}
		return res
	}
	var runs []txnRun
	for _, l := range all {
		runs = append(runs, l...)
	}
	sort.Slice(runs, func(i, j int) bool { return runs[i].start < runs[j].start })
	// a write transaction's interval must not overlap any other interval on the same id
	for i := range runs {
		for j := i + 1; j < len(runs); j++ {
			a, b := runs[i], runs[j]
			if a.desc.ID != b.desc.ID || (!a.desc.Write && !b.desc.Write) {
				continue
			}
			if b.start < a.end { // sorted by start: a.start < b.start
				res.impl = append(res.impl, ImplViolation{
					What: fmt.Sprintf("transactions on id %q open at the same time although one writes: goroutine %d [%d,%d] write=%v, goroutine %d [%d,%d] write=%v",
						a.desc.ID, a.gor, a.start, a.end, a.desc.Write, b.gor, b.start, b.end, b.desc.Write),
					Desc: cd, Tags: []string{"overlap"}})
				res.dist["overlaps"]++
			}
		}
	}
	// how much contention the run really had
	lastGor := map[string]int{}
	for i, a := range runs {
		if g, ok := lastGor[a.desc.ID]; ok && g != a.gor {
			res.dist["conc_same_id_handover"]++
		}
		lastGor[a.desc.ID] = a.gor
		for j := i + 1; j < len(runs) && runs[j].start < a.end; j++ {
			if runs[j].desc.ID != a.desc.ID {
				res.dist["conc_overlap_other_id"]++
			} else {
				res.dist["conc_overlap_readers"]++
			}
		}
	}
	for _, tr := range runs {
		m := "R"
		if tr.desc.Write {
			m = "W"
		}
		cd.Order = append(cd.Order, fmt.Sprintf("g%d:%s(%s)", tr.gor, m, tr.desc.ID))
	}
	final := r.finalContent()
	tally(cd, res.dist, runs)
	res.dist["concurrent_txns"] += len(runs)
	res.c = Case{Term: caseTerm(cd, runs, final), Desc: cd, Nontrivial: true, Tags: []string{"concurrent"}}
	for _, s := range r.impl {
		res.impl = append(res.impl, ImplViolation{What: s, Desc: cd})
	}
	return res
}

// ---- a stored entry the store cannot decode (put under the key behind the store's back) ----
// What the unchanged code does: Value returns the decoder's error (not not-found), Exists is
// false, Update and Delete fail with that error before any listener runs and change nothing,
// Create says duplicate (the key exists); the raw entry stays as it was.
func runForeign(cd caseDesc, sc *scratch) result {
	sc.wipe()
	r := newRig(cd, sc.db)
	res := result{dist: map[string]int{"foreign_entry": 1}}
	key := []byte("a")
	if cd.Prefix != "" {
		key = []byte(cd.Prefix + ".a")
	}
	raw := func() string {
		var out string
		sc.db.View(func(txn *badger.Txn) error {
			it, err := txn.Get(key)
			if err != nil {
				out = "<" + err.Error() + ">"
				return nil
			}
			b, _ := it.ValueCopy(nil)
			out = string(b)
			return nil
		})
		return out
	}
	if err := sc.db.Update(func(txn *badger.Txn) error { return txn.Set(key, []byte(cd.Foreign)) }); err != nil {
		panic(err)
	}
	bad := func(s string) {
		res.impl = append(res.impl, ImplViolation{What: "undecodable stored entry: " + s, Desc: cd, Tags: []string{"foreign"}})
	}
	expect := func(ob obs, what string, ok func(obs) bool) {
		if !ok(ob) {
			bad(fmt.Sprintf("%s gave %s", what, ob.cls))
		}
		if len(ob.cbs) != 0 {
			bad(what + " ran OnChange")
		}
		if raw() != cd.Foreign {
			bad(fmt.Sprintf("%s changed the entry to %q", what, raw()))
		}
	}
	isErr := func(ob obs) bool { return strings.HasPrefix(ob.cls, "other:") }
	w := r.st.Write("a")
	expect(r.call(w, "a", opDesc{K: "value"}), "Value", isErr)
	expect(r.call(w, "a", opDesc{K: "exists"}), "Exists", func(ob obs) bool { return ob.res == "(RBool false)" })
	up := r.call(w, "a", opDesc{K: "update", N: 1})
	expect(up, "Update", isErr)
	if len(up.bcs) != 0 {
		bad("Update called BeforeChange although the before-value could not be read")
	}
	expect(r.call(w, "a", opDesc{K: "delete"}), "Delete", isErr)
	expect(r.call(w, "a", opDesc{K: "create", N: 1}), "Create", func(ob obs) bool { return ob.cls == "duplicate" })
	w.Close()
	rd := r.st.Read("a")
	expect(r.call(rd, "a", opDesc{K: "value"}), "Value in a read transaction", isErr)
	rd.Close()
	sc.wipe()
	for _, n := range r.impl {
		res.impl = append(res.impl, ImplViolation{What: n, Desc: cd})
	}
	res.c = Case{Term: caseTerm(cd, nil, nil), Desc: cd}
	return res
}

// ---- isolation: many goroutines, each the only user of its own id ----
//
// Nobody but the owner touches an id, so whatever the interleaving, a read of the
// id must return exactly the last value the owner committed (C11: the history is
// equivalent to one operation at a time PER ID), the OnChange before-value must be
// the previously committed value, and the content must survive reopening the
// database.  Values carry their owner and round and vary in size.  Everything is
// checked on the spot; the first rounds of every id additionally go to the Coq
// oracle as an ordinary history.

type isoItem struct {
	O string  `json:"o"`
	S string  `json:"s"`
	P string  `json:"p"`
	F float64 `json:"f,omitempty"` // NaN makes the value unencodable
}

var isoPadSmall = []int{0, 8, 8, 8, 16, 16, 40, 64}
var isoPadAll = []int{0, 8, 8, 8, 16, 16, 40, 64, 300, 1500}

// isoBin: pointer type with its own binary encoding (isolation runs with Bin = "ptr")
type isoBin struct {
	O   string `json:"o"`
	S   string `json:"s"`
	P   string `json:"p"`
	Bad bool   `json:"bad,omitempty"`
}
type isoBinWire struct {
	O string `json:"o"`
	S string `json:"s"`
	P string `json:"p"`
}

func (b *isoBin) MarshalBinary() ([]byte, error) {
	if b.Bad {
		return nil, errBinEncode
	}
	return binEnc('B', isoBinWire{b.O, b.S, b.P})
}
func (b *isoBin) UnmarshalBinary(d []byte) error {
	var w isoBinWire
	if err := binDec('B', d, &w); err != nil {
		return err
	}
	b.O, b.S, b.P, b.Bad = w.O, w.S, w.P, false
	return nil
}

func isoValue(cd caseDesc, owner string, round int, pad int) interface{} {
	typed := cd.Typed
	seq := fmt.Sprintf("%06d", round)
	mark := owner + "." + seq + "/"
	var sb strings.Builder
	for sb.Len() < pad {
		sb.WriteString(mark)
	}
	p := sb.String()[:pad]
	if cd.Bin != "" {
		return &isoBin{O: owner, S: seq, P: p}
	}
	if typed {
		return isoItem{O: owner, S: seq, P: p}
	}
	return map[string]interface{}{"o": owner, "s": seq, "p": p}
}

const isoSampleRounds = 8

type isoSlot struct {
	id      string
	gid     int64
	last    *string // canonical JSON of the last committed value, nil = absent
	pending *string // after-value of the mutation in progress
	round   int
	cbs     []cbRec
	bcs     []bcRec
	veto    bool        // the listener vetoes the call in progress (external flag)
	lastV   interface{} // the Go value last committed
	sample  []string    // Coq terms (iop) of the first rounds
}

type isoRun struct {
	cd    caseDesc
	slots map[string]*isoSlot
	mu    sync.Mutex
	fails int
	first []isoFail // read failures (at most 3)
	other []isoFail // anything else (at most 2)
}

// an isolation run registers at most one listener of each kind
func (ir *isoRun) nl() int {
	if ir.cd.nl() > 0 {
		return 1
	}
	return 0
}
func (ir *isoRun) noc() int {
	if ir.cd.noc() > 0 {
		return 1
	}
	return 0
}

func (ir *isoRun) fail(id string, round int, where, expected, got string) {
	ir.mu.Lock()
	ir.fails++
	if strings.HasPrefix(where, "read does not return") {
		if len(ir.first) < 3 {
			ir.first = append(ir.first, isoFail{id, round, where, expected, got})
		}
	} else if len(ir.other) < 2 {
		ir.other = append(ir.other, isoFail{id, round, where, expected, got})
	}
	ir.mu.Unlock()
}

func showOpt(s *string) string {
	if s == nil {
		return "<absent>"
	}
	return *s
}

func (ir *isoRun) onChange(id string, before, after interface{}) {
	sl := ir.slots[id]
	if sl == nil {
		ir.fail(id, -1, "OnChange for an id nobody writes", "", "")
		return
	}
	if g := goid(); g != sl.gid {
		ir.fail(id, sl.round, "OnChange ran on another goroutine than the caller's", strconv.FormatInt(sl.gid, 10), strconv.FormatInt(g, 10))
		return
	}
	b, a := optJSON(before), optJSON(after)
	sl.cbs = append(sl.cbs, cbRec{id, b, a})
	if showOpt(b) != showOpt(sl.last) {
		ir.fail(id, sl.round, "OnChange before-value is not the last committed value", showOpt(sl.last), showOpt(b))
	}
	if showOpt(a) != showOpt(sl.pending) {
		ir.fail(id, sl.round, "OnChange after-value is not the value being written", showOpt(sl.pending), showOpt(a))
	}
}

// beforeChange is the only BeforeChange listener of a badgerstore isolation run.
func (ir *isoRun) beforeChange(id string, before, after interface{}) error {
	sl := ir.slots[id]
	if sl == nil {
		ir.fail(id, -1, "BeforeChange for an id nobody writes", "", "")
		return nil
	}
	if g := goid(); g != sl.gid {
		ir.fail(id, sl.round, "BeforeChange ran on another goroutine than the caller's", strconv.FormatInt(sl.gid, 10), strconv.FormatInt(g, 10))
		return nil
	}
	b, a := optJSON(before), optJSON(after)
	sl.bcs = append(sl.bcs, bcRec{1, id, b, a})
	if showOpt(b) != showOpt(sl.last) {
		ir.fail(id, sl.round, "BeforeChange before-value is not the last committed value", showOpt(sl.last), showOpt(b))
	}
	if showOpt(a) != showOpt(sl.pending) {
		ir.fail(id, sl.round, "BeforeChange after-value is not the value being written", showOpt(sl.pending), showOpt(a))
	}
	if sl.veto {
		return errVeto
	}
	return nil
}

func cbTerms(cbs []cbRec) string {
	t := make([]string, len(cbs))
	for i, c := range cbs {
		t[i] = fmt.Sprintf("(%s,%s,%s)", B(c.id), optS(c.before), optS(c.after))
	}
	return List(t)
}

// readBack checks Value and Exists of an open transaction against the last committed value.
func (ir *isoRun) readBack(sl *isoSlot, rt store.ReadTxn, where string, sample bool) {
	defer func() {
		if p := recover(); p != nil {
			ir.fail(sl.id, sl.round, "read does not return the latest committed write: Value/Exists "+where+" panicked", showOpt(sl.last), fmt.Sprint("panic: ", p))
		}
	}()
	v, err := rt.Value()
	var res string
	switch {
	case err == nil:
		got := canon(v)
		res = "(RVal " + B(got) + ")"
		if sl.last == nil || got != *sl.last {
			ir.fail(sl.id, sl.round, "read does not return the latest committed write: Value "+where, showOpt(sl.last), got)
		}
	default:
		r, cls := classify(err)
		res = r
		if sl.last != nil || r != "ENotFound" {
			ir.fail(sl.id, sl.round, "read does not return the latest committed write: Value "+where, showOpt(sl.last), "error "+cls)
		}
	}
	ex := rt.Exists()
	if ex != (sl.last != nil) {
		ir.fail(sl.id, sl.round, "read does not return the latest committed write: Exists "+where, Bool(sl.last != nil), Bool(ex))
	}
	if sample {
		sl.sample = append(sl.sample,
			fmt.Sprintf("IO (OValue %s) %s [] [] %s", B(sl.id), res, B(rt.ID())),
			fmt.Sprintf("IO (OExists %s) (RBool %s) [] [] %s", B(sl.id), Bool(ex), B(rt.ID())))
	}
}

const envNone = "(Env false 0%nat [] false)"
const envVeto1 = "(Env false 1%nat [] false)"
const envUnenc = "(Env false 0%nat [] true)"

var errPanicked = errors.New("the call panicked")

// safeCall turns a panic of a store call into an error, so that the transaction can still be closed.
func safeCall(f func() error) (err error) {
	defer func() {
		if p := recover(); p != nil {
			err = fmt.Errorf("%w: %v", errPanicked, p)
		}
	}()
	return f()
}

func (ir *isoRun) owner(st store.Store, g int, d isoDesc) {
	sl := ir.slots[fmt.Sprintf("w%02d", g)]
	sl.gid = goid()
	r := NewRng(d.Seed*1000003 + uint64(g)*7919 + 1)
	ownerName := fmt.Sprintf("g%02d", g)
	for round := 0; round < d.Rounds; round++ {
		sl.round = round
		sample := round < isoSampleRounds
		w := st.Write(sl.id)
		sl.cbs, sl.bcs = nil, nil
		nl, noc := ir.nl(), ir.noc()
		// every mutation that reaches the listener stage calls the listener exactly once
		checkBC := func(what string, reached bool) {
			want := 0
			if reached {
				want = nl
			}
			if len(sl.bcs) != want {
				ir.fail(sl.id, round, what+" did not call the BeforeChange listener the right number of times", strconv.Itoa(want), strconv.Itoa(len(sl.bcs)))
			}
		}
		if vetoRound := r.Chance(8); vetoRound && nl > 0 && sl.last != nil {
			// an Update the listener vetoes, half of the time to the very value that is stored
			v := sl.lastV
			if r.Bool() {
				v = isoValue(ir.cd, ownerName, round, isoPadSmall[r.Intn(len(isoPadSmall))])
			}
			want := canon(v)
			sl.pending, sl.veto = &want, true
			err := safeCall(func() error { return w.Update(v) })
			sl.veto = false
			res, cls := classify(err)
			if res != "EVeto" {
				ir.fail(sl.id, round, "vetoed Update did not fail with the veto error", "veto", cls)
				if err == nil {
					sl.last, sl.lastV = &want, v // the store says it committed the value
				}
			}
			if len(sl.cbs) != 0 {
				ir.fail(sl.id, round, "vetoed Update ran OnChange", "0", strconv.Itoa(len(sl.cbs)))
			}
			checkBC("vetoed Update", true)
			if sample {
				sl.sample = append(sl.sample, fmt.Sprintf("IO (OUpdate %s %s %s) %s %s %s %s", B(sl.id), B(want), envVeto1, res, cbTerms(sl.cbs), bcTerms(sl.bcs), B(w.ID())))
			}
		} else if unencRound := r.Chance(4); unencRound && ir.cd.Store == "badger" && sl.last != nil {
			// an Update with a value of the right type that the encoder rejects
			var v interface{}
			if ir.cd.Bin != "" {
				b := isoValue(ir.cd, ownerName, round, 8).(*isoBin)
				b.Bad = true
				v = b
			} else if ir.cd.Typed {
				it := isoValue(ir.cd, ownerName, round, 8).(isoItem)
				it.F = math.NaN()
				v = it
			} else {
				m := isoValue(ir.cd, ownerName, round, 8).(map[string]interface{})
				m["f"] = math.Inf(1)
				v = m
			}
			want := canon(v)
			sl.pending = &want
			err := safeCall(func() error { return w.Update(v) })
			res, cls := classify(err)
			if res != "EEncode" {
				ir.fail(sl.id, round, "Update with a value that cannot be encoded did not fail with the encoder's error", "encode", cls)
				if err == nil {
					sl.last, sl.lastV = &want, v // the store says it committed the value
				}
			}
			if len(sl.cbs) != 0 {
				ir.fail(sl.id, round, "failed Update ran OnChange", "0", strconv.Itoa(len(sl.cbs)))
			}
			checkBC("unencodable Update", true)
			if sample {
				sl.sample = append(sl.sample, fmt.Sprintf("IO (OUpdate %s %s %s) %s %s %s %s", B(sl.id), B(want), envUnenc, res, cbTerms(sl.cbs), bcTerms(sl.bcs), B(w.ID())))
			}
		} else if absentRound := r.Chance(30); absentRound && sl.last == nil {
			// the id does not exist: Delete and Update must say so and change nothing
			var err error
			var term string
			sl.pending = nil
			if r.Bool() {
				err = safeCall(w.Delete)
				term = fmt.Sprintf("(ODelete %s %s)", B(sl.id), envNone)
			} else {
				v := isoValue(ir.cd, ownerName, round, 8)
				want := canon(v)
				sl.pending = &want
				err = safeCall(func() error { return w.Update(v) })
				term = fmt.Sprintf("(OUpdate %s %s %s)", B(sl.id), B(want), envNone)
				if err == nil {
					sl.last, sl.lastV = &want, v // the store says it committed the value
				}
			}
			res, cls := classify(err)
			if res != "ENotFound" {
				ir.fail(sl.id, round, "Delete/Update of a missing id did not fail with not-found", "notfound", cls)
			}
			if len(sl.cbs) != 0 {
				ir.fail(sl.id, round, "failed Update ran OnChange", "0", strconv.Itoa(len(sl.cbs)))
			}
			if sample {
				sl.sample = append(sl.sample, fmt.Sprintf("IO %s %s %s %s %s", term, res, cbTerms(sl.cbs), bcTerms(sl.bcs), B(w.ID())))
			}
		} else if sl.last != nil && r.Chance(3) {
			// delete
			sl.pending = nil
			before := sl.last
			err := safeCall(w.Delete)
			res, cls := classify(err)
			if err != nil {
				ir.fail(sl.id, round, "Delete of an existing id failed", "nil error", cls)
			} else {
				sl.last, sl.lastV = nil, nil
				if len(sl.cbs) != noc {
					ir.fail(sl.id, round, "Delete did not run each OnChange listener exactly once", strconv.Itoa(noc), strconv.Itoa(len(sl.cbs)))
				}
			}
			_ = before
			checkBC("Delete", true)
			if sample {
				sl.sample = append(sl.sample, fmt.Sprintf("IO (ODelete %s %s) %s %s %s %s", B(sl.id), envNone, res, cbTerms(sl.cbs), bcTerms(sl.bcs), B(w.ID())))
			}
		} else {
			pads := isoPadAll
			if sample {
				pads = isoPadSmall
			}
			v := isoValue(ir.cd, ownerName, round, pads[r.Intn(len(pads))])
			if sl.last != nil && r.Chance(10) {
				v = sl.lastV // write the stored value again
			}
			want := canon(v)
			sl.pending = &want
			var err error
			kind := "Update"
			if sl.last == nil {
				kind = "Create"
				err = safeCall(func() error { return w.Create(v) })
			} else {
				err = safeCall(func() error { return w.Update(v) })
			}
			res, cls := classify(err)
			if err != nil {
				ir.fail(sl.id, round, kind+" that must succeed failed", "nil error", cls)
			} else {
				sl.last, sl.lastV = &want, v
				if len(sl.cbs) != noc {
					ir.fail(sl.id, round, kind+" did not run each OnChange listener exactly once", strconv.Itoa(noc), strconv.Itoa(len(sl.cbs)))
				}
			}
			checkBC(kind, true)
			if sample {
				sl.sample = append(sl.sample, fmt.Sprintf("IO (O%s %s %s %s) %s %s %s %s", kind, B(sl.id), B(want), envNone, res, cbTerms(sl.cbs), bcTerms(sl.bcs), B(w.ID())))
			}
		}
		sl.pending = nil
		ir.readBack(sl, w, "inside the write transaction", sample)
		if got := w.ID(); got != sl.id {
			ir.fail(sl.id, round, "ID() of the write transaction is not the id it was opened with", sl.id, got)
		}
		if err := w.Close(); err != nil {
			ir.fail(sl.id, round, "Close failed", "nil", err.Error())
		}
		if round%16 == 0 {
			if err := w.Close(); err == nil {
				ir.fail(sl.id, round, "second Close returned nil", "error", "nil")
			}
		}
		rt := st.Read(sl.id)
		ir.readBack(sl, rt, "in a read transaction after the commit", sample)
		rt.Close()
	}
}

func runIsolation(cd caseDesc) result {
	d := *cd.Isolation
	d.Failing, d.Failures = nil, 0
	cd.Isolation = &d
	ir := &isoRun{cd: cd, slots: map[string]*isoSlot{}}
	for g := 0; g < d.Goroutines; g++ {
		id := fmt.Sprintf("w%02d", g)
		ir.slots[id] = &isoSlot{id: id}
	}
	var sc *scratch
	mk := func() store.Store {
		if cd.Store == "badger" {
			st := badgerstore.NewStore(sc.db)
			if cd.Bin != "" {
				st.SetType(&isoBin{})
			} else if cd.Typed {
				st.SetType(isoItem{})
			}
			st.SetPrefix(cd.Prefix)
			if ir.nl() > 0 {
				st.BeforeChange(ir.beforeChange)
			}
			if ir.noc() > 0 {
				st.OnChange(ir.onChange)
			}
			return st
		}
		st := mockstore.NewStore()
		if ir.noc() > 0 {
			st.OnChange(ir.onChange)
		}
		return st
	}
	if cd.Store == "badger" {
		sc = openScratch()
		defer sc.close()
	}
	st := mk()
	var wg sync.WaitGroup
	gate := make(chan struct{})
	for g := 0; g < d.Goroutines; g++ {
		wg.Add(1)
		go func(g int) {
			defer wg.Done()
			<-gate
			ir.owner(st, g, d)
		}(g)
	}
	close(gate)
	wg.Wait()
	// at the end, and again after reopening the database: every id holds its owner's last value
	finalCheck := func(st store.Store, where string) {
		for g := 0; g < d.Goroutines; g++ {
			sl := ir.slots[fmt.Sprintf("w%02d", g)]
			sl.round = d.Rounds
			rt := st.Read(sl.id)
			ir.readBack(sl, rt, where, false)
			rt.Close()
		}
	}
	finalCheck(st, "after all goroutines finished")
	res := result{dist: map[string]int{}}
	if cd.Store == "badger" {
		sc.reopen()
		finalCheck(mk(), "after reopening the database")
		res.dist["iso_reopened"]++
		// a database-level error (the database is now read-only): every mutation returns the error,
		// changes nothing and runs no OnChange; reads still return the committed values
		sc.reopenReadOnly()
		ro := mk()
		me := goid()
		for g := 0; g < d.Goroutines; g++ {
			sl := ir.slots[fmt.Sprintf("w%02d", g)]
			sl.gid, sl.round = me, d.Rounds+1
			v := isoValue(cd, "ro", g, 8)
			want := canon(v)
			w := ro.Write(sl.id)
			try := func(what string, f func() error) {
				sl.cbs, sl.bcs = nil, nil
				err := f()
				if err == nil || errors.Is(err, store.ErrNotFound) || errors.Is(err, store.ErrDuplicate) {
					ir.fail(sl.id, sl.round, what+" on a read-only database did not return the database error", "error", fmt.Sprint(err))
				}
				if len(sl.cbs) != 0 {
					ir.fail(sl.id, sl.round, "failed Update ran OnChange", "0", strconv.Itoa(len(sl.cbs)))
				}
				res.dist["iso_readonly_ops"]++
			}
			if sl.last != nil {
				sl.pending = &want
				try("Update", func() error { return safeCall(func() error { return w.Update(v) }) })
				sl.pending = nil
				try("Delete", func() error { return safeCall(w.Delete) })
			} else {
				sl.pending = &want
				try("Create", func() error { return safeCall(func() error { return w.Create(v) }) })
			}
			sl.pending = nil
			ir.readBack(sl, w, "on the read-only database after failed mutations", false)
			w.Close()
		}
	}
	var ops []string
	for g := 0; g < d.Goroutines; g++ {
		ops = append(ops, ir.slots[fmt.Sprintf("w%02d", g)].sample...)
	}
	kind := "(SMock false)"
	if cd.Store == "badger" {
		kind = "(SBadger " + B(cd.Prefix) + " " + Nat(ir.nl()) + ")"
	}
	kind += " " + Bool(ir.noc() > 0)
	res.dist["iso_goroutines"] += d.Goroutines
	res.dist["iso_rounds"] += d.Goroutines * d.Rounds
	res.dist["iso_failures"] += ir.fails
	all := append([]isoFail{}, ir.first...)
	if len(all) == 0 {
		all = ir.other
	}
	caseCd := cd
	if len(all) > 0 {
		fd := d
		fd.Failing, fd.Failures = &all[0], ir.fails
		caseCd.Isolation = &fd
	}
	res.c = Case{Term: fmt.Sprintf("KC %s\n %s\n []", kind, List(ops)), Desc: caseCd, Nontrivial: true, Tags: []string{"isolation"}}
	for i := range all {
		f := all[i]
		fd := d
		fd.Failing, fd.Failures = &f, ir.fails
		fcd := cd
		fcd.Isolation = &fd
		code := "V9/V6"
		if strings.HasPrefix(f.Where, "read does not return") {
			code = "V8 Value did not return the current value"
		} else if strings.HasPrefix(f.Where, "OnChange before") {
			code = "V7"
		} else if strings.Contains(f.Where, "BeforeChange") {
			code = "V11"
		} else if strings.HasPrefix(f.Where, "vetoed Update did not fail") {
			code = "V4 a BeforeChange veto did not fail"
		} else if strings.HasPrefix(f.Where, "vetoed Update ran OnChange") || strings.HasPrefix(f.Where, "failed Update ran OnChange") {
			code = "V5"
		} else if strings.HasPrefix(f.Where, "Delete/Update of a missing id") {
			code = "V3 Update/Delete on a missing id did not fail with not-found"
		} else if strings.HasPrefix(f.Where, "Update with a value that cannot be encoded") {
			code = "V4 a value that cannot be encoded did not fail"
		}
		res.impl = append(res.impl, ImplViolation{
			What: fmt.Sprintf("%s: %s (id %s, owned by one goroutine, round %d): expected %.200s, got %.200s; %d failures in this run",
				code, f.Where, f.ID, f.Round, f.Expected, f.Got, ir.fails),
			Desc: fcd, Tags: []string{"isolation"}})
	}
	return res
}

// observers: 0 both kinds of listener, 1 none at all, 2 only BeforeChange, 3 only OnChange
func genIsolation(r *Rng, store string, typed bool, prefix string, rounds int, observers int) caseDesc {
	return caseDesc{Store: store, Typed: typed, Prefix: prefix,
		BeforeChange: store == "badger" && (observers == 0 || observers == 2), Listeners: 1,
		NoOnChange: observers == 1 || observers == 2,
		Isolation:  &isoDesc{Goroutines: 8 + r.Intn(9), Rounds: rounds, Seed: r.Next() % 1000000}}
}

// ---- generators ----

// nil interface values are passed to Create/Update too (badgerstore used to panic in reflect; fixed in /repo). VERIF_C11_NIL=0 leaves them out.
var nilValues = os.Getenv("VERIF_C11_NIL") != "0"

// genState is generation heuristics only (never an oracle): which ids probably exist,
// the payload last written per id (so that repeats of the stored value are frequent) and
// the veto switches per id that are toggled in the middle of a history.
type genState struct {
	shadow  map[string]bool
	lastN   map[string]int
	toggles map[string]int
}

func newGenState(withShadow bool) *genState {
	gs := &genState{lastN: map[string]int{}, toggles: map[string]int{}}
	if withShadow {
		gs.shadow = map[string]bool{}
	}
	return gs
}

func genOp(r *Rng, cd caseDesc, kinds []string, id string, gs *genState) opDesc {
	// a small pool of payloads per id: writing the value that is already stored is common
	o := opDesc{K: r.Pick(kinds), N: r.Intn(3)}
	if n, ok := gs.lastN[id]; ok && r.Chance(30) {
		o.N = n
	}
	if o.K == "create" || o.K == "update" {
		if r.Chance(12) {
			o.Wrong = 1 + r.Intn(4)
			if nilValues && cd.Store == "badger" && r.Chance(40) {
				o.Wrong = 9
			}
		}
	}
	if cd.Bin == "compact" || cd.Bin == "cmap" {
		// 0 = the zero value whose encoding is empty, 1-7 one byte, 8 large
		switch k := r.Intn(100); {
		case k < 40:
			o.N = 0
			o.NilEnc = r.Bool()
		case k < 50:
			o.N = 8
		}
	}
	if (o.K == "create" || o.K == "update") && o.Wrong == 0 && r.Chance(9) {
		o.Unenc = 1 + r.Intn(6) // right type, but the encoder rejects it
	}
	if nl := cd.nl(); nl > 0 && (o.K == "create" || o.K == "update" || o.K == "delete") {
		if k := gs.toggles[id]; k > 0 {
			o.VetoAt = k // the veto switch of this id is on
		} else if r.Chance(12) {
			o.VetoAt = 1 + r.Intn(nl)
			if o.VetoAt == 1 && o.K != "delete" && o.Wrong == 0 && r.Bool() {
				o.Mark = true // vetoed because of the value itself
			}
		}
		o.Veto = o.vetoAt(nl) > 0
	}
	if cd.Store == "mock" && o.K == "create" {
		o.NewID = r.Pick([]string{"g1", "g1", "g2", "g2", "a", "b", "c"})
		if r.Chance(3) {
			o.NewID = ""
		}
	}
	return o
}

var mutKinds = []string{"create", "create", "create", "update", "update", "update", "delete", "delete", "value", "value", "exists"}
var readKinds = []string{"value", "value", "exists"}
var freshKinds = []string{"create", "create", "create", "create", "create", "create", "update", "delete", "value", "exists"}
var existKinds = []string{"create", "update", "update", "update", "update", "delete", "delete", "value", "value", "value", "exists"}

func genConfig(r *Rng) caseDesc {
	if r.Chance(62) {
		// which observers are registered: none at all, only BeforeChange, only OnChange, both, several of each
		cd := caseDesc{Store: "badger", Typed: r.Bool(), Prefix: r.Pick([]string{"", "", "p", "x.y"}), BeforeChange: r.Chance(60), Listeners: 1 + r.Intn(3)}
		if r.Chance(25) {
			cd.Bin = r.Pick([]string{"ptr", "map", "val", "compact", "compact", "cmap"})
		}
		genObservers(r, &cd)
		return cd
	}
	cd := caseDesc{Store: "mock", NewID: r.Bool(), Hooks: r.Chance(25)}
	genObservers(r, &cd)
	return cd
}

func genObservers(r *Rng, cd *caseDesc) {
	switch k := r.Intn(100); {
	case k < 30:
		cd.NoOnChange = true
	case k < 75:
	default:
		cd.OnChangeMore = 1 + r.Intn(2)
	}
}

// shadow is only a generation heuristic (which ids probably exist), never an oracle.
func genTxn(r *Rng, cd caseDesc, ids []string, maxOps int, gs *genState) txnDesc {
	shadow := gs.shadow
	t := txnDesc{ID: r.Pick(ids)}
	if r.Chance(12) {
		t.ID = ""
	}
	// flip the veto switch of this id now and then (it stays for the following transactions)
	if nl := cd.nl(); nl > 0 && r.Chance(10) {
		if gs.toggles[t.ID] > 0 {
			gs.toggles[t.ID] = 0
		} else {
			gs.toggles[t.ID] = 1 + r.Intn(nl)
		}
	}
	t.Write = r.Chance(70)
	n := 1
	if r.Chance(45) {
		n = 2 + r.Intn(3)
	}
	if n > maxOps {
		n = maxOps
	}
	for i := 0; i < n; i++ {
		kinds := readKinds
		if t.Write {
			kinds = mutKinds
			if shadow != nil {
				if shadow[t.ID] {
					kinds = existKinds
				} else {
					kinds = freshKinds
				}
			}
		}
		o := genOp(r, cd, kinds, t.ID, gs)
		stored := o.Wrong == 0 && !o.Veto && !(o.unencodable() && cd.Store == "badger")
		if stored && (o.K == "create" || o.K == "update") {
			gs.lastN[t.ID] = o.N
		}
		if shadow != nil && stored {
			switch o.K {
			case "create":
				if t.ID != "" {
					shadow[t.ID] = true
				}
			case "delete":
				shadow[t.ID] = false
			}
		}
		t.Ops = append(t.Ops, o)
	}
	return t
}

func genSequential(r *Rng) caseDesc {
	cd := genConfig(r)
	n := 1 + r.Intn(25)
	gs := newGenState(true)
	for left := n; left > 0; {
		t := genTxn(r, cd, []string{"a", "b", "c"}, left, gs)
		left -= len(t.Ops)
		cd.Txns = append(cd.Txns, t)
	}
	return cd
}

func genConcurrent(r *Rng) caseDesc {
	cd := genConfig(r)
	ids := []string{"a", "b"}
	if r.Bool() {
		ids = append(ids, "c")
	}
	g := 2 + r.Intn(5)
	for i := 0; i < g; i++ {
		var l []txnDesc
		nt := 5 + r.Intn(16)
		gs := newGenState(false)
		for k := 0; k < nt; k++ {
			t := genTxn(r, cd, ids, 3, gs)
			if r.Chance(90) && t.ID == "" {
				t.ID = r.Pick(ids)
			}
			l = append(l, t)
		}
		cd.Goroutines = append(cd.Goroutines, l)
	}
	return cd
}

// directed histories around a value of the right type that cannot be encoded: the failing
// Create/Update is followed, in the same write transaction and in later transactions, by
// Value/Exists/Update/Delete/Create, so that a wedged or half-written id shows.
func genDirectedUnenc() []caseDesc {
	cfgs := []caseDesc{
		{Store: "badger", Typed: true, Prefix: "p", BeforeChange: true, Listeners: 2},
		{Store: "badger", Typed: false, Prefix: "", BeforeChange: true, Listeners: 1},
		{Store: "badger", Typed: true, Prefix: ""},
		{Store: "badger", Typed: false, Prefix: "x.y", NoOnChange: true},
		{Store: "badger", Typed: true, Prefix: "", BeforeChange: true, Listeners: 3, NoOnChange: true},
		{Store: "mock", NewID: true, OnChangeMore: 1},
		{Store: "mock"},
		{Store: "badger", Bin: "ptr", Prefix: "p", BeforeChange: true, Listeners: 1},
		{Store: "badger", Bin: "map", Prefix: ""},
		{Store: "badger", Bin: "val", Prefix: "", BeforeChange: true, Listeners: 2},
	}
	var out []caseDesc
	for _, cfg := range cfgs {
		for kind := 1; kind <= 6; kind++ {
			for _, n := range []int{2, 3} {
				bad := func(k string) opDesc { return opDesc{K: k, N: n, Unenc: kind, NewID: "g1"} }
				seqs := [][]opDesc{
					{{K: "create", N: 1, NewID: "g2"}, bad("update"), {K: "value"}, {K: "exists"}, {K: "update", N: 2}, {K: "value"}, {K: "delete"}, {K: "create", N: 1, NewID: "g2"}},
					{bad("create"), {K: "value"}, {K: "exists"}, {K: "create", N: 1, NewID: "g2"}, bad("update"), bad("create"), {K: "value"}, {K: "delete"}, {K: "exists"}},
				}
				for _, ops := range seqs {
					one := cfg
					one.Txns = []txnDesc{{ID: "a", Write: true, Ops: ops}}
					out = append(out, one)
					sep := cfg
					for _, o := range ops {
						sep.Txns = append(sep.Txns, txnDesc{ID: "a", Write: o.K != "value" || n == 2, Ops: []opDesc{o}})
					}
					out = append(out, sep)
				}
			}
		}
	}
	return out
}

// directed histories for the compact binary types: values whose encoding is empty ([]byte{} / nil),
// one byte or large are created, read, replaced, deleted and created again.
func genDirectedCompact() []caseDesc {
	type pv struct {
		n   int
		nil bool
	}
	vals := []pv{{0, false}, {0, true}, {1, false}, {8, false}}
	var out []caseDesc
	for _, cfg := range []caseDesc{
		{Store: "badger", Bin: "compact", Prefix: ""},
		{Store: "badger", Bin: "compact", Prefix: "p", BeforeChange: true, Listeners: 1, NoOnChange: true},
		{Store: "badger", Bin: "cmap", Prefix: "x.y", OnChangeMore: 1},
	} {
		for _, a := range vals {
			for _, b := range vals {
				ops := []opDesc{
					{K: "create", N: a.n, NilEnc: a.nil}, {K: "exists"}, {K: "value"}, {K: "create", N: b.n, NilEnc: b.nil},
					{K: "update", N: b.n, NilEnc: b.nil}, {K: "value"}, {K: "exists"}, {K: "update", N: a.n, NilEnc: a.nil}, {K: "value"},
					{K: "delete"}, {K: "exists"}, {K: "value"}, {K: "delete"}, {K: "create", N: a.n, NilEnc: a.nil}, {K: "value"},
				}
				one := cfg
				one.Txns = []txnDesc{{ID: "a", Write: true, Ops: ops}}
				out = append(out, one)
				sep := cfg
				for i, o := range ops {
					sep.Txns = append(sep.Txns, txnDesc{ID: "a", Write: !(o.K == "value" || o.K == "exists") || i%2 == 0, Ops: []opDesc{o}})
				}
				out = append(out, sep)
			}
		}
	}
	return out
}

// all histories of at most maxLen single-operation transactions over a small alphabet
func genExhaustive(cd caseDesc, maxLen int) []caseDesc {
	var alpha []txnDesc
	for _, id := range []string{"a", ""} {
		alpha = append(alpha,
			txnDesc{ID: id, Write: true, Ops: []opDesc{{K: "create", N: 1, NewID: "a"}}},
			txnDesc{ID: id, Write: true, Ops: []opDesc{{K: "create", N: 2, Wrong: 1, NewID: "g1"}}},
			txnDesc{ID: id, Write: true, Ops: []opDesc{{K: "update", N: 3}}},
			txnDesc{ID: id, Write: true, Ops: []opDesc{{K: "update", N: 1}}}, // the value Create stores
			txnDesc{ID: id, Write: true, Ops: []opDesc{{K: "create", N: 2, Unenc: 1, NewID: "a"}}},
			txnDesc{ID: id, Write: true, Ops: []opDesc{{K: "update", N: 3, Unenc: 6}}},
			txnDesc{ID: id, Write: true, Ops: []opDesc{{K: "delete"}}},
			txnDesc{ID: id, Write: false, Ops: []opDesc{{K: "value"}}},
			txnDesc{ID: id, Write: true, Ops: []opDesc{{K: "exists"}}},
		)
		if cd.BeforeChange {
			alpha = append(alpha,
				txnDesc{ID: id, Write: true, Ops: []opDesc{{K: "create", N: 4, Veto: true, Mark: true}}},
				txnDesc{ID: id, Write: true, Ops: []opDesc{{K: "create", N: 1, Veto: true, VetoAt: cd.nl()}}},
				txnDesc{ID: id, Write: true, Ops: []opDesc{{K: "update", N: 5, Veto: true, VetoAt: 1}}},
				txnDesc{ID: id, Write: true, Ops: []opDesc{{K: "update", N: 1, Veto: true, VetoAt: cd.nl()}}}, // stored value again, vetoed
				txnDesc{ID: id, Write: true, Ops: []opDesc{{K: "delete", Veto: true, VetoAt: cd.nl()}}},
			)
		}
	}
	var out []caseDesc
	var rec func(cur []txnDesc, n int)
	rec = func(cur []txnDesc, n int) {
		if len(cur) > 0 {
			c := cd
			c.Txns = append([]txnDesc{}, cur...)
			out = append(out, c)
		}
		if n == 0 {
			return
		}
		for _, t := range alpha {
			rec(append(append([]txnDesc{}, cur...), t), n-1)
		}
	}
	rec(nil, maxLen)
	return out
}

func main() {
	o := ParseOpts()
	r := NewRng(o.Seed)
	sc := openScratch()
	defer sc.close()
	var cases []Case
	var impl []ImplViolation
	dist := map[string]int{}
	add := func(kind string, res result) {
		dist[kind]++
		dist["cfg_"+res.c.Desc.(caseDesc).Store]++
		if res.c.Nontrivial {
			dist["nontrivial"]++
		}
		for k, v := range res.dist {
			dist[k] += v
		}
		cases = append(cases, res.c)
		impl = append(impl, res.impl...)
	}
	if o.Replay != "" {
		var cd caseDesc
		if err := LoadReplay(o.Replay, &cd); err != nil {
			panic(err)
		}
		cd.Order = nil
		if cd.Foreign != "" {
			add("replay_foreign", runForeign(cd, sc))
		} else if cd.Isolation != nil {
			add("replay_isolation", runIsolation(cd))
		} else if len(cd.Goroutines) > 0 {
			n := 20
			if o.N > 0 {
				n = o.N
			}
			for i := 0; i < n; i++ {
				add("replay_concurrent", runConcurrent(cd, sc))
			}
		} else {
			add("replay", runSequential(cd, sc))
		}
	} else {
		thorough := o.Tier == "thorough"
		// (a) bounded-exhaustive single-operation transactions
		exCfgs := []caseDesc{
			{Store: "badger", Typed: true, Prefix: "p", BeforeChange: true, Listeners: 2},
			{Store: "badger", Typed: false, Prefix: "", BeforeChange: true, Listeners: 1},
			{Store: "mock", NewID: true},
			{Store: "badger", Typed: false, Prefix: "p", NoOnChange: true}, // no listener of any kind
			{Store: "mock", NoOnChange: true},
			{Store: "badger", Bin: "ptr", Prefix: ""}, // binary encoding, pointer type
		}
		exLen := 2
		if thorough {
			exLen = 3
			exCfgs = append(exCfgs,
				caseDesc{Store: "badger", Typed: true, Prefix: ""},
				caseDesc{Store: "badger", Typed: false, Prefix: "p"},
				caseDesc{Store: "mock"},
				caseDesc{Store: "badger", Typed: true, Prefix: "", BeforeChange: true, Listeners: 2, NoOnChange: true}, // only BeforeChange
				caseDesc{Store: "badger", Typed: true, Prefix: "x.y", OnChangeMore: 2},
				caseDesc{Store: "badger", Bin: "map", Prefix: "p", BeforeChange: true, Listeners: 1},
				caseDesc{Store: "badger", Bin: "val", Prefix: ""})
		}
		for _, cfg := range exCfgs {
			for _, cd := range genExhaustive(cfg, exLen) {
				add("exhaustive", runSequential(cd, sc))
			}
		}
		for _, f := range []string{"{\"n\":", "\x00\x01", "[1,2]", "\"str\""} {
			for _, typed := range []bool{true, false} {
				add("foreign_entry", runForeign(caseDesc{Store: "badger", Typed: typed, Prefix: map[bool]string{true: "p", false: ""}[typed], BeforeChange: true, Listeners: 1, Foreign: f}, sc))
			}
		}
		for _, f := range []string{"{\"n\":1}", "B", "M}1:\"n\"", ""} {
			for _, bin := range []string{"ptr", "map"} {
				if f == "" {
					f = "\x00"
				}
				add("foreign_entry", runForeign(caseDesc{Store: "badger", Bin: bin, Prefix: "", BeforeChange: true, Listeners: 1, Foreign: f}, sc))
			}
		}
		for _, cd := range genDirectedCompact() {
			add("directed_compact", runSequential(cd, sc))
		}
		for _, cd := range genDirectedUnenc() {
			add("directed_unencodable", runSequential(cd, sc))
		}
		// (b) random sequential histories, 1-25 operations, one or several per transaction
		nseq, nconc := 1000, 60
		if thorough {
			nseq, nconc = 12000, 800
		}
		if o.N > 0 {
			nseq = o.N
		}
		for i := 0; i < nseq; i++ {
			add("sequential", runSequential(genSequential(r), sc))
		}
		// (c) concurrent histories: 2-6 goroutines x 5-20 transactions over 2-3 ids
		for i := 0; i < nconc; i++ {
			add("concurrent", runConcurrent(genConcurrent(r), sc))
		}
		// (d) isolation: 8-16 goroutines, each the only user of its own id, many write/read-back rounds
		niso, rounds := 1, 1200
		if thorough {
			niso, rounds = 4, 4000
		}
		for i := 0; i < niso; i++ {
			add("isolation", runIsolation(genIsolation(r, "badger", false, "iso", rounds, i%4)))
			add("isolation", runIsolation(genIsolation(r, "badger", true, "", rounds*2/3, (i+1)%4)))
			binIso := genIsolation(r, "badger", false, "q", rounds/3, 2+int(o.Seed+uint64(i))%2)
			binIso.Bin = "ptr" // pointer type with its own binary encoding
			add("isolation", runIsolation(binIso))
			add("isolation", runIsolation(genIsolation(r, "mock", false, "", rounds/3, int(o.Seed+uint64(i))%2*1)))
		}
	}
	Emit(o, "C11", "From GoRes Require Import Run.Run_C11.", "kcase",
		"histories of Create/Update/Delete/Value/Exists through Read/Write transactions of the real badgerstore (scratch BadgerDB; typed struct / untyped map / types with their own binary encoding: pointer type, map type with value receivers, value type that falls back to JSON, compact pointer and map types whose zero value encodes to ZERO bytes ([]byte{} or nil), small values to one byte and others to 70 KB (96 directed create/read/replace/delete/re-create histories plus 40% empty payloads in the random ones), with the stored bytes checked to be in that encoding; prefix \"\"/p/x.y) and mockstore (with/without NewID), every section with stores that have no listener at all, only BeforeChange, only OnChange, both, or several of each (0-3 of each kind; further OnChange listeners must see what the first saw, in registration order; without OnChange listener the callback expectations are vacuous and results, reads and final content are still compared): all histories of <=2 (thorough <=3) single-operation transactions over ids {a,\"\"}, random sequential histories of 1-25 operations over {a,b,c,\"\"} with 1-4 operations per transaction, a pool of 3 payloads per id (Updates to the stored value are common), 1-3 BeforeChange listeners whose vetoes come from a per-call flag, a per-id switch toggled mid-history or a marker in the value, BeforeChange calls recorded per operation, 9% of the written values of the right type but unencodable (NaN, +-Inf, func, chan, failing MarshalJSON, flat or nested; also in 480 directed histories that go on using the id afterwards), and concurrent runs of 2-6 goroutines x 5-20 transactions over 2-3 ids serialised by observed lock acquisition order, and isolation runs of 8-16 goroutines each owning one id for 400-1200 (thorough up to 4000) write/read-back rounds (incl. vetoed Updates, half of them to the stored value) with owner- and round-stamped values of 30-1500 bytes, checked on the spot, at the end and after reopening the database (first 8 rounds per id also go to the Coq oracle); non-trivial = at least two successful mutations, or a read of the transaction's own write, or a concurrent run; distinct by the whole observed history",
		cases, dist, nil, impl, 300)
}
