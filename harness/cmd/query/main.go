// Correspondence harness for property C15 (query events).
//
// A real res.Service runs on a scripted res.Conn.  ChanSubscribe for a query inbox hands the
// harness the query channel, so the harness itself plays NATS: it puts query requests into that
// channel with a non-blocking send (dropped when the channel is full, like nats.go), also after the
// expiry ("delivered after the drain was requested").  The hook points of /repo (build tag verif)
// - Gate("query-recv"), Gate("query-done"), Gate("query-expire"), Note("query-listener-exit") and
// the runWith notes - are recorded in one totally ordered log together with every callback
// invocation and every published message; the log is converted, per query event, to the label
// sequence of coq/Query/Model.v.
//
// The hooks are process-global and carry no query event identity, so a process drives ONE service
// at a time with a single-threaded director (every gate arrival is held until the director has
// attributed it); concurrency comes from running worker processes side by side (-worker).
package main

import (
	"bytes"
	"encoding/json"
	"errors"
	"flag"
	"fmt"
	"os"
	"os/exec"
	"runtime"
	"runtime/pprof"
	"strconv"
	"strings"
	"sync"
	"sync/atomic"
	"time"

	res "github.com/jirenius/go-res"
	"github.com/jirenius/go-res/verifhook"
	"github.com/nats-io/nats-server/v2/server"
	nats "github.com/nats-io/nats.go"

	. "verifharness/common"
)

const queryDuration = 25 * time.Millisecond
const chanSize = 10

// ---------- scenario description ----------

type action struct {
	K   string `json:"k"`             // model coll notfound invq error timeout change add remove panic
	V   int    `json:"v,omitempty"`   // value / other-panic value
	OK  bool   `json:"ok,omitempty"`  // value can be marshalled
	Neg bool   `json:"neg,omitempty"` // negative idx / duration; empty change event
	Idx int    `json:"idx,omitempty"` // idx / milliseconds
	E   string `json:"e,omitempty"`   // error kind: res nilres plain niliface / panic kind: res nilres error errpanic string other
	C   int    `json:"c,omitempty"`   // custom error code id
	M   int    `json:"m,omitempty"`   // message id, -1 = empty
}

type reqSpec struct {
	PKind  int      `json:"pkind"`  // 0 query 1 missing 2 malformed
	PVar   int      `json:"pvar"`   // which concrete payload of that class
	Script []action `json:"script"` // what the callback does (PKind 0 only)
	Phase  string   `json:"phase"`  // A free listener, H held with it, B buffered while held, E while the expiry is held, D after done was closed, X after the listener returned; R racy
	Delay  int      `json:"delay"`  // racy: microseconds before the send
}

type qeSpec struct {
	Res       string    `json:"res"`      // m c u p g
	ID        int       `json:"id"`       // resource id
	ViaCall   bool      `json:"via_call"` // created from a call handler instead of Service.With
	FailSub   bool      `json:"fail_sub"`
	Reqs      []reqSpec `json:"reqs"`
	TrigQuery string    `json:"trig_query,omitempty"` // query of the resource the query event is sent from ("" = none)
	Nested    bool      `json:"nested,omitempty"`     // sent from inside a request callback of the previous query event (its request's query is the triggering query)
	Run       int       `json:"run,omitempty"`        // restart scenario: created in this Serve run of the service object
	Stale     int       `json:"stale,omitempty"`      // restart scenario: requests sent to its subject in the NEXT run
}

// connEv is a call made while query events are active that must leave them alone: the handlers the service
// installs on the connection for reconnects and disconnects, and the reset calls.
type connEv struct {
	At   string `json:"at"`   // after-create after-early mid-expire (of every batch)
	What string `json:"what"` // reconnect disconnect resetall reset tokenreset
}

type scenario struct {
	ConnEvs []connEv `json:"conn_events,omitempty"`
	Dur     string   `json:"duration,omitempty"` // SetQueryEventDuration argument ("" = 25ms); zero and negative mean: expired at once
	Kind    string   `json:"kind"`               // directed racy shutdown history
	Workers int      `json:"workers"`
	QEs     []qeSpec `json:"qes"`
	Batches []int    `json:"batches"` // sizes, directed
	Perturb uint64   `json:"perturb"`
	History int      `json:"history"` // number of query events of a history scenario
	Seed    uint64   `json:"seed"`
	ShutAt  int      `json:"shut_at"` // shutdown scenario: shut down before the expiry of this batch
	NExp    int      `json:"n_exp"`   // restart scenario: run-0 query events that expire before the Shutdown
	Index   int      `json:"index"`
	Gen     genRef   `json:"gen"`
}

// genRef names a generated scenario: generate(seed, tier, n)[index].  Replay files carry this
// reference (scenarios of 50 query events are too large to repeat in every case description).
type genRef struct {
	Seed   uint64 `json:"seed"`
	Tier   string `json:"tier"`
	N      int    `json:"n"`
	Index  int    `json:"index"`
	Subset bool   `json:"race_subset,omitempty"`
}

func (r *runner) desc(qe int) map[string]interface{} {
	d := map[string]interface{}{"gen": r.sc.Gen, "kind": r.sc.Kind, "query_events": len(r.sc.QEs), "workers": r.sc.Workers}
	if len(r.sc.ConnEvs) > 0 {
		d["calls_while_query_events_active"] = r.sc.ConnEvs
	}
	if r.sc.Dur != "" {
		d["SetQueryEventDuration"] = r.sc.Dur
	}
	if qe >= 0 && qe < len(r.sc.QEs) {
		q := r.sc.QEs[qe]
		ph := ""
		for _, rq := range q.Reqs {
			ph += rq.Phase
		}
		d["qe"] = qe
		d["resource"] = fmt.Sprintf("test.%s.%d", q.Res, q.ID)
		d["fail_sub"] = q.FailSub
		d["sent_from_resource_query"] = q.TrigQuery
		if q.Nested {
			d["sent_from_resource_query"] = "(nested: the query of the parent's request)"
		}
		var zl []int
		for j, rq := range q.Reqs {
			if rq.PKind == 1 && payloads[1][rq.PVar%len(payloads[1])] == "" {
				zl = append(zl, j)
			}
		}
		if zl != nil {
			d["zero_length_payload_requests"] = zl
		}
		d["request_phases"] = ph
		if len(r.sc.QEs) <= 4 {
			d["scenario"] = r.sc
		}
	}
	return d
}

var payloads = [3][]string{
	{`{"query":"%s"}`, `{"query":"%s","extra":[1,2]}`, `{"Query":"%s"}`, ` { "query" : "%s" } `, `{"x":{"query":"no"},"query":"%s"}`},
	// no query: the zero-length body (nil and empty slice), null, {}, an empty or null query field, other fields only
	{``, `{}`, ``, `{"query":""}`, `null`, ``, `{"query":null}`, `{"other":"x"}`},
	// not decodable, whitespace-only bodies included
	{`{`, `{"query":5}`, `[1]`, `"str"`, `{"query":"a"`, `nope`, `{"query":{"a":1}}`, `123`, `true`, ` `, "\n\t "},
}

// sentQuery is the query of request j of query event k: unique, so that the callback can be checked to see
// the query that was SENT (not the one of the resource the query event was sent from).
func sentQuery(k, j int) string { return fmt.Sprintf("j=%d&t=%d.%d", j, k, j) }

func (q reqSpec) payload(k, j int) []byte {
	p := payloads[q.PKind][q.PVar%len(payloads[q.PKind])]
	if q.PKind == 0 {
		return []byte(fmt.Sprintf(p, sentQuery(k, j)))
	}
	if p == "" {
		if q.PVar%2 == 0 {
			return nil
		}
		return []byte{}
	}
	return []byte(p)
}

func msgStr(m int) string  { return "msg" + strconv.Itoa(m) }
func codeStr(c int) string { return "test.c" + strconv.Itoa(c) }

type panicky struct{ s *string }

func (p *panicky) Error() string { return *p.s }

var libPanics = []string{"",
	"res: model response not allowed on query collections",
	"res: collection response not allowed on query models",
	"res: change event not allowed on query collections",
	"res: add event not allowed on query models",
	"res: add event idx less than zero",
	"res: remove event not allowed on query models",
	"res: remove event idx less than zero",
	"res: negative timeout duration",
}

func val(a action) interface{} {
	if a.OK {
		return a.V
	}
	return make(chan int)
}

// interpret plays a script on a real QueryRequest.
func interpret(qr res.QueryRequest, script []action, nest func(child int), rdv func()) {
	for _, a := range script {
		switch a.K {
		case "rdv":
			rdv()
		case "nest":
			nest(a.V)
		case "model":
			qr.Model(map[string]interface{}{"v": val(a)})
		case "coll":
			qr.Collection([]interface{}{val(a)})
		case "notfound":
			qr.NotFound()
		case "invq":
			if a.M < 0 {
				qr.InvalidQuery("")
			} else {
				qr.InvalidQuery(msgStr(a.M))
			}
		case "error":
			switch a.E {
			case "res":
				qr.Error(&res.Error{Code: codeStr(a.C), Message: msgStr(a.M)})
			case "nilres":
				qr.Error((*res.Error)(nil))
			case "plain":
				qr.Error(errors.New(msgStr(a.M)))
			default:
				qr.Error(nil)
			}
		case "timeout":
			d := time.Duration(a.Idx) * time.Millisecond
			if a.Neg {
				d = -d - time.Millisecond
			}
			qr.Timeout(d)
		case "change":
			if a.Neg {
				if a.V%2 == 0 {
					qr.ChangeEvent(nil)
				} else {
					qr.ChangeEvent(map[string]interface{}{})
				}
			} else {
				qr.ChangeEvent(map[string]interface{}{"v": val(a)})
			}
		case "add":
			idx := a.Idx
			if a.Neg {
				idx = -1 - a.Idx
			}
			qr.AddEvent(val(a), idx)
		case "remove":
			idx := a.Idx
			if a.Neg {
				idx = -1 - a.Idx
			}
			qr.RemoveEvent(idx)
		case "panic":
			switch a.E {
			case "res":
				panic(&res.Error{Code: codeStr(a.C), Message: msgStr(a.M)})
			case "nilres":
				panic((*res.Error)(nil))
			case "error":
				panic(errors.New(msgStr(a.M)))
			case "errpanic":
				panic((*panicky)(nil))
			case "string":
				panic(msgStr(a.M))
			default:
				panic(1000 + a.V)
			}
		}
	}
}

// ---------- Coq printers ----------

func optN(m int) string {
	if m < 0 {
		return "None"
	}
	return fmt.Sprintf("(Some %d)", m)
}

func (a action) coq() string {
	switch a.K {
	case "nest":
		return "AQueryEvent"
	case "model":
		return fmt.Sprintf("AModel %d %s", a.V, Bool(a.OK))
	case "coll":
		return fmt.Sprintf("ACollection %d %s", a.V, Bool(a.OK))
	case "notfound":
		return "ANotFound"
	case "invq":
		return "AInvalidQuery " + optN(a.M)
	case "error":
		switch a.E {
		case "res":
			return fmt.Sprintf("AError (UErr %d %d)", a.C, a.M)
		case "nilres":
			return "AError UNilErr"
		case "plain":
			return fmt.Sprintf("AError (UPlain %d)", a.M)
		default:
			return "AError UNilIface"
		}
	case "timeout":
		return fmt.Sprintf("ATimeout %s %d", Bool(a.Neg), a.Idx)
	case "change":
		return fmt.Sprintf("AChange %s %d %s", Bool(a.Neg), a.V, Bool(a.OK))
	case "add":
		return fmt.Sprintf("AAdd %d %s %d %s", a.V, Bool(a.Neg), a.Idx, Bool(a.OK))
	case "remove":
		return fmt.Sprintf("ARemove %s %d", Bool(a.Neg), a.Idx)
	default:
		switch a.E {
		case "res":
			return fmt.Sprintf("APanic (VErr %d %d)", a.C, a.M)
		case "nilres":
			return "APanic VNilErr"
		case "error":
			return fmt.Sprintf("APanic (VError (Some %d))", a.M)
		case "errpanic":
			return "APanic (VError None)"
		case "string":
			return fmt.Sprintf("APanic (VString (SUser %d))", a.M)
		default:
			return fmt.Sprintf("APanic (VOther %d)", a.V)
		}
	}
}

func (q reqSpec) coqMsg(j int) string {
	pl := [3]string{"PQuery", "PMissing", "PMalformed"}[q.PKind]
	var acts []string
	if q.PKind == 0 {
		for _, a := range q.Script {
			if a.K == "rdv" {
				continue // waits for the other callbacks and re-reads Query(): not an action on the QueryRequest
			}
			acts = append(acts, a.coq())
		}
	}
	return fmt.Sprintf("(Msg %d %s %s)", j, pl, List(acts))
}

const unknownID = 999999
const staleBase = 100000

// canon turns a payload published on a reply subject into a Coq term of type pubmsg.
func canon(p []byte) string {
	s := string(p)
	if strings.HasPrefix(s, `timeout:"`) && strings.HasSuffix(s, `"`) {
		if n, err := strconv.Atoi(s[len(`timeout:"`) : len(s)-1]); err == nil && n >= 0 {
			return fmt.Sprintf("PPre %d", n)
		}
	}
	bad := fmt.Sprintf("PResp (RErr (CUser %d) (MUser %d))", unknownID, unknownID)
	var top map[string]json.RawMessage
	if json.Unmarshal(p, &top) != nil || len(top) != 1 {
		return bad
	}
	num := func(raw json.RawMessage) (int, bool) {
		var n int
		if json.Unmarshal(raw, &n) != nil || n < 0 {
			return 0, false
		}
		return n, true
	}
	if raw, ok := top["result"]; ok {
		var r map[string]json.RawMessage
		if json.Unmarshal(raw, &r) != nil || len(r) != 1 {
			return bad
		}
		if m, ok := r["model"]; ok {
			var mm map[string]json.RawMessage
			if json.Unmarshal(m, &mm) == nil && len(mm) == 1 {
				if n, ok := num(mm["v"]); ok {
					return fmt.Sprintf("PResp (RModel %d)", n)
				}
			}
			return bad
		}
		if c, ok := r["collection"]; ok {
			var cc []json.RawMessage
			if json.Unmarshal(c, &cc) == nil && len(cc) == 1 {
				if n, ok := num(cc[0]); ok {
					return fmt.Sprintf("PResp (RColl %d)", n)
				}
			}
			return bad
		}
		if e, ok := r["events"]; ok {
			var evs []struct {
				Event string                     `json:"event"`
				Data  map[string]json.RawMessage `json:"data"`
			}
			if json.Unmarshal(e, &evs) != nil || evs == nil {
				return bad
			}
			var out []string
			for _, ev := range evs {
				switch ev.Event {
				case "change":
					var vs map[string]json.RawMessage
					if json.Unmarshal(ev.Data["values"], &vs) != nil || len(vs) != 1 || len(ev.Data) != 1 {
						return bad
					}
					n, ok := num(vs["v"])
					if !ok {
						return bad
					}
					out = append(out, fmt.Sprintf("EvChange %d", n))
				case "add":
					v, ok1 := num(ev.Data["value"])
					i, ok2 := num(ev.Data["idx"])
					if !ok1 || !ok2 || len(ev.Data) != 2 {
						return bad
					}
					out = append(out, fmt.Sprintf("EvAdd %d %d", v, i))
				case "remove":
					i, ok := num(ev.Data["idx"])
					if !ok || len(ev.Data) != 1 {
						return bad
					}
					out = append(out, fmt.Sprintf("EvRemove %d", i))
				default:
					return bad
				}
			}
			return "PResp (REvents " + List(out) + ")"
		}
		return bad
	}
	raw, ok := top["error"]
	if !ok {
		return bad
	}
	var e struct {
		Code    string           `json:"code"`
		Message string           `json:"message"`
		Data    *json.RawMessage `json:"data"`
	}
	if json.Unmarshal(raw, &e) != nil || e.Data != nil {
		return bad
	}
	userMsg := func(s string) (int, bool) {
		if strings.HasPrefix(s, "msg") {
			if n, err := strconv.Atoi(s[3:]); err == nil && n >= 0 {
				return n, true
			}
		}
		return 0, false
	}
	switch e.Code {
	case "system.notFound":
		if e.Message == "Not found" {
			return "PResp (RErr CNotFound MStd)"
		}
	case "system.invalidQuery":
		if e.Message == "Invalid query" {
			return "PResp (RErr CInvalidQuery MStd)"
		}
		if n, ok := userMsg(e.Message); ok {
			return fmt.Sprintf("PResp (RErr CInvalidQuery (MUser %d))", n)
		}
	case "system.internalError":
		if e.Message == "Internal error" {
			return "PResp (RErr CInternal MStd)"
		}
		const pre = "Internal error: "
		if !strings.HasPrefix(e.Message, pre) {
			return bad
		}
		rest := e.Message[len(pre):]
		if rest == "missing query" {
			return "PResp (RErr CInternal MMissingQuery)"
		}
		if rest == "panic in Error method" {
			return "PResp (RErr CInternal MPanicInErr)"
		}
		if n, ok := userMsg(rest); ok {
			return fmt.Sprintf("PResp (RErr CInternal (MWrapped %d))", n)
		}
		for k := 1; k < len(libPanics); k++ {
			if rest == libPanics[k] {
				return fmt.Sprintf("PResp (RErr CInternal (MLib %d))", k)
			}
		}
		if strings.HasPrefix(rest, "json: unsupported type") {
			return "PResp (RErr CInternal MMarshal)"
		}
		if n, err := strconv.Atoi(rest); err == nil && n >= 1000 {
			return fmt.Sprintf("PResp (RErr CInternal (MOther %d))", n-1000)
		}
		if strings.HasPrefix(rest, "invalid character") || strings.HasPrefix(rest, "unexpected end of JSON input") ||
			strings.HasPrefix(rest, "json: cannot unmarshal") {
			return "PResp (RErr CInternal MMalformed)"
		}
	default:
		if strings.HasPrefix(e.Code, "test.c") {
			c, err := strconv.Atoi(e.Code[len("test.c"):])
			if n, ok := userMsg(e.Message); ok && err == nil {
				return fmt.Sprintf("PResp (RErr (CUser %d) (MUser %d))", c, n)
			}
		}
	}
	return bad
}

// ---------- log ----------

type entry struct {
	gid  uint64
	kind string // sub pub arrive cb expire + hook points
	k, j int
	ok   bool
	s    string
	data []byte
}

func goid() uint64 {
	var buf [64]byte
	n := runtime.Stack(buf[:], false)
	f := bytes.Fields(buf[:n])
	id, _ := strconv.ParseUint(string(f[1]), 10, 64)
	return id
}

type gateEv struct {
	pt      string
	gid     uint64
	k       int
	rel     chan int
	creator uint64 // query-expire: the goroutine that started this timer goroutine
	at      time.Time
}

// creatorGid returns the id of the goroutine that started the calling goroutine ("created by ... in goroutine N").
func creatorGid() uint64 {
	buf := make([]byte, 16384)
	n := runtime.Stack(buf, false)
	st := string(buf[:n])
	i := strings.LastIndex(st, "created by ")
	if i < 0 {
		return 0
	}
	j := strings.Index(st[i:], " in goroutine ")
	if j < 0 {
		return 0
	}
	rest := st[i+j+len(" in goroutine "):]
	e := 0
	for e < len(rest) && rest[e] >= '0' && rest[e] <= '9' {
		e++
	}
	id, _ := strconv.ParseUint(rest[:e], 10, 64)
	return id
}

type qeState struct {
	spec    qeSpec
	k       int
	ch      chan *nats.Msg
	inbox   string
	subOK   bool
	created chan struct{}
	lgid    uint64
	held    *gateEv // listener held at query-recv
	exited  bool
	sentJ   []int // request indices already sent
	run     int
	cn      *conn
	staleN  []int         // numbers of the stale requests addressed to its subject in a later run
	late    time.Duration // how long after it could first have happened the expiry callback started
	subAt   time.Time     // ChanSubscribe returned
	expAt   time.Time     // queryEventExpire was entered for it (gate query-expire reached)
	within  []int         // requests accepted into the channel less than the query duration after subAt
	rdvN    int32         // callbacks that rendezvous (requests whose script contains "rdv")
	rdvIn   int32
	rdvCh   chan struct{}
}

type runner struct {
	sc                scenario
	mu                sync.Mutex
	log               []entry
	passive           int32
	s                 *res.Service
	cn                *conn
	qes               []*qeState
	events            chan *gateEv
	parked            []*gateEv
	lgid              map[uint64]int
	expect            int
	expSeq            map[int][]int // per Serve run: subscribed query events in creation order
	expNext           map[int]int
	run               int      // current Serve run of the service object
	creator           sync.Map // goid of a goroutine that called QueryEvent -> run
	nStale            int
	staleTo           map[int]int // stale request number -> query event it was delivered to
	undeliv           int
	served            chan struct{} // closed when the current Serve call has returned
	settleTimeouts    int
	rdvOK, rdvTimeout int32
	heldOK            int32
	connDone          []chan struct{}
	dur               time.Duration // the configured query event duration
	notAtOnce         bool
	lastRel           map[int]time.Time // per Serve run: when the director last let an expiry callback proceed
	impl              []ImplViolation
	stalled           bool
	aborted           bool
	shut              bool
	cur               sync.Map // goid -> qe index being created
	inboxK            sync.Map // inbox -> qe index
	nilSeen           int32
	lateCb            int32
	nilOf             []int32 // history: nil calls per query event
	skipped           string  // history-nats: why the embedded server could not be used
}

func (r *runner) add(e entry) {
	if e.gid == 0 {
		e.gid = goid()
	}
	r.mu.Lock()
	r.log = append(r.log, e)
	r.mu.Unlock()
}

func (r *runner) violation(tag, what string) {
	r.mu.Lock()
	r.impl = append(r.impl, ImplViolation{What: tag + ": " + what, Desc: r.desc(-1), Tags: []string{tag}})
	r.mu.Unlock()
}

// ---------- connection ----------

type conn struct {
	r      *runner
	mu     sync.Mutex
	inCh   chan *nats.Msg
	closed bool
}

func (c *conn) Publish(subject string, payload []byte) error {
	if atomic.LoadInt32(&c.r.passive) == 0 {
		k := -1
		if v, ok := c.r.cur.Load(goid()); ok {
			k = v.(int) // published from inside a scripted QueryEvent call
		}
		c.r.add(entry{kind: "pub", k: k, s: subject, data: append([]byte(nil), payload...)})
	}
	return nil
}
func (c *conn) PublishRequest(subject, reply string, data []byte) error { return nil }
func (c *conn) ChanSubscribe(subject string, ch chan *nats.Msg) (*nats.Subscription, error) {
	if strings.HasPrefix(subject, "_INBOX.") {
		v, ok := c.r.cur.Load(goid())
		if !ok {
			c.r.violation("harness", "query subscription outside a scripted QueryEvent call")
			return nil, errors.New("unexpected")
		}
		q := c.r.qes[v.(int)]
		c.r.inboxK.Store(subject, q.k)
		q.inbox = subject
		q.cn = c
		if q.spec.FailSub {
			c.r.add(entry{kind: "sub", k: q.k, ok: false})
			return nil, errors.New("scripted subscription failure")
		}
		if cap(ch) != chanSize {
			c.r.violation("harness", fmt.Sprintf("query channel capacity %d", cap(ch)))
		}
		q.ch = ch
		q.subOK = true
		q.subAt = time.Now()
		c.r.add(entry{kind: "sub", k: q.k, ok: true})
		return &nats.Subscription{}, nil
	}
	c.mu.Lock()
	if c.inCh == nil {
		c.inCh = ch
	}
	c.mu.Unlock()
	return &nats.Subscription{}, nil
}
func (c *conn) ChanQueueSubscribe(subject, queue string, ch chan *nats.Msg) (*nats.Subscription, error) {
	return c.ChanSubscribe(subject, ch)
}
func (c *conn) Close() {
	c.mu.Lock()
	c.closed = true
	c.mu.Unlock()
}

// ---------- hooks ----------

func (r *runner) gate(pt string) {
	switch pt {
	case "query-recv", "query-done", "query-expire":
	default:
		return
	}
	if atomic.LoadInt32(&r.passive) != 0 {
		return
	}
	ev := &gateEv{pt: pt, gid: goid(), k: -1, rel: make(chan int, 1)}
	if pt != "query-expire" {
		r.add(entry{gid: ev.gid, kind: pt})
	} else {
		ev.creator = creatorGid()
		ev.at = time.Now()
	}
	r.events <- ev
	k := <-ev.rel
	if pt == "query-expire" {
		// logged at release: what follows is Drain and close(done)
		r.add(entry{gid: ev.gid, kind: "expire", k: k})
	}
}

func (r *runner) note(pt, s string, n int) {
	if atomic.LoadInt32(&r.passive) != 0 {
		return
	}
	switch pt {
	case "enq-new", "enq-append", "enq-refused", "enq-closing":
		r.add(entry{kind: pt})
	case "query-listener-exit":
		g := goid()
		r.add(entry{gid: g, kind: pt, s: s})
		r.events <- &gateEv{pt: "exit", gid: g, k: -1}
	}
}

// ---------- director ----------

func (r *runner) classify(ev *gateEv) {
	if ev.k >= 0 {
		return
	}
	switch ev.pt {
	case "query-expire":
		// each Serve run has its own timerqueue; its timer goroutine was started from a goroutine that called
		// QueryEvent in that run
		run := -1
		if v, ok := r.creator.Load(ev.creator); ok {
			run = v.(int)
		} else {
			for x := 0; x <= r.run; x++ {
				if r.expNext[x] < len(r.expSeq[x]) {
					run = x
					break
				}
			}
		}
		if run >= 0 && r.expNext[run] < len(r.expSeq[run]) {
			ev.k = r.expSeq[run][r.expNext[run]]
			r.expNext[run]++
			if q := r.qes[ev.k]; q.expAt.IsZero() {
				q.expAt = ev.at
				// the timer goroutine calls the expiry callbacks one after the other: this one could start when the
				// configured duration had elapsed and the director had released the previous one
				base := q.subAt
				if r.dur > 0 {
					base = base.Add(r.dur)
				}
				if lr := r.lastRel[run]; lr.After(base) {
					base = lr
				}
				if d := ev.at.Sub(base); d > 0 {
					q.late = d
				}
			}
		} else {
			r.violation("harness", "expiry of an unknown query event")
		}
	default:
		if k, ok := r.lgid[ev.gid]; ok {
			ev.k = k
			return
		}
		if r.expect >= 0 && r.qes[r.expect].lgid == 0 {
			r.lgid[ev.gid] = r.expect
			r.qes[r.expect].lgid = ev.gid
			ev.k = r.expect
			return
		}
		r.violation("harness", "listener goroutine that cannot be attributed at "+ev.pt)
	}
}

// await returns the next event satisfying pred; other events are parked (gates stay held).
func (r *runner) await(pred func(*gateEv) bool, d time.Duration) *gateEv {
	for i, ev := range r.parked {
		if pred(ev) {
			r.parked = append(r.parked[:i], r.parked[i+1:]...)
			return ev
		}
	}
	if r.stalled && d > 30*time.Millisecond {
		d = 30 * time.Millisecond
	}
	deadline := time.NewTimer(d)
	defer deadline.Stop()
	for {
		select {
		case ev := <-r.events:
			r.classify(ev)
			if pred(ev) {
				return ev
			}
			r.parked = append(r.parked, ev)
		case <-deadline.C:
			return nil
		}
	}
}

func (r *runner) stall(what string) {
	if !r.stalled {
		r.violation("stall", what)
	}
	r.stalled = true
}

func release(ev *gateEv, k int) {
	if ev != nil && ev.rel != nil {
		ev.rel <- k
	}
}

// send plays the connection delivering request j of query event k: non-blocking, logged atomically.
func (r *runner) send(q *qeState, j int) bool {
	spec := q.spec.Reqs[j]
	m := &nats.Msg{Subject: q.inbox, Reply: fmt.Sprintf("R.%d.%d", q.k, j), Data: spec.payload(q.k, j)}
	g := goid()
	r.mu.Lock()
	acc := false
	select {
	case q.ch <- m:
		acc = true
	default:
	}
	r.log = append(r.log, entry{gid: g, kind: "arrive", k: q.k, j: j, ok: acc})
	r.mu.Unlock()
	q.sentJ = append(q.sentJ, j)
	if acc && time.Since(q.subAt) < r.dur {
		q.within = append(q.within, j) // the send completed inside the configured duration: the query event must still be active
	}
	return acc
}

// sendFree sends to a listener that is at its select and waits until it has taken the message.
func (r *runner) sendFree(q *qeState, j int) {
	r.expect = q.k
	if !r.send(q, j) {
		return
	}
	ev := r.await(func(e *gateEv) bool {
		return e.k == q.k && (e.pt == "query-recv" || e.pt == "query-done" || e.pt == "exit")
	}, 2*time.Second)
	if ev == nil {
		r.stall(fmt.Sprintf("listener of query event %d did not take a delivered request", q.k))
		return
	}
	if ev.pt == "exit" {
		q.exited = true
		return
	}
	release(ev, q.k)
}

func (r *runner) cb(q *qeState) func(res.QueryRequest) {
	return func(qr res.QueryRequest) {
		if qr == nil {
			r.add(entry{kind: "cb", k: q.k, j: -1})
			return
		}
		j := -2
		qs := qr.Query()
		if strings.HasPrefix(qs, "j=") {
			var n, tk, tj int
			if c, _ := fmt.Sscanf(qs, "j=%d&t=%d.%d", &n, &tk, &tj); c == 3 && n >= 0 && n < len(q.spec.Reqs) && qs == sentQuery(q.k, n) {
				j = n
			}
		}
		if j == -2 && !strings.HasPrefix(qs, "s=") {
			r.violation("query-mismatch", fmt.Sprintf("the callback of query event %d (sent from %s) was invoked with Query() = %q, which no request sent to it carries", q.k, q.trigDesc(), qs))
		}
		if strings.HasPrefix(qs, "s=") {
			if n, err := strconv.Atoi(qs[2:]); err == nil && n >= 0 {
				j = staleBase + n // a request that was addressed to a query event of the previous run
			}
		}
		r.add(entry{kind: "cb", k: q.k, j: j})
		if j >= 0 && j < staleBase {
			// observe a panic of the callback (and pass it on unchanged, typed nil included)
			defer func() {
				if v := recover(); v != nil {
					r.add(entry{kind: "cb-panic", k: q.k, j: j})
					panic(v)
				}
			}()
			interpret(qr, q.spec.Reqs[j].Script, func(child int) {
				// a query event sent from inside this request callback: the QueryRequest is its resource
				c := r.qes[child]
				g := goid()
				r.creator.Store(g, c.run)
				r.cur.Store(g, child)
				qr.QueryEvent(r.cb(c))
				r.cur.Delete(g)
				close(c.created)
			}, func() {
				// rendezvous with the callbacks of the other requests of this query event (Parallel resource: each
				// runs on its own worker), then look at the query again: it must still be this request's
				if atomic.AddInt32(&q.rdvIn, 1) == q.rdvN {
					close(q.rdvCh)
				}
				select {
				case <-q.rdvCh:
					atomic.AddInt32(&r.rdvOK, 1)
				case <-time.After(time.Second):
					atomic.AddInt32(&r.rdvTimeout, 1)
				}
				after, t := qr.Query(), qr.ParseQuery().Get("t")
				if after != sentQuery(q.k, j) || t != fmt.Sprintf("%d.%d", q.k, j) {
					r.violation("query-mismatch", fmt.Sprintf("the callback of request %d of query event %d (%s, Parallel) was invoked with query %q and, after %d callbacks of the query event had started, sees Query() = %q / ParseQuery t = %q: another request's query",
						j, q.k, q.rid(), sentQuery(q.k, j), q.rdvN, after, t))
					r.add(entry{kind: "cb", k: q.k, j: -2})
				}
			})
		}
	}
}

func (q *qeState) trigDesc() string {
	switch {
	case q.spec.Nested:
		return "a query request callback of query event " + strconv.Itoa(q.k-1)
	case q.spec.ViaCall:
		return fmt.Sprintf("a call handler on %s?%s", q.rid(), q.spec.TrigQuery)
	default:
		return fmt.Sprintf("Service.With(%s?%s)", q.rid(), q.spec.TrigQuery)
	}
}

func (q *qeState) rid() string {
	return fmt.Sprintf("test.%s.%d", q.spec.Res, q.spec.ID)
}

func (r *runner) create(q *qeState) {
	q.run = r.run
	mk := func(rs res.Resource) {
		g := goid()
		r.creator.Store(g, q.run)
		r.cur.Store(g, q.k)
		rs.QueryEvent(r.cb(q))
		r.cur.Delete(g)
		close(q.created)
	}
	rid := q.rid()
	if q.spec.TrigQuery != "" {
		rid += "?" + q.spec.TrigQuery
	}
	if q.spec.Nested {
		// the parent's dedicated request: its callback calls QueryEvent on the QueryRequest
		parent := r.qes[q.k-1]
		sent := false
		for j, rq := range parent.spec.Reqs {
			if rq.Phase == "N" && len(rq.Script) == 1 && rq.Script[0].V == q.k {
				r.sendFree(parent, j)
				sent = true
			}
		}
		if !sent || !parent.subOK {
			r.violation("harness", "nested query event without a parent request")
			return
		}
	} else if q.spec.ViaCall {
		r.cn.mu.Lock()
		in := r.cn.inCh
		r.cn.mu.Unlock()
		in <- &nats.Msg{Subject: "call." + q.rid() + ".trigger", Reply: fmt.Sprintf("T.%d", q.k),
			Data: []byte(fmt.Sprintf(`{"cid":"c1","params":{"k":%d},"query":%q}`, q.k, q.spec.TrigQuery))}
	} else if err := r.s.With(rid, mk); err != nil {
		r.violation("harness", "With: "+err.Error())
		return
	}
	select {
	case <-q.created:
		if q.subOK {
			r.expSeq[q.run] = append(r.expSeq[q.run], q.k)
			if r.dur <= 0 && !r.notAtOnce {
				// expired at once: the timer queue starts a timer goroutine per query event (the queue is empty again
				// while the previous expiry callback is held at the gate), so the arrivals at the gate are only ordered
				// if each is awaited before the next query event is created.  It stays held until expire(q).
				if ev := r.await(func(e *gateEv) bool { return e.pt == "query-expire" && e.k == q.k }, 2*time.Second); ev != nil {
					r.parked = append(r.parked, ev)
				} else {
					r.notAtOnce = true // the duration in force is not the configured one: do not wait again (code 14 will say so)
				}
			}
		}
	case <-time.After(3 * time.Second):
		r.stall(fmt.Sprintf("QueryEvent %d was not created", q.k))
	}
}

func (r *runner) newService() *res.Service {
	s := res.NewService("test")
	s.SetLogger(nil)
	s.SetQueryEventDuration(r.dur)
	s.SetWorkerCount(r.sc.Workers)
	get := res.GetResource(func(q res.GetRequest) { q.NotFound() })
	trigger := res.Call("trigger", func(cr res.CallRequest) {
		var p struct {
			K int `json:"k"`
		}
		cr.ParseParams(&p)
		if p.K < 0 || p.K >= len(r.qes) {
			cr.NotFound()
			return
		}
		q := r.qes[p.K]
		g := goid()
		r.creator.Store(g, q.run)
		r.cur.Store(g, q.k)
		cr.QueryEvent(r.cb(q))
		r.cur.Delete(g)
		close(q.created)
		cr.OK(nil)
	})
	s.Handle("m.$id", res.Model, get, trigger)
	s.Handle("c.$id", res.Collection, get, trigger)
	s.Handle("u.$id", get, trigger)
	s.Handle("p.$id", res.Model, res.Parallel(true), get, trigger)
	s.Handle("g.$id", res.Collection, res.Group("grp"), get, trigger)
	return s
}

func (r *runner) serve() bool {
	r.cn = &conn{r: r} // a fresh connection object for every Serve
	if r.s == nil {
		r.s = r.newService()
	} else {
		// the previous Serve call must have returned: its final wg.Wait races with the wg.Add of a new Serve
		// ("WaitGroup is reused before previous Wait has returned" - a restart hazard outside C15)
		select {
		case <-r.served:
		case <-time.After(5 * time.Second):
			r.violation("stall", "Serve did not return after Shutdown")
			return false
		}
		r.run++
		r.shut = false
	}
	ready := make(chan struct{})
	r.s.SetOnServe(func(*res.Service) { close(ready) })
	served := make(chan struct{})
	r.served = served
	go func() { r.s.Serve(r.cn); close(served) }()
	select {
	case <-ready:
		return true
	case <-time.After(5 * time.Second):
		r.violation("harness", "service did not start")
		return false
	}
}

func (r *runner) shutdown() {
	done := make(chan struct{})
	go func() { r.s.Shutdown(); close(done) }()
	select {
	case <-done:
	case <-time.After(5 * time.Second):
		r.violation("stall", "Shutdown did not return")
	}
	r.shut = true
}

// counts from the log: callbacks accepted by runWith from listener goroutines, callbacks seen running
func (r *runner) pending() int {
	r.mu.Lock()
	defer r.mu.Unlock()
	acc, ran := 0, 0
	seen := map[[2]int]bool{}
	cbSeen := map[[2]int]bool{}
	failNil := map[int]bool{}
	for _, e := range r.log {
		switch e.kind {
		case "enq-new", "enq-append":
			if _, ok := r.lgid[e.gid]; ok {
				acc++
			}
		case "cb":
			if e.j == -1 {
				if !r.qes[e.k].subOK && !failNil[e.k] {
					failNil[e.k] = true
				} else {
					ran++
				}
			} else {
				cbSeen[[2]int{e.k, e.j}] = true
			}
		case "pub":
			if k, j, ok := r.replyOf(e.s); ok && !bytes.HasPrefix(e.data, []byte("timeout:")) {
				if !seen[[2]int{k, j}] {
					seen[[2]int{k, j}] = true
					ran++
				}
			}
		}
	}
	return acc - ran
}

// replyOf maps a reply subject to (query event, request id): "R.k.j" is request j of query event k,
// "S.n" is stale request n, which belongs to the query event it was delivered to (if any).
func (r *runner) replyOf(subject string) (int, int, bool) {
	var k, j, n int
	if c, _ := fmt.Sscanf(subject, "R.%d.%d", &k, &j); c == 2 && k >= 0 && k < len(r.qes) {
		return k, j, true
	}
	if c, _ := fmt.Sscanf(subject, "S.%d", &n); c == 1 && strings.HasPrefix(subject, "S.") {
		if k, ok := r.staleTo[n]; ok {
			return k, staleBase + n, true
		}
	}
	return 0, 0, false
}

func (r *runner) settle(d time.Duration) {
	// not by the wall clock alone: when the whole process is starved for a while (loaded machine) the deadline
	// would pass without the workers having had a chance to run; count polling rounds as well
	deadline := time.Now().Add(d)
	for i := 0; time.Now().Before(deadline) || i < 400; i++ {
		if r.pending() <= 0 {
			time.Sleep(300 * time.Microsecond) // let the last callback finish publishing
			return
		}
		runtime.Gosched()
		time.Sleep(500 * time.Microsecond)
	}
	r.settleTimeouts++
	var buf bytes.Buffer
	pprof.Lookup("goroutine").WriteTo(&buf, 1)
	fmt.Fprintf(os.Stderr, "settle timeout in scenario %d (%s): %d callbacks accepted by runWith did not run within %v\n%s\n",
		r.sc.Index, r.sc.Kind, r.pending(), d, buf.String())
}

func (r *runner) reqsOf(q *qeState, phase string) []int {
	var js []int
	for j, rq := range q.spec.Reqs {
		if rq.Phase == phase {
			js = append(js, j)
		}
	}
	return js
}

// connEvents makes the calls scripted for this point.  Each runs on a goroutine of its own: an implementation
// that expires query events from inside such a call reaches the gate query-expire there, which only the
// director can release.
func (r *runner) connEvents(at string) {
	for _, ce := range r.sc.ConnEvs {
		if ce.At != at || r.shut {
			continue
		}
		done := make(chan struct{})
		r.connDone = append(r.connDone, done)
		s, what := r.s, ce.What
		go func() {
			defer close(done)
			defer func() {
				if v := recover(); v != nil {
					r.violation("panic", fmt.Sprintf("%s panicked: %v", what, v))
				}
			}()
			switch what {
			case "reconnect":
				s.VerifHandleReconnect()
			case "disconnect":
				s.VerifHandleDisconnect()
			case "resetall":
				s.ResetAll()
			case "reset":
				s.Reset([]string{"test.>"}, []string{"test.>"})
			default:
				s.TokenReset("test.auth.reset", "tid1", "tid2")
			}
		}()
		select {
		case <-done:
		case <-time.After(20 * time.Millisecond):
		}
	}
}

// expire handles the expiry of query event q under the director's control.
func (r *runner) expire(q *qeState) {
	ev := r.await(func(e *gateEv) bool { return e.pt == "query-expire" && e.k == q.k }, 6*time.Second)
	if ev == nil {
		r.stall(fmt.Sprintf("query event %d did not expire", q.k))
		return
	}
	for _, j := range r.reqsOf(q, "E") {
		if q.held != nil {
			r.send(q, j)
		} else {
			r.sendFree(q, j)
		}
	}
	r.expect = q.k
	r.lastRel[q.run] = time.Now()
	release(ev, q.k) // Drain, close(done)
	mine := func(e *gateEv) bool { return e.k == q.k && e.pt != "query-expire" }
	if q.held == nil {
		dv := r.await(func(e *gateEv) bool { return mine(e) && e.pt == "query-done" }, 1500*time.Millisecond)
		if dv == nil {
			r.stall(fmt.Sprintf("listener of query event %d did not observe the expiry", q.k))
		}
		for _, j := range r.reqsOf(q, "D") {
			r.send(q, j)
		}
		release(dv, q.k)
	} else {
		for _, j := range r.reqsOf(q, "D") {
			r.send(q, j)
		}
		release(q.held, q.k)
		q.held = nil
	}
	// the listener now forwards what is buffered (either select branch) and returns
	for !q.exited {
		e := r.await(mine, 1500*time.Millisecond)
		if e == nil {
			r.stall(fmt.Sprintf("listener of query event %d did not return after the expiry", q.k))
			break
		}
		if e.pt == "exit" {
			q.exited = true
		} else {
			release(e, q.k)
		}
	}
	for _, j := range r.reqsOf(q, "X") {
		if q.exited {
			r.send(q, j)
		} else {
			r.sendFree(q, j) // only reached when the listener never returns
		}
	}
}

func (r *runner) runDirected() {
	if !r.serve() {
		r.aborted = true
		return
	}
	sc := r.sc
	at := 0
	for b, size := range sc.Batches {
		batch := r.qes[at : at+size]
		at += size
		for _, q := range batch {
			r.create(q)
		}
		r.connEvents("after-create")
		for _, q := range batch {
			if !q.subOK {
				continue
			}
			for _, j := range r.reqsOf(q, "A") {
				r.sendFree(q, j)
			}
			if hs := r.reqsOf(q, "H"); len(hs) > 0 {
				r.expect = q.k
				if r.send(q, hs[0]) {
					ev := r.await(func(e *gateEv) bool { return e.k == q.k && e.pt == "query-recv" }, 2*time.Second)
					if ev == nil {
						r.stall(fmt.Sprintf("listener of query event %d did not take a delivered request", q.k))
					} else {
						q.held = ev
					}
				}
				for _, j := range r.reqsOf(q, "B") {
					r.send(q, j)
				}
			}
		}
		r.connEvents("after-early")
		if sc.Kind == "shutdown" && b == sc.ShutAt {
			r.settle(time.Second)
			r.shutdown()
		}
		for i, q := range batch {
			if i == (len(batch)+1)/2 {
				r.connEvents("mid-expire")
			}
			if q.subOK {
				r.expire(q)
			}
		}
		if r.shut {
			break
		}
		r.settle(2 * time.Second)
	}
	r.finish()
}

// sendStale publishes a request on the subject of a query event of the PREVIOUS Serve run.  The connection
// of that run is closed, so only a subscription of the current connection on the same subject can receive
// it - which fresh subjects exclude.
func (r *runner) sendStale(old *qeState) {
	n := r.nStale
	r.nStale++
	old.staleN = append(old.staleN, n)
	var to *qeState
	for _, q := range r.qes {
		if q.run == r.run && q.subOK && q.cn == r.cn && q.inbox == old.inbox && !q.exited {
			to = q
			break
		}
	}
	if to == nil {
		r.undeliv++
		return
	}
	r.staleTo[n] = to.k
	m := &nats.Msg{Subject: old.inbox, Reply: fmt.Sprintf("S.%d", n), Data: []byte(fmt.Sprintf(`{"query":"s=%d"}`, n))}
	g := goid()
	r.expect = to.k
	r.mu.Lock()
	acc := false
	select {
	case to.ch <- m:
		acc = true
	default:
	}
	r.log = append(r.log, entry{gid: g, kind: "arrive", k: to.k, j: staleBase + n, ok: acc})
	r.mu.Unlock()
	to.sentJ = append(to.sentJ, staleBase+n)
	if !acc || to.held != nil {
		return
	}
	ev := r.await(func(e *gateEv) bool {
		return e.k == to.k && (e.pt == "query-recv" || e.pt == "query-done" || e.pt == "exit")
	}, 2*time.Second)
	if ev == nil {
		r.stall(fmt.Sprintf("listener of query event %d did not take a delivered request", to.k))
		return
	}
	if ev.pt == "exit" {
		to.exited = true
		return
	}
	release(ev, to.k)
}

// early sends the requests of the phases that precede the expiry: to the free listener, then the one the
// listener is held with, then those buffered behind it.
func (r *runner) early(q *qeState) {
	if !q.subOK {
		return
	}
	for _, j := range r.reqsOf(q, "A") {
		r.sendFree(q, j)
	}
	if hs := r.reqsOf(q, "H"); len(hs) > 0 {
		r.expect = q.k
		if r.send(q, hs[0]) {
			ev := r.await(func(e *gateEv) bool { return e.k == q.k && e.pt == "query-recv" }, 2*time.Second)
			if ev == nil {
				r.stall(fmt.Sprintf("listener of query event %d did not take a delivered request", q.k))
			} else {
				q.held = ev
			}
		}
		for _, j := range r.reqsOf(q, "B") {
			r.send(q, j)
		}
	}
}

// runRestart: ONE service object served twice.  Run 0: query events, the first NExp of which expire; the
// others are still active when the service is shut down.  Run 1 (fresh connection object): new query
// events; requests are published on the subjects of run 0 while the new query events (and the still active
// old ones) are alive; then the old query events expire - in the restarted service -, then the new ones.
func (r *runner) runRestart() {
	if !r.serve() {
		r.aborted = true
		return
	}
	var run0, run1 []*qeState
	for _, q := range r.qes {
		if q.spec.Run == 0 {
			run0 = append(run0, q)
		} else {
			run1 = append(run1, q)
		}
	}
	for _, q := range run0 {
		r.create(q)
	}
	for _, q := range run0 {
		r.early(q)
	}
	nexp := r.sc.NExp
	for i, q := range run0 {
		if i < nexp && q.subOK {
			r.expire(q)
		}
	}
	r.settle(2 * time.Second)
	r.shutdown()
	if r.stalled || !r.serve() {
		r.aborted = true
		r.finish()
		return
	}
	for _, q := range run1 {
		r.create(q)
	}
	for _, q := range run1 {
		r.early(q)
	}
	for _, q := range run0 {
		for i := 0; i < q.spec.Stale; i++ {
			if q.inbox != "" {
				r.sendStale(q)
			}
		}
	}
	for i, q := range run0 {
		if i >= nexp && q.subOK {
			r.expire(q)
		}
	}
	for _, q := range run1 {
		if q.subOK {
			r.expire(q)
		}
	}
	r.settle(2 * time.Second)
	r.finish()
}

// runRacy: one query event at a time, requests sent by a free-running goroutine around the expiry,
// gates only record (every arrival is released at once).
func (r *runner) runRacy() {
	if !r.serve() {
		r.aborted = true
		return
	}
	verifhook.SetPerturb(r.sc.Perturb)
	defer verifhook.SetPerturb(0)
	for _, q := range r.qes {
		r.create(q)
		if !q.subOK {
			continue
		}
		r.expect = q.k
		var wg sync.WaitGroup
		wg.Add(1)
		go func(q *qeState) {
			defer wg.Done()
			for j, rq := range q.spec.Reqs {
				if rq.Phase != "R" {
					continue
				}
				time.Sleep(time.Duration(rq.Delay) * time.Microsecond)
				spec := q.spec.Reqs[j]
				m := &nats.Msg{Subject: q.inbox, Reply: fmt.Sprintf("R.%d.%d", q.k, j), Data: spec.payload(q.k, j)}
				g := goid()
				r.mu.Lock()
				acc := false
				select {
				case q.ch <- m:
					acc = true
				default:
				}
				r.log = append(r.log, entry{gid: g, kind: "arrive", k: q.k, j: j, ok: acc})
				r.mu.Unlock()
				if acc && time.Since(q.subAt) < r.dur {
					q.within = append(q.within, j)
				}
			}
		}(q)
		deadline := time.Now().Add(3 * time.Second)
		for !q.exited {
			e := r.await(func(e *gateEv) bool { return true }, time.Until(deadline))
			if e == nil {
				r.stall(fmt.Sprintf("listener of query event %d did not return after the expiry", q.k))
				break
			}
			if e.pt == "exit" {
				if e.k == q.k {
					q.exited = true
				}
			} else {
				if e.pt == "query-expire" {
					r.lastRel[q.run] = time.Now()
				}
				release(e, q.k)
			}
		}
		wg.Wait()
		for j := range q.spec.Reqs {
			q.sentJ = append(q.sentJ, j)
		}
		if r.stalled {
			// a listener that never returns keeps taking requests: let it, so that the log shows it
			for i := 0; i < 50; i++ {
				if e := r.await(func(e *gateEv) bool { return true }, 2*time.Millisecond); e != nil {
					release(e, q.k)
				}
			}
		}
		r.settle(2 * time.Second)
	}
	r.finish()
}

func (r *runner) finish() {
	for _, d := range r.connDone {
		select {
		case <-d:
		case <-time.After(3 * time.Second):
			r.violation("stall", "a reconnect/disconnect handler or reset call did not return")
		}
	}
	r.connDone = nil
	// release anything still held so that no goroutine of the service stays blocked in a gate
	atomic.StoreInt32(&r.passive, 1)
	for _, ev := range r.parked {
		release(ev, -1)
	}
	r.parked = nil
	for {
		select {
		case ev := <-r.events:
			release(ev, -1)
			continue
		default:
		}
		break
	}
	if !r.shut {
		r.shutdown()
	}
}

// ---------- history (leak check) ----------

func listenerGoroutines() int {
	var buf bytes.Buffer
	pprof.Lookup("goroutine").WriteTo(&buf, 2)
	return strings.Count(buf.String(), "startQueryListener")
}

func (r *runner) runHistory() {
	atomic.StoreInt32(&r.passive, 1)
	if !r.serve() {
		return
	}
	n := r.sc.History
	time.Sleep(20 * time.Millisecond)
	runtime.GC()
	base := runtime.NumGoroutine()
	baseL := listenerGoroutines()
	rng := NewRng(r.sc.Seed)
	r.nilOf = make([]int32, n)
	var sentReq, gotCb int32
	// the conn looks the query event up through r.qes: give every event a qeState
	r.qes = make([]*qeState, n)
	for i := range r.qes {
		r.qes[i] = &qeState{k: i, created: make(chan struct{}), spec: qeSpec{Res: "mcug"[i%4 : i%4+1], ID: i % 3}}
	}
	for at := 0; at < n; at += 50 {
		end := at + 50
		if end > n {
			end = n
		}
		for i := at; i < end; i++ {
			i := i
			q := r.qes[i]
			err := r.s.With(q.rid(), func(rs res.Resource) {
				g := goid()
				r.cur.Store(g, i)
				rs.QueryEvent(func(qr res.QueryRequest) {
					if qr == nil {
						atomic.AddInt32(&r.nilOf[i], 1)
						atomic.AddInt32(&r.nilSeen, 1)
						return
					}
					if atomic.LoadInt32(&r.nilOf[i]) > 0 {
						atomic.AddInt32(&r.lateCb, 1)
					}
					atomic.AddInt32(&gotCb, 1)
					if i%3 == 0 {
						qr.NotFound()
					}
				})
				r.cur.Delete(g)
				close(q.created)
			})
			if err != nil {
				r.violation("harness", err.Error())
			}
		}
		for i := at; i < end; i++ {
			<-r.qes[i].created
			for k := rng.Intn(3); k > 0; k-- {
				select {
				case r.qes[i].ch <- &nats.Msg{Subject: "q", Reply: fmt.Sprintf("H.%d.%d", i, k), Data: []byte(`{"query":"a=b"}`)}:
					atomic.AddInt32(&sentReq, 1)
				default:
				}
			}
		}
		time.Sleep(time.Duration(rng.Intn(8)) * time.Millisecond)
	}
	deadline := time.Now().Add(15 * time.Second)
	for int(atomic.LoadInt32(&r.nilSeen)) < n && time.Now().Before(deadline) {
		time.Sleep(2 * time.Millisecond)
	}
	// requests delivered after the drain was requested stay in the (unreachable) channels
	for i := 0; i < n; i += 7 {
		select {
		case r.qes[i].ch <- &nats.Msg{Subject: "q", Reply: "late", Data: []byte(`{"query":"late"}`)}:
			atomic.AddInt32(&sentReq, 1)
		default:
		}
	}
	time.Sleep(30 * time.Millisecond)
	var now, nowL int
	for i := 0; i < 300; i++ {
		runtime.GC()
		now, nowL = runtime.NumGoroutine(), listenerGoroutines()
		if now <= base && nowL <= baseL {
			break
		}
		time.Sleep(10 * time.Millisecond)
	}
	desc := fmt.Sprintf("%d expired query events: goroutines %d -> %d, listener goroutines %d -> %d", n, base, now, baseL, nowL)
	if now > base || nowL > baseL {
		r.violation("leak", "query listener goroutines are not released: "+desc)
	}
	for i := 0; i < n; i++ {
		if c := atomic.LoadInt32(&r.nilOf[i]); c != 1 {
			r.violation("nil-count", fmt.Sprintf("query event %d of a history of %d got %d nil calls", i, n, c))
			break
		}
	}
	if c := atomic.LoadInt32(&r.lateCb); c > 0 {
		r.violation("late-callback", fmt.Sprintf("%d request callbacks ran after the nil call in a history of %d query events", c, n))
	}
	// every request the listeners took out of their channels must have had its callback; what was put
	// into a channel after its listener returned is still there
	unread := 0
	for i := 0; i < n; i++ {
		unread += len(r.qes[i].ch)
	}
	if int(atomic.LoadInt32(&gotCb)) != int(atomic.LoadInt32(&sentReq))-unread {
		r.violation("lost-request", fmt.Sprintf("history of %d query events: %d requests delivered, %d left unread after the expiry, %d callbacks", n, sentReq, unread, gotCb))
	}
	r.shutdown()
	fmt.Fprintln(os.Stderr, "history:", desc)
}

// runHistoryNats: the same long history on a real nats.go connection to an embedded nats-server, with a
// second connection playing the gateway (it sends query requests to the subject of every query event it
// sees, and again after the expiry).  Observes what the scripted Conn cannot: the subscriptions are
// gone from the client connection and from the server after the expiry.
func (r *runner) runHistoryNats() {
	atomic.StoreInt32(&r.passive, 1)
	srv, err := server.NewServer(&server.Options{Host: "127.0.0.1", Port: -1, NoLog: true, NoSigs: true})
	if err != nil {
		r.skipped = "embedded nats-server: " + err.Error()
		return
	}
	go srv.Start()
	defer srv.Shutdown()
	if !srv.ReadyForConnections(10 * time.Second) {
		r.skipped = "embedded nats-server not ready (no loopback TCP?)"
		return
	}
	nc, err := nats.Connect(srv.ClientURL())
	if err != nil {
		r.skipped = "connect to the embedded nats-server: " + err.Error()
		return
	}
	cl, err := nats.Connect(srv.ClientURL())
	if err != nil {
		r.violation("harness", "connect: "+err.Error())
		return
	}
	defer cl.Close()
	n := r.sc.History
	r.s = r.newService()
	ready := make(chan struct{})
	r.s.SetOnServe(func(*res.Service) { close(ready) })
	go r.s.Serve(nc)
	select {
	case <-ready:
	case <-time.After(5 * time.Second):
		r.violation("harness", "service did not start on the embedded nats-server")
		return
	}
	var responses, lateResponses, requests, gotCb int32
	var subjMu sync.Mutex
	var subjects []string
	var reqWg sync.WaitGroup
	cl.Subscribe("event.test.>", func(m *nats.Msg) {
		if !strings.HasSuffix(m.Subject, ".query") {
			return
		}
		var p struct {
			Subject string `json:"subject"`
		}
		if json.Unmarshal(m.Data, &p) != nil || p.Subject == "" {
			return
		}
		subjMu.Lock()
		subjects = append(subjects, p.Subject)
		k := len(subjects)
		subjMu.Unlock()
		for i := 0; i < k%3; i++ {
			reqWg.Add(1)
			atomic.AddInt32(&requests, 1)
			go func() {
				defer reqWg.Done()
				if rm, err := cl.Request(p.Subject, []byte(`{"query":"a=b"}`), 2*time.Second); err == nil && len(rm.Data) > 0 {
					atomic.AddInt32(&responses, 1)
				}
			}()
		}
	})
	cl.Request("test.warmup.nobody", nil, 5*time.Millisecond) // creates the gateway connection's response subscription
	cl.Flush()
	nc.Flush()
	time.Sleep(20 * time.Millisecond)
	runtime.GC()
	baseG, baseL := runtime.NumGoroutine(), listenerGoroutines()
	baseSubs, baseSrv := nc.NumSubscriptions(), srv.NumSubscriptions()
	r.nilOf = make([]int32, n)
	r.qes = make([]*qeState, n)
	for i := 0; i < n; i++ {
		i := i
		q := &qeState{k: i, created: make(chan struct{}), spec: qeSpec{Res: "mcug"[i%4 : i%4+1], ID: i % 3}}
		r.qes[i] = q
		err := r.s.With(q.rid(), func(rs res.Resource) {
			rs.QueryEvent(func(qr res.QueryRequest) {
				if qr == nil {
					atomic.AddInt32(&r.nilOf[i], 1)
					atomic.AddInt32(&r.nilSeen, 1)
					return
				}
				if atomic.LoadInt32(&r.nilOf[i]) > 0 {
					atomic.AddInt32(&r.lateCb, 1)
				}
				atomic.AddInt32(&gotCb, 1)
				if i%2 == 0 {
					qr.NotFound()
				}
			})
		})
		if err != nil {
			r.violation("harness", err.Error())
		}
		if i%50 == 49 {
			time.Sleep(time.Duration(1+i%7) * time.Millisecond)
		}
	}
	deadline := time.Now().Add(20 * time.Second)
	for int(atomic.LoadInt32(&r.nilSeen)) < n && time.Now().Before(deadline) {
		time.Sleep(2 * time.Millisecond)
	}
	reqWg.Wait()
	// requests published after the drain was requested: nobody may answer
	subjMu.Lock()
	late := append([]string(nil), subjects...)
	subjMu.Unlock()
	var lateWg sync.WaitGroup
	for i, sj := range late {
		if i%5 != 0 {
			continue
		}
		lateWg.Add(1)
		go func(sj string) {
			defer lateWg.Done()
			if rm, err := cl.Request(sj, []byte(`{"query":"late"}`), 150*time.Millisecond); err == nil && len(rm.Data) > 0 {
				atomic.AddInt32(&lateResponses, 1)
			}
		}(sj)
	}
	lateWg.Wait()
	var g, l, subs int
	var ssubs uint32
	for i := 0; i < 300; i++ {
		runtime.GC()
		nc.Flush()
		g, l, subs, ssubs = runtime.NumGoroutine(), listenerGoroutines(), nc.NumSubscriptions(), srv.NumSubscriptions()
		if g <= baseG && l <= baseL && subs <= baseSubs && ssubs <= baseSrv {
			break
		}
		time.Sleep(10 * time.Millisecond)
	}
	desc := fmt.Sprintf("%d expired query events on nats.go: goroutines %d -> %d, listener goroutines %d -> %d, client subscriptions %d -> %d, server subscriptions %d -> %d, %d requests sent around the expiry, %d callbacks, %d responses, %d requests after the expiry answered",
		n, baseG, g, baseL, l, baseSubs, subs, baseSrv, ssubs, requests, gotCb, responses, lateResponses)
	if len(late) != n {
		r.violation("query-subject", fmt.Sprintf("%d query events published for %d QueryEvent calls", len(late), n))
	}
	if g > baseG || l > baseL {
		r.violation("leak", "query listener goroutines are not released: "+desc)
	}
	if subs > baseSubs || ssubs > baseSrv {
		r.violation("leak", "query subscriptions are not released: "+desc)
	}
	// a request may reach the service after the expiry (the gateway races with the 25 ms duration), so only
	// the requests whose callback ran are owed a response
	if responses != gotCb {
		r.violation("lost-request", fmt.Sprintf("%d query request callbacks ran but %d responses arrived: %s", gotCb, responses, desc))
	}
	if lateResponses > 0 || atomic.LoadInt32(&r.lateCb) > 0 {
		r.violation("late-callback", fmt.Sprintf("requests after the expiry were handled (%d callbacks after nil): %s", r.lateCb, desc))
	}
	for i := 0; i < n; i++ {
		if c := atomic.LoadInt32(&r.nilOf[i]); c != 1 {
			r.violation("nil-count", fmt.Sprintf("query event %d of a history of %d got %d nil calls", i, n, c))
			break
		}
	}
	r.shutdown()
	fmt.Fprintln(os.Stderr, "history-nats:", desc)
}

// runHeldNats: the group's worker is busy across the expiry.  Real nats.go connection to an embedded
// nats-server (the scripted Conn cannot see Drain).  A callback of the query event's group is held by the
// harness; while it is held the query event expires: its subscription must go away all the same (client
// subscription count back at the baseline, polled - no timing bound other than a 3 s give-up), a request
// published after that must not even reach the connection, and once the worker is released every request
// received while the query event was active gets exactly one response and the callback one nil call.
func (r *runner) runHeldNats() {
	atomic.StoreInt32(&r.passive, 1)
	srv, err := server.NewServer(&server.Options{Host: "127.0.0.1", Port: -1, NoLog: true, NoSigs: true})
	if err != nil {
		r.skipped = "embedded nats-server: " + err.Error()
		return
	}
	go srv.Start()
	defer srv.Shutdown()
	if !srv.ReadyForConnections(10 * time.Second) {
		r.skipped = "embedded nats-server not ready (no loopback TCP?)"
		return
	}
	nc, err := nats.Connect(srv.ClientURL())
	if err != nil {
		r.skipped = "connect to the embedded nats-server: " + err.Error()
		return
	}
	cl, err := nats.Connect(srv.ClientURL())
	if err != nil {
		r.skipped = "connect to the embedded nats-server: " + err.Error()
		return
	}
	defer cl.Close()
	rng := NewRng(r.sc.Seed)
	r.s = r.newService()
	ready := make(chan struct{})
	r.s.SetOnServe(func(*res.Service) { close(ready) })
	go r.s.Serve(nc)
	select {
	case <-ready:
	case <-time.After(5 * time.Second):
		r.violation("harness", "service did not start on the embedded nats-server")
		return
	}
	subjCh := make(chan string, 4)
	cl.Subscribe("event.test.>", func(m *nats.Msg) {
		var p struct {
			Subject string `json:"subject"`
		}
		if strings.HasSuffix(m.Subject, ".query") && json.Unmarshal(m.Data, &p) == nil && p.Subject != "" {
			subjCh <- p.Subject
		}
	})
	cl.Request("test.warmup.nobody", nil, 5*time.Millisecond)
	cl.Flush()
	nc.Flush()
	rid := fmt.Sprintf("test.%s.%d", rng.Pick([]string{"m", "c", "g", "u"}), 1+rng.Intn(3))
	baseSubs := nc.NumSubscriptions()
	var nils, reqCbs int32
	created := make(chan struct{})
	if err := r.s.With(rid, func(rs res.Resource) {
		rs.QueryEvent(func(qr res.QueryRequest) {
			if qr == nil {
				atomic.AddInt32(&nils, 1)
				return
			}
			atomic.AddInt32(&reqCbs, 1)
		})
		close(created)
	}); err != nil {
		r.violation("harness", err.Error())
		return
	}
	t0 := time.Now()
	<-created
	var subj string
	select {
	case subj = <-subjCh:
	case <-time.After(3 * time.Second):
		r.violation("harness", "no query event seen on the embedded nats-server")
		return
	}
	what := fmt.Sprintf("query event on %s, duration %v, a callback of its group held across the expiry", rid, queryDuration)
	// hold the worker of the query event's group
	entered, letGo := make(chan struct{}), make(chan struct{})
	r.s.With(rid, func(res.Resource) { close(entered); <-letGo })
	select {
	case <-entered:
	case <-time.After(3 * time.Second):
		r.violation("harness", "the holding callback did not start")
		close(letGo)
		return
	}
	// requests sent while the query event is (very likely) still active: answered once the worker is free, if received in time
	nEarly := rng.Intn(3)
	type pend struct {
		sub *nats.Subscription
		n   int
	}
	var early []pend
	for i := 0; i < nEarly && time.Since(t0) < queryDuration/2; i++ {
		inbox := nats.NewInbox()
		sb, _ := cl.SubscribeSync(inbox)
		cl.PublishRequest(subj, inbox, []byte(fmt.Sprintf(`{"query":"e=%d"}`, i)))
		early = append(early, pend{sub: sb})
	}
	cl.Flush()
	// the expiry: the subscription must be released although the group's worker is busy
	released := false
	for dl := t0.Add(queryDuration + 3*time.Second); time.Now().Before(dl); time.Sleep(time.Millisecond) {
		if nc.NumSubscriptions() <= baseSubs {
			released = true
			break
		}
	}
	if !released {
		r.violation("leak-held", fmt.Sprintf("the subscription of an expired query event is still there %v after its creation while the group's worker is busy (client subscriptions %d, baseline %d): %s",
			time.Since(t0).Round(time.Millisecond), nc.NumSubscriptions(), baseSubs, what))
	}
	// a request published now, the worker still held: it must not be delivered to the service's connection any more
	nc.Flush()
	in0 := nc.Stats().InMsgs
	lateInbox := nats.NewInbox()
	lateSub, _ := cl.SubscribeSync(lateInbox)
	cl.PublishRequest(subj, lateInbox, []byte(`{"query":"late"}`))
	cl.Flush()
	time.Sleep(20 * time.Millisecond)
	nc.Flush()
	delivered := nc.Stats().InMsgs - in0
	close(letGo)
	for dl := time.Now().Add(5 * time.Second); atomic.LoadInt32(&nils) < 1 && time.Now().Before(dl); time.Sleep(time.Millisecond) {
	}
	time.Sleep(5 * time.Millisecond)
	nc.Flush()
	cl.Flush()
	lateAnswered := false
	if m, err := lateSub.NextMsg(100 * time.Millisecond); err == nil && len(m.Data) > 0 {
		lateAnswered = true
	}
	if delivered > 0 && !lateAnswered {
		r.violation("lost-request", "a query request published after the expiry was still delivered to the query event's subscription and never answered: "+what)
	}
	answered := 0
	for _, p := range early {
		if m, err := p.sub.NextMsg(500 * time.Millisecond); err == nil && len(m.Data) > 0 {
			answered++
			if _, err := p.sub.NextMsg(20 * time.Millisecond); err == nil {
				r.violation("double-response", "two responses to one query request: "+what)
			}
		}
	}
	if int(atomic.LoadInt32(&reqCbs)) != answered+btoi(lateAnswered) {
		r.violation("lost-request", fmt.Sprintf("%d query request callbacks ran but %d responses arrived: %s", reqCbs, answered+btoi(lateAnswered), what))
	}
	if c := atomic.LoadInt32(&nils); c != 1 {
		r.violation("nil-count", fmt.Sprintf("%d nil calls: %s", c, what))
	}
	for dl := time.Now().Add(3 * time.Second); time.Now().Before(dl) && (nc.NumSubscriptions() > baseSubs || listenerGoroutines() > 0); time.Sleep(2 * time.Millisecond) {
	}
	if nc.NumSubscriptions() > baseSubs || listenerGoroutines() > 0 {
		r.violation("leak", fmt.Sprintf("after the worker was released: client subscriptions %d (baseline %d), listener goroutines %d: %s", nc.NumSubscriptions(), baseSubs, listenerGoroutines(), what))
	}
	atomic.AddInt32(&r.heldOK, 1)
	r.shutdown()
}

// ---------- log -> cases ----------

type qconv struct {
	labels   []string
	listener []int // indices of listener labels
	pendFwd  bool
	inDone   bool
	lastEnq  int
	calls    []string
	resps    map[int][]string
	ranJ     map[int]bool
	npub     int
	failNil  bool
	exited   bool
	nontriv  int
	panicked []int // requests whose callback panicked before any response had been published
}

func (r *runner) convert() []Case {
	r.mu.Lock()
	log := append([]entry(nil), r.log...)
	r.mu.Unlock()
	cv := make([]*qconv, len(r.qes))
	for i := range cv {
		cv[i] = &qconv{lastEnq: -1, resps: map[int][]string{}, ranJ: map[int]bool{}}
	}
	stalePubs := map[int][]string{}
	emit := func(k int, l string, listener bool) {
		c := cv[k]
		if listener {
			c.listener = append(c.listener, len(c.labels))
		}
		c.labels = append(c.labels, l)
	}
	for _, e := range log {
		switch e.kind {
		case "sub":
			emit(e.k, "LQSub "+Bool(e.ok), false)
		case "pub":
			var sn int
			if c, _ := fmt.Sscanf(e.s, "S.%d", &sn); c == 1 && strings.HasPrefix(e.s, "S.") {
				stalePubs[sn] = append(stalePubs[sn], canon(e.data))
			}
			if k, j, ok := r.replyOf(e.s); ok {
				c := cv[k]
				if !c.ranJ[j] {
					c.ranJ[j] = true
					emit(k, fmt.Sprintf("LQRun (Some %d)", j), false)
					c.calls = append(c.calls, fmt.Sprintf("Some %d", j))
				}
				c.resps[j] = append(c.resps[j], canon(e.data))
				continue
			}
			if strings.HasPrefix(e.s, "event.") && strings.HasSuffix(e.s, ".query") {
				var p struct {
					Subject string `json:"subject"`
				}
				json.Unmarshal(e.data, &p)
				// attributed to the query event whose QueryEvent call published it (subjects may repeat when
				// the implementation does not generate fresh ones)
				if k := e.k; k >= 0 && k < len(cv) {
					if e.s != "event."+r.qes[k].rid()+".query" {
						r.violation("harness", "query event published on "+e.s+" for "+r.qes[k].rid())
					}
					if p.Subject != r.qes[k].inbox {
						r.violation("query-subject", "query event published with a subject that was not subscribed: "+string(e.data))
					}
					cv[k].npub++
					emit(k, "LQPublish", false)
				} else {
					r.violation("query-subject", "query event published outside a QueryEvent call: "+string(e.data))
				}
			}
		case "arrive":
			if e.j >= staleBase {
				emit(e.k, fmt.Sprintf("LQArrive (Msg %d PQuery []) %s", e.j, Bool(e.ok)), false)
			} else {
				emit(e.k, fmt.Sprintf("LQArrive %s %s", r.qes[e.k].spec.Reqs[e.j].coqMsg(e.j), Bool(e.ok)), false)
			}
		case "query-recv":
			if k, ok := r.lgid[e.gid]; ok {
				emit(k, "LQTake", true)
				cv[k].pendFwd = true
			}
		case "query-done":
			if k, ok := r.lgid[e.gid]; ok {
				emit(k, "LQDone", true)
				cv[k].inDone = true
			}
		case "enq-new", "enq-append", "enq-refused", "enq-closing":
			k, ok := r.lgid[e.gid]
			if !ok {
				continue
			}
			c := cv[k]
			acc := Bool(e.kind == "enq-new" || e.kind == "enq-append")
			if c.pendFwd {
				c.pendFwd = false
				emit(k, "LQForward "+acc, true)
			} else if c.inDone {
				c.lastEnq = len(c.labels)
				emit(k, "LQDrain "+acc, true)
			} else {
				emit(k, "LQForward "+acc, true) // not preceded by a take: the model will refuse it
			}
		case "query-listener-exit":
			k, ok := r.lgid[e.gid]
			if !ok {
				continue
			}
			c := cv[k]
			c.exited = true
			if c.lastEnq >= 0 {
				// the last runWith of the done branch is the nil call; the channel was seen empty right
				// after the listener's previous step
				c.labels[c.lastEnq] = strings.Replace(c.labels[c.lastEnq], "LQDrain", "LQNil", 1)
				pos := 0
				for _, li := range c.listener {
					if li < c.lastEnq {
						pos = li + 1
					}
				}
				c.labels = append(c.labels[:pos], append([]string{"LQEmpty"}, c.labels[pos:]...)...)
				c.lastEnq = -1
			}
			if e.s != r.qes[k].rid() {
				r.violation("harness", "listener exit note for "+e.s+" attributed to "+r.qes[k].rid())
			}
		case "cb-panic":
			c := cv[e.k]
			replied := false
			for _, o := range c.resps[e.j] {
				if strings.HasPrefix(o, "PResp") {
					replied = true
				}
			}
			if !replied {
				c.panicked = append(c.panicked, e.j)
			}
		case "expire":
			if e.k >= 0 {
				emit(e.k, "LQExpire", false)
			}
		case "cb":
			c := cv[e.k]
			switch {
			case e.j == -1:
				if !r.qes[e.k].subOK && !c.failNil {
					c.failNil = true // the synchronous call of a failed subscription: part of LQSub false
				} else {
					emit(e.k, "LQRun None", false)
				}
				c.calls = append(c.calls, "None")
			case e.j == -2:
				emit(e.k, fmt.Sprintf("LQRun (Some %d)", unknownID), false)
				c.calls = append(c.calls, fmt.Sprintf("Some %d", unknownID))
			default:
				// (a second invocation for the same request is recorded again: the model refuses it)
				c.ranJ[e.j] = true
				emit(e.k, fmt.Sprintf("LQRun (Some %d)", e.j), false)
				c.calls = append(c.calls, fmt.Sprintf("Some %d", e.j))
			}
		}
	}
	complete := !r.aborted && r.sc.Kind != "shutdown"
	subjID := map[string]int{}
	var cases []Case
	for k, q := range r.qes {
		c := cv[k]
		ty := map[string]string{"m": "TModel", "c": "TCollection", "u": "TUnset", "p": "TModel", "g": "TCollection"}[q.spec.Res]
		var resps []string
		seen := map[int]bool{}
		for _, j := range q.sentJ {
			if !seen[j] {
				seen[j] = true
				resps = append(resps, fmt.Sprintf("(%d, %s)", j, List(c.resps[j])))
			}
		}
		for j, o := range c.resps {
			if !seen[j] {
				resps = append(resps, fmt.Sprintf("(%d, %s)", j, List(o)))
			}
		}
		// subjects interned per service object, in creation order
		subj := 0
		var prev []string
		for k2 := 0; k2 <= k; k2++ {
			if r.qes[k2].inbox == "" || (!r.qes[k2].subOK && k2 != k) {
				continue // QueryEvent was never called for it (scenario cut short) / nothing was published for it
			}
			id, ok := subjID[r.qes[k2].inbox]
			if !ok {
				id = len(subjID) + 1
				subjID[r.qes[k2].inbox] = id
			}
			if k2 < k {
				prev = append(prev, strconv.Itoa(id))
			} else {
				subj = id
			}
		}
		var stale []string
		for _, n := range q.staleN {
			stale = append(stale, List(stalePubs[n]))
		}
		durUS := r.dur / time.Microsecond
		if durUS < 0 {
			durUS = 0 // a zero or negative duration: expired at once
		}
		late := "None"
		if q.subOK && !q.expAt.IsZero() {
			late = fmt.Sprintf("(Some %d)", q.late/time.Microsecond)
		}
		var panicked []string
		for _, j := range c.panicked {
			panicked = append(panicked, strconv.Itoa(j))
		}
		life := "None"
		if q.subOK && !q.expAt.IsZero() {
			life = fmt.Sprintf("(Some %d)", q.expAt.Sub(q.subAt)/time.Microsecond)
		}
		var within []string
		for _, j := range q.within {
			within = append(within, strconv.Itoa(j))
		}
		term := fmt.Sprintf("QC (Cfg %s %s) %s %s %s %d %s %s %d %s %s %d %s %s %s %s", Bool(q.spec.Res != "p"), ty, List(c.labels), List(c.calls),
			List(resps), c.npub, Bool(c.exited), Bool(complete), subj, List(prev), List(stale),
			durUS, life, List(within), late, List(panicked))
		tags := []string{r.sc.Kind}
		if q.spec.FailSub {
			tags = append(tags, "failed-sub")
		}
		if r.sc.Kind == "restart" {
			tags = append(tags, fmt.Sprintf("restart-run-%d", q.run))
			if q.run == 0 && k >= r.sc.NExp {
				tags = append(tags, "active-across-restart")
			}
		}
		if q.spec.Res == "p" {
			tags = append(tags, "parallel")
		}
		if q.spec.Nested {
			tags = append(tags, "sent-from-query-callback")
		} else if q.spec.TrigQuery != "" {
			tags = append(tags, "sent-from-resource-with-query")
		}
		expired := false
		for _, l := range c.labels {
			switch {
			case l == "LQExpire":
				expired = true
			case l == "LQTake" && expired:
				tags = append(tags, "take-after-expiry")
				expired = false
			}
		}
		if strings.Contains(term, "LQDrain") {
			tags = append(tags, "drained-in-done-branch")
		}
		if c.exited && len(q.sentJ) > 0 {
			last := ""
			for _, l := range c.labels {
				if strings.HasPrefix(l, "LQArrive") && strings.HasSuffix(l, "true") {
					last = l
				} else if strings.HasPrefix(l, "LQNil") {
					last = ""
				}
			}
			if last != "" {
				tags = append(tags, "arrival-after-listener-returned")
			}
		}
		desc := r.desc(k)
		if r.sc.Kind == "restart" {
			n0 := 0
			for _, x := range r.qes {
				if x.spec.Run == 0 {
					n0++
				}
			}
			desc["history"] = fmt.Sprintf("one Service object: Serve; %d query events (the first %d expire, the others stay active); Shutdown; Serve on a new connection; %d query events; requests published on the subjects of the first run; the old, then the new query events expire",
				n0, r.sc.NExp, len(r.qes)-n0)
			desc["serve_run"] = q.run
			desc["subject"] = q.inbox
			for k2 := 0; k2 < k; k2++ {
				if r.qes[k2].subOK && r.qes[k2].inbox == q.inbox && q.inbox != "" {
					desc["same_subject_as"] = fmt.Sprintf("query event %d of Serve run %d", k2, r.qes[k2].run)
					break
				}
			}
			var answered []string
			for _, n := range q.staleN {
				if k2, ok := r.staleTo[n]; ok {
					answered = append(answered, fmt.Sprintf("stale request %d received by query event %d of Serve run %d: %v", n, k2, r.qes[k2].run, stalePubs[n]))
				}
			}
			if answered != nil {
				desc["stale_requests"] = answered
			}
		}
		cases = append(cases, Case{Term: term, Desc: desc, Tags: tags,
			Nontrivial: len(c.calls) >= 2 && c.exited, Key: term})
	}
	return cases
}

// ---------- running scenarios ----------

type result struct {
	Index int             `json:"index"`
	Cases []Case          `json:"cases"`
	Impl  []ImplViolation `json:"impl"`
	Dist  map[string]int  `json:"dist"`
}

func runScenario(sc scenario) result {
	r := &runner{sc: sc, events: make(chan *gateEv, 65536), lgid: map[uint64]int{}, expect: -1,
		expSeq: map[int][]int{}, expNext: map[int]int{}, staleTo: map[int]int{}, lastRel: map[int]time.Time{}, dur: queryDuration}
	if sc.Dur != "" {
		d, err := time.ParseDuration(sc.Dur)
		if err != nil {
			panic(err)
		}
		r.dur = d
	}
	for k, qs := range sc.QEs {
		q := &qeState{spec: qs, k: k, created: make(chan struct{}), rdvCh: make(chan struct{})}
		for _, rq := range qs.Reqs {
			for _, a := range rq.Script {
				if a.K == "rdv" {
					q.rdvN++
				}
			}
		}
		r.qes = append(r.qes, q)
	}
	verifhook.SetGate(r.gate)
	verifhook.SetNote(r.note)
	defer verifhook.SetGate(nil)
	defer verifhook.SetNote(nil)
	out := result{Index: sc.Index, Dist: map[string]int{}}
	func() {
		defer func() {
			if v := recover(); v != nil {
				r.violation("harness", fmt.Sprintf("scenario panicked: %v", v))
				r.aborted = true
			}
		}()
		switch sc.Kind {
		case "history":
			r.runHistory()
		case "history-nats":
			r.runHistoryNats()
		case "held-nats":
			r.runHeldNats()
		case "racy":
			r.runRacy()
		case "restart":
			r.runRestart()
		case "parallel":
			r.runDirected()
		default:
			r.runDirected()
		}
	}()
	if !strings.HasPrefix(sc.Kind, "history") && sc.Kind != "held-nats" {
		out.Cases = r.convert()
	}
	out.Impl = r.impl
	d := out.Dist
	d["scenario-"+sc.Kind]++
	for _, ce := range sc.ConnEvs {
		d["while-active-"+ce.What]++
	}
	if sc.Dur != "" {
		d["duration-"+sc.Dur]++
	}
	if n := atomic.LoadInt32(&r.rdvOK); n > 0 {
		d["parallel-callbacks-overlapping"] += int(n)
	}
	if n := atomic.LoadInt32(&r.rdvTimeout); n > 0 {
		d["parallel-rendezvous-timeout"] += int(n)
	}
	if r.settleTimeouts > 0 {
		d["settle-timeout"] += r.settleTimeouts
	}
	if r.undeliv > 0 {
		d["stale-request-undelivered"] += r.undeliv
	}
	if len(r.staleTo) > 0 {
		d["stale-request-delivered"] += len(r.staleTo)
	}
	if n := atomic.LoadInt32(&r.heldOK); n > 0 {
		d["group-worker-held-across-expiry-completed"] += int(n)
	}
	if r.skipped != "" && sc.Kind == "held-nats" {
		d["held-nats-skipped"]++
	} else if r.skipped != "" {
		d["history-nats-skipped"]++
		fmt.Fprintln(os.Stderr, "history-nats skipped:", r.skipped)
	}
	for _, q := range sc.QEs {
		d["query-events"]++
		d["resource-"+q.Res]++
		if q.FailSub {
			d["failed-subscription"]++
		}
		if q.ViaCall {
			d["created-in-call-handler"]++
		}
		for _, rq := range q.Reqs {
			d["request-phase-"+rq.Phase]++
			d["payload-"+[3]string{"query", "missing-query", "malformed"}[rq.PKind]]++
			if rq.PKind == 1 && payloads[1][rq.PVar%len(payloads[1])] == "" {
				if q.Nested || q.TrigQuery != "" {
					d["zero-length-payload-on-event-sent-from-resource-with-query"]++
				} else {
					d["zero-length-payload-on-event-sent-from-resource-without-query"]++
				}
			}
			for _, a := range rq.Script {
				d["action-"+a.K]++
			}
		}
	}
	r.mu.Lock()
	for _, e := range r.log {
		switch e.kind {
		case "arrive":
			if !e.ok {
				d["dropped-full-channel"]++
			}
		case "enq-refused", "enq-closing":
			if _, ok := r.lgid[e.gid]; ok {
				d["runwith-refused"]++
			}
		}
	}
	r.mu.Unlock()
	for _, c := range out.Cases {
		for _, t := range c.Tags[1:] {
			d[t]++
		}
	}
	return out
}

// ---------- generation ----------

func genScript(rng *Rng) []action {
	n := rng.Intn(5)
	if rng.Chance(15) {
		n = 0
	}
	var sc []action
	for i := 0; i < n; i++ {
		a := action{V: rng.Intn(50), OK: !rng.Chance(8), M: rng.Intn(6), C: rng.Intn(4)}
		switch rng.Intn(13) {
		case 0:
			a.K = "model"
		case 1:
			a.K = "coll"
		case 2:
			a.K = "notfound"
		case 3:
			a.K = "invq"
			if rng.Bool() {
				a.M = -1
			}
		case 4:
			a.K = "error"
			a.E = rng.Pick([]string{"res", "res", "nilres", "plain", "niliface"})
		case 5:
			a.K = "timeout"
			a.Idx = rng.Intn(3000)
			a.Neg = rng.Chance(15)
		case 6, 7:
			a.K = "change"
			a.Neg = rng.Chance(20)
		case 8, 9:
			a.K = "add"
			a.Idx = rng.Intn(9)
			a.Neg = rng.Chance(12)
		case 10:
			a.K = "remove"
			a.Idx = rng.Intn(9)
			a.Neg = rng.Chance(12)
		default:
			a.K = "panic"
			a.E = rng.Pick([]string{"res", "nilres", "error", "errpanic", "string", "other"})
		}
		sc = append(sc, a)
	}
	return sc
}

func genReq(rng *Rng, phase string) reqSpec {
	rq := reqSpec{Phase: phase, PVar: rng.Intn(16)}
	switch x := rng.Intn(100); {
	case x < 12:
		rq.PKind = 1
	case x < 24:
		rq.PKind = 2
	default:
		rq.Script = genScript(rng)
	}
	return rq
}

func genQE(rng *Rng, kind string, small bool) qeSpec {
	q := qeSpec{Res: rng.Pick([]string{"m", "m", "c", "c", "u", "p", "g", "g"}), ID: 1 + rng.Intn(3), ViaCall: rng.Chance(25), FailSub: rng.Chance(8)}
	if rng.Chance(50) {
		q.TrigQuery = rng.Pick([]string{"foo=bar", "a=1&b=2", "q", "j=0"})
	}
	q.Nested = kind != "racy" && rng.Chance(12)
	if q.FailSub {
		return q
	}
	add := func(phase string, n int) {
		for i := 0; i < n; i++ {
			q.Reqs = append(q.Reqs, genReq(rng, phase))
		}
	}
	if kind == "racy" {
		n := rng.Intn(chanSize + 1)
		for i := 0; i < n; i++ {
			rq := genReq(rng, "R")
			// clustered around the expiry (25 ms after the creation)
			rq.Delay = rng.Intn(2 * int(queryDuration/time.Microsecond) / (n + 1))
			if rng.Chance(30) {
				rq.Delay = rng.Intn(300)
			}
			q.Reqs = append(q.Reqs, rq)
		}
		return q
	}
	lim := 4
	if small {
		lim = 2
	}
	add("A", rng.Intn(lim))
	if rng.Chance(40) {
		add("H", 1)
		add("B", []int{0, 1, 2, 3, 9, 10, 11, 12}[rng.Intn(8)]*btoi(!small)+rng.Intn(2))
	}
	add("E", rng.Intn(lim))
	add("D", rng.Intn(lim))
	add("X", rng.Intn(3))
	return q
}

func btoi(b bool) int {
	if b {
		return 1
	}
	return 0
}

// fixNested keeps the nested flag only where the previous query event can be the parent (same batch / Serve
// run, subscribed), gives the child the parent's resource and the parent the request whose callback sends it.
func fixNested(sc *scenario) {
	start := map[int]bool{0: true}
	at := 0
	for _, b := range sc.Batches {
		start[at] = true
		at += b
	}
	for k := range sc.QEs {
		q := &sc.QEs[k]
		if !q.Nested {
			continue
		}
		if start[k] || sc.QEs[k-1].FailSub || sc.QEs[k-1].Run != q.Run {
			q.Nested = false
			continue
		}
		p := &sc.QEs[k-1]
		q.Res, q.ID, q.ViaCall, q.TrigQuery = p.Res, p.ID, false, ""
		p.Reqs = append(p.Reqs, reqSpec{Phase: "N", Script: []action{{K: "nest", V: k}}})
	}
}

// raceSubset (-race-subset): only the scenarios with concurrency inside go-res - overlapping callbacks on
// Parallel resources, restart histories, a few directed and racy ones - few enough for a -race build.
var raceSubset bool

func generate(o Opts) []scenario {
	rng := NewRng(o.Seed)
	nDir, nRacy, nShut, hist, nRestart, nPar := 300, 120, 30, 200, 60, 40
	nHeld := 8
	if o.Tier == "thorough" {
		nHeld = 80
	}
	if raceSubset {
		nHeld = 2
	}
	if o.Tier == "thorough" {
		nDir, nRacy, nShut, hist, nRestart, nPar = 8000, 3000, 800, 2000, 1500, 1000
	}
	if o.N > 0 {
		nDir, nRacy, nShut, nRestart, nPar = o.N, o.N/3, o.N/8, o.N/4+1, o.N/4+1
	}
	if raceSubset {
		nDir, nRacy, nShut, hist, nRestart, nPar = 8, 6, 2, 0, 10, 16
		if o.Tier == "thorough" {
			nDir, nRacy, nShut, hist, nRestart, nPar = 80, 60, 20, 200, 100, 160
		}
	}
	var scs []scenario
	for i := 0; i < nDir+nShut; i++ {
		sc := scenario{Kind: "directed", Workers: []int{1, 2, 4, 8}[rng.Intn(4)], Seed: rng.Next() % 1000000}
		n := 1 + rng.Intn(6)
		if rng.Chance(15) {
			n = 10 + rng.Intn(41)
		}
		if i == 0 {
			n = 50
		}
		for k := 0; k < n; k++ {
			sc.QEs = append(sc.QEs, genQE(rng, "directed", n > 8))
		}
		left := n
		for left > 0 {
			b := 1 + rng.Intn(left)
			if rng.Chance(50) {
				b = left
			}
			sc.Batches = append(sc.Batches, b)
			left -= b
		}
		if i >= nDir {
			sc.Kind = "shutdown"
			sc.ShutAt = rng.Intn(len(sc.Batches))
		}
		fixNested(&sc)
		if rng.Chance(40) {
			for c := 1 + rng.Intn(3); c > 0; c-- {
				sc.ConnEvs = append(sc.ConnEvs, connEv{At: rng.Pick([]string{"after-create", "after-create", "after-early", "mid-expire"}),
					What: rng.Pick([]string{"reconnect", "reconnect", "disconnect", "resetall", "reset", "tokenreset"})})
			}
		}
		scs = append(scs, sc)
	}
	for i := 0; i < nRacy; i++ {
		sc := scenario{Kind: "racy", Workers: []int{1, 2, 4}[rng.Intn(3)], Seed: rng.Next() % 1000000}
		if rng.Chance(60) {
			sc.Perturb = rng.Next() | 1
		}
		n := 1 + rng.Intn(4)
		for k := 0; k < n; k++ {
			sc.QEs = append(sc.QEs, genQE(rng, "racy", false))
		}
		scs = append(scs, sc)
	}
	for i := 0; i < nRestart; i++ {
		sc := scenario{Kind: "restart", Workers: []int{1, 2, 4}[rng.Intn(3)], Seed: rng.Next() % 1000000}
		n0, n1 := 1+rng.Intn(5), 1+rng.Intn(5)
		for k := 0; k < n0+n1; k++ {
			q := genQE(rng, "directed", true)
			if k >= n0 {
				q.Run = 1
			} else {
				q.Stale = rng.Intn(3)
			}
			sc.QEs = append(sc.QEs, q)
		}
		sc.NExp = rng.Intn(n0 + 1)
		sc.Batches = []int{n0, n1}
		fixNested(&sc)
		scs = append(scs, sc)
	}
	for i := 0; i < nPar; i++ {
		// Parallel resources: 2-4 requests delivered back-to-back to a free listener, their callbacks wait for
		// each other (so they do overlap) and then re-read the query
		sc := scenario{Kind: "parallel", Workers: 8, Seed: rng.Next() % 1000000}
		n := 1 + rng.Intn(3)
		for k := 0; k < n; k++ {
			q := genQE(rng, "directed", true)
			q.Res, q.FailSub, q.Nested = "p", false, false
			var reqs []reqSpec
			for c := 2 + rng.Intn(3); c > 0; c-- {
				rq := reqSpec{Phase: "A", PVar: rng.Intn(16), Script: append([]action{{K: "rdv"}}, genScript(rng)...)}
				reqs = append(reqs, rq)
			}
			for _, rq := range q.Reqs {
				if rq.Phase != "A" && rq.Phase != "H" && rq.Phase != "B" {
					reqs = append(reqs, rq)
				}
			}
			q.Reqs = reqs
			sc.QEs = append(sc.QEs, q)
		}
		sc.Batches = []int{n}
		scs = append(scs, sc)
	}
	for i := 0; i < nHeld; i++ {
		scs = append(scs, scenario{Kind: "held-nats", Workers: 4, Seed: rng.Next() % 1000000})
	}
	if hist > 0 {
		scs = append(scs, scenario{Kind: "history", Workers: 4, History: hist, Seed: rng.Next() % 1000000})
		scs = append(scs, scenario{Kind: "history-nats", Workers: 4, History: hist, Seed: rng.Next() % 1000000})
	}
	for i := range scs {
		if !strings.HasPrefix(scs[i].Kind, "history") && scs[i].Kind != "held-nats" && rng.Chance(30) {
			// several query events with a short positive duration would reach the gate from several timer goroutines in
			// an order the director cannot know: those durations only where one query event is alive at a time
			if scs[i].Kind == "racy" {
				scs[i].Dur = rng.Pick([]string{"0", "-5ms", "1ms", "1ms", "8ms", "8ms"})
			} else {
				scs[i].Dur = rng.Pick([]string{"0", "0", "-5ms"})
			}
		}
		scs[i].Index = i
		scs[i].Gen = genRef{Seed: o.Seed, Tier: o.Tier, N: o.N, Index: i, Subset: raceSubset}
	}
	return scs
}

// ---------- main ----------

func runWorker(in string) {
	b, err := os.ReadFile(in)
	if err != nil {
		panic(err)
	}
	var scs []scenario
	if err := json.Unmarshal(b, &scs); err != nil {
		panic(err)
	}
	var out []result
	for _, sc := range scs {
		out = append(out, runScenario(sc))
	}
	ob, _ := json.Marshal(out)
	if err := os.WriteFile(in+".out", ob, 0o644); err != nil {
		panic(err)
	}
}

func main() {
	worker := flag.String("worker", "", "internal: run the scenarios of this file")
	procs := flag.Int("procs", 0, "worker processes (default: min(8, NumCPU))")
	flag.BoolVar(&raceSubset, "race-subset", false, "only the scenarios with concurrency inside go-res (Parallel query requests, restarts, a few directed/racy ones); meant for -race builds")
	o := ParseOpts()
	if *worker != "" {
		runWorker(*worker)
		return
	}
	var scs []scenario
	if o.Replay != "" {
		var d struct {
			Gen genRef `json:"gen"`
		}
		if err := LoadReplay(o.Replay, &d); err != nil {
			panic(err)
		}
		raceSubset = d.Gen.Subset
		all := generate(Opts{Seed: d.Gen.Seed, Tier: d.Gen.Tier, N: d.Gen.N})
		if d.Gen.Index < 0 || d.Gen.Index >= len(all) {
			panic("replay: no such generated scenario")
		}
		sc := all[d.Gen.Index]
		sc.Index = 0
		scs = []scenario{sc}
	} else {
		scs = generate(o)
	}
	np := *procs
	if np <= 0 {
		np = runtime.NumCPU()
		if np > 8 {
			np = 8
		}
	}
	if np > len(scs) {
		np = len(scs)
	}
	exe, err := os.Executable()
	if err != nil {
		panic(err)
	}
	// the history scenario gets a process of its own (clean goroutine baseline); the others are dealt round-robin
	var parts [][]scenario
	var rest []scenario
	for _, sc := range scs {
		if strings.HasPrefix(sc.Kind, "history") {
			parts = append(parts, []scenario{sc})
		} else {
			rest = append(rest, sc)
		}
	}
	if len(rest) > 0 {
		if np > len(rest) {
			np = len(rest)
		}
		split := make([][]scenario, np)
		for i, sc := range rest {
			split[i%np] = append(split[i%np], sc)
		}
		parts = append(parts, split...)
	}
	results := make([]result, len(scs))
	var wg sync.WaitGroup
	var fail int32
	for i, part := range parts {
		i, part := i, part
		wg.Add(1)
		go func() {
			defer wg.Done()
			in := fmt.Sprintf("%s/worker_%d.json", o.Out, i)
			b, _ := json.Marshal(part)
			os.WriteFile(in, b, 0o644)
			cmd := exec.Command(exe, "-worker", in, "-out", o.Out, "-tier", o.Tier)
			cmd.Stderr = os.Stderr
			if err := cmd.Run(); err != nil {
				fmt.Fprintln(os.Stderr, "worker", i, "failed:", err)
				atomic.AddInt32(&fail, 1)
				return
			}
			ob, err := os.ReadFile(in + ".out")
			if err != nil {
				atomic.AddInt32(&fail, 1)
				return
			}
			var rs []result
			if err := json.Unmarshal(ob, &rs); err != nil {
				atomic.AddInt32(&fail, 1)
				return
			}
			for _, r := range rs {
				results[r.Index] = r
			}
			os.Remove(in)
			os.Remove(in + ".out")
		}()
	}
	wg.Wait()
	if fail > 0 {
		os.Exit(3)
	}
	var cases []Case
	var impl []ImplViolation
	dist := map[string]int{}
	for _, r := range results {
		cases = append(cases, r.Cases...)
		impl = append(impl, r.Impl...)
		for k, v := range r.Dist {
			dist[k] += v
		}
	}
	for _, c := range cases {
		if c.Nontrivial {
			dist["nontrivial"]++
		}
	}
	extra := map[string]interface{}{"scenarios": len(scs), "worker_processes": len(parts)}
	Emit(o, "C15", "From Coq Require Import List NArith.\nFrom GoRes Require Import Run.Run_C15.\nImport ListNotations.", "qcase",
		"real res.Service on a scripted res.Conn; the harness plays NATS on the query channels handed to ChanSubscribe (non-blocking sends, "+
			"dropped when full, also after the expiry); directed schedules through the gates query-recv / query-done / query-expire "+
			"(1-50 query events per service in 1-n batches, 0-16 requests per query event: to a free listener, with the listener held across the "+
			"expiry, buffered up to and beyond the channel capacity, while the expiry is held, between done and the nil call, after the listener "+
			"returned), racy schedules (requests sent by a free-running goroutine around the expiry, seeded yield perturbation), shutdown before "+
			"the expiry, failed subscriptions, callbacks as random scripts of replies/events/timeouts/panics, malformed payloads and missing "+
			"queries (zero-length body, null, {}, empty/null query field, whitespace only, ...), query events sent from resources without and WITH a query "+
			"(Service.With(rid?query), call request with a query, QueryEvent from inside a query request callback), the callback's Query() checked against "+
			"the query sent in the request, restart histories on ONE service object (run 0 with query events of which some expire and some are still active at Shutdown, "+
			"Serve again on a fresh connection object, run 1 with new query events, requests published on the subjects of run 0, the old query "+
			"events expiring inside the restarted service: all subjects over the whole history pairwise distinct, nothing answers a stale request), "+
			"query event durations 25 ms, 8 ms, 1 ms, 0 and negative (expired at once; the expiry callback starts no earlier than the configured duration "+
			"and no later than 1 s after it could), callback panics observed (a panic before any reply must be answered with an error), "+
			"a callback of the query event's group held across the expiry on a real nats.go connection (the subscription must be released "+
			"all the same, later requests not delivered, pending ones answered after the release), the service's reconnect/disconnect handlers and ResetAll/Reset/TokenReset called while query events are active (no expiry before the "+
			"configured duration, requests accepted within the duration answered), Parallel resources with 2-4 request callbacks of one query event made to overlap (they wait for each other, then re-read Query()/ParseQuery()), "+
			"model/collection/untyped/grouped/Parallel resources (Parallel excluded from the ordering claim), query events created "+
			"with Service.With and from call handlers; two histories of 200 (quick) / 2,000 (thorough) expired query events - scripted Conn: goroutine "+
			"count and goroutine profile back to the baseline, callbacks = requests taken; real nats.go connection to an embedded nats-server with a "+
			"second connection as gateway: also client and server subscription counts back to the baseline, nothing answered after the expiry -; one case = one query event (its label trace, invocations and responses); "+
			"non-trivial = at least two callback invocations and the listener returned; distinct by case term",
		cases, dist, extra, impl, 60)
	if len(impl) > 0 {
		fmt.Fprintln(os.Stderr, "impl violations:", len(impl))
	}
}
