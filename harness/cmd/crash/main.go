// Correspondence harness for C12 (badgerstore crash safety).
//
// One binary, two roles.  `crash child -dir D -prefix P -nidx N -ops F` opens a real BadgerDB in D,
// builds Store (+QueryStore with 1 or 2 indexes), runs the operations of F and writes "ok"/"err"
// to stdout after every call that returned; with VERIF_KILL=<point>:<n> (build tag verif) it
// SIGKILLs itself at the n-th hit of that crash point.  The parent enumerates every (point,
// occurrence) pair of every workload, restarts the child on the same directory, reopens the
// database itself, records its content, calls RebuildIndexes and queries the indexes.
package main

import (
	"bufio"
	"bytes"
	"encoding/json"
	"flag"
	"fmt"
	"net/url"
	"os"
	"os/exec"
	"sort"
	"strconv"
	"strings"
	"sync"
	"time"

	"github.com/dgraph-io/badger"
	"github.com/jirenius/go-res/store/badgerstore"
	"github.com/jirenius/go-res/verifhook"

	. "verifharness/common"
)

type val struct {
	A string
	B string
}

type seed struct {
	ID string `json:"id"`
	A  string `json:"a"`
	B  string `json:"b"`
}

type op struct {
	K     string `json:"k"` // create update delete init
	ID    string `json:"id,omitempty"`
	A     string `json:"a,omitempty"`
	B     string `json:"b,omitempty"`
	Seeds []seed `json:"seeds,omitempty"`
}

var points = []string{"", "create-before", "create-committed", "update-before", "update-committed",
	"delete-before", "delete-committed", "init-seed-set", "init-before-marker", "index-before", "index-committed"}

func pointCode(name string) int {
	for i, p := range points {
		if p == name && i > 0 {
			return i
		}
	}
	return -1
}

// ---------------------------------------------------------------- store set-up (both roles)

func openStore(dir, prefix string, nidx int) (*badger.DB, *badgerstore.Store, *badgerstore.QueryStore, error) {
	opts := badger.DefaultOptions(dir)
	opts.Logger = nil
	db, err := badger.Open(opts)
	if err != nil {
		return nil, nil, nil, err
	}
	st := badgerstore.NewStore(db).SetType(val{}).SetPrefix(prefix)
	qs := badgerstore.NewQueryStore(st, func(qs *badgerstore.QueryStore, q url.Values) (*badgerstore.IndexQuery, error) {
		return &badgerstore.IndexQuery{Index: qs.Index(q.Get("idx")), Limit: -1}, nil
	})
	qs.AddIndex(badgerstore.Index{Name: "ia", Key: func(v interface{}) []byte { return []byte(v.(val).A) }})
	if nidx >= 2 {
		qs.AddIndex(badgerstore.Index{Name: "ib", Key: func(v interface{}) []byte {
			if b := v.(val).B; b != "" {
				return []byte(b)
			}
			return nil
		}})
	}
	return db, st, qs, nil
}

// ---------------------------------------------------------------- child

func childMain(args []string) {
	fs := flag.NewFlagSet("child", flag.ExitOnError)
	dir := fs.String("dir", "", "")
	prefix := fs.String("prefix", "", "")
	nidx := fs.Int("nidx", 1, "")
	opsFile := fs.String("ops", "", "")
	fs.Parse(args)
	b, err := os.ReadFile(*opsFile)
	if err != nil {
		fmt.Println("FATAL", err)
		os.Exit(3)
	}
	var ops []op
	if err := json.Unmarshal(b, &ops); err != nil {
		fmt.Println("FATAL", err)
		os.Exit(3)
	}
	db, st, qs, err := openStore(*dir, *prefix, *nidx)
	if err != nil {
		fmt.Println("FATAL", err)
		os.Exit(3)
	}
	say := func(s string) { os.Stdout.WriteString(s + "\n") } // unbuffered: one write(2) per line
	say("READY")
	for _, o := range ops {
		var err error
		switch o.K {
		case "init":
			err = st.Init(func(add func(id string, v interface{})) error {
				for _, s := range o.Seeds {
					add(s.ID, val{s.A, s.B})
				}
				return nil
			})
		case "create":
			txn := st.Write(o.ID)
			err = txn.Create(val{o.A, o.B})
			txn.Close()
		case "update":
			txn := st.Write(o.ID)
			err = txn.Update(val{o.A, o.B})
			txn.Close()
		case "delete":
			txn := st.Write(o.ID)
			err = txn.Delete()
			txn.Close()
		}
		if err == nil {
			say("ok")
		} else {
			say("err")
		}
	}
	qs.Flush()
	hb, _ := json.Marshal(verifhook.Hits())
	say("HITS " + string(hb))
	db.Close()
	os.Exit(0)
}

// ---------------------------------------------------------------- parent: running one lifetime

type lifeSpec struct {
	Ops     []op   `json:"ops"`
	Kill    string `json:"kill,omitempty"`     // "<point>:<n>"
	DelayUs int    `json:"delay_us,omitempty"` // > 0: SIGKILL that long after READY
}

type lifeResult struct {
	pt, occ int
	oks     []bool
	hits    map[string]int
	dur     time.Duration // READY -> exit
	fatal   string
}

var self string

func runLife(dbdir, scratch string, n int, prefix string, nidx int, ls lifeSpec) lifeResult {
	var r lifeResult
	of := fmt.Sprintf("%s/ops%d.json", scratch, n)
	ob, _ := json.Marshal(ls.Ops)
	os.WriteFile(of, ob, 0o644)
	cmd := exec.Command(self, "child", "-dir", dbdir, "-prefix", prefix, "-nidx", strconv.Itoa(nidx), "-ops", of)
	cmd.Env = append(os.Environ(), "VERIF_KILL="+ls.Kill)
	var errb bytes.Buffer
	cmd.Stderr = &errb
	out, _ := cmd.StdoutPipe()
	if err := cmd.Start(); err != nil {
		r.fatal = "start: " + err.Error()
		return r
	}
	ready := make(chan time.Time, 1)
	var lines []string
	done := make(chan struct{})
	go func() {
		sc := bufio.NewScanner(out)
		for sc.Scan() {
			l := sc.Text()
			if l == "READY" {
				ready <- time.Now()
			}
			lines = append(lines, l)
		}
		close(done)
	}()
	watchdog := time.AfterFunc(60*time.Second, func() { r.fatal = "hang"; cmd.Process.Kill() })
	var t0 time.Time
	if ls.DelayUs > 0 {
		select {
		case t0 = <-ready:
			time.Sleep(time.Duration(ls.DelayUs) * time.Microsecond)
			cmd.Process.Kill()
		case <-done:
		}
	}
	<-done
	err := cmd.Wait()
	watchdog.Stop()
	select {
	case t := <-ready:
		t0 = t
	default:
	}
	if !t0.IsZero() {
		r.dur = time.Since(t0)
	}
	clean := false
	for _, l := range lines {
		switch {
		case l == "ok":
			r.oks = append(r.oks, true)
		case l == "err":
			r.oks = append(r.oks, false)
		case strings.HasPrefix(l, "HITS "):
			json.Unmarshal([]byte(l[5:]), &r.hits)
			clean = true
		case strings.HasPrefix(l, "FATAL"):
			r.fatal = l
		}
	}
	if clean && err == nil {
		r.pt = 0
	} else if clean || (err != nil && !strings.Contains(err.Error(), "killed")) {
		if r.fatal == "" {
			r.fatal = fmt.Sprintf("child ended abnormally: %v %s", err, errb.String())
		}
	} else if ls.DelayUs > 0 {
		r.pt = 11
	} else {
		i := strings.LastIndexByte(ls.Kill, ':')
		r.pt = pointCode(ls.Kill[:i])
		r.occ, _ = strconv.Atoi(ls.Kill[i+1:])
	}
	return r
}

// ---------------------------------------------------------------- parent: observing the database

type entry struct {
	k string
	v *val
}

func dump(db *badger.DB) (es []entry, bad string) {
	db.View(func(txn *badger.Txn) error {
		it := txn.NewIterator(badger.DefaultIteratorOptions)
		defer it.Close()
		for it.Rewind(); it.Valid(); it.Next() {
			item := it.Item()
			e := entry{k: string(item.KeyCopy(nil))}
			item.Value(func(d []byte) error {
				if len(d) > 0 {
					var v val
					if err := json.Unmarshal(d, &v); err != nil {
						bad = fmt.Sprintf("undecodable value at key %q: %q", e.k, d)
					}
					e.v = &v
				}
				return nil
			})
			es = append(es, e)
		}
		return nil
	})
	return
}

func V(a, b string) string { return "(" + B(a) + "," + B(b) + ")" }

func obsTerm(es []entry) string {
	xs := make([]string, len(es))
	for i, e := range es {
		if e.v == nil {
			xs[i] = "(" + B(e.k) + ",None)"
		} else {
			xs[i] = "(" + B(e.k) + ",Some " + V(e.v.A, e.v.B) + ")"
		}
	}
	return List(xs)
}

func opsTerm(ops []op) string {
	xs := make([]string, len(ops))
	for i, o := range ops {
		switch o.K {
		case "create":
			xs[i] = "Create " + B(o.ID) + " " + V(o.A, o.B)
		case "update":
			xs[i] = "Update " + B(o.ID) + " " + V(o.A, o.B)
		case "delete":
			xs[i] = "Delete " + B(o.ID)
		case "init":
			ss := make([]string, len(o.Seeds))
			for j, s := range o.Seeds {
				ss[j] = "(" + B(s.ID) + "," + V(s.A, s.B) + ")"
			}
			xs[i] = "Init " + List(ss)
		}
	}
	return List(xs)
}

func runTerm(ls lifeSpec, r lifeResult, es []entry) string {
	oks := make([]string, len(r.oks))
	for i, b := range r.oks {
		oks[i] = Bool(b)
	}
	var hs []string
	for i := 1; i < len(points); i++ {
		if n := r.hits[points[i]]; n > 0 {
			hs = append(hs, fmt.Sprintf("(%d,%d)", i, n))
		}
	}
	return fmt.Sprintf("CR %s %d %d %s %s %s", opsTerm(ls.Ops), r.pt, r.occ, List(oks), List(hs), obsTerm(es))
}

// ---------------------------------------------------------------- parent: one case = one directory

type jobDesc struct {
	Prefix string     `json:"prefix"`
	NIdx   int        `json:"nidx"`
	Lives  []lifeSpec `json:"lives"`
}

type jobOut struct {
	c     Case
	impl  []ImplViolation
	stats map[string]int
	first lifeResult
}

func runJob(d jobDesc) (jo jobOut) {
	jo.stats = map[string]int{}
	jo.c.Desc = d
	jo.c.Nontrivial = true
	scratch, err := os.MkdirTemp("", "c12-")
	if err != nil {
		panic(err)
	}
	defer os.RemoveAll(scratch)
	dbdir := scratch + "/db"
	os.Mkdir(dbdir, 0o755)
	fail := func(what string) {
		jo.impl = append(jo.impl, ImplViolation{What: what, Desc: d})
	}
	var runs []string
	for n, ls := range d.Lives {
		r := runLife(dbdir, scratch, n, d.Prefix, d.NIdx, ls)
		if n == 0 {
			jo.first = r
		}
		if r.fatal != "" {
			fail("lifetime " + strconv.Itoa(n) + ": " + r.fatal)
			return
		}
		if r.pt == 0 {
			jo.stats["life-clean"]++
		} else {
			jo.stats["life-killed-at-"+map[bool]string{true: "random-time", false: points[r.pt%11]}[r.pt == 11]]++
		}
		db, _, _, err := openStore(dbdir, d.Prefix, d.NIdx)
		if err != nil {
			fail("reopen after lifetime " + strconv.Itoa(n) + " failed: " + err.Error())
			return
		}
		es, bad := dump(db)
		db.Close()
		if bad != "" {
			fail(bad)
		}
		// statistics: index entries that point to an id without a stored value
		vals := map[string]bool{}
		for _, e := range es {
			if e.v != nil {
				vals[strings.TrimPrefix(e.k, prefixOf(d.Prefix))] = true
			}
		}
		for _, e := range es {
			if i := strings.IndexByte(e.k, 0); e.v == nil && i >= 0 && !vals[e.k[i+1:]] {
				jo.stats["phantom-index-entry-before-rebuild"]++
				if r.pt == 7 || r.pt == 8 {
					jo.stats["phantom-index-entry-of-uncommitted-init"]++
				}
				break
			}
		}
		runs = append(runs, runTerm(ls, r, es))
	}
	db, _, qs, err := openStore(dbdir, d.Prefix, d.NIdx)
	if err != nil {
		fail("final reopen failed: " + err.Error())
		return
	}
	rberr := qs.RebuildIndexes()
	es, bad := dump(db)
	if bad != "" {
		fail(bad)
	}
	var qts []string
	for _, name := range []string{"ia", "ib"}[:d.NIdx] {
		res, err := qs.Query(url.Values{"idx": {name}})
		if err != nil {
			fail("query failed: " + err.Error())
		}
		ids, _ := res.([]string)
		sort.Strings(ids)
		qts = append(qts, "("+B(name)+","+BList(ids)+")")
	}
	db.Close()
	jo.c.Term = fmt.Sprintf("CC %s %d %s %s %s %s", B(prefixOf(d.Prefix)), d.NIdx, List(runs), Bool(rberr == nil), obsTerm(es), List(qts))
	return
}

func prefixOf(p string) string {
	if p == "" {
		return ""
	}
	return p + "."
}
