// Correspondence harness for C12 (badgerstore crash safety).
//
// One binary, two roles.  `crash child -dir D -prefix P -nidx N -ops F` opens a real BadgerDB in D,
// builds Store (+QueryStore with 1 or 2 indexes), runs the operations of F and writes "ok"/"err"
// to stdout after every call that returned; with VERIF_KILL=<point>:<n> (build tag verif) it
// SIGKILLs itself at the n-th hit of that crash point.  The parent enumerates every (point,
// occurrence) pair of every workload, restarts the child on the same directory, reopens the
// database itself, records its content, calls RebuildIndexes and queries the indexes.
package main

import (
	"bufio"
	"errors"
	"math"
	"bytes"
	"encoding/json"
	"flag"
	"fmt"
	"net/url"
	"os"
	"os/exec"
	"sort"
	"strconv"
	"strings"
	"sync"
	"time"

	"github.com/dgraph-io/badger"
	"github.com/jirenius/go-res/store/badgerstore"
	"github.com/jirenius/go-res/verifhook"

	. "verifharness/common"
)

type val struct {
	A string
	B string
}

// rec is the value type of the TYPED store: both members are omitted from the stored JSON
// document when empty, so stored documents have differing member sets.
type rec struct {
	A string  `json:"A,omitempty"`
	B string  `json:"B,omitempty"`
	C float64 `json:"C,omitempty"` // NaN makes the value unencodable (json.Marshal fails); never set otherwise
}

// unencodable is a value of the store's type that setValue cannot marshal.
func unencodable(untyped bool, a, b string) interface{} {
	if !untyped {
		return rec{a, b, math.NaN()}
	}
	return map[string]interface{}{"A": a, "B": b, "C": math.NaN()}
}

// mkVal builds the value handed to the store: a rec, or for the UNTYPED (default
// map[string]interface{}) store a record holding only the non-empty members.
func mkVal(untyped bool, a, b string) interface{} {
	if !untyped {
		return rec{A: a, B: b}
	}
	m := map[string]interface{}{}
	if a != "" {
		m["A"] = a
	}
	if b != "" {
		m["B"] = b
	}
	return m
}

// member reads a string member of a stored value of either store type ("" when absent).
func member(v interface{}, name string) string {
	switch x := v.(type) {
	case rec:
		if name == "A" {
			return x.A
		}
		return x.B
	case map[string]interface{}:
		s, _ := x[name].(string)
		return s
	}
	panic(fmt.Sprintf("unexpected value type %T", v))
}

type seed struct {
	ID string `json:"id"`
	A  string `json:"a"`
	B  string `json:"b"`
}

type op struct {
	K     string `json:"k"` // create update delete init
	ID    string `json:"id,omitempty"`
	A     string `json:"a,omitempty"`
	B     string `json:"b,omitempty"`
	Seeds []seed `json:"seeds,omitempty"`
	// init only: make the call fail although the seed ids are fine - "type": one added value has the
	// wrong type; "cberr": the callback returns an error after adding every seed; "unenc": the
	// middle seed cannot be encoded.  (Empty / duplicate ids are simply part of Seeds.)
	Fail string `json:"fail,omitempty"`
	// init only: Seeds is bulkSeeds(Bulk) (at-capacity workloads; keeps the description small)
	Bulk int `json:"bulk,omitempty"`
}

// bulkSeeds are n seeds b0001.. with both members set.
func bulkSeeds(n int) []seed {
	out := make([]seed, n)
	for i := range out {
		out[i] = seed{fmt.Sprintf("b%04d", i+1), []string{"x", "y", "z"}[i%3], []string{"u", "v"}[i%2]}
	}
	return out
}

func expandBulk(ops []op) []op {
	out := append([]op{}, ops...)
	for i := range out {
		if out[i].Bulk > 0 {
			out[i].Seeds = bulkSeeds(out[i].Bulk)
		}
	}
	return out
}

// smallTable makes BadgerDB's per-transaction limit (ErrTxnTooBig) reachable: about 200 writes.
const smallTable = 1 << 17

var points = []string{"", "create-before", "create-committed", "update-before", "update-committed",
	"delete-before", "delete-committed", "init-seed-set", "init-before-marker", "index-before", "index-committed"}

func pointCode(name string) int {
	for i, p := range points {
		if p == name && i > 0 {
			return i
		}
	}
	return -1
}

// ---------------------------------------------------------------- store set-up (both roles)

func openStore(dir, prefix string, nidx int, untyped, noqs, small bool) (*badger.DB, *badgerstore.Store, *badgerstore.QueryStore, error) {
	opts := badger.DefaultOptions(dir)
	if small {
		opts = opts.WithMaxTableSize(smallTable)
	}
	opts.Logger = nil
	db, err := badger.Open(opts)
	if err != nil {
		return nil, nil, nil, err
	}
	st := badgerstore.NewStore(db).SetPrefix(prefix)
	if !untyped {
		st.SetType(rec{})
	}
	if noqs {
		return db, st, nil, nil
	}
	qs := badgerstore.NewQueryStore(st, func(qs *badgerstore.QueryStore, q url.Values) (*badgerstore.IndexQuery, error) {
		return &badgerstore.IndexQuery{Index: qs.Index(q.Get("idx")), KeyPrefix: []byte(q.Get("kp")), Limit: -1}, nil
	})
	// ia: member A, never nil (an absent member gives the empty key); ib: member B, nil when absent/empty
	if nidx >= 1 {
		qs.AddIndex(badgerstore.Index{Name: "ia", Key: func(v interface{}) []byte { return []byte(member(v, "A")) }})
	}
	if nidx >= 2 {
		qs.AddIndex(badgerstore.Index{Name: "ib", Key: func(v interface{}) []byte {
			if b := member(v, "B"); b != "" {
				return []byte(b)
			}
			return nil
		}})
	}
	return db, st, qs, nil
}

// ---------------------------------------------------------------- child

func childMain(args []string) {
	fs := flag.NewFlagSet("child", flag.ExitOnError)
	dir := fs.String("dir", "", "")
	prefix := fs.String("prefix", "", "")
	nidx := fs.Int("nidx", 1, "")
	opsFile := fs.String("ops", "", "")
	slowUs := fs.Int("slowus", 0, "")
	untyped := fs.Bool("untyped", false, "")
	noqs := fs.Bool("noqs", false, "")
	small := fs.Bool("small", false, "")
	fs.Parse(args)
	b, err := os.ReadFile(*opsFile)
	if err != nil {
		fmt.Println("FATAL", err)
		os.Exit(3)
	}
	var ops []op
	if err := json.Unmarshal(b, &ops); err != nil {
		fmt.Println("FATAL", err)
		os.Exit(3)
	}
	ops = expandBulk(ops)
	db, st, qs, err := openStore(*dir, *prefix, *nidx, *untyped, *noqs, *small)
	if err != nil {
		fmt.Println("FATAL", err)
		os.Exit(3)
	}
	say := func(s string) { os.Stdout.WriteString(s + "\n") } // unbuffered: one write(2) per line
	if *slowUs > 0 {
		// an application OnChange listener that takes a while: inside Init it runs before the
		// transaction commits, after the index task of the same seed was queued
		st.OnChange(func(string, interface{}, interface{}) { time.Sleep(time.Duration(*slowUs) * time.Microsecond) })
	}
	say("READY")
	for _, o := range ops {
		var err error
		nset := 0 // seeds set inside this Init's transaction
		switch o.K {
		case "init":
			exists := func() string {
				var xs []string
				for _, s := range o.Seeds {
					rt := st.Read(s.ID)
					_, verr := rt.Value()
					if rt.Exists() != (verr == nil) {
						xs = append(xs, "!"+s.ID)
					} else if verr == nil {
						xs = append(xs, s.ID)
					}
					rt.Close()
				}
				return strings.Join(xs, ",")
			}
			before, h0 := exists(), verifhook.Hits()["init-seed-set"]
			err = st.Init(func(add func(id string, v interface{})) error {
				for i, s := range o.Seeds {
					switch {
					case o.Fail == "unenc" && i == len(o.Seeds)/2:
						add(s.ID, unencodable(*untyped, s.A, s.B))
					case o.Fail == "type" && i == len(o.Seeds)/2:
						if *untyped {
							add(s.ID, rec{A: s.A})
						} else {
							add(s.ID, map[string]interface{}{"A": s.A})
						}
					default:
						add(s.ID, mkVal(*untyped, s.A, s.B))
					}
				}
				if o.Fail == "cberr" {
					return errors.New("init callback failed")
				}
				return nil
			})
			// Value/Exists right after a failed Init: nothing it added may be visible
			if after := exists(); err != nil && after != before {
				say("BAD failed Init changed the visible seeds from [" + before + "] to [" + after + "]")
			}
			nset = verifhook.Hits()["init-seed-set"] - h0
		case "create":
			txn := st.Write(o.ID)
			err = txn.Create(mkVal(*untyped, o.A, o.B))
			txn.Close()
		case "update":
			txn := st.Write(o.ID)
			err = txn.Update(mkVal(*untyped, o.A, o.B))
			txn.Close()
		case "delete":
			txn := st.Write(o.ID)
			err = txn.Delete()
			txn.Close()
		}
		if err == nil {
			say("ok " + strconv.Itoa(nset))
		} else {
			say("err " + strconv.Itoa(nset))
		}
	}
	if qs != nil {
		qs.Flush()
	}
	hb, _ := json.Marshal(verifhook.Hits())
	say("HITS " + string(hb))
	db.Close()
	os.Exit(0)
}

// ---------------------------------------------------------------- parent: running one lifetime

type lifeSpec struct {
	Ops     []op   `json:"ops"`
	Kill    string `json:"kill,omitempty"`     // "<point>:<n>"
	DelayUs int    `json:"delay_us,omitempty"` // > 0: SIGKILL that long after READY
	SlowUs  int    `json:"slow_us,omitempty"`  // > 0: register a slow OnChange listener
	NoQS    bool   `json:"no_querystore,omitempty"` // run without a QueryStore: values get no index entries
}

type lifeResult struct {
	pt, occ int
	oks     []bool
	hits    map[string]int
	dur     time.Duration // READY -> exit
	fatal   string
	nset    []int  // per returned call: seeds set inside an Init transaction
	bad     string // the child's own Value/Exists check after a failed Init
}

var self string

func runLife(dbdir, scratch string, n int, prefix string, nidx int, untyped, small bool, ls lifeSpec) lifeResult {
	var r lifeResult
	of := fmt.Sprintf("%s/ops%d.json", scratch, n)
	ob, _ := json.Marshal(ls.Ops)
	os.WriteFile(of, ob, 0o644)
	cmd := exec.Command(self, "child", "-dir", dbdir, "-prefix", prefix, "-nidx", strconv.Itoa(nidx), "-ops", of, "-slowus", strconv.Itoa(ls.SlowUs))
	if untyped {
		cmd.Args = append(cmd.Args, "-untyped")
	}
	if ls.NoQS {
		cmd.Args = append(cmd.Args, "-noqs")
	}
	if small {
		cmd.Args = append(cmd.Args, "-small")
	}
	cmd.Env = append(os.Environ(), "VERIF_KILL="+ls.Kill)
	var errb bytes.Buffer
	cmd.Stderr = &errb
	out, _ := cmd.StdoutPipe()
	if err := cmd.Start(); err != nil {
		r.fatal = "start: " + err.Error()
		return r
	}
	var mu sync.Mutex
	var tReady time.Time
	ready := make(chan struct{})
	var lines []string
	done := make(chan struct{})
	go func() {
		sc := bufio.NewScanner(out)
		for sc.Scan() {
			l := sc.Text()
			if l == "READY" {
				mu.Lock()
				tReady = time.Now()
				mu.Unlock()
				close(ready)
			}
			lines = append(lines, l)
		}
		close(done)
	}()
	var hung bool
	watchdog := time.AfterFunc(60*time.Second, func() { mu.Lock(); hung = true; mu.Unlock(); cmd.Process.Kill() })
	if ls.DelayUs > 0 {
		select {
		case <-ready:
			time.Sleep(time.Duration(ls.DelayUs) * time.Microsecond)
			cmd.Process.Kill()
		case <-done:
		}
	}
	<-done
	err := cmd.Wait()
	watchdog.Stop()
	mu.Lock()
	if !tReady.IsZero() {
		r.dur = time.Since(tReady)
	}
	if hung {
		r.fatal = "child hung (60 s watchdog)"
	}
	mu.Unlock()
	clean := false
	for _, l := range lines {
		switch {
		case strings.HasPrefix(l, "ok "), strings.HasPrefix(l, "err "):
			r.oks = append(r.oks, l[0] == 'o')
			n, _ := strconv.Atoi(l[strings.IndexByte(l, ' ')+1:])
			r.nset = append(r.nset, n)
		case strings.HasPrefix(l, "BAD "):
			r.bad = l[4:]
		case strings.HasPrefix(l, "HITS "):
			json.Unmarshal([]byte(l[5:]), &r.hits)
			clean = true
		case strings.HasPrefix(l, "FATAL"):
			r.fatal = l
		}
	}
	killed := err != nil && strings.Contains(err.Error(), "killed")
	switch {
	case r.fatal != "":
	case clean && err == nil:
		r.pt = 0
	case killed && ls.DelayUs > 0:
		// possibly after the HITS line (everything done, database not closed yet)
		r.pt, r.hits = 11, nil
	case killed && !clean && ls.Kill != "":
		i := strings.LastIndexByte(ls.Kill, ':')
		r.pt = pointCode(ls.Kill[:i])
		r.occ, _ = strconv.Atoi(ls.Kill[i+1:])
	default:
		r.fatal = fmt.Sprintf("child ended abnormally: %v %s", err, errb.String())
	}
	return r
}

// ---------------------------------------------------------------- parent: observing the database

type entry struct {
	K string `json:"k"`
	V *val   `json:"v,omitempty"`
}

// what the observer process (role "observe") reports
type observation struct {
	Entries    []entry             `json:"entries"`
	Bad        string              `json:"bad,omitempty"`
	OpenErr    string              `json:"open_err,omitempty"`
	RebuildErr string              `json:"rebuild_err,omitempty"`
	QueryErr   string              `json:"query_err,omitempty"`
	Queries    []queryObs `json:"queries,omitempty"`
	Limit      int        `json:"limit,omitempty"` // DB.MaxBatchCount()
}

type queryObs struct {
	Idx string   `json:"idx"`
	KP  string   `json:"kp"` // key prefix ("" = whole index)
	IDs []string `json:"ids"`
}

// key prefixes queried on every index after RebuildIndexes
var queryPrefixes = []string{"", "x", "y", "z", "u", "v"}

// observeMain opens the database in a process of its own (the parent never holds a BadgerDB
// directory lock, so no forked child can inherit one), optionally calls RebuildIndexes and
// queries every index, and prints everything it sees as JSON.
func observeMain(args []string) {
	fs := flag.NewFlagSet("observe", flag.ExitOnError)
	dir := fs.String("dir", "", "")
	prefix := fs.String("prefix", "", "")
	nidx := fs.Int("nidx", 1, "")
	rebuild := fs.Bool("rebuild", false, "")
	untyped := fs.Bool("untyped", false, "")
	small := fs.Bool("small", false, "")
	fs.Parse(args)
	var o observation
	db, _, qs, err := openStore(*dir, *prefix, *nidx, *untyped, false, *small)
	if err == nil {
		o.Limit = int(db.MaxBatchCount())
	}
	if err != nil {
		o.OpenErr = err.Error()
	} else {
		if *rebuild {
			if err := qs.RebuildIndexes(); err != nil {
				o.RebuildErr = err.Error()
			}
		}
		o.Entries, o.Bad = dump(db)
		if *rebuild {
			for _, name := range []string{"ia", "ib"}[:*nidx] {
				for _, kp := range queryPrefixes {
					res, err := qs.Query(url.Values{"idx": {name}, "kp": {kp}})
					if err != nil {
						o.QueryErr = err.Error()
					}
					ids, _ := res.([]string)
					sort.Strings(ids)
					o.Queries = append(o.Queries, queryObs{name, kp, ids})
				}
			}
		}
		if err := db.Close(); err != nil {
			o.Bad += " close: " + err.Error()
		}
	}
	b, _ := json.Marshal(o)
	os.Stdout.Write(b)
	os.Exit(0)
}

func observe(dir, prefix string, nidx int, untyped, small, rebuild bool) (o observation) {
	args := []string{"observe", "-dir", dir, "-prefix", prefix, "-nidx", strconv.Itoa(nidx)}
	if small {
		args = append(args, "-small")
	}
	if untyped {
		args = append(args, "-untyped")
	}
	if rebuild {
		args = append(args, "-rebuild")
	}
	out, err := exec.Command(self, args...).Output()
	if err != nil {
		o.OpenErr = "observer process failed: " + err.Error()
		return
	}
	if err := json.Unmarshal(out, &o); err != nil {
		o.OpenErr = "observer output: " + err.Error()
	}
	return
}

func dump(db *badger.DB) (es []entry, bad string) {
	db.View(func(txn *badger.Txn) error {
		it := txn.NewIterator(badger.DefaultIteratorOptions)
		defer it.Close()
		for it.Rewind(); it.Valid(); it.Next() {
			item := it.Item()
			e := entry{K: string(item.KeyCopy(nil))}
			item.Value(func(d []byte) error {
				if len(d) > 0 {
					var v val
					if err := json.Unmarshal(d, &v); err != nil {
						bad = fmt.Sprintf("undecodable value at key %q: %q", e.K, d)
					}
					e.V = &v
				}
				return nil
			})
			es = append(es, e)
		}
		return nil
	})
	return
}

// descWithObs is the replayable description plus what was observed after RebuildIndexes
// (LoadReplay reads it back as a jobDesc; the extra members are ignored).
type descWithObs struct {
	jobDesc
	AfterRebuild []string   `json:"observed_after_rebuild"`
	Queries      []queryObs `json:"observed_queries"`
}

func es2strs(es []entry) []string {
	var xs []string
	for _, e := range es {
		if e.V == nil {
			xs = append(xs, fmt.Sprintf("%q", e.K))
		} else {
			xs = append(xs, fmt.Sprintf("%q={A:%q,B:%q}", e.K, e.V.A, e.V.B))
		}
	}
	return xs
}

func V(a, b string) string { return "(" + B(a) + "," + B(b) + ")" }

func obsTerm(es []entry) string {
	xs := make([]string, len(es))
	for i, e := range es {
		if e.V == nil {
			xs[i] = "(" + B(e.K) + ",None)"
		} else {
			xs[i] = "(" + B(e.K) + ",Some " + V(e.V.A, e.V.B) + ")"
		}
	}
	return List(xs)
}

func opsTerm(ops []op, nset []int) string {
	ops = expandBulk(ops)
	xs := make([]string, len(ops))
	for i, o := range ops {
		switch o.K {
		case "create":
			xs[i] = "Create " + B(o.ID) + " " + V(o.A, o.B)
		case "update":
			xs[i] = "Update " + B(o.ID) + " " + V(o.A, o.B)
		case "delete":
			xs[i] = "Delete " + B(o.ID)
		case "init":
			if o.Fail != "" {
				// seeds set before the failure: reported by the child for a call that returned,
				// otherwise the largest possible number (the model's steps are a prefix of it)
				n := 0
				if i < len(nset) {
					n = nset[i]
				} else if o.Fail == "unenc" {
					n = len(o.Seeds) - 1
				}
				xs[i] = fmt.Sprintf("InitErr %d%%nat", n)
				break
			}
			ss := make([]string, len(o.Seeds))
			for j, s := range o.Seeds {
				ss[j] = "(" + B(s.ID) + "," + V(s.A, s.B) + ")"
			}
			xs[i] = "Init " + List(ss)
		}
	}
	return List(xs)
}

func runTerm(ls lifeSpec, r lifeResult, es []entry) string {
	oks := make([]string, len(r.oks))
	for i, b := range r.oks {
		oks[i] = Bool(b)
	}
	var hs []string
	for i := 1; i < len(points); i++ {
		if n := r.hits[points[i]]; n > 0 {
			hs = append(hs, fmt.Sprintf("(%d,%d)", i, n))
		}
	}
	return fmt.Sprintf("CR %s %d %d %s %s %s %s", opsTerm(ls.Ops, r.nset), r.pt, r.occ, List(oks), List(hs), Bool(ls.NoQS), obsTerm(es))
}

// ---------------------------------------------------------------- parent: one case = one directory

type jobDesc struct {
	Prefix  string     `json:"prefix"`
	NIdx    int        `json:"nidx"`
	Untyped bool       `json:"untyped,omitempty"` // default map[string]interface{} store with heterogeneous records
	Small   bool       `json:"small_table,omitempty"` // BadgerDB opened with MaxTableSize = smallTable: transaction limit ~200 writes
	Lives  []lifeSpec `json:"lives"`
}

type jobOut struct {
	c     Case
	impl  []ImplViolation
	stats map[string]int
	first lifeResult
}

func runJob(d jobDesc) (jo jobOut) {
	jo.stats = map[string]int{}
	jo.c.Desc = d
	jo.c.Nontrivial = true
	scratch, err := os.MkdirTemp("", "c12-")
	if err != nil {
		panic(err)
	}
	defer os.RemoveAll(scratch)
	dbdir := scratch + "/db"
	os.Mkdir(dbdir, 0o755)
	fail := func(what string) {
		jo.impl = append(jo.impl, ImplViolation{What: what, Desc: d})
	}
	var runs []string
	for n, ls := range d.Lives {
		r := runLife(dbdir, scratch, n, d.Prefix, d.NIdx, d.Untyped, d.Small, ls)
		if n == 0 {
			jo.first = r
		}
		if r.fatal != "" {
			fail("lifetime " + strconv.Itoa(n) + ": " + r.fatal)
			return
		}
		if r.bad != "" {
			fail("lifetime " + strconv.Itoa(n) + ": " + r.bad)
		}
		if r.pt == 0 {
			jo.stats["life-clean"]++
		} else {
			jo.stats["life-killed-at-"+append(points, "random-time")[r.pt]]++
		}
		ob := observe(dbdir, d.Prefix, d.NIdx, d.Untyped, d.Small, false)
		if ob.OpenErr != "" {
			fail("reopen after lifetime " + strconv.Itoa(n) + " failed: " + ob.OpenErr)
			return
		}
		es := ob.Entries
		if ob.Bad != "" {
			fail(ob.Bad)
		}
		// statistics: index entries that point to an id without a stored value
		vals := map[string]bool{}
		for _, e := range es {
			if e.V != nil {
				vals[strings.TrimPrefix(e.K, prefixOf(d.Prefix))] = true
			}
		}
		for _, e := range es {
			if i := strings.IndexByte(e.K, 0); e.V == nil && i >= 0 && !vals[e.K[i+1:]] {
				jo.stats["phantom-index-entry-before-rebuild"]++
				if r.pt == 7 || r.pt == 8 {
					jo.stats["phantom-index-entry-of-uncommitted-init"]++
				}
				break
			}
		}
		runs = append(runs, runTerm(ls, r, es))
	}
	ob := observe(dbdir, d.Prefix, d.NIdx, d.Untyped, d.Small, true)
	if ob.OpenErr != "" {
		fail("final reopen failed: " + ob.OpenErr)
		return
	}
	if ob.Bad != "" {
		fail(ob.Bad)
	}
	if ob.QueryErr != "" {
		fail("query failed: " + ob.QueryErr)
	}
	es := ob.Entries
	var qts []string
	for _, q := range ob.Queries {
		qts = append(qts, "("+B(q.Idx)+","+B(q.KP)+","+BList(q.IDs)+")")
	}
	// how often the rebuild scan meets a document lacking an indexed member after one having it
	var prev *val
	hetA, hetB := false, false
	for _, e := range es {
		if e.V != nil {
			if prev != nil && prev.A != "" && e.V.A == "" {
				hetA = true
			}
			if prev != nil && prev.B != "" && e.V.B == "" {
				hetB = true
			}
			prev = e.V
		}
	}
	if prev == nil {
		jo.stats["rebuild-on-a-store-without-any-value"]++
	}
	if hetA {
		jo.stats["rebuild-scans-document-without-A-after-one-with-A"]++
	}
	if hetB {
		jo.stats["rebuild-scans-document-without-B-after-one-with-B"]++
	}
	if d.Untyped {
		jo.stats["cases-untyped-map-store"]++
	} else {
		jo.stats["cases-typed-omitempty-store"]++
	}
	// what a violation of the rebuild clause looks like, spelled out for the replay
	jo.c.Desc = descWithObs{d, es2strs(es), ob.Queries}
	if ob.RebuildErr != "" {
		jo.stats["rebuild-failed"]++
		jo.c.Tags = append(jo.c.Tags, "rebuild-error")
	}
	lim := 0
	if d.Small {
		lim = ob.Limit - 1 // a transaction with this many writes fails
		jo.stats["cases-at-capacity(small MaxTableSize)"]++
		if ob.RebuildErr != "" {
			jo.stats["at-capacity-RebuildIndexes-returned-an-error"]++
		}
	}
	jo.c.Term = fmt.Sprintf("CC %s %d %d %s %s %s %s", B(prefixOf(d.Prefix)), d.NIdx, lim, List(runs), Bool(ob.RebuildErr == ""), obsTerm(es), List(qts))
	return
}

func prefixOf(p string) string {
	if p == "" {
		return ""
	}
	return p + "."
}

// ---------------------------------------------------------------- workloads

var avals = []string{"x", "y", "z", "x", "y", ""} // "" = member A absent from the stored document
var bvals = []string{"", "u", "v"}

// genOps makes a seeded workload body over the ids known to exist / not to exist.
func genOps(r *Rng, live map[string]val, seeds []seed, n int, forceSeedDelete bool) []op {
	var ops []op
	fresh := 0
	pickLive := func() string {
		ks := make([]string, 0, len(live))
		for k := range live {
			ks = append(ks, k)
		}
		sort.Strings(ks)
		if len(ks) == 0 {
			return "s"
		}
		return ks[r.Intn(len(ks))]
	}
	delAt := -1
	if forceSeedDelete {
		delAt = 1 + r.Intn(n-2)
	}
	for i := 0; i < n; i++ {
		k := r.Intn(100)
		switch {
		case i == delAt:
			id := seeds[r.Intn(len(seeds))].ID
			ops = append(ops, op{K: "delete", ID: id})
			delete(live, id)
		case k < 22: // create a new id
			fresh++
			id := "n1" + strings.Repeat("0", fresh-1) // n1, n10, n100, ...: every id is a strict prefix of the next
			if r.Chance(45) { // an id starting with / containing '$', like or extending a marker key
				id = dollarPool[r.Intn(len(dollarPool))]
			}
			if _, ok := live[id]; ok {
				id = fmt.Sprintf("m%d", i)
			}
			v := val{r.Pick(avals), r.Pick(bvals)}
			ops = append(ops, op{K: "create", ID: id, A: v.A, B: v.B})
			live[id] = v
		case k < 30: // create an existing id (fails) or a deleted seed again
			id := pickLive()
			if r.Chance(40) {
				id = seeds[r.Intn(len(seeds))].ID
			}
			v := val{r.Pick(avals), r.Pick(bvals)}
			ops = append(ops, op{K: "create", ID: id, A: v.A, B: v.B})
			if _, ok := live[id]; !ok {
				live[id] = v
			}
		case k < 62: // update
			id := pickLive()
			old := live[id]
			v := old
			switch r.Intn(4) {
			case 0:
				v.A = r.Pick(avals)
			case 1:
				v.B = r.Pick(bvals)
			case 2:
				v = val{r.Pick(avals), r.Pick(bvals)}
			} // 3: identical value
			ops = append(ops, op{K: "update", ID: id, A: v.A, B: v.B})
			if _, ok := live[id]; ok {
				live[id] = v
			}
		case k < 68: // update a missing id
			ops = append(ops, op{K: "update", ID: seeds[len(seeds)-1].ID + "0", A: "x"}) // an extension of an existing id
		case k < 86: // delete
			id := pickLive()
			ops = append(ops, op{K: "delete", ID: id})
			delete(live, id)
		case k < 92: // delete a missing id
			ops = append(ops, op{K: "delete", ID: "s"}) // a strict prefix of every seed id
		default: // Init again in the same process
			ops = append(ops, op{K: "init", Seeds: seeds})
		}
	}
	return ops
}

// failingInits returns Init calls that must fail and change nothing: k of the six kinds, starting at kind k0.
func failingInits(seeds []seed, k0, k int) []op {
	mid := len(seeds) / 2
	emptyID := append([]seed{}, seeds...)
	emptyID[mid].ID = ""
	dup := append(append([]seed{}, seeds...), seed{seeds[0].ID, "z", "u"})
	all := []op{
		{K: "init", Seeds: seeds, Fail: "unenc"},
		{K: "init", Seeds: seeds, Fail: "type"},
		{K: "init", Seeds: dup},
		{K: "init", Seeds: seeds, Fail: "cberr"},
		{K: "init", Seeds: emptyID},
		{K: "init", Seeds: seeds, Fail: "unenc"},
	}
	var out []op
	for i := 0; i < k; i++ {
		out = append(out, all[(k0+i)%len(all)])
	}
	return out
}

// dollarPool: ids that look like BadgerDB-internal / marker keys.  Set per workload: the id equal to
// the store's OWN marker key ("$init" without prefix) is left out - it IS the marker key there.
var dollarPool []string

type workload struct {
	prefix     string
	nidx       int
	untyped    bool
	kind       string // "" = Init first on an empty database
	fails      []op   // failing Init calls placed before the first good Init
	ops1, ops2 []op
}

func genWorkload(r *Rng, w int, thorough bool) workload {
	wl := workload{nidx: 2}
	if w%2 == 1 {
		wl.prefix = "pfx"
	}
	// quick: typed store without prefix, untyped store with prefix, both with two indexes
	wl.untyped = w == 1 || w == 3 || (w >= 4 && (w/2)%2 == 1)
	if w >= 2 && (w/4)%2 == 1 {
		wl.nidx = 1
	}
	dollarPool = []string{"$", "$x", "$tmp", "$init2", "$pfx.init", "$pfxinit", "$pfxinit2", "a$b"}
	if wl.prefix != "" {
		dollarPool = append(dollarPool, "$init")
	}
	ns := 2 + r.Intn(2)
	if w < 2 {
		ns = 3
	}
	// every value is deleted by the end of the first lifetime (also single-value stores)
	delAll := (!thorough && w == 4) || (thorough && w%5 == 2)
	if delAll {
		if !thorough {
			wl.prefix, ns = "pfx", 2
		} else {
			ns = 1 + r.Intn(3)
		}
	}
	var seeds []seed
	live := map[string]val{}
	for i := 1; i <= ns; i++ {
		// s1, s10, s100: ids (and keys, with or without store prefix) in strict-prefix relation
		s := seed{"s1" + strings.Repeat("0", i-1), r.Pick(avals), r.Pick(bvals)}
		// a document that has the indexed members directly before one that lacks them
		if i == 1 {
			s.A, s.B = r.Pick(avals[:3]), r.Pick(bvals[1:])
		} else if i == 2 {
			s.B = ""
		}
		if i == 3 && w%3 == 0 {
			s.ID = "$tmp" // a seed whose id starts with '$'
		}
		seeds = append(seeds, s)
		live[s.ID] = val{s.A, s.B}
	}
	n := 10
	if thorough {
		n = 8 + r.Intn(8)
	}
	initOp := op{K: "init", Seeds: seeds}
	variant := 0 // 0: Init first on an empty database
	if (!thorough && w == 2) || (thorough && w%5 == 3) {
		variant = 1 // values under all / some seed ids exist BEFORE the first Init (it creates nothing / less)
	} else if (!thorough && w == 3) || (thorough && w%5 == 4) {
		variant = 2 // the first Init has an EMPTY seed set, later Inits a non-empty one
	}
	if delAll {
		variant = 3
	}
	switch variant {
	case 3:
		wl.kind = "everything-deleted-at-the-end"
		k := 3
		if thorough {
			k = r.Intn(6)
		}
		wl.ops1 = append([]op{initOp}, genOps(r, live, seeds, k, false)...)
		ids := make([]string, 0, len(live))
		for id := range live {
			ids = append(ids, id)
		}
		sort.Strings(ids)
		for len(ids) > 0 {
			i := r.Intn(len(ids))
			wl.ops1 = append(wl.ops1, op{K: "delete", ID: ids[i]})
			ids = append(ids[:i], ids[i+1:]...)
		}
		// the next lifetime leaves the store empty: Init is a no-op (marker), the other calls fail
		wl.ops2 = []op{initOp, {K: "delete", ID: "s"}, {K: "update", ID: "s10000", A: "x"}}
		return wl
	case 0:
		// failing Inits first (nothing may be seeded, no marker), then the good one; one more failing
		// call later, when the marker makes Init return nil before it looks at anything
		nf := 3
		if thorough {
			nf = r.Intn(4)
		}
		wl.fails = failingInits(seeds, 3*(w%2)+r.Intn(2)*2*map[bool]int{true: 1, false: 0}[thorough], nf)
		body := genOps(r, live, seeds, n, true)
		wl.ops1 = append(append(append([]op{}, wl.fails...), initOp), body...)
		wl.ops1 = append(wl.ops1, op{K: "init", Seeds: seeds, Fail: "cberr"})
	case 1:
		all := !thorough || r.Bool()
		var pre []op
		for i, sd := range seeds {
			if all || i == len(seeds)-1 { // "some": only the LONGEST id exists, the others are its strict prefixes
				v := val{r.Pick(avals), r.Pick(bvals)}
				pre = append(pre, op{K: "create", ID: sd.ID, A: v.A, B: v.B})
				live[sd.ID] = v
			}
		}
		wl.kind = map[bool]string{true: "creates-of-all-seed-ids-before-first-Init", false: "creates-of-some-seed-ids-before-first-Init"}[all]
		wl.ops1 = append(append(pre, initOp), genOps(r, live, seeds, 6, true)...)
		// an acknowledged Delete of a seed id followed by Init again, in the same lifetime
		wl.ops1 = append(wl.ops1, op{K: "delete", ID: seeds[0].ID}, initOp, op{K: "create", ID: "n", A: "x"})
		delete(live, seeds[0].ID)
		live["n"] = val{"x", ""}
	case 2:
		wl.kind = "first-Init-with-empty-seed-set"
		for k := range live {
			delete(live, k)
		}
		v := val{r.Pick(avals), r.Pick(bvals)}
		live[seeds[0].ID] = v
		wl.ops1 = []op{{K: "init"}, {K: "create", ID: seeds[0].ID, A: v.A, B: v.B}, initOp}
		wl.ops1 = append(wl.ops1, genOps(r, live, seeds, 4, false)...)
		wl.ops1 = append(wl.ops1, op{K: "delete", ID: seeds[0].ID}, initOp, op{K: "create", ID: "n", A: "y", B: "u"})
		delete(live, seeds[0].ID)
		live["n"] = val{"y", "u"}
	}
	wl.ops2 = append([]op{initOp}, genOps(r, live, seeds, 3+r.Intn(3), false)...)
	return wl
}

// capacityJobs are the at-capacity workloads: databases opened with a small MaxTableSize, so that a
// transaction of about 200 writes fails with ErrTxnTooBig.  Init with seed sets below / above / far
// above the limit (killed inside, beyond the limit, or not at all), stores with more values than the
// limit, then RebuildIndexes.
func capacityJobs(thorough bool) []jobDesc {
	dir, err := os.MkdirTemp("", "c12-probe-")
	if err != nil {
		panic(err)
	}
	defer os.RemoveAll(dir)
	pr := observe(dir, "", 1, false, true, false)
	if pr.OpenErr != "" || pr.Limit < 50 {
		panic("cannot probe the transaction limit: " + pr.OpenErr)
	}
	lim := pr.Limit - 1
	small3 := []seed{{"s1", "x", "u"}, {"s10", "y", ""}, {"s100", "z", "v"}}
	bulk := func(n int) op { return op{K: "init", Bulk: n} }
	var creates []op
	for i := 1; i <= 100; i++ {
		creates = append(creates, op{K: "create", ID: fmt.Sprintf("c%03d", i), A: []string{"x", "y", ""}[i%3], B: []string{"u", ""}[i%2]})
	}
	kill := func(n int) string { return fmt.Sprintf("init-seed-set:%d", n) }
	tail := []op{{K: "init", Seeds: small3}, {K: "create", ID: "$x", A: "y", B: "u"}, {K: "create", ID: "n1", A: "x"}, {K: "delete", ID: "s10"}, {K: "init", Seeds: small3}}
	js := []jobDesc{
		// below the limit: one atomic Init, RebuildIndexes fits (1 index) or not (2 indexes)
		{"", 1, false, true, []lifeSpec{{Ops: []op{bulk(lim - 50)}, NoQS: true}}},
		{"pfx", 2, false, true, []lifeSpec{{Ops: []op{bulk(lim - 50)}, NoQS: true, Kill: kill(lim - 60)}, {Ops: []op{bulk(lim - 50)}, NoQS: true}}},
		// more values than the limit: RebuildIndexes cannot write its entries in one transaction
		{"pfx", 1, true, true, []lifeSpec{{Ops: append([]op{bulk(lim - 50)}, creates...), NoQS: true}}},
		// above the limit: Init must fail with nothing seeded; kill points inside and beyond the limit
		{"", 2, false, true, []lifeSpec{{Ops: append([]op{bulk(lim + 50)}, tail...), NoQS: true, Kill: kill(lim + 20)}, {Ops: tail, NoQS: true}}},
		{"pfx", 2, false, true, []lifeSpec{{Ops: []op{bulk(2 * lim)}, NoQS: true, Kill: kill(lim - 10)}, {Ops: append([]op{bulk(2 * lim)}, tail...), NoQS: true}}},
		{"pfx", 1, true, true, []lifeSpec{{Ops: append([]op{bulk(2 * lim)}, tail...), NoQS: true, Kill: kill(lim + lim/2)}}},
		{"", 1, true, true, []lifeSpec{{Ops: append([]op{bulk(lim + 50)}, tail...), NoQS: true}}},
	}
	if thorough {
		// (not lim-1: there the MARKER is the write that hits the limit - Init has then already called
		// OnChange for every seed and passed init-before-marker, which the InitErr outcome does not show)
		for _, n := range []int{lim - 2, lim, lim + 1, 3 * lim} {
			for _, k := range []int{0, lim - 1, lim, lim + 2, 2*lim + 5} {
				ls := lifeSpec{Ops: append([]op{bulk(n)}, tail...), NoQS: true}
				if k > 0 {
					ls.Kill = kill(k)
				}
				js = append(js, jobDesc{[]string{"", "pfx"}[(n+k)%2], 1 + (n+k)%2, k%2 == 0, true, []lifeSpec{ls, {Ops: tail, NoQS: true}}})
			}
		}
	}
	return js
}

// ---------------------------------------------------------------- main

func runAll(descs []jobDesc) []jobOut {
	outs := make([]jobOut, len(descs))
	ch := make(chan int)
	var wg sync.WaitGroup
	for k := 0; k < 16; k++ {
		wg.Add(1)
		go func() {
			defer wg.Done()
			for i := range ch {
				outs[i] = runJob(descs[i])
			}
		}()
	}
	for i := range descs {
		ch <- i
	}
	close(ch)
	wg.Wait()
	return outs
}

func main() {
	if len(os.Args) > 1 && os.Args[1] == "child" {
		childMain(os.Args[2:])
		return
	}
	if len(os.Args) > 1 && os.Args[1] == "observe" {
		observeMain(os.Args[2:])
		return
	}
	o := ParseOpts()
	var err error
	if self, err = os.Executable(); err != nil {
		panic(err)
	}
	r := NewRng(o.Seed)
	thorough := o.Tier == "thorough"
	var descs []jobDesc
	dist := map[string]int{}
	if o.Replay != "" {
		var d jobDesc
		if err := LoadReplay(o.Replay, &d); err != nil {
			panic(err)
		}
		descs = append(descs, d)
	} else {
		nw := 5
		if thorough {
			nw = 40
		}
		if o.N > 0 {
			nw = o.N
		}
		var wls []workload
		var dry []jobDesc
		for w := 0; w < nw; w++ {
			wl := genWorkload(r, w, thorough)
			wls = append(wls, wl)
			dry = append(dry, jobDesc{wl.prefix, wl.nidx, wl.untyped, false, []lifeSpec{{Ops: wl.ops1}, {Ops: wl.ops2}}})
		}
		// learn how often every crash point is hit by the first lifetime
		douts := runAll(dry)
		kill2 := []string{"init-seed-set:1", "init-before-marker:1", "create-before:1", "create-committed:1",
			"update-before:1", "update-committed:1", "delete-committed:1", "index-before:1", "index-committed:1", "index-before:2"}
		for w, wl := range wls {
			if wl.kind != "" {
				dist["workloads-"+wl.kind]++
			}
			descs = append(descs, dry[w])
			hits := douts[w].first.hits
			for pi := 1; pi < len(points); pi++ {
				for n := 1; n <= hits[points[pi]]; n++ {
					l2 := lifeSpec{Ops: wl.ops2}
					if r.Chance(45) {
						l2.Kill = r.Pick(kill2)
					}
					descs = append(descs, jobDesc{wl.prefix, wl.nidx, wl.untyped, false,
						[]lifeSpec{{Ops: wl.ops1, Kill: fmt.Sprintf("%s:%d", points[pi], n)}, l2}})
					dist["kill-pairs-enumerated"]++
				}
			}
			// a QueryStore without any index: RebuildIndexes has nothing to do
			if w < 2 || thorough && w%7 == 0 {
				descs = append(descs, jobDesc{wl.prefix, 0, wl.untyped, false, []lifeSpec{{Ops: wl.ops1, Kill: "update-committed:1"}, {Ops: wl.ops2}}})
			}
			// a lifetime of failing Inits only (the database must stay empty), then the normal one
			if len(wl.fails) > 0 {
				descs = append(descs, jobDesc{wl.prefix, wl.nidx, wl.untyped, false, []lifeSpec{{Ops: wl.fails}, {Ops: wl.ops1}}},
					jobDesc{wl.prefix, wl.nidx, wl.untyped, false, []lifeSpec{{Ops: wl.fails, Kill: "init-seed-set:1"}, {Ops: wl.ops1, Kill: "init-seed-set:2"}, {Ops: wl.ops2}}})
				dist["workloads-with-failing-Inits-before-the-good-one"]++
			}
			// killed inside Init again and again, then a clean lifetime
			descs = append(descs, jobDesc{wl.prefix, wl.nidx, wl.untyped, false, []lifeSpec{
				{Ops: wl.ops1, Kill: "init-seed-set:2"}, {Ops: wl.ops1, Kill: "init-before-marker:1"},
				{Ops: wl.ops1, Kill: "index-before:2"}, {Ops: wl.ops2}}})
			// values written without a QueryStore attached (no index entries at all), killed or
			// not, then a lifetime with the QueryStore, then RebuildIndexes
			descs = append(descs, jobDesc{wl.prefix, wl.nidx, wl.untyped, false, []lifeSpec{{Ops: wl.ops1, NoQS: true}, {Ops: wl.ops2}}},
				jobDesc{wl.prefix, wl.nidx, wl.untyped, false, []lifeSpec{{Ops: wl.ops1, NoQS: true, Kill: "update-committed:2"}}},
				jobDesc{wl.prefix, wl.nidx, wl.untyped, false, []lifeSpec{{Ops: wl.ops1, NoQS: true, Kill: "delete-before:1"}, {Ops: wl.ops2, NoQS: true}}})
			// a slow application listener lets the index goroutine overtake the Init transaction
			for _, k := range []string{"init-before-marker:1", "index-committed:2", "index-before:3"} {
				descs = append(descs, jobDesc{wl.prefix, wl.nidx, wl.untyped, false, []lifeSpec{
					{Ops: wl.ops1, Kill: k, SlowUs: 3000}, {Ops: wl.ops2, SlowUs: 500}}})
			}
			if thorough {
				us := int(douts[w].first.dur / time.Microsecond)
				for k := 0; k < 8; k++ {
					descs = append(descs, jobDesc{wl.prefix, wl.nidx, wl.untyped, false,
						[]lifeSpec{{Ops: wl.ops1, DelayUs: 1 + r.Intn(us+1)}, {Ops: wl.ops2}}})
					dist["random-time-kills-requested"]++
				}
			}
		}
	}
	if o.Replay == "" {
		// spread them over the shards (their Coq evaluation takes a second or two each)
		cj := capacityJobs(thorough)
		var mixed []jobDesc
		step := len(descs)/len(cj) + 1
		for i, d := range descs {
			if i%step == 0 && i/step < len(cj) {
				mixed = append(mixed, cj[i/step])
			}
			mixed = append(mixed, d)
		}
		descs = mixed
	}
	outs := runAll(descs)
	var cases []Case
	var impl []ImplViolation
	for _, jo := range outs {
		impl = append(impl, jo.impl...)
		for k, v := range jo.stats {
			dist[k] += v
		}
		if jo.c.Term != "" {
			cases = append(cases, jo.c)
		}
	}
	cfgs := map[string]bool{}
	for _, d := range descs {
		cfgs[fmt.Sprintf("%s/%d/%v", d.Prefix, d.NIdx, d.Untyped)] = true
	}
	dist["store-configurations(prefix x indexes x typed/untyped)"] = len(cfgs)
	Emit(o, "C12", "From GoRes Require Import Run.Run_C12.", "ccase",
		"one case = one BadgerDB directory: child process runs Init + a seeded workload of creates/updates/deletes/re-inits and is SIGKILLed at one (crash point, occurrence) pair - every pair of every workload is enumerated - or at a random time, is restarted on the same directory (sometimes killed again), then the parent reopens the database, records all keys/values, calls RebuildIndexes and queries every index (whole index and every key prefix) and compares with the scan of the stored values; stored documents are heterogeneous (typed struct with omitempty members / untyped map records with differing member sets, empty = absent); some lifetimes run without a QueryStore so values have no index entries before the rebuild; distinct by (configuration, workloads, kill points)",
		cases, dist, nil, impl, 12)
}
