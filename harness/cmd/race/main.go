package main

import (
	"fmt"
	"os"

	"verifharness/astacc"
)

func main() {
	if len(os.Args) > 1 && os.Args[1] == "table" {
		acc, err := astacc.Collect(astacc.RepoDir())
		if err != nil {
			panic(err)
		}
		for _, a := range acc {
			fmt.Printf("%-34s %-10s %-15s w=%-5v locked=%-5v atomic=%-5v sync=%-5v region=%d\n", a.Func, a.Struct, a.Field, a.Write, a.Locked, a.Atomic, a.Sync, a.Region)
		}
		return
	}
	if len(os.Args) > 1 && os.Args[1] == "table-coq" {
		acc, err := astacc.Collect(astacc.RepoDir())
		if err != nil {
			panic(err)
		}
		fmt.Print(astacc.CoqTable(acc))
		return
	}
	runMain()
}
