package main

import (
	"flag"
	"fmt"
	"os"
	"os/exec"
	"path/filepath"
	"regexp"
	"sort"
	"strings"
	"time"

	"verifharness/astacc"
	. "verifharness/common"
)

type child struct {
	cmd  string
	args []string
	tier string // tier handed to the child ("" = the tier of this run)
	seed uint64 // added to the run's seed
}

var reportSep = regexp.MustCompile(`(?m)^==================\n`)
var frameRe = regexp.MustCompile(`(?m)^  ([^\s(]+)\(`)

// raceReports parses the race detector's log files and keeps the reports that involve go-res code.
func raceReports(glob string) (reports []string, total int) {
	files, _ := filepath.Glob(glob)
	seen := map[string]bool{}
	for _, f := range files {
		b, err := os.ReadFile(f)
		if err != nil {
			continue
		}
		for _, rep := range reportSep.Split(string(b), -1) {
			if !strings.Contains(rep, "WARNING: DATA RACE") {
				continue
			}
			total++
			if !strings.Contains(rep, "github.com/jirenius/go-res") {
				continue // a race entirely inside the harness or a dependency goroutine: not a go-res access
			}
			// key: the first frames of the two accesses
			fr := frameRe.FindAllStringSubmatch(rep, -1)
			key := ""
			for i, m := range fr {
				if i < 6 && strings.Contains(m[1], "go-res") {
					key += m[1] + ";"
				}
			}
			if seen[key] {
				continue
			}
			seen[key] = true
			if len(rep) > 2500 {
				rep = rep[:2500]
			}
			reports = append(reports, rep)
		}
	}
	return
}

func runMain() {
	hdir := flag.String("harnessdir", "/verif/harness", "directory of the harness module")
	o := ParseOpts()
	acc, err := astacc.Collect(astacc.RepoDir())
	if err != nil {
		fmt.Fprintln(os.Stderr, "cannot parse /repo:", err)
		os.Exit(3)
	}
	var impl []ImplViolation
	dist := map[string]int{}
	extra := map[string]interface{}{}
	// --- race-detector runs of the concurrent harnesses ---
	// quick: the scheduler harness and the concurrent subset of the query-event harness (Parallel resources with
	// overlapping query requests, restart histories, directed and racy schedules); thorough: the full harnesses
	children := []child{{cmd: "sched", args: []string{"-prop", "C16"}}}
	if o.Tier == "thorough" {
		// the store harness at its thorough size (160,000 mostly sequential histories) takes over half an hour under the
		// race detector on a loaded machine: its quick-size run, which has all the concurrent and isolation sections,
		// is run with three seeds instead
		children = append(children, child{cmd: "kv", tier: "quick"}, child{cmd: "kv", tier: "quick", seed: 1}, child{cmd: "kv", tier: "quick", seed: 2},
			child{cmd: "index", args: []string{"-prop", "C13"}}, child{cmd: "req", args: []string{"-prop", "C04"}}, child{cmd: "query"})
	} else {
		children = append(children, child{cmd: "query", args: []string{"-race-subset"}}, child{cmd: "index", args: []string{"-race-subset"}})
	}
	goflags := os.Getenv("GOFLAGS") // the driver may point the build at a scratch copy through -modfile (VERIF_REPO)
	if goflags == "" {
		goflags = "-mod=mod"
	}
	env := append(os.Environ(), "CGO_ENABLED=1", "GOFLAGS="+goflags, "GOPROXY=off", "GOSUMDB=off", "GOTOOLCHAIN=local")
	scenarios := 0
	for _, ch := range children {
		tag := ch.cmd
		if ch.seed > 0 {
			tag += fmt.Sprint(ch.seed)
		}
		bin := filepath.Join(o.Out, "race_"+tag)
		b := exec.Command("go", "build", "-race", "-tags", "verif", "-o", bin, "./cmd/"+ch.cmd)
		b.Dir = *hdir
		b.Env = env
		if out, err := b.CombinedOutput(); err != nil {
			impl = append(impl, ImplViolation{What: "race-build: cannot build " + ch.cmd + " with -race: " + string(out), Desc: ch.cmd, Tags: []string{"race-build"}})
			continue
		}
		outd := filepath.Join(o.Out, "child_"+tag)
		n := "120"
		if o.Tier == "thorough" {
			n = "1200"
		}
		tier := o.Tier
		if ch.tier != "" {
			tier = ch.tier
		}
		args := append([]string{"-tier", tier, "-seed", fmt.Sprint(o.Seed + ch.seed), "-out", outd}, ch.args...)
		if ch.cmd == "sched" {
			args = append(args, "-n", n)
		}
		c := exec.Command(bin, args...)
		c.Env = append(env, "GORACE=log_path="+filepath.Join(o.Out, "racelog_"+tag)+" halt_on_error=0 exitcode=0")
		done := make(chan error, 1)
		var childOut []byte
		go func() { out, err := c.CombinedOutput(); childOut = out; done <- err }()
		select {
		case err := <-done:
			if err != nil {
				// the harness process died (a panic on one of the library's own goroutines cannot be recovered by the
				// harness): report it with the end of its output, which names the panic and the goroutine's frames
				tail := string(childOut)
				if i := strings.Index(tail, "panic:"); i >= 0 {
					tail = tail[i:]
				} else if i := strings.Index(tail, "fatal error:"); i >= 0 {
					tail = tail[i:]
				}
				if len(tail) > 3000 {
					tail = tail[:3000]
				}
				tag := "harness-crash"
				if strings.Contains(tail, "github.com/jirenius/go-res") {
					tag = "process-crash"
				}
				impl = append(impl, ImplViolation{What: tag + ": the " + ch.cmd + " harness process, run under the race detector, died: " + err.Error(), Desc: map[string]interface{}{"harness": ch.cmd, "seed": o.Seed, "output": tail}, Tags: []string{tag}})
			}
		case <-time.After(60 * time.Minute):
			c.Process.Kill()
			impl = append(impl, ImplViolation{What: "race-run: " + ch.cmd + " did not finish", Desc: ch.cmd, Tags: []string{"race-run"}})
		}
		if m, err := os.ReadFile(filepath.Join(outd, "meta.json")); err == nil {
			re := regexp.MustCompile(`"evaluations": (\d+)`)
			if mm := re.FindSubmatch(m); mm != nil {
				var k int
				fmt.Sscan(string(mm[1]), &k)
				scenarios += k
				dist["race-runs-"+tag] = k
			}
		}
		reps, total := raceReports(filepath.Join(o.Out, "racelog_"+tag) + ".*")
		dist["race-reports-"+tag] = total
		for _, r := range reps {
			impl = append(impl, ImplViolation{What: "data-race: the race detector reported an unsynchronised conflicting access in go-res (harness " + ch.cmd + ")", Desc: map[string]interface{}{"harness": ch.cmd, "seed": o.Seed, "report": r}, Tags: []string{"data-race"}})
		}
		os.RemoveAll(outd)
		os.Remove(bin)
	}
	extra["race_detector_scenarios"] = scenarios
	// --- the access table, one case per access ---
	var cases []Case
	sort.Slice(acc, func(i, j int) bool { return astacc.CoqAcc(acc[i]) < astacc.CoqAcc(acc[j]) })
	for _, a := range acc {
		k := "unlocked"
		switch {
		case a.Sync:
			k = "sync-object"
		case a.Atomic:
			k = "atomic"
		case a.Locked:
			k = "locked"
		}
		dist[k]++
		cases = append(cases, Case{Term: astacc.CoqAcc(a), Desc: a, Nontrivial: !a.Sync, Tags: []string{k}})
	}
	Emit(o, "C16", "From Coq Require Import String List NArith.\nImport ListNotations.\nFrom GoRes Require Import Run.Run_C16.\nOpen Scope string_scope.", "acc",
		"one case per shared-field access site extracted by go/ast from service.go, worker.go, queryevent.go, resource.go, request.go, getrequest.go, mux.go (function, struct, field, read/write, under s.mu, atomic, self-synchronising); non-trivial = not an operation of a self-synchronising object; plus race-detector (-race) runs of the concurrent harnesses with handlers writing unsynchronised per-group scratch memory (counts in input_distribution/extra)",
		cases, dist, extra, impl, 1000)
}
