// Correspondence harness for C06 (mux.go, group.go): real res.Mux values driven by an
// operation list (NewMux / Handle / AddListener / Mount / Route, each under recover), then
// GetHandler on a list of names.  One Coq case = the op list with which ops panicked + all
// lookups with what the implementation answered.
package main

import (
	"fmt"
	"sort"
	"strings"

	res "github.com/jirenius/go-res"

	. "verifharness/common"
)

// ---- replayable description ----

type ropD struct {
	K     string `json:"k"`               // new | newservice | handle | listen | listennil | mount | route | register
	Lpat  string `json:"lpat,omitempty"`  // handle: Handler.Listeners = {lpat: listener lid} (lid > 0)
	Onreg bool   `json:"onreg,omitempty"` // handle: with an OnRegister option
	M     int    `json:"m,omitempty"`
	Pat   string `json:"pat,omitempty"`
	Hid   int    `json:"hid,omitempty"`
	Grp   string `json:"grp,omitempty"`
	Par   bool   `json:"par,omitempty"`
	Lid   int    `json:"lid,omitempty"`
	Path  string `json:"path,omitempty"`
	Sub   int    `json:"sub,omitempty"`
	Body  []ropD `json:"body,omitempty"`
}
type lookD struct {
	M    int    `json:"m"`
	Name string `json:"name"`
}
type desc struct {
	Ops   []ropD  `json:"ops"`
	Looks []lookD `json:"lookups"`
}

// ---- the world: real muxes + the harness's own bookkeeping (never read from the trie) ----

type regRec struct {
	mux   int
	pat   string
	hid   int
	grp   string
	par   bool
	ok    bool
	onreg bool
	clean bool
}
type lregRec struct {
	mux int
	pat string
	lid int
	ok  bool
}
type world struct {
	mux    []*res.Mux
	path   []string
	top    []int
	abs    [][]string
	regs   []regRec
	lregs  []lregRec
	called []int
	reg    []bool // mux registered to a service
	events []evt  // OnRegister callbacks fired by the current op
	svc    *res.Service
}

type evt struct {
	pat string
	hid int
}

func split(p string) []string {
	if p == "" {
		return nil
	}
	return strings.Split(p, ".")
}
func merge(a, b string) string {
	if a == "" {
		return b
	}
	if b == "" {
		return a
	}
	return a + "." + b
}

func (w *world) alloc(m *res.Mux, path string) int {
	w.mux = append(w.mux, m)
	w.path = append(w.path, path)
	w.top = append(w.top, len(w.mux)-1)
	w.abs = append(w.abs, nil)
	w.reg = append(w.reg, false)
	return len(w.mux) - 1
}

// bookkeeping after a successful Mount of sub below parent
func (w *world) mounted(parent int, path string, sub int) {
	pre := append(append([]string{}, w.abs[parent]...), split(merge(path, w.path[sub]))...)
	for j := range w.mux {
		if j != sub && w.top[j] == sub {
			w.top[j] = w.top[parent]
			w.abs[j] = append(append([]string{}, pre...), w.abs[j]...)
		}
	}
	w.top[sub] = w.top[parent]
	w.abs[sub] = pre
}

func (w *world) handle(id int, o ropD) {
	w.regs = append(w.regs, regRec{id, o.Pat, o.Hid, o.Grp, o.Par, false, o.Onreg, false})
	i := len(w.regs) - 1
	opts := []res.Option{res.Call(fmt.Sprintf("h%d", o.Hid), func(res.CallRequest) {})}
	if o.Grp != "" {
		opts = append(opts, res.Group(o.Grp))
	}
	if o.Par {
		opts = append(opts, res.Parallel(true))
	}
	if o.Onreg {
		opts = append(opts, res.OnRegister(func(_ *res.Service, p res.Pattern, rh res.Handler) {
			h := -1
			for k := range rh.Call {
				fmt.Sscanf(k, "h%d", &h)
			}
			w.events = append(w.events, evt{string(p), h})
		}))
	}
	if o.Lid > 0 {
		lid := o.Lid
		w.lregs = append(w.lregs, lregRec{id, o.Lpat, lid, false})
		li := len(w.lregs) - 1
		lp := o.Lpat
		opts = append(opts, res.OptionFunc(func(h *res.Handler) {
			h.Listeners = map[string]func(*res.Event){lp: func(*res.Event) { w.called = append(w.called, lid) }}
		}))
		// the handler is registered before its listeners: if AddListener panics it stays registered
		defer func() {
			hid := o.Hid
			w.regs[i].ok = w.mux[id].Contains(func(h res.Handler) bool { _, ok := h.Call[fmt.Sprintf("h%d", hid)]; return ok })
			if rv := recover(); rv != nil {
				panic(rv)
			}
			w.lregs[li].ok = true
		}()
	}
	w.mux[id].Handle(o.Pat, opts...)
	w.regs[i].ok = true
	w.regs[i].clean = true
}
func (w *world) listen(id int, o ropD) {
	w.lregs = append(w.lregs, lregRec{id, o.Pat, o.Lid, false})
	i := len(w.lregs) - 1
	lid := o.Lid
	w.mux[id].AddListener(o.Pat, func(*res.Event) { w.called = append(w.called, lid) })
	w.lregs[i].ok = true
}
func (w *world) route(parent int, path string, body []ropD) {
	id := -1
	w.mux[parent].Route(path, func(s *res.Mux) {
		id = w.alloc(s, "")
		for _, b := range body {
			switch b.K {
			case "handle":
				w.handle(id, b)
			case "listen":
				w.listen(id, b)
			case "route":
				w.route(id, b.Path, b.Body)
			default:
				panic("harness: bad op in route body")
			}
		}
	})
	w.mounted(parent, path, id)
}

// one top-level op under recover; executable = false when the op is outside the modelled API use
func (w *world) exec(o ropD) (panicked bool, executable bool) {
	okid := func(i int) bool { return i >= 0 && i < len(w.mux) }
	switch o.K {
	case "new", "newservice":
	case "mount":
		if !okid(o.M) || !okid(o.Sub) || w.top[o.M] == o.Sub {
			return false, false // unknown mux, or mounting a mux below itself (cyclic trie)
		}
	default:
		if !okid(o.M) {
			return false, false
		}
	}
	defer func() {
		if recover() != nil {
			panicked = true
		}
	}()
	executable = true
	switch o.K {
	case "new":
		m := res.NewMux(o.Path)
		w.alloc(m, o.Path)
	case "newservice":
		sv := res.NewService(o.Path)
		id := w.alloc(sv.Mux, o.Path)
		w.reg[id] = true
	case "register":
		if w.svc == nil {
			w.svc = res.NewService("dummy")
		}
		w.mux[o.M].Register(w.svc)
		w.reg[o.M] = true
	case "listennil":
		w.mux[o.M].AddListener(o.Pat, nil)
	case "handle":
		w.handle(o.M, o)
	case "listen":
		w.listen(o.M, o)
	case "mount":
		w.mux[o.M].Mount(o.Path, w.mux[o.Sub])
		w.mounted(o.M, o.Path, o.Sub)
	case "route":
		w.route(o.M, o.Path, o.Body)
	default:
		executable = false
	}
	return
}

type obs struct {
	kind   int // 0 nil, 1 hit, 2 panicked
	hid    int
	lids   []int
	params map[string]string
	group  string
}

func (w *world) lookup(m int, name string) (o obs) {
	defer func() {
		if recover() != nil {
			o = obs{kind: 2}
		}
	}()
	mt := w.mux[m].GetHandler(name)
	if mt == nil {
		return obs{kind: 0}
	}
	o.kind = 1
	o.hid = -1
	for k := range mt.Handler.Call {
		fmt.Sscanf(k, "h%d", &o.hid)
	}
	for _, f := range mt.Listeners {
		w.called = nil
		f(&res.Event{})
		o.lids = append(o.lids, w.called...)
	}
	o.params = mt.Params
	o.group = mt.Group
	return
}

// ---- Coq printers ----

func ropTerm(o ropD) string {
	switch o.K {
	case "handle":
		return fmt.Sprintf("RHandle %s %d %s %s", B(o.Pat), o.Hid, B(o.Grp), Bool(o.Par))
	case "listen":
		return fmt.Sprintf("RListen %s %d", B(o.Pat), o.Lid)
	default:
		return fmt.Sprintf("RRoute %s %s", B(o.Path), ropList(o.Body))
	}
}
func ropList(b []ropD) string {
	xs := make([]string, len(b))
	for i, o := range b {
		xs[i] = ropTerm(o)
	}
	return List(xs)
}
func opTerm(o ropD) string {
	switch o.K {
	case "new":
		return "XBase (ONew " + B(o.Path) + ")"
	case "register":
		return "XRegister " + Nat(o.M)
	case "listennil":
		return fmt.Sprintf("XListenNil %s %s", Nat(o.M), B(o.Pat))
	case "handle":
		if o.Lid > 0 {
			return fmt.Sprintf("XHandleL %s %s %d %s %s %s %s %d", Nat(o.M), B(o.Pat), o.Hid, B(o.Grp), Bool(o.Par), Bool(o.Onreg), B(o.Lpat), o.Lid)
		}
		if o.Onreg {
			return fmt.Sprintf("XHandleR %s %s %d %s %s", Nat(o.M), B(o.Pat), o.Hid, B(o.Grp), Bool(o.Par))
		}
		return fmt.Sprintf("XBase (OHandle %s %s %d %s %s)", Nat(o.M), B(o.Pat), o.Hid, B(o.Grp), Bool(o.Par))
	case "listen":
		return fmt.Sprintf("XBase (OListen %s %s %d)", Nat(o.M), B(o.Pat), o.Lid)
	case "mount":
		return fmt.Sprintf("XBase (OMount %s %s %s)", Nat(o.M), B(o.Path), Nat(o.Sub))
	default:
		return fmt.Sprintf("XBase (ORoute %s %s %s)", Nat(o.M), B(o.Path), ropList(o.Body))
	}
}
func nList(xs []int) string {
	ys := make([]string, len(xs))
	for i, x := range xs {
		ys[i] = fmt.Sprint(x)
	}
	return List(ys)
}
func obsTerm(o obs) string {
	switch o.kind {
	case 0:
		return "LNone"
	case 2:
		return "LPanic"
	}
	return fmt.Sprintf("(LHit %d %s %s %s)", o.hid, nList(o.lids), AMap(o.params), B(o.group))
}

// token-wise matcher used only for the statistics (non-trivial = >= 2 registered patterns match)
func tmatch(p, s []string) bool {
	for i, t := range p {
		if t == ">" {
			return i == len(p)-1 && len(s) > i
		}
		if i >= len(s) {
			return false
		}
		if t[0] != '$' && t[0] != '*' && t != s[i] {
			return false
		}
	}
	return len(p) == len(s)
}

type stats struct {
	lookups, hits, multi, panics, regPanics, mountOK, routeOK, throughMount, groupTags, validateFail, callbacks int
}

// quirk = false: all lookups except those named path+"." on a mux with a non-empty path;
// quirk = true: only those (isolated in a case of their own, tagged "path-trailing-dot").
func mkCase(d desc, st *stats, quirk bool) (Case, bool) {
	w := &world{}
	hasQuirk := false
	var c Case
	var ops []string
	var done []ropD
	for _, o := range d.Ops {
		w.events = nil
		nmux := len(w.mux)
		p, ex := w.exec(o)
		if !ex {
			continue
		}
		done = append(done, o)
		evs := make([]string, len(w.events))
		for i, e := range w.events {
			evs[i] = fmt.Sprintf("(%s,%d)", B(e.pat), e.hid)
		}
		st.callbacks += len(w.events)
		if o.K == "newservice" {
			// NewService(name) = NewMux(name) ; Register
			ops = append(ops, "(XBase (ONew "+B(o.Path)+"),"+Bool(p)+",[])")
			if !p {
				ops = append(ops, "(XRegister "+Nat(nmux)+",false,"+List(evs)+")")
			}
		} else {
			ops = append(ops, "("+opTerm(o)+","+Bool(p)+","+List(evs)+")")
		}
		if p {
			st.regPanics++
		} else if o.K == "mount" {
			st.mountOK++
		} else if o.K == "route" {
			st.routeOK++
		}
	}
	multi := false
	var looks []string
	var kept []lookD
	for _, l := range d.Looks {
		if l.M < 0 || l.M >= len(w.mux) {
			continue
		}
		if q := w.path[l.M] != "" && l.Name == w.path[l.M]+"."; q != quirk {
			hasQuirk = hasQuirk || q
			continue
		}
		kept = append(kept, l)
		o := w.lookup(l.M, l.Name)
		looks = append(looks, fmt.Sprintf("LK %s %s %s", Nat(l.M), B(l.Name), obsTerm(o)))
		st.lookups++
		switch o.kind {
		case 1:
			st.hits++
		case 2:
			st.panics++
		}
		// statistics: how many accepted registrations of the same tree match (absolute tokens)
		full := append(append([]string{}, w.abs[l.M]...), func() []string {
			p := w.path[l.M]
			switch {
			case p == "":
				return split(l.Name)
			case l.Name == p:
				return nil
			case strings.HasPrefix(l.Name, p+"."):
				return strings.Split(l.Name[len(p)+1:], ".")
			}
			return []string{"\x00nomatch"}
		}()...)
		n := 0
		for _, r := range w.regs {
			if r.ok && w.top[r.mux] == w.top[l.M] {
				pt := append(append([]string{}, w.abs[r.mux]...), split(r.pat)...)
				ok := true
				for _, t := range pt {
					if t == "" {
						ok = false
					}
				}
				if ok && tmatch(pt, full) {
					n++
				}
			}
		}
		if n >= 2 {
			multi = true
			st.multi++
		}
		if quirk {
			c.Tags = appendUniq(c.Tags, "path-trailing-dot")
		}
	}
	var valid []string
	for i := range w.mux {
		v := w.mux[i].ValidateListeners() == nil
		valid = append(valid, Bool(v))
		if !v {
			c.Tags = appendUniq(c.Tags, "validate-fails")
		}
	}
	for _, t := range c.Tags {
		if t == "validate-fails" {
			st.validateFail++
		}
	}
	var absl, regs, lregs []string
	for i := range w.mux {
		absl = append(absl, fmt.Sprintf("(%s,%s)", Nat(w.top[i]), BList(w.abs[i])))
	}
	for _, r := range w.regs {
		regs = append(regs, fmt.Sprintf("RG %s %s %d %s %s %s %s %s", Nat(r.mux), B(r.pat), r.hid, B(r.grp), Bool(r.par), Bool(r.ok), Bool(r.onreg), Bool(r.clean)))
		if r.ok && !r.clean {
			c.Tags = appendUniq(c.Tags, "handle-listener-panic")
		}
		if r.ok && len(w.abs[r.mux]) > 0 && w.top[r.mux] != r.mux {
			// registered on a mounted mux or (below) through a mount point
		}
		if r.ok && strings.Contains(r.grp, "${") && !r.par {
			st.groupTags++
		}
		if r.ok {
			// through a mount point: some other mux's root lies strictly inside this pattern's path
			pt := append(append([]string{}, w.abs[r.mux]...), split(r.pat)...)
			for j := range w.mux {
				if j != r.mux && w.top[j] == w.top[r.mux] && len(w.abs[j]) > len(w.abs[r.mux]) && len(w.abs[j]) <= len(pt) &&
					strings.Join(pt[:len(w.abs[j])], ".") == strings.Join(w.abs[j], ".") {
					st.throughMount++
					break
				}
			}
		}
	}
	for _, r := range w.lregs {
		lregs = append(lregs, fmt.Sprintf("LR %s %s %d %s", Nat(r.mux), B(r.pat), r.lid, Bool(r.ok)))
	}
	c.Desc = desc{Ops: done, Looks: kept}
	var regd, conts, paths []string
	hids := map[int]bool{424242: true}
	for _, r := range w.regs {
		if len(hids) < 7 {
			hids[r.hid] = true
		}
	}
	var hl []int
	for h := range hids {
		hl = append(hl, h)
	}
	sort.Ints(hl)
	for i := range w.mux {
		regd = append(regd, Bool(w.reg[i]))
		paths = append(paths, w.mux[i].Path())
		for _, h := range hl {
			key := fmt.Sprintf("h%d", h)
			got := w.mux[i].Contains(func(hd res.Handler) bool { _, ok := hd.Call[key]; return ok })
			conts = append(conts, fmt.Sprintf("(%s,%d,%s)", Nat(i), h, Bool(got)))
		}
	}
	c.Term = fmt.Sprintf("MC %s\n %s\n %s %s %s\n %s %s %s %s", List(ops), List(looks), List(valid), BList(paths), List(absl), List(regs), List(lregs), List(regd), List(conts))
	c.Nontrivial = multi
	return c, hasQuirk
}

func appendUniq(xs []string, x string) []string {
	for _, y := range xs {
		if y == x {
			return xs
		}
	}
	return append(xs, x)
}

// ---- generators ----

func allSeqs(alpha []string, maxLen int) [][]string {
	var out [][]string
	var gen func(cur []string, n int)
	gen = func(cur []string, n int) {
		if len(cur) > 0 {
			out = append(out, append([]string{}, cur...))
		}
		if n == 0 {
			return
		}
		for _, t := range alpha {
			gen(append(append([]string{}, cur...), t), n-1)
		}
	}
	gen(nil, maxLen)
	return out
}

func joinAll(xs [][]string) []string {
	out := make([]string, len(xs))
	for i, x := range xs {
		out[i] = strings.Join(x, ".")
	}
	return out
}

func flatCase(pats []string, names []string) desc {
	d := desc{Ops: []ropD{{K: "new", Path: ""}}}
	for i, p := range pats {
		d.Ops = append(d.Ops, ropD{K: "handle", M: 0, Pat: p, Hid: i + 1})
	}
	for _, n := range names {
		d.Looks = append(d.Looks, lookD{0, n})
	}
	return d
}

var instVals = []string{"a", "b", "c", "", "zz", "42", "$x", "*", ">"}

// names derived from a full pattern (token list): instances and near misses
func namesFor(r *Rng, pt []string, k int) [][]string {
	var out [][]string
	for j := 0; j < k; j++ {
		var n []string
		for _, t := range pt {
			switch {
			case t == "":
				n = append(n, "")
			case t[0] == '$' || t[0] == '*':
				n = append(n, instVals[r.Intn(len(instVals))])
			case t == ">":
				for q := 1 + r.Intn(3); q > 0; q-- {
					n = append(n, instVals[r.Intn(5)])
				}
			default:
				n = append(n, t)
			}
		}
		switch r.Intn(9) {
		case 0:
			if len(n) > 0 {
				n = n[:len(n)-1]
			}
		case 1:
			n = append(n, instVals[r.Intn(4)])
		case 2:
			if len(n) > 0 {
				n[r.Intn(len(n))] = instVals[r.Intn(5)]
			}
		case 3:
			n = append(n, "")
		}
		out = append(out, n)
	}
	return out
}

var groupsFor = func(r *Rng, pt []string) (string, bool) {
	var tags []string
	for _, t := range pt {
		if len(t) > 1 && t[0] == '$' {
			tags = append(tags, t[1:])
		}
	}
	tag := func() string {
		if len(tags) == 0 {
			return "q"
		}
		return tags[r.Intn(len(tags))]
	}
	switch r.Intn(14) {
	case 0, 1, 2:
		return "", false
	case 3:
		return "", true
	case 4:
		return "grp", false
	case 5:
		return "${" + tag() + "}", false
	case 6:
		return "pre.${" + tag() + "}.mid.${" + tag() + "}", false
	case 7:
		return "${" + tag() + "}${" + tag() + "}${" + tag() + "}", false
	case 8:
		return "x${" + tag() + "}", r.Chance(20)
	case 9:
		return "${" + tag() + "}-tail", false
	case 10:
		return r.Pick([]string{"${nope}", "${", "$x", "${}", "${x", "a${x y}", "$", "a$", "${x}$", "${x}}", "{x}", "${X-_9}"}), r.Chance(15)
	case 11:
		if len(tags) > 0 {
			return "${" + tags[0] + "}", false
		}
		return "g2", false
	default:
		return "${" + tag() + "}.${" + tag() + "}", false
	}
}

type fpat struct {
	toks []string
	hid  int
	grp  string
	par  bool
}

// a random set of full patterns over a small token pool (so that they overlap a lot)
func randSet(r *Rng, maxPats, maxDepth int) []fpat {
	n := 1 + r.Intn(maxPats)
	lits := []string{"a", "b", "c", "ab"}
	if r.Chance(25) {
		lits = []string{"a", "b$", "c", "a$b"} // '$' inside a literal token (also in mount paths, which are taken from the patterns)
	}
	var out []fpat
	for i := 0; i < n; i++ {
		d := 1 + r.Intn(maxDepth)
		var pt []string
		used := map[string]bool{}
		for j := 0; j < d; j++ {
			k := r.Intn(10)
			switch {
			case j == 0 && k < 8, k < 5:
				pt = append(pt, lits[r.Intn(len(lits)-j%2)])
			case k < 8:
				t := r.Pick([]string{"$x", "$y", "$z", "$id"})
				if used[t] && r.Chance(90) {
					t = "*"
				}
				used[t] = true
				pt = append(pt, t)
			case k < 9:
				pt = append(pt, "*")
			default:
				if j == d-1 {
					pt = append(pt, ">")
				} else {
					pt = append(pt, lits[r.Intn(2)])
				}
			}
		}
		// extend an earlier pattern sometimes (shared prefixes, backtracking)
		if len(out) > 0 && r.Chance(40) {
			q := out[r.Intn(len(out))].toks
			cut := r.Intn(len(q) + 1)
			base := append([]string{}, q[:cut]...)
			if len(base) > 0 && base[len(base)-1] == ">" {
				base = base[:len(base)-1]
			}
			if len(base)+len(pt) <= maxDepth {
				ok := true
				for _, t := range base {
					if used[t] {
						ok = false
					}
				}
				if ok {
					pt = append(base, pt...)
				}
			}
		}
		g, par := groupsFor(r, pt)
		out = append(out, fpat{pt, i + 1, g, par})
	}
	return out
}

// arrange the full patterns over a top mux and nsub mounted muxes
func arrange(r *Rng, set []fpat, nsub int, withListeners bool) desc {
	topPath := r.Pick([]string{"", "", "svc", "s.t", "shop$", "x.y$z", "a$$", "p-q_1.~{}"})
	d := desc{Ops: []ropD{{K: "new", Path: topPath}}}
	type sub struct {
		id     int
		prefix []string // absolute literal prefix of its root
		parent int      // index into subs, -1 = top
		mpath  string
		spath  string
		route  bool
		late   bool
		own    []ropD
		mountd bool
	}
	var subs []*sub
	// candidate prefixes: leading literal tokens of the patterns
	var cands [][]string
	for _, p := range set {
		for k := 1; k <= len(p.toks) && k <= 3; k++ {
			t := p.toks[k-1]
			if t == "" || t[0] == '$' || t[0] == '*' || t[0] == '>' {
				break
			}
			cands = append(cands, p.toks[:k])
		}
	}
	if r.Chance(10) {
		cands = append(cands, []string{"m"}, []string{"a", "m"})
	}
	isPrefix := func(a, b []string) bool {
		if len(a) > len(b) {
			return false
		}
		for i := range a {
			if a[i] != b[i] {
				return false
			}
		}
		return true
	}
	nextID := 1
	for i := 0; i < nsub && len(cands) > 0; i++ {
		pf := cands[r.Intn(len(cands))]
		dup := false
		for _, s := range subs {
			if strings.Join(s.prefix, ".") == strings.Join(pf, ".") && r.Chance(90) {
				dup = true
			}
		}
		if dup {
			continue
		}
		s := &sub{prefix: pf, parent: -1}
		// deepest existing sub whose prefix is a proper prefix: mount below it (mostly)
		for j, q := range subs {
			if len(q.prefix) < len(pf) && isPrefix(q.prefix, pf) && r.Chance(70) {
				if s.parent < 0 || len(subs[s.parent].prefix) < len(q.prefix) {
					s.parent = j
				}
			}
		}
		rel := pf
		if s.parent >= 0 {
			rel = pf[len(subs[s.parent].prefix):]
		}
		cut := len(rel)
		if r.Chance(35) {
			cut = r.Intn(len(rel) + 1)
		}
		s.mpath = strings.Join(rel[:cut], ".")
		s.spath = strings.Join(rel[cut:], ".")
		s.route = s.spath == "" && r.Chance(35)
		s.late = s.route || r.Chance(50)
		subs = append(subs, s)
	}
	// ids: non-route subs are created up front (NewMux), route subs get their id when routed
	for _, s := range subs {
		if !s.route {
			s.id = nextID
			nextID++
			d.Ops = append(d.Ops, ropD{K: "new", Path: s.spath})
		}
	}
	var through []ropD
	lid := 1
	for _, p := range set {
		// owner: deepest sub whose prefix is a prefix of the pattern, or register through an ancestor
		owner := -1
		for j, s := range subs {
			if isPrefix(s.prefix, p.toks) && (owner < 0 || len(subs[owner].prefix) < len(s.prefix)) {
				owner = j
			}
		}
		for owner >= 0 && r.Chance(35) {
			owner = subs[owner].parent
		}
		var o ropD
		if owner < 0 {
			o = ropD{K: "handle", M: 0, Pat: strings.Join(p.toks, "."), Hid: p.hid, Grp: p.grp, Par: p.par}
		} else {
			s := subs[owner]
			o = ropD{K: "handle", M: -1 - owner, Pat: strings.Join(p.toks[len(s.prefix):], "."), Hid: p.hid, Grp: p.grp, Par: p.par}
		}
		ops := []ropD{o}
		if withListeners && r.Chance(35) {
			for q := 1 + r.Intn(2); q > 0; q-- {
				l := o
				l.K = "listen"
				l.Lid = lid
				lid++
				l.Hid, l.Grp, l.Par = 0, "", false
				if r.Chance(10) {
					l.Pat = strings.ReplaceAll(l.Pat, "$x", "*")
				}
				ops = append(ops, l)
			}
			if r.Chance(30) {
				ops[0], ops[len(ops)-1] = ops[len(ops)-1], ops[0]
			}
		}
		for _, x := range ops {
			if owner < 0 {
				through = append(through, x)
			} else if subs[owner].late || r.Chance(50) {
				subs[owner].own = append(subs[owner].own, x)
			} else {
				through = append(through, x)
			}
		}
	}
	// emit: early mounts, then own registrations of late subs (route bodies), late mounts in
	// parent-first or child-first order, then everything registered after the mounts
	fix := func(o ropD) ropD { // resolve the owner placeholder ids
		if o.M < 0 {
			o.M = subs[-1-o.M].id
		}
		return o
	}
	parentID := func(s *sub) int {
		if s.parent < 0 {
			return 0
		}
		return subs[s.parent].id
	}
	// route subs need ids in creation order: assign now, in emission order
	var order []*sub
	for _, s := range subs {
		if !s.late {
			order = append(order, s)
		}
	}
	for _, s := range subs {
		if s.late {
			order = append(order, s)
		}
	}
	if r.Chance(30) { // children before parents among the late ones
		sort.SliceStable(order, func(i, j int) bool {
			return !order[i].late && order[j].late || (order[i].late == order[j].late && order[i].late && len(order[i].prefix) > len(order[j].prefix))
		})
	}
	var pending []ropD
	for _, s := range order {
		if s.route {
			// a route sub whose parent is a not yet created route sub: fall back to creation order
			if s.parent >= 0 && subs[s.parent].route && subs[s.parent].id == 0 {
				ps := subs[s.parent]
				ps.id = nextID
				nextID++
				var body []ropD
				for _, x := range ps.own {
					x.M = 0
					body = append(body, x)
				}
				d.Ops = append(d.Ops, ropD{K: "route", M: parentID(ps), Path: ps.mpath, Body: body})
				ps.mountd = true
			}
			if s.mountd {
				continue
			}
			s.id = nextID
			nextID++
			var body []ropD
			for _, x := range s.own {
				x.M = 0
				body = append(body, x)
			}
			if s.parent >= 0 && subs[s.parent].id == 0 {
				continue
			}
			d.Ops = append(d.Ops, ropD{K: "route", M: parentID(s), Path: s.mpath, Body: body})
			s.mountd = true
			continue
		}
		if s.parent >= 0 && subs[s.parent].id == 0 {
			continue
		}
		if s.late {
			for _, x := range s.own {
				d.Ops = append(d.Ops, fix(x))
			}
			d.Ops = append(d.Ops, ropD{K: "mount", M: parentID(s), Path: s.mpath, Sub: s.id})
		} else {
			d.Ops = append(d.Ops, ropD{K: "mount", M: parentID(s), Path: s.mpath, Sub: s.id})
			for _, x := range s.own {
				pending = append(pending, fix(x))
			}
		}
	}
	for _, x := range through {
		if x.M < 0 {
			s := subs[-1-x.M]
			if s.id == 0 {
				continue
			}
			x.M = s.id
		}
		pending = append(pending, x)
	}
	// shuffle the registrations that happen after the mounts
	for i := len(pending) - 1; i > 0; i-- {
		j := r.Intn(i + 1)
		pending[i], pending[j] = pending[j], pending[i]
	}
	// sometimes a through-registration happens before the mounts (then a mount may fail)
	if len(pending) > 0 && r.Chance(8) {
		k := 0
		for k < len(d.Ops) && d.Ops[k].K == "new" {
			k++
		}
		if pending[0].M < k {
			ops := append([]ropD{}, d.Ops[:k]...)
			ops = append(ops, pending[0])
			d.Ops = append(ops, d.Ops[k:]...)
			pending = pending[1:]
		}
	}
	d.Ops = append(d.Ops, pending...)
	// lookups: for every pattern instances and near misses, asked on the top mux and on every sub below whose root it lies
	addLook := func(m int, path string, rel []string) {
		name := strings.Join(rel, ".")
		if path != "" {
			if len(rel) == 0 {
				name = path
			} else {
				name = path + "." + name
			}
		}
		d.Looks = append(d.Looks, lookD{m, name})
	}
	for _, p := range set {
		for _, n := range namesFor(r, p.toks, 3) {
			addLook(0, topPath, n)
			for _, s := range subs {
				if s.id != 0 && isPrefix(s.prefix, n) {
					addLook(s.id, s.spath, n[len(s.prefix):])
				}
			}
		}
	}
	for _, s := range subs {
		if s.id != 0 {
			addLook(0, topPath, s.prefix)
			addLook(0, topPath, append(append([]string{}, s.prefix...), ""))
			addLook(s.id, s.spath, nil)
			if s.spath != "" {
				d.Looks = append(d.Looks, lookD{s.id, s.spath + "."}, lookD{s.id, s.spath + "x"}, lookD{s.id, "x" + s.spath})
			}
		}
	}
	if topPath != "" {
		d.Looks = append(d.Looks, lookD{0, topPath}, lookD{0, topPath + "."}, lookD{0, topPath + ".."}, lookD{0, topPath + "..a"}, lookD{0, topPath + "a"}, lookD{0, "a"}, lookD{0, topPath[:1]})
	}
	d.Looks = append(d.Looks, lookD{0, ""}, lookD{0, "."}, lookD{0, strings.Repeat("a.", 40) + "b"})
	return d
}

func main() {
	o := ParseOpts()
	r := NewRng(o.Seed)
	var cases []Case
	dist := map[string]int{}
	st := &stats{}
	add := func(kind string, d desc) {
		c, hasQuirk := mkCase(d, st, false)
		dist[kind]++
		if c.Nontrivial {
			dist["nontrivial"]++
		}
		cases = append(cases, c)
		if hasQuirk {
			c2, _ := mkCase(d, &stats{}, true)
			dist["path-trailing-dot (isolated)"]++
			cases = append(cases, c2)
		}
	}
	thorough := o.Tier == "thorough"
	if o.Replay != "" {
		var d desc
		if err := LoadReplay(o.Replay, &d); err != nil {
			panic(err)
		}
		add("replay", d)
	} else {
		alpha := []string{"a", "b", "$x", "$y", "*", ">"}
		nameLen := 3
		if thorough {
			nameLen = 4
		}
		names := append([]string{""}, joinAll(allSeqs([]string{"a", "b", "c", ""}, nameLen))...)
		names4 := joinAll(allSeqs([]string{"a", "b", "c", ""}, 4))
		p3 := joinAll(allSeqs(alpha, 3))
		p2 := joinAll(allSeqs(alpha, 2))
		withSample := func(ns []string, k int) []string {
			out := append([]string{}, ns...)
			if !thorough {
				for i := 0; i < k; i++ {
					out = append(out, names4[r.Intn(len(names4))])
				}
			}
			return out
		}
		// (a) every single pattern of <= 3 tokens (valid or not)
		for _, p := range p3 {
			add("exh-1", flatCase([]string{p}, withSample(names, 12)))
		}
		// (b) every pair: patterns of <= 2 tokens (quick), <= 3 tokens valid ones (thorough)
		pairOver := p2
		if thorough {
			pairOver = nil
			for _, p := range p3 {
				if res.Pattern(p).IsValid() {
					pairOver = append(pairOver, p)
				}
			}
		}
		for i, p := range pairOver {
			for j, q := range pairOver {
				if j < i {
					continue
				}
				if thorough && (i*31+j*17)%4 != 0 && len(p)+len(q) > 8 {
					continue
				}
				add("exh-2", flatCase([]string{p, q}, withSample(names, 8)))
			}
		}
		// (c) triples (sampled) of <= 3 tokens
		nt := 260
		if thorough {
			nt = 6000
		}
		for i := 0; i < nt; i++ {
			add("exh-3", flatCase([]string{p3[r.Intn(len(p3))], p3[r.Intn(len(p3))], p3[r.Intn(len(p3))]}, withSample(names, 8)))
		}
		// (d) random larger sets: flat and re-arranged over 1-3 mounted muxes
		nr := 130
		if thorough {
			nr = 4000
		}
		if o.N > 0 {
			nr = o.N
		}
		for i := 0; i < nr; i++ {
			set := randSet(r, 12, 6)
			add("rand-flat", arrange(r, set, 0, r.Chance(60)))
			add("rand-mounted", arrange(r, set, 1+r.Intn(3), r.Chance(60)))
			if i%2 == 0 {
				add("rand-mounted", arrange(r, set, 1+r.Intn(3), r.Chance(60)))
			}
		}
		// (e) malformed registrations (no IsValid in AddListener: fetch's own checks and the nodes
		//     it leaves behind), invalid paths, mounts on existing nodes / wildcards / root
		bad := []string{"", "a..b", "a.", ".a", "$", "a.$", "*x", "a.*x", ">", ">.a", "a.>.b", "a.>b", ">>", "a?b", "a b", "a.$x.$x",
			"$x.a.$x", "é", "a\x7f", "a.$x.*", "*.*", "a$b", "a.b$", "$$", "$x$y", "a*", "a>", "*.>", "$x.>"}
		nb := 90
		if thorough {
			nb = 2000
		}
		for i := 0; i < nb; i++ {
			d := desc{Ops: []ropD{{K: "new", Path: r.Pick([]string{"", "p", "p.q", "$x", "a.", ">", "*", "a..b", "p?", "p$", "a$b.c", "a.$", "a*"})}, {K: "new", Path: r.Pick([]string{"", "", "q", "a"})}}}
			nops := 2 + r.Intn(7)
			lid := 1
			for j := 0; j < nops; j++ {
				pat := r.Pick(bad)
				if r.Chance(40) {
					pat = r.Pick([]string{"a", "a.b", "a.$x", "a.*", "a.>", "a.b.c", "b", "$x", "a.$y"})
				}
				m := r.Intn(2)
				switch r.Intn(8) {
				case 0, 1, 2:
					d.Ops = append(d.Ops, ropD{K: "handle", M: m, Pat: pat, Hid: j + 1, Grp: r.Pick([]string{"", "", "${x}", "g", "${y}"})})
				case 3, 4:
					d.Ops = append(d.Ops, ropD{K: "listen", M: m, Pat: pat, Lid: lid})
					lid++
				case 5:
					d.Ops = append(d.Ops, ropD{K: "mount", M: m, Path: r.Pick([]string{"a", "a.b", "", "$x", "a.>", "b", "a..b", "*", "a$", "b$c.d"}), Sub: 1 - m})
				case 6:
					d.Ops = append(d.Ops, ropD{K: "route", M: m, Path: r.Pick([]string{"a", "r", "", "a.b", "$x"}), Body: []ropD{
						{K: "handle", Pat: pat, Hid: 50 + j}, {K: "listen", Pat: r.Pick(bad), Lid: 90 + j},
						{K: "route", Path: r.Pick([]string{"n", "", "a"}), Body: []ropD{{K: "handle", Pat: "$z", Hid: 70 + j, Grp: "${z}"}}}}})
				default:
					d.Ops = append(d.Ops, ropD{K: "mount", M: r.Intn(3), Path: "m" + fmt.Sprint(j), Sub: r.Intn(3)})
				}
			}
			for m := 0; m < 4; m++ {
				for _, n := range []string{"", "a", "a.b", "a.x", "a.b.c", "a.", "p", "p.a", "p.q.a.b", "q.a", "a.a", "a.b.a", "r", "r.a", "a.n.v", "r.n.v", "a.x.y", ".", "$x", "*", "a.$x.$x"} {
					d.Looks = append(d.Looks, lookD{m, n})
				}
			}
			add("malformed", d)
		}
	}
	// (f) the same node registered once with an anonymous and once with a named placeholder
	//     (handler / listener, both orders): must conflict in either order
	if o.Replay == "" {
		pairs := [][2]string{{"a.*", "a.$w"}, {"*", "$w"}, {"a.*.b", "a.$w.b"}, {"a.*.*", "a.$v.$w"}, {"a.$x.*", "a.$x.$w"}, {"a.*.>", "a.$w.>"}, {"a.$x", "a.$y"}}
		for _, pr := range pairs {
			for variant := 0; variant < 6; variant++ {
				an, nm := pr[0], pr[1]
				var ops []ropD
				switch variant {
				case 0:
					ops = []ropD{{K: "handle", Pat: an, Hid: 1}, {K: "listen", Pat: nm, Lid: 1}}
				case 1:
					ops = []ropD{{K: "listen", Pat: nm, Lid: 1}, {K: "handle", Pat: an, Hid: 1}}
				case 2:
					ops = []ropD{{K: "handle", Pat: nm, Hid: 1, Grp: "${w}"}, {K: "listen", Pat: an, Lid: 1}}
				case 3:
					ops = []ropD{{K: "listen", Pat: an, Lid: 1}, {K: "handle", Pat: nm, Hid: 1, Grp: "${w}"}}
				case 4:
					ops = []ropD{{K: "listen", Pat: an, Lid: 1}, {K: "listen", Pat: nm, Lid: 2}, {K: "handle", Pat: an, Hid: 1}}
				case 5:
					ops = []ropD{{K: "handle", Pat: an, Hid: 1}, {K: "listen", Pat: an, Lid: 1}, {K: "listen", Pat: nm, Lid: 2}, {K: "listen", Pat: an, Lid: 3}}
				}
				d := desc{Ops: append([]ropD{{K: "new", Path: ""}}, ops...)}
				for _, n := range []string{"a.foo", "foo", "a.foo.b", "a.p.q", "a.p.q.r", "a", "a.", "a.p."} {
					d.Looks = append(d.Looks, lookD{0, n})
				}
				c, _ := mkCase(d, st, false)
				c.Tags = appendUniq(c.Tags, "listener-names-anon")
				dist["listener-names-anon"]++
				cases = append(cases, c)
			}
		}
	}
	// (f2) handler + listener on one node whose patterns swap an anonymous and a named placeholder
	//      (same name sequence, different positions): a conflict in either order, also through a mount
	if o.Replay == "" {
		swaps := [][2]string{{"a.$x.*", "a.*.$x"}, {"$x.*.$y", "*.$x.$y"}, {"a.$x.*.>", "a.*.$x.>"}, {"$x.*", "*.$x"}, {"a.$x.b.*.$y", "a.*.b.$x.$y"}}
		for _, pr := range swaps {
			A, Bp := pr[0], pr[1]
			for variant := 0; variant < 8; variant++ {
				ops := []ropD{{K: "new", Path: ""}}
				switch variant {
				case 0:
					ops = append(ops, ropD{K: "handle", Pat: A, Hid: 1, Grp: "${x}"}, ropD{K: "listen", Pat: Bp, Lid: 1})
				case 1:
					ops = append(ops, ropD{K: "listen", Pat: Bp, Lid: 1}, ropD{K: "handle", Pat: A, Hid: 1, Grp: "${x}"})
				case 2:
					ops = append(ops, ropD{K: "handle", Pat: A, Hid: 1, Lpat: Bp, Lid: 1})
				case 3:
					ops = append(ops, ropD{K: "listen", Pat: A, Lid: 1}, ropD{K: "listen", Pat: Bp, Lid: 2}, ropD{K: "handle", Pat: A, Hid: 1})
				case 4:
					ops = append(ops, ropD{K: "new", Path: ""}, ropD{K: "mount", M: 0, Path: "m", Sub: 1}, ropD{K: "handle", M: 1, Pat: A, Hid: 1, Grp: "${x}"}, ropD{K: "listen", M: 0, Pat: "m." + Bp, Lid: 1})
				case 5:
					ops = append(ops, ropD{K: "new", Path: ""}, ropD{K: "mount", M: 0, Path: "m", Sub: 1}, ropD{K: "listen", M: 0, Pat: "m." + Bp, Lid: 1}, ropD{K: "handle", M: 1, Pat: A, Hid: 1, Grp: "${x}"})
				case 6:
					ops = append(ops, ropD{K: "new", Path: "p"}, ropD{K: "listen", M: 1, Pat: Bp, Lid: 1}, ropD{K: "mount", M: 0, Path: "m", Sub: 1}, ropD{K: "handle", M: 0, Pat: "m.p." + A, Hid: 1, Lpat: "m.p." + A, Lid: 2})
				case 7:
					ops = append(ops, ropD{K: "listen", Pat: Bp, Lid: 1}, ropD{K: "handle", Pat: A, Hid: 1, Lpat: A, Lid: 2, Onreg: true}, ropD{K: "register", M: 0})
				}
				d := desc{Ops: ops}
				for _, n := range []string{"a.1.2", "1.2.3", "a.1.2.3", "1.2", "a.1.b.2.3", "a.1.2.3.4"} {
					d.Looks = append(d.Looks, lookD{0, n}, lookD{0, "m." + n}, lookD{0, "m.p." + n}, lookD{1, n}, lookD{1, "p." + n})
				}
				c, _ := mkCase(d, st, false)
				c.Tags = appendUniq(c.Tags, "placeholder-position-swap")
				dist["placeholder-position-swap"]++
				cases = append(cases, c)
			}
		}
	}
	// (g) Register / OnRegister / AddListener(nil) / Mount of a registered mux, and (h) the scenarios of the
	//     seeded rounds, scripted
	if o.Replay == "" {
		H := func(m int, pat string, hid int, grp string, onreg bool) ropD {
			return ropD{K: "handle", M: m, Pat: pat, Hid: hid, Grp: grp, Onreg: onreg}
		}
		P := func(m int, pat string, hid int, grp string) ropD {
			return ropD{K: "handle", M: m, Pat: pat, Hid: hid, Grp: grp, Par: true}
		}
		N := func(path string) ropD { return ropD{K: "new", Path: path} }
		Mt := func(m int, path string, sub int) ropD { return ropD{K: "mount", M: m, Path: path, Sub: sub} }
		Rg := func(m int) ropD { return ropD{K: "register", M: m} }
		scripts := []struct {
			ops   []ropD
			names map[int][]string
		}{
			{[]ropD{{K: "newservice", Path: "svc"}, H(0, "a.$x", 1, "", true), N(""), H(1, "c.$y", 2, "${y}", true), H(1, "d", 3, "", false),
				Mt(0, "m", 1), H(1, "e.*.>", 4, "", true), H(0, "m.f", 5, "", true), Rg(0), Rg(1), N("q"), Rg(2), Mt(0, "zz", 2),
				{K: "listennil", M: 0, Pat: "a"}, {K: "listennil", M: 1, Pat: "x.$y"}, H(2, "w", 6, "", true), Rg(2), H(0, "", 7, "", true)},
				map[int][]string{0: {"svc.a.1", "svc.m.c.2", "svc.m.e.x.y.z", "svc.m.f", "svc.m.d", "svc", "svc.", "svca"}, 1: {"c.2", "e.x.y", "f", ""}, 2: {"q.w", "q"}}},
			{[]ropD{N("p"), H(0, "x.$a.*", 1, "", true), {K: "route", M: 0, Path: "r", Body: []ropD{{K: "handle", Pat: "k", Hid: 9}}}, N(""),
				H(2, "$z", 2, "${z}", true), Mt(0, "s.t", 2), Rg(0), H(2, ">", 3, "", true), H(1, "k2.$q", 4, "${q}", true), Rg(0), H(0, "s.t.u.$v", 5, "${v}", true)},
				map[int][]string{0: {"p.x.1.2", "p.s.t.zz", "p.s.t.a.b", "p.r.k", "p.r.k2.7", "p.s.t.u.9"}, 2: {"zz", "a.b", "u.9"}, 1: {"k", "k2.7"}}},
			{[]ropD{N(""), H(0, "a.$x", 1, "", true), N("b"), H(1, "$y", 2, "", true), Mt(0, "a2", 1)},
				map[int][]string{0: {"a.1", "a2.b.3"}}},
			{[]ropD{N(""), N("b"), N(""), H(2, "c.$x", 1, "${x}", true), Mt(1, "", 2), Mt(1, "k", 2), Mt(0, "a", 1), Mt(0, "a2", 1), Rg(1), Rg(0), Rg(0),
				Mt(0, "$x", 2), Mt(0, "a.>", 2), Mt(0, "*", 2), N("x"), Mt(0, "a.b", 3), Mt(0, "a", 3)},
				map[int][]string{0: {"a.b.k.c.7", "a.b.k.c"}, 1: {"b.k.c.7"}, 2: {"c.7"}}},
			// (h) single ${tag} group at token index 0, also through a mount point
			{[]ropD{N(""), H(0, "$x", 1, "${x}", false), H(0, "$x.b", 2, "${x}", false), N(""), H(1, "$id", 3, "${id}", false), Mt(0, "m", 1), H(0, "m.$id.z", 4, "${id}", false)},
				map[int][]string{0: {"foo", "foo.b", "m.v", "m.v.z", "", "m"}, 1: {"v", "v.z"}}},
			// names that merely start with the path, trailing dots and empty tokens below a path
			{[]ropD{N("svc"), H(0, "a", 1, "", false), H(0, "", 2, "", false), H(0, "$x.$y", 3, "${y}", false), H(0, "*", 4, "", false)},
				map[int][]string{0: {"svca", "svc", "svc.a", "sv", "svc.", "svc..a", "svc..", "svc.a.", "svc.a..", "svc.a.b", ".svc", "svc.svc"}}},
			// backtracking out of literal chains to '>' patterns registered above, flat and through mounts
			{[]ropD{N(""), H(0, "a.>", 1, "", false), H(0, "a.b.c.d", 2, "", false), H(0, "a.b.$x.e", 3, "", false), N(""), H(1, "c.d", 4, "", false), H(1, "c.$x.e", 5, "", false),
				Mt(0, "z.b", 1), H(0, "z.>", 6, "", false), H(0, "z.b.c.*.f", 7, "", false)},
				map[int][]string{0: {"a.b.c.x", "a.b.c.d.e", "a.b.q.f", "a.b.c", "a.b.c.d", "a.b.c.e", "z.b.c.x", "z.b.c.d.e", "z.b.c.q.f", "z.b.c.q.e", "z.b", "z"}, 1: {"c.x", "c.d", "c.q.e", "c.q.f"}}},
			// Handler.Listeners: registered by add after the handler, before the OnRegister callback
			{[]ropD{{K: "newservice", Path: "s"}, {K: "handle", M: 0, Pat: "a.$x", Hid: 1, Lpat: "a.$x", Lid: 1, Onreg: true},
				{K: "handle", M: 0, Pat: "b", Hid: 2, Lpat: "c.>", Lid: 2}, {K: "handle", M: 0, Pat: "d.$x", Hid: 3, Lpat: "d.$y", Lid: 3, Onreg: true},
				{K: "handle", M: 0, Pat: "e", Hid: 4, Lpat: "e..f", Lid: 4, Onreg: true}, {K: "handle", M: 0, Pat: "e", Hid: 5, Lpat: "g", Lid: 5},
				N(""), {K: "handle", M: 1, Pat: "$k", Hid: 6, Lpat: "$k", Lid: 6, Onreg: true}, Mt(0, "m", 1)},
				map[int][]string{0: {"s.a.1", "s.b", "s.c.x", "s.d.1", "s.e", "s.g", "s.m.q"}, 1: {"q"}}},
			// '$' (and other legal characters) inside literal tokens of mux / mount / route paths
			{[]ropD{N("shop$"), N("q$x"), H(0, "item.$id", 7, "g.${id}", true), H(1, "$k", 8, "${k}", false), Mt(0, "us$", 1),
				{K: "route", M: 0, Path: "price.us$", Body: []ropD{{K: "handle", Pat: "$cur", Hid: 9, Grp: "c.${cur}"}}}, H(0, "us$.q$x.lit$.$z", 10, "${z}", false),
				N("a$$"), N("x.y$z"), N("a-b_c.~{}|"), N("$a"), N("a.$b"), N("a$.*"), N("a.>"), N("a$b."), N("a?$"), Mt(0, "m$.n$$", 3), Mt(0, "ok.$bad", 4), H(3, "leaf.$v", 11, "${v}", false), Rg(0)},
				map[int][]string{0: {"shop$.item.42", "shop$.us$.q$x.v", "shop$.price.us$.eur", "shop$.us$.q$x.lit$.w", "shop$.m$.n$$.a$$.leaf.9", "shop.item.42", "shop$"},
					1: {"q$x.v", "q$x.lit$.w", "q$x"}, 2: {"eur"}}},
			// Parallel groups through mount points
			{[]ropD{N(""), N("n"), Mt(0, "m", 1), P(0, "m.n.$x", 1, ""), P(1, "y.$z", 2, "${z}"), P(0, "m.n.y2.$w", 3, "${w}"), H(1, "g.$z", 4, "${z}", false)},
				map[int][]string{0: {"m.n.1", "m.n.y.2", "m.n.y2.3", "m.n.g.4"}, 1: {"n.1", "n.y.2", "n.y2.3", "n.g.4"}}},
		}
		for _, sc := range scripts {
			d := desc{Ops: sc.ops}
			for m := 0; m < 4; m++ {
				for _, n := range sc.names[m] {
					d.Looks = append(d.Looks, lookD{m, n})
				}
			}
			add("scripted", d)
		}
		// random arrangements with a registered top mux and OnRegister handlers
		nreg := 60
		if thorough {
			nreg = 2500
		}
		for i := 0; i < nreg; i++ {
			d := arrange(r, randSet(r, 8, 5), r.Intn(4), r.Chance(30))
			for j := range d.Ops {
				if d.Ops[j].K == "handle" && r.Chance(60) {
					d.Ops[j].Onreg = true
				}
				if d.Ops[j].K == "handle" && r.Chance(25) {
					d.Ops[j].Lid = 500 + j
					d.Ops[j].Lpat = d.Ops[j].Pat
					if r.Chance(25) {
						d.Ops[j].Lpat = r.Pick([]string{"a.$x", "a..b", "zz.>", "", "$q"})
					}
				}
			}
			switch r.Intn(4) {
			case 0:
				d.Ops[0].K = "newservice"
			case 1, 2:
				at := 1 + r.Intn(len(d.Ops))
				ops := append([]ropD{}, d.Ops[:at]...)
				ops = append(ops, Rg(0))
				d.Ops = append(ops, d.Ops[at:]...)
			}
			extra := []ropD{Rg(0), Rg(1), {K: "listennil", M: r.Intn(2), Pat: "a.$x"}, Rg(2), Mt(0, "zz", 2), H(0, "late.$l", 900+i, "${l}", true), H(1, "late2", 2900+i, "", true)}
			for _, e := range extra {
				if r.Chance(50) {
					d.Ops = append(d.Ops, e)
				}
			}
			if len(d.Looks) > 40 {
				d.Looks = d.Looks[:40]
			}
			add("rand-registered", d)
		}
	}
	dist["lookups"] = st.lookups
	dist["lookup_hits"] = st.hits
	dist["lookups_with_2+_matching_patterns"] = st.multi
	dist["lookup_panics"] = st.panics
	dist["ops_panicked"] = st.regPanics
	dist["mounts_ok"] = st.mountOK
	dist["routes_ok"] = st.routeOK
	dist["registrations_through_a_mount_point"] = st.throughMount
	dist["accepted_groups_with_tags"] = st.groupTags
	dist["cases_failing_ValidateListeners"] = st.validateFail
	dist["OnRegister_callbacks"] = st.callbacks
	Emit(o, "C06", "From GoRes Require Import Run.Run_C06.", "mcase",
		"op lists on real res.Mux values (NewMux/Handle/AddListener/Mount/Route under recover) + GetHandler on name lists: every pattern of <=3 tokens over {a,b,$x,$y,*,>} alone, every pair of <=2-token patterns (thorough: valid <=3-token ones), sampled triples, each x all names of <=3 (thorough 4) tokens over {a,b,c,\"\"}; random sets of <=12 patterns of depth <=6 flat and re-arranged over 1-3 mounted muxes / Route / path prefixes with group templates (valid and invalid) and listeners; malformed registrations and mounts. non-trivial = some lookup has >= 2 registered patterns matching the name; distinct by the whole case term",
		cases, dist, nil, nil, 60)
}
