// Correspondence harness for C08 (resource.go event methods, Service.event/rawEvent,
// Request.Timeout/OK/reply and the recover of executeHandler).
//
// A case is one GROUP run on a real res.Service over a recording connection:
// 1-3 callbacks (call request handlers and Service.With callbacks) submitted in a
// known order to one worker group, each executing a script of event calls /
// Timeout / OK(nil).  ONE global effect log (mutex protected) is fed by the apply
// handlers, by the connection's Publish and by the listeners; every entry records
// the callback and script action executing at that moment and whether it ran on
// the goroutine of the callback.  The log is handed to Coq (Run_C08) next to the
// inputs; the model's log must be identical (mismatches) and the property's
// decidable form is evaluated on the recorded log alone (violations).
package main

import (
	"encoding/json"
	"errors"
	"fmt"
	"os"
	"runtime"
	"sort"
	"strconv"
	"strings"
	"sync"
	"time"

	res "github.com/jirenius/go-res"
	"github.com/jirenius/go-res/verifhook"
	nats "github.com/nats-io/nats.go"

	. "verifharness/common"
)

// ---------- descriptions (replayable) ----------

type valD struct {
	K string `json:"k"` // nil int str bool obj arr ref del raw bad
	S string `json:"s,omitempty"`
	N int    `json:"n,omitempty"`
}
type kvD struct {
	K string `json:"k"`
	V valD   `json:"v"`
}
type actD struct {
	Op     string `json:"op"` // change add remove create delete custom reaccess reset timeout reply
	Vals   []kvD  `json:"vals,omitempty"`
	NilMap bool   `json:"nilmap,omitempty"`
	V      valD   `json:"v,omitempty"`
	Idx    int    `json:"idx,omitempty"`
	Name   string `json:"name,omitempty"`
	Ms     int    `json:"ms,omitempty"` // timeout: Ms milliseconds + Us microseconds
	Us     int    `json:"us,omitempty"`
	Ap     string `json:"ap,omitempty"` // absent ok empty nil fail-res fail-plain
	Rev    []kvD  `json:"rev,omitempty"`
	Ret    valD   `json:"ret,omitempty"`
}
type cbD struct {
	Ctx    string `json:"ctx"` // call | with
	Res    int    `json:"res"`
	Script []actD `json:"script"`
}
type stepD struct {
	How string `json:"how"` // handle handle-self other add addsub mount addparent
	Lid int    `json:"lid,omitempty"`
}
type setupD struct {
	Mode  string          `json:"mode"` // direct pattern wild root mount mountpat
	Type  string          `json:"type"` // model collection unset
	Apply map[string]bool `json:"apply"`
	Group string          `json:"group,omitempty"`
	Steps []stepD         `json:"steps"`
	// listener React.Lid reacts to an event (not to one emitted by a reaction) by emitting
	// React.Act on ev.Resource from inside its call
	React *reactD `json:"react,omitempty"`
	// stateful ApplyCreate / ApplyDelete: the resource exists or not (initially Exists); create on
	// an existing one fails with a duplicate error, delete of a missing one with res.ErrNotFound
	// the handler is registered with res.Parallel(true) (Group is then ignored by the library):
	// no worker group, so the callbacks of the case are submitted one after the other
	Parallel bool `json:"parallel,omitempty"`
	Stateful bool `json:"stateful,omitempty"`
	Exists   bool `json:"exists,omitempty"`
}
type reactD struct {
	Lid int  `json:"lid"`
	Act actD `json:"act"`
}
type caseD struct {
	Setup setupD `json:"setup"`
	Cbs   []cbD  `json:"cbs"`
	// Restart != "": the callbacks run in the SECOND serve cycle of the service. First the service
	// is served on connection object A, a With callback emits an event, then
	//   "idle":          Shutdown with nothing in flight;
	//   "inflight-with": a With callback is running when Shutdown is called and emits an event
	//                    after A.Close() was called, while Shutdown waits for it;
	//   "inflight-call": the same with a slow call request handler (event, Timeout, OK);
	// then the SAME service is served on a NEW connection object B.
	Restart string `json:"restart,omitempty"`
	// Window: the callbacks are queued, then Shutdown is called and HELD between its state change and
	// nc.Close() (verif gate close-after-nil); the callbacks run in that window - Shutdown has begun,
	// the connection is still open - and only then Shutdown goes on. Events are published as long as
	// the connection is open. (ResetEvent is not used in these scripts: Service.Reset refuses once the
	// state is not started.)
	Window bool `json:"window,omitempty"`
}

// ---------- Go values <-> Coq terms ----------

type badVal struct{ id int }

func (b badVal) MarshalJSON() ([]byte, error) { return nil, errors.New("unmarshalable") }

func mkVal(d valD) interface{} {
	switch d.K {
	case "", "nil":
		return nil
	case "int":
		return d.N
	case "str":
		return d.S
	case "bool":
		return d.N != 0
	case "obj":
		return map[string]interface{}{"a": d.N, "b": d.S}
	case "arr":
		return []interface{}{d.N, d.S, nil}
	case "ref":
		return res.Ref(d.S)
	case "del":
		return res.DeleteAction
	case "raw":
		return json.RawMessage(d.S)
	case "bad":
		return badVal{d.N}
	}
	panic("bad value kind " + d.K)
}
func mkMap(kvs []kvD, nilmap bool) map[string]interface{} {
	if len(kvs) == 0 && nilmap {
		return nil
	}
	m := make(map[string]interface{}, len(kvs))
	for _, kv := range kvs {
		m[kv.K] = mkVal(kv.V)
	}
	return m
}
func encVal(v interface{}) string {
	if v == nil {
		return "VNil"
	}
	if b, ok := v.(badVal); ok {
		return "(VBad " + strconv.Itoa(b.id) + ")"
	}
	b, err := json.Marshal(v)
	if err != nil {
		return "(VBad 999)"
	}
	return "(VJson " + B(string(b)) + ")"
}
func encVMap(m map[string]interface{}) string {
	keys := make([]string, 0, len(m))
	for k := range m {
		keys = append(keys, k)
	}
	sort.Strings(keys)
	parts := make([]string, len(keys))
	for i, k := range keys {
		parts[i] = "(" + B(k) + "," + encVal(m[k]) + ")"
	}
	return "[" + strings.Join(parts, ";") + "]"
}
func encOMap(m map[string]interface{}) string {
	if m == nil {
		return "None"
	}
	return "(Some " + encVMap(m) + ")"
}
func evTerm(name, rid string, nv, ov map[string]interface{}, value interface{}, idx int, data, payload interface{}) string {
	return "(Ev " + B(name) + " " + B(rid) + " " + encOMap(nv) + " " + encOMap(ov) + " " + encVal(value) + " " + Z(idx) + " " + encVal(data) + " " + encVal(payload) + ")"
}

const (
	failCode  = "t.applyFailed"
	failMsg   = `apply "handler" failed \ as planned`
	failPlain = "plain apply failure"
)

// error values of a failing apply handler: whatever the value, the handler FAILED
var failKinds = []string{"fail-res", "fail-plain", "fail-notfound", "fail-timeout", "fail-params", "fail-nf-custom", "fail-wrapped", "fail-nilres", "fail-dup"}

func planErr(ap string) error {
	switch ap {
	case "fail-res":
		return &res.Error{Code: failCode, Message: failMsg}
	case "fail-plain":
		return errors.New(failPlain)
	case "fail-notfound":
		return res.ErrNotFound
	case "fail-timeout":
		return res.ErrTimeout
	case "fail-params":
		return res.ErrInvalidParams
	case "fail-nf-custom":
		return &res.Error{Code: res.CodeNotFound, Message: "gone: no such thing"}
	case "fail-wrapped":
		return fmt.Errorf("%w", res.ErrNotFound)
	case "fail-nilres":
		var e *res.Error
		return e // typed nil in a non-nil interface
	case "fail-dup":
		return &res.Error{Code: "t.duplicate", Message: "Duplicate resource"}
	}
	return nil
}

// Coq term (err) of an error VALUE
func errValTerm(err error) string {
	if e, ok := err.(*res.Error); ok {
		if e == nil {
			return "ENilRes"
		}
		return "(ERes " + B(e.Code) + " " + B(e.Message) + ")"
	}
	return "(EPlain " + B(err.Error()) + ")"
}
func errTerm(ap string) string { return errValTerm(planErr(ap)) }

var kindTerm = map[string]string{"change": "KChange", "add": "KAdd", "remove": "KRemove", "create": "KCreate", "delete": "KDelete", "custom": "KCustom"}

// model term of an action
func actTerm(a actD) string {
	fails := func() string { return "(Fails " + errTerm(a.Ap) + ")" }
	switch a.Op {
	case "change":
		var ap string
		switch a.Ap {
		case "absent":
			ap = "Absent"
		case "ok":
			ap = "(Ok (Some " + encVMap(mkMap(a.Rev, false)) + "))"
		case "empty":
			ap = "(Ok (Some []))"
		case "nil":
			ap = "(Ok None)"
		default:
			ap = fails()
		}
		return "AChange " + encVMap(mkMap(a.Vals, false)) + " " + ap
	case "add", "create":
		ap := "(Ok tt)"
		if a.Ap == "absent" {
			ap = "Absent"
		} else if strings.HasPrefix(a.Ap, "fail") {
			ap = fails()
		}
		if a.Op == "add" {
			return "AAdd " + encVal(mkVal(a.V)) + " " + Z(a.Idx) + " " + ap
		}
		return "ACreate " + encVal(mkVal(a.V)) + " " + ap
	case "remove", "delete":
		ap := "(Ok " + encVal(mkVal(a.Ret)) + ")"
		if a.Ap == "absent" {
			ap = "Absent"
		} else if strings.HasPrefix(a.Ap, "fail") {
			ap = fails()
		}
		if a.Op == "remove" {
			return "ARemove " + Z(a.Idx) + " " + ap
		}
		return "ADelete " + ap
	case "custom":
		return "ACustom " + B(a.Name) + " " + encVal(mkVal(a.V))
	case "reaccess":
		return "AReaccess"
	case "reset":
		return "AReset"
	case "timeout":
		return "ATimeout " + Z(a.Ms*1000+a.Us)
	case "reply":
		return "AReply"
	}
	panic("bad op " + a.Op)
}

// ---------- recording connection ----------

type fakeConn struct {
	h       *H
	id      int
	mu      sync.Mutex
	ch      chan *nats.Msg
	onClose func()
}

// a message counts as "on the connection" only if it is published on the connection object the
// service is currently served on; anything else is recorded as a stale publish
func (c *fakeConn) Publish(subject string, payload []byte) error {
	c.h.publish(c, subject, payload)
	return nil
}
func (c *fakeConn) PublishRequest(subject, reply string, data []byte) error {
	c.h.publish(c, subject, data)
	return nil
}
func (c *fakeConn) ChanSubscribe(subject string, ch chan *nats.Msg) (*nats.Subscription, error) {
	return c.ChanQueueSubscribe(subject, "", ch)
}
func (c *fakeConn) ChanQueueSubscribe(subject, queue string, ch chan *nats.Msg) (*nats.Subscription, error) {
	c.mu.Lock()
	c.ch = ch
	c.mu.Unlock()
	return &nats.Subscription{Subject: subject, Queue: queue}, nil
}
func (c *fakeConn) Close() {
	if c.onClose != nil {
		c.onClose()
	}
}

// ---------- harness state: the single global effect log ----------

type logEnt struct {
	cb, act, d int
	gidOK      bool
	term       string
}

// an *Event a listener was handed and kept, with what it showed at that moment
type kept struct {
	ev       *res.Event
	seen     string // Coq term of the record at call time (a deep copy: text)
	cb       int
	sameAtCb bool
}
type H struct {
	mu     sync.Mutex
	log    []logEnt
	curCb  int
	curAct int
	curGid uint64
	plan   *actD
	curD   int // nesting tag: 0, or the id of the re-entrant listener whose reaction is running
	depth  int
	kept   []*kept
	exists map[string]bool
	slowRunning, slowGo chan struct{}
	prelude bool // first serve cycle of a restart case
	conn   *fakeConn // the connection object of the current serve cycle
	inCall   bool     // a script's event method is executing
	returned []string // "(cb,act,n)": n listener calls of the script's own event had been made when the event method returned
	stale  []string  // "(cb,act)" of publishes that went to another connection object
	staleS []string  // their subjects (for the report)
	d      caseD
	rids   []string
	panics []string
}

func goid() uint64 {
	var buf [64]byte
	n := runtime.Stack(buf[:], false)
	f := strings.Fields(string(buf[:n]))
	if len(f) < 2 {
		return 0
	}
	id, _ := strconv.ParseUint(f[1], 10, 64)
	return id
}
func (h *H) add(term string) {
	g := goid()
	h.mu.Lock()
	h.log = append(h.log, logEnt{h.curCb, h.curAct, h.curD, g == h.curGid, term})
	h.mu.Unlock()
}

func (h *H) publish(c *fakeConn, subject string, payload []byte) {
	g := goid()
	h.mu.Lock()
	if c != h.conn {
		h.stale = append(h.stale, "("+strconv.Itoa(h.curCb)+","+strconv.Itoa(h.curAct)+")")
		h.staleS = append(h.staleS, "conn"+strconv.Itoa(c.id)+":"+subject)
	} else {
		h.log = append(h.log, logEnt{h.curCb, h.curAct, h.curD, g == h.curGid, "EPublish " + B(subject) + " " + B(string(payload))})
	}
	h.mu.Unlock()
}

func evTermOf(ev *res.Event) string {
	rid := "<nil>"
	if ev.Resource != nil {
		rid = ev.Resource.ResourceName()
	}
	return evTerm(ev.Name, rid, ev.NewValues, ev.OldValues, ev.Value, ev.Idx, ev.Data, ev.Payload)
}

// re-read every retained *Event of callback cb (cb < 0: all): does it still show what was delivered?
func (h *H) reread(cb int) (terms []string, allSame bool) {
	h.mu.Lock()
	ks := append([]*kept{}, h.kept...)
	h.mu.Unlock()
	allSame = true
	for _, k := range ks {
		if cb >= 0 && k.cb != cb {
			continue
		}
		t := evTermOf(k.ev)
		terms = append(terms, t)
		if t != k.seen {
			allSame = false
			if cb >= 0 {
				k.sameAtCb = false
			}
		}
	}
	return
}

// one event call on a resource object
func doEvent(r res.Resource, a actD) {
	switch a.Op {
	case "change":
		r.ChangeEvent(mkMap(a.Vals, a.NilMap))
	case "add":
		r.AddEvent(mkVal(a.V), a.Idx)
	case "remove":
		r.RemoveEvent(a.Idx)
	case "create":
		r.CreateEvent(mkVal(a.V))
	case "delete":
		r.DeleteEvent()
	case "custom":
		r.Event(a.Name, mkVal(a.V))
	case "reaccess":
		r.ReaccessEvent()
	case "reset":
		r.ResetEvent()
	}
}
func (h *H) setCur(cb, act int, gid uint64, plan *actD) {
	h.mu.Lock()
	h.curCb, h.curAct, h.curGid, h.plan = cb, act, gid, plan
	h.mu.Unlock()
}
// present: does the resource exist for the stateful apply handlers (h.mu held)
func (h *H) present(rid string) bool {
	if h.exists == nil {
		h.exists = map[string]bool{}
	}
	v, ok := h.exists[rid]
	if !ok {
		v = h.d.Setup.Exists
		h.exists[rid] = v
	}
	return v
}

func (h *H) getPlan() actD {
	h.mu.Lock()
	defer h.mu.Unlock()
	if h.plan == nil {
		return actD{Ap: "ok"}
	}
	return *h.plan
}

func (h *H) listener(lid int) func(*res.Event) {
	return func(ev *res.Event) {
		seen := evTermOf(ev)
		g := goid()
		h.mu.Lock()
		if h.prelude {
			// first serve cycle of a restart case: listeners are inert
			h.mu.Unlock()
			return
		}
		h.log = append(h.log, logEnt{h.curCb, h.curAct, h.curD, g == h.curGid, "EListen " + strconv.Itoa(lid) + " " + seen})
		h.kept = append(h.kept, &kept{ev: ev, seen: seen, cb: h.curCb, sameAtCb: true})
		react := h.d.Setup.React
		// (a listener called on a foreign goroutine - a violation, logged above - does not react: nothing
		// there would recover a panicking reaction)
		doReact := react != nil && react.Lid == lid && h.depth == 0 && g == h.curGid && h.inCall
		var savedPlan *actD
		if doReact {
			savedPlan = h.plan
			act := react.Act
			h.plan, h.depth, h.curD = &act, 1, lid
		}
		h.mu.Unlock()
		if doReact {
			// restore also when the inner call panics (the panic unwinds the outer call)
			defer func() {
				h.mu.Lock()
				h.plan, h.depth, h.curD = savedPlan, 0, 0
				h.mu.Unlock()
			}()
			doEvent(ev.Resource, react.Act)
		}
	}
}

func (h *H) applyOptions(s setupD) []res.Option {
	var opts []res.Option
	if s.Apply["change"] {
		opts = append(opts, res.ApplyChange(func(r res.Resource, ch map[string]interface{}) (map[string]interface{}, error) {
			p := h.getPlan()
			var rev map[string]interface{}
			err := planErr(p.Ap)
			var ret string
			switch p.Ap {
			case "ok":
				rev = mkMap(p.Rev, false)
			case "empty":
				rev = map[string]interface{}{}
			}
			if err != nil {
				ret = "(RFail " + errValTerm(err) + ")"
			} else {
				ret = "(RChange " + encOMap(rev) + ")"
			}
			h.add("EApply KChange " + evTerm("change", r.ResourceName(), ch, nil, nil, 0, nil, nil) + " " + ret)
			return rev, err
		}))
	}
	if s.Apply["add"] {
		opts = append(opts, res.ApplyAdd(func(r res.Resource, v interface{}, idx int) error {
			p := h.getPlan()
			err := planErr(p.Ap)
			ret := "RUnit"
			if err != nil {
				ret = "(RFail " + errValTerm(err) + ")"
			}
			h.add("EApply KAdd " + evTerm("add", r.ResourceName(), nil, nil, v, idx, nil, nil) + " " + ret)
			return err
		}))
	}
	if s.Apply["remove"] {
		opts = append(opts, res.ApplyRemove(func(r res.Resource, idx int) (interface{}, error) {
			p := h.getPlan()
			err := planErr(p.Ap)
			var v interface{}
			var ret string
			if err != nil {
				ret = "(RFail " + errValTerm(err) + ")"
			} else {
				v = mkVal(p.Ret)
				ret = "(RVal " + encVal(v) + ")"
			}
			h.add("EApply KRemove " + evTerm("remove", r.ResourceName(), nil, nil, nil, idx, nil, nil) + " " + ret)
			return v, err
		}))
	}
	if s.Apply["create"] {
		opts = append(opts, res.ApplyCreate(func(r res.Resource, data interface{}) error {
			p := h.getPlan()
			err := planErr(p.Ap)
			if s.Stateful {
				err = nil
				h.mu.Lock()
				if h.present(r.ResourceName()) {
					err = planErr("fail-dup")
				} else {
					h.exists[r.ResourceName()] = true
				}
				h.mu.Unlock()
			}
			ret := "RUnit"
			if err != nil {
				ret = "(RFail " + errValTerm(err) + ")"
			}
			h.add("EApply KCreate " + evTerm("create", r.ResourceName(), nil, nil, nil, 0, data, nil) + " " + ret)
			return err
		}))
	}
	if s.Apply["delete"] {
		opts = append(opts, res.ApplyDelete(func(r res.Resource) (interface{}, error) {
			p := h.getPlan()
			err := planErr(p.Ap)
			if s.Stateful {
				err = nil
				h.mu.Lock()
				if h.present(r.ResourceName()) {
					h.exists[r.ResourceName()] = false
				} else {
					err = res.ErrNotFound
				}
				h.mu.Unlock()
			}
			var v interface{}
			var ret string
			if err != nil {
				ret = "(RFail " + errValTerm(err) + ")"
			} else {
				v = mkVal(p.Ret)
				ret = "(RVal " + encVal(v) + ")"
			}
			h.add("EApply KDelete " + evTerm("delete", r.ResourceName(), nil, nil, nil, 0, nil, nil) + " " + ret)
			return v, err
		}))
	}
	return opts
}

// the body of every callback: the script, action by action
func (h *H) runScript(ci int, r res.Resource, req res.CallRequest) {
	g := goid()
	script := h.d.Cbs[ci].Script
	h.setCur(ci, 0, g, nil)
	// whatever the service publishes after the handler returned / panicked is the closing reply
	defer h.setCur(ci, len(script), g, nil)
	defer h.reread(ci)
	for ai := range script {
		a := script[ai]
		h.setCur(ci, ai, g, &a)
		switch a.Op {
		case "timeout":
			if req != nil {
				req.Timeout(time.Duration(a.Ms)*time.Millisecond + time.Duration(a.Us)*time.Microsecond)
			}
		case "reply":
			if req != nil {
				req.OK(nil)
			}
		case "reaccess", "reset":
			doEvent(r, a)
		default:
			h.callEvent(ci, ai, r, a)
		}
	}
}

// one event call of a script, with the 'returned' marker: how many listener calls of this event
// had been made when the event method returned (or panicked)
func (h *H) callEvent(ci, ai int, r res.Resource, a actD) {
	h.mu.Lock()
	h.inCall = true
	h.mu.Unlock()
	defer func() {
		h.mu.Lock()
		h.inCall = false
		n := 0
		for _, e := range h.log {
			if e.cb == ci && e.act == ai && e.d == 0 && strings.HasPrefix(e.term, "EListen ") {
				n++
			}
		}
		h.returned = append(h.returned, "("+strconv.Itoa(ci)+","+strconv.Itoa(ai)+","+strconv.Itoa(n)+")")
		h.mu.Unlock()
	}()
	doEvent(r, a)
}

// the callback that is in flight while Shutdown runs (first serve cycle): it waits until the
// connection's Close was called, then emits
func (h *H) slow(r res.Resource, req res.CallRequest) {
	close(h.slowRunning)
	<-h.slowGo
	r.Event("late", nil)
	r.ReaccessEvent()
	if req != nil {
		req.Timeout(5 * time.Millisecond)
		req.OK(nil)
	}
}

func panicTerm(v interface{}) string {
	switch e := v.(type) {
	case *res.Error:
		if e == nil {
			return "(Some (" + B("<nil *Error>") + ",[]))"
		}
		return "(Some (" + B(e.Code) + "," + B(e.Message) + "))"
	case error:
		return "(Some ([]," + B(e.Error()) + "))"
	case string:
		return "(Some ([]," + B(e) + "))"
	}
	return "(Some ([]," + B(fmt.Sprint(v)) + "))"
}

type layout struct {
	pat, parentPat string
	rids           []string
	mounted        bool
}

func layoutOf(mode string) layout {
	switch mode {
	case "direct":
		return layout{pat: "m", rids: []string{"t.m"}}
	case "pattern":
		return layout{pat: "i.$id", rids: []string{"t.i.7", "t.i.8"}}
	case "wild":
		return layout{pat: "w.>", rids: []string{"t.w.a.b", "t.w.c"}}
	case "root":
		return layout{pat: "", rids: []string{"t"}}
	case "mount":
		return layout{pat: "m", parentPat: "x.s.m", rids: []string{"t.x.s.m"}, mounted: true}
	case "mountpat":
		return layout{pat: "i.$id", parentPat: "x.s.i.$id", rids: []string{"t.x.s.i.7", "t.x.s.i.8"}, mounted: true}
	}
	panic("bad mode " + mode)
}

func listenersOf(s setupD) []int {
	var ls []int
	for _, st := range s.Steps {
		switch st.How {
		case "handle-self", "other", "add", "addsub", "addparent":
			ls = append(ls, st.Lid)
		}
	}
	return ls
}

func (h *H) build(s *res.Service) {
	sd := h.d.Setup
	lay := layoutOf(sd.Mode)
	h.rids = lay.rids
	var mux *res.Mux = s.Mux
	var sub *res.Mux
	if lay.mounted {
		sub = res.NewMux("s")
		mux = sub
	}
	mainOpts := func(self *stepD) []res.Option {
		var opts []res.Option
		switch sd.Type {
		case "model":
			opts = append(opts, res.Model)
		case "collection":
			opts = append(opts, res.Collection)
		}
		opts = append(opts, res.Call("m", func(r res.CallRequest) {
			var p struct {
				I int `json:"i"`
			}
			r.ParseParams(&p)
			if p.I < 0 {
				h.slow(r, r)
				return
			}
			h.runScript(p.I, r, r)
		}))
		opts = append(opts, h.applyOptions(sd)...)
		if sd.Group != "" {
			opts = append(opts, res.Group(sd.Group))
		}
		if sd.Parallel {
			opts = append(opts, res.Parallel(true))
		}
		if self != nil {
			l := h.listener(self.Lid)
			opts = append(opts, res.OptionFunc(func(hs *res.Handler) {
				hs.Listeners = map[string]func(*res.Event){lay.pat: l}
			}))
		}
		return opts
	}
	others := 0
	for i := range sd.Steps {
		st := sd.Steps[i]
		switch st.How {
		case "handle":
			mux.Handle(lay.pat, mainOpts(nil)...)
		case "handle-self":
			mux.Handle(lay.pat, mainOpts(&st)...)
		case "other":
			l := h.listener(st.Lid)
			others++
			mux.Handle("o"+strconv.Itoa(others), res.Call("m", func(r res.CallRequest) { r.OK(nil) }),
				res.OptionFunc(func(hs *res.Handler) {
					hs.Listeners = map[string]func(*res.Event){lay.pat: l}
				}))
		case "add", "addsub":
			mux.AddListener(lay.pat, h.listener(st.Lid))
		case "mount":
			s.Mount("x", sub)
		case "addparent":
			s.AddListener(lay.parentPat, h.listener(st.Lid))
		}
	}
	// decoys: listeners on other patterns must never be called
	s.Handle("d", res.Call("m", func(r res.CallRequest) { r.OK(nil) }))
	s.AddListener("d", h.listener(100))
	s.Handle("i.$id.z", res.Call("m", func(r res.CallRequest) { r.OK(nil) }))
	s.AddListener("i.$id.z", h.listener(101))
	if sd.Mode == "pattern" {
		s.Handle("i.9", res.Call("m", func(r res.CallRequest) { r.OK(nil) }))
		s.AddListener("i.9", h.listener(102))
	}
}

var reqDoneCh = make(chan struct{}, 1024)
var enqCh = make(chan struct{}, 1024)
var enqWid string
var enqMu sync.Mutex

var winMu sync.Mutex
var winOn bool
var winReached, winRelease chan struct{}

func init() {
	verifhook.SetGate(func(pt string) {
		if pt != "close-after-nil" {
			return
		}
		winMu.Lock()
		on, reached, rel := winOn, winReached, winRelease
		winOn = false
		winMu.Unlock()
		if on {
			close(reached)
			<-rel
		}
	})
	verifhook.SetNote(func(pt string, s string, n int) {
		if pt == "request-done" {
			select {
			case reqDoneCh <- struct{}{}:
			default:
			}
		}
		if pt == "enq-new" || pt == "enq-append" {
			enqMu.Lock()
			ok := s == enqWid
			enqMu.Unlock()
			if ok {
				select {
				case enqCh <- struct{}{}:
				default:
				}
			}
		}
	})
}

func wait(ch <-chan struct{}, what string) error {
	select {
	case <-ch:
		return nil
	case <-time.After(10 * time.Second):
		return errors.New("timeout waiting for " + what)
	}
}

// runCase drives the real service and returns the Coq term of the case
func runCase(d caseD) (term string, mutated bool, stale []string, hang error) {
	h := &H{d: d, curCb: 999, panics: make([]string, len(d.Cbs))}
	for i := range h.panics {
		h.panics[i] = "None"
	}
	s := res.NewService("t")
	s.SetLogger(nil)
	s.SetWorkerCount(4)
	h.build(s)
	started := make(chan struct{}, 4)
	s.SetOnServe(func(*res.Service) { started <- struct{}{} })
	var served chan struct{}
	var serveErr error
	serve := func(c *fakeConn) error {
		h.mu.Lock()
		h.conn = c
		h.stale, h.staleS = nil, nil
		h.mu.Unlock()
		served = make(chan struct{})
		sv := served
		go func() {
			serveErr = s.Serve(c)
			close(sv)
		}()
		select {
		case <-started:
		case <-sv:
			return fmt.Errorf("serve returned early: %v", serveErr)
		case <-time.After(10 * time.Second):
			return errors.New("timeout waiting for service start")
		}
		return nil
	}
	conn := &fakeConn{h: h, id: 1}
	if d.Restart != "" {
		// ---- first serve cycle on connection object A ----
		connA := conn
		h.prelude = true
		h.slowRunning, h.slowGo = make(chan struct{}), make(chan struct{})
		closed := make(chan struct{})
		var once sync.Once
		connA.onClose = func() { once.Do(func() { close(closed) }) }
		if err := serve(connA); err != nil {
			return "", false, nil, err
		}
		rid0 := layoutOf(d.Setup.Mode).rids[0]
		pre := make(chan struct{})
		if err := s.With(rid0, func(r res.Resource) {
			defer close(pre)
			defer func() { recover() }()
			r.Event("early", nil)
		}); err != nil {
			return "", false, nil, err
		}
		if err := wait(pre, "first cycle callback"); err != nil {
			return "", false, nil, err
		}
		stopped := make(chan struct{})
		switch d.Restart {
		case "inflight-with", "inflight-call":
			if d.Restart == "inflight-with" {
				if err := s.With(rid0, func(r res.Resource) {
					defer func() { recover() }()
					h.slow(r, nil)
				}); err != nil {
					return "", false, nil, err
				}
			} else {
				connA.mu.Lock()
				ch := connA.ch
				connA.mu.Unlock()
				ch <- &nats.Msg{Subject: "call." + rid0 + ".m", Reply: "slow", Data: []byte(`{"params":{"i":-1}}`)}
			}
			if err := wait(h.slowRunning, "in-flight callback start"); err != nil {
				return "", false, nil, err
			}
			go func() { s.Shutdown(); close(stopped) }()
			// the in-flight callback emits only after the connection's Close was called
			if err := wait(closed, "connection close"); err != nil {
				return "", false, nil, err
			}
			close(h.slowGo)
		default:
			go func() { s.Shutdown(); close(stopped) }()
		}
		if err := wait(stopped, "first shutdown"); err != nil {
			return "", false, nil, err
		}
		if err := wait(served, "first serve return"); err != nil {
			return "", false, nil, err
		}
		// ---- second cycle: the same service on a NEW connection object B ----
		conn = &fakeConn{h: h, id: 2}
		h.mu.Lock()
		h.prelude = false
		h.mu.Unlock()
	}
	if err := serve(conn); err != nil {
		return "", false, nil, err
	}
	h.mu.Lock()
	h.log = nil
	h.kept = nil
	h.exists = nil
	h.mu.Unlock()

	wid := d.Setup.Group
	if wid == "" {
		wid = h.rids[0]
	}
	enqMu.Lock()
	enqWid = wid
	enqMu.Unlock()
	for len(enqCh) > 0 {
		<-enqCh
	}
	release := make(chan struct{})
	done := make(chan struct{})
	par := d.Setup.Parallel
	gateRunning := make(chan struct{})
	// hold the group's worker until every callback is queued, in submission order
	// (a Parallel handler has no worker group: its callbacks are submitted one after the other)
	if !par {
		s.WithGroup(wid, func(*res.Service) { close(gateRunning); <-release })
		if err := wait(enqCh, "gate enqueue"); err != nil {
			hang = err
		}
	}
	for i := range d.Cbs {
		if hang != nil {
			break
		}
		i := i
		cb := d.Cbs[i]
		rid := h.rids[cb.Res%len(h.rids)]
		cbDone := make(chan struct{})
		if cb.Ctx == "call" {
			conn.mu.Lock()
			ch := conn.ch
			conn.mu.Unlock()
			for len(reqDoneCh) > 0 {
				<-reqDoneCh
			}
			ch <- &nats.Msg{Subject: "call." + rid + ".m", Reply: "r" + strconv.Itoa(i), Data: []byte(`{"params":{"i":` + strconv.Itoa(i) + `}}`)}
		} else {
			err := s.With(rid, func(r res.Resource) {
				defer close(cbDone)
				defer func() {
					if v := recover(); v != nil {
						h.mu.Lock()
						h.panics[i] = panicTerm(v)
						h.mu.Unlock()
					}
				}()
				h.runScript(i, r, nil)
			})
			if err != nil {
				hang = err
				break
			}
		}
		if par {
			var err error
			if cb.Ctx == "call" {
				err = wait(reqDoneCh, "request completion")
			} else {
				err = wait(cbDone, "With callback completion")
			}
			if err != nil {
				hang = err
			}
			continue
		}
		if err := wait(enqCh, "callback enqueue"); err != nil {
			hang = err
		}
	}
	window := d.Window && !par
	stoppedW := make(chan struct{})
	if !par {
		s.WithGroup(wid, func(*res.Service) { close(done) })
		var rel chan struct{}
		if window {
			// Shutdown begins (state = stopping, work queue cleared) and is held before nc.Close()
			reached := make(chan struct{})
			rel = make(chan struct{})
			winMu.Lock()
			winOn, winReached, winRelease = true, reached, rel
			winMu.Unlock()
			// the group's work must be IN FLIGHT (its first callback running), queued work is dropped
			if err := wait(gateRunning, "gate callback start"); err != nil {
				hang = err
			}
			go func() { s.Shutdown(); close(stoppedW) }()
			if err := wait(reached, "shutdown reaching the gate"); err != nil {
				hang = err
			}
		}
		close(release)
		if hang == nil {
			if err := wait(done, "group completion"); err != nil {
				hang = err
			}
		}
		if window {
			close(rel)
			if hang == nil {
				if err := wait(stoppedW, "held shutdown"); err != nil {
					hang = err
				}
			}
		}
	}
	if hang == nil {
		if !window {
			s.Shutdown()
		}
		if err := wait(served, "shutdown"); err != nil {
			hang = err
		}
	}

	// ---- Coq term ----
	ls := listenersOf(d.Setup)
	lss := make([]string, len(ls))
	for i, l := range ls {
		if d.Setup.React != nil && d.Setup.React.Lid == l {
			lss[i] = "L " + strconv.Itoa(l) + " (Some (" + actTerm(d.Setup.React.Act) + "))"
		} else {
			lss[i] = "L " + strconv.Itoa(l) + " None"
		}
	}
	ty := map[string]string{"model": "TModel", "collection": "TCollection", "unset": "TUnset"}[d.Setup.Type]
	var cbs []string
	for i, cb := range d.Cbs {
		cx := "CtxWith"
		if cb.Ctx == "call" {
			cx = "(CtxCall " + B("r"+strconv.Itoa(i)) + ")"
		}
		acts := make([]string, len(cb.Script))
		for j, a := range cb.Script {
			acts[j] = actTerm(a)
		}
		cbs = append(cbs, "CB "+cx+" "+ty+" "+B(h.rids[cb.Res%len(h.rids)])+" "+List(lss)+" "+List(acts))
	}
	h.mu.Lock()
	ents := make([]string, len(h.log))
	for i, e := range h.log {
		ents[i] = "(" + strconv.Itoa(e.cb) + "," + strconv.Itoa(e.act) + "," + strconv.Itoa(e.d) + "," + Bool(e.gidOK) + "," + e.term + ")"
	}
	pan := append([]string{}, h.panics...)
	h.mu.Unlock()
	// every retained *Event, re-read now that the whole group is done
	final, allSame := h.reread(-1)
	same := make([]string, len(h.kept))
	for i, k := range h.kept {
		same[i] = Bool(k.sameAtCb)
		if !k.sameAtCb {
			allSame = false
		}
	}
	return "GC " + List(cbs) + "\n " + List(ents) + "\n " + List(pan) + "\n " + List(final) + " " + List(same) + " " + List(h.stale) + " " + List(h.returned), !allSame, h.staleS, hang
}

// ---------- generation ----------

type gen struct {
	r   *Rng
	ctr int
}

func (g *gen) val(allowDel bool) valD {
	g.ctr++
	n := g.ctr
	switch k := g.r.Intn(20); {
	case k < 5:
		return valD{K: "int", N: n}
	case k < 9:
		return valD{K: "str", S: "s" + strconv.Itoa(n)}
	case k < 10:
		return valD{K: "str", S: `q"<&>\` + strconv.Itoa(n) + "é"}
	case k < 11:
		return valD{K: "bool", N: n % 2}
	case k < 13:
		return valD{K: "obj", N: n, S: "o"}
	case k < 14:
		return valD{K: "arr", N: n, S: "a"}
	case k < 16:
		return valD{K: "ref", S: "t.ref." + strconv.Itoa(n)}
	case k < 17:
		return valD{K: "raw", S: `{"z": ` + strconv.Itoa(n) + ` }`}
	case k < 18 && allowDel:
		return valD{K: "del"}
	default:
		return valD{K: "nil"}
	}
}
func (g *gen) kvs(min, max int, allowDel bool) []kvD {
	n := min + g.r.Intn(max-min+1)
	keys := []string{"a", "b", "foo", "k1", "zz"}
	seen := map[string]bool{}
	var out []kvD
	for len(out) < n {
		k := keys[g.r.Intn(len(keys))]
		if seen[k] {
			continue
		}
		seen[k] = true
		out = append(out, kvD{k, g.val(allowDel)})
	}
	sort.Slice(out, func(i, j int) bool { return out[i].K < out[j].K })
	return out
}

var reservedNames = []string{"change", "create", "delete", "add", "remove", "patch", "reaccess", "unsubscribe", "query"}
var badNames = []string{"", "a.b", "a*", ">", "a?b", "a b", "é", "\x7f", "a\tb", ".", "x."}
var goodNames = []string{"custom", "created", "foo-bar", "x_1", "$x", "{}", "Change", "reset", "~"}

// a NON-empty revert map whose content is related to the new values: only an empty (non-nil)
// revert map means "nothing changed", never its content
func (g *gen) revFrom(vals []kvD, variant int) []kvD {
	rev := append([]kvD{}, vals...)
	switch variant {
	case 0: // every old value equals the new value
	case 1: // DeleteAction as old value everywhere
		for i := range rev {
			rev[i].V = valD{K: "del"}
		}
	case 2: // mixed: first key unchanged, the others really changed
		for i := 1; i < len(rev); i++ {
			rev[i].V = g.val(true)
		}
	case 3: // a key that is not in the change at all, plus the unchanged ones
		rev = append(rev, kvD{K: "zzextra", V: g.val(true)})
	case 4: // only a key that is not in the change
		rev = []kvD{{K: "zzextra", V: valD{K: "del"}}}
	case 5: // a strict subset of the changed keys, unchanged
		rev = rev[:1]
	}
	sort.Slice(rev, func(i, j int) bool { return rev[i].K < rev[j].K })
	return rev
}

func applyChoices(op string) []string {
	switch op {
	case "change":
		return append([]string{"ok", "empty", "nil"}, failKinds...)
	case "add", "create":
		return append([]string{"ok"}, failKinds...)
	case "remove", "delete":
		return append([]string{"ok", "nil"}, failKinds...)
	}
	return nil
}

// fill the apply-dependent fields
func (g *gen) withApply(a actD, sd setupD, ap string) actD {
	if a.Op == "custom" || !sd.Apply[a.Op] {
		if a.Op != "custom" {
			a.Ap = "absent"
		}
		return a
	}
	a.Ap = ap
	switch a.Op {
	case "change":
		if ap == "ok" {
			a.Rev = g.kvs(1, 3, true)
			// handlers that report every touched key: revert values derived from the new values
			if len(a.Vals) > 0 && g.r.Chance(30) {
				a.Rev = g.revFrom(a.Vals, g.r.Intn(6))
			}
		}
	case "remove", "delete":
		if ap == "ok" {
			a.Ret = g.val(false)
			if a.Ret.K == "nil" {
				a.Ret = valD{K: "int", N: g.ctr}
			}
		} else if ap == "nil" {
			a.Ret = valD{K: "nil"}
		}
	}
	return a
}

func (g *gen) baseAction(op string) actD {
	a := actD{Op: op}
	switch op {
	case "change":
		a.Vals = g.kvs(1, 3, true)
	case "add":
		a.V = g.val(false)
		a.Idx = g.r.Intn(5)
		if g.r.Chance(5) {
			a.Idx = 1<<40 + g.r.Intn(1000)
		}
	case "remove":
		a.Idx = g.r.Intn(5)
	case "create":
		a.V = g.val(false)
	case "custom":
		a.Name = g.r.Pick(goodNames)
		a.V = g.val(false)
	case "timeout":
		switch k := g.r.Intn(10); {
		case k < 2:
			a.Ms = 0
		case k < 5:
			a.Ms = 1000 * g.r.Intn(4) // few values: equal / decreasing / increasing sequences are common
		default:
			a.Ms = g.r.Intn(5000)
		}
		if g.r.Chance(25) {
			a.Us = g.r.Intn(1000)
		}
	}
	return a
}

// a random action for a script; mostly valid for the resource type
func (g *gen) action(sd setupD, ctx string, last bool) actD {
	ops := []string{"change", "add", "remove", "create", "delete", "custom", "custom", "reaccess", "reset"}
	if ctx == "call" {
		ops = append(ops, "timeout", "reply")
	}
	var op string
	for {
		op = g.r.Pick(ops)
		wrong := (sd.Type == "collection" && op == "change") || (sd.Type == "model" && (op == "add" || op == "remove"))
		if wrong && !g.r.Chance(6) {
			continue
		}
		break
	}
	a := g.baseAction(op)
	// invalid variants, rarely (they abort the script)
	if g.r.Chance(4) {
		switch op {
		case "add", "remove":
			a.Idx = -1 - g.r.Intn(3)
		case "custom":
			if g.r.Bool() {
				a.Name = g.r.Pick(reservedNames)
			} else {
				a.Name = g.r.Pick(badNames)
			}
		case "change":
			a.Vals = nil
			a.NilMap = g.r.Bool()
		case "timeout":
			a.Ms, a.Us = -g.r.Intn(10), -1-g.r.Intn(999)
		}
	}
	if g.r.Chance(3) {
		switch op {
		case "change":
			if len(a.Vals) > 0 {
				a.Vals[g.r.Intn(len(a.Vals))].V = valD{K: "bad", N: g.ctr}
			}
		case "add", "custom":
			a.V = valD{K: "bad", N: g.ctr}
		}
	}
	ap := "ok"
	if ch := applyChoices(op); ch != nil {
		switch k := g.r.Intn(100); {
		case k < 8:
			ap = g.r.Pick(failKinds)
		case k < 30:
			ap = ch[g.r.Intn(len(ch))]
			if strings.HasPrefix(ap, "fail") {
				ap = "ok"
			}
		}
	}
	return g.withApply(a, sd, ap)
}

func (g *gen) steps(mode string, nl int) []stepD {
	mounted := mode == "mount" || mode == "mountpat"
	var st []stepD
	selfUsed := false
	lid := 1
	main := stepD{How: "handle"}
	for i := 0; i < nl; i++ {
		var how string
		for {
			how = g.r.Pick([]string{"self", "other", "add", "add", "parent"})
			if how == "self" && selfUsed {
				continue
			}
			if how == "parent" && !mounted {
				continue
			}
			break
		}
		switch how {
		case "self":
			selfUsed = true
			main = stepD{How: "handle-self", Lid: lid}
		case "other":
			st = append(st, stepD{How: "other", Lid: lid})
		case "add":
			if mounted {
				st = append(st, stepD{How: "addsub", Lid: lid})
			} else {
				st = append(st, stepD{How: "add", Lid: lid})
			}
		case "parent":
			st = append(st, stepD{How: "addparent", Lid: lid})
		}
		lid++
	}
	// insert the main handler at a random position
	pos := g.r.Intn(len(st) + 1)
	st = append(st[:pos], append([]stepD{main}, st[pos:]...)...)
	if mounted {
		pos := g.r.Intn(len(st) + 1)
		st = append(st[:pos], append([]stepD{{How: "mount"}}, st[pos:]...)...)
		seenMount := false
		for i := range st {
			if st[i].How == "mount" {
				seenMount = true
			}
			if st[i].How == "addparent" && !seenMount {
				st[i].How = "addsub"
			}
		}
	}
	return st
}

func allApply(on bool) map[string]bool {
	return map[string]bool{"change": on, "add": on, "remove": on, "create": on, "delete": on}
}

func (g *gen) setup() setupD {
	sd := setupD{
		Mode: g.r.Pick([]string{"direct", "direct", "pattern", "pattern", "wild", "root", "mount", "mountpat"}),
		Type: g.r.Pick([]string{"model", "collection", "unset"}),
	}
	sd.Apply = map[string]bool{}
	for _, k := range []string{"change", "add", "remove", "create", "delete"} {
		sd.Apply[k] = g.r.Chance(65)
	}
	if g.r.Chance(40) {
		sd.Group = "g"
	}
	if g.r.Chance(15) {
		sd.Parallel = true
	}
	sd.Steps = g.steps(sd.Mode, g.r.Intn(4))
	if ls := listenersOf(sd); len(ls) > 0 && g.r.Chance(35) {
		sd.React = &reactD{Lid: ls[g.r.Intn(len(ls))], Act: g.reaction(sd)}
	}
	return sd
}

// the event a re-entrant listener emits: an event call, mostly valid for the resource type
func (g *gen) reaction(sd setupD) actD {
	var op string
	for {
		op = g.r.Pick([]string{"change", "add", "remove", "create", "delete", "custom", "custom"})
		wrong := (sd.Type == "collection" && op == "change") || (sd.Type == "model" && (op == "add" || op == "remove"))
		if wrong && !g.r.Chance(6) {
			continue
		}
		break
	}
	a := g.baseAction(op)
	if g.r.Chance(5) {
		switch op {
		case "add", "remove":
			a.Idx = -1
		case "custom":
			a.Name = g.r.Pick(append(append([]string{}, reservedNames...), badNames...))
		case "change":
			a.Vals = nil
		}
	}
	ap := "ok"
	if ch := applyChoices(op); ch != nil {
		switch k := g.r.Intn(100); {
		case k < 10:
			ap = g.r.Pick(failKinds)
		case k < 30:
			ap = ch[g.r.Intn(len(ch))]
		}
	}
	return g.withApply(a, sd, ap)
}

func (g *gen) randomCase() caseD {
	sd := g.setup()
	lay := layoutOf(sd.Mode)
	ncb := 1 + g.r.Intn(3)
	d := caseD{Setup: sd}
	for i := 0; i < ncb; i++ {
		cb := cbD{Ctx: g.r.Pick([]string{"call", "with"})}
		if sd.Group != "" {
			cb.Res = g.r.Intn(len(lay.rids))
		}
		n := 1 + g.r.Intn(8)
		for j := 0; j < n; j++ {
			cb.Script = append(cb.Script, g.action(sd, cb.Ctx, j == n-1))
		}
		d.Cbs = append(d.Cbs, cb)
	}
	return d
}

func single(sd setupD, ctx string, acts ...actD) caseD {
	return caseD{Setup: sd, Cbs: []cbD{{Ctx: ctx, Script: acts}}}
}

func main() {
	o := ParseOpts()
	g := &gen{r: NewRng(o.Seed)}
	var cases []Case
	var impl []ImplViolation
	dist := map[string]int{}
	add := func(class string, d caseD) {
		term, mutated, stale, hang := runCase(d)
		if hang != nil {
			impl = append(impl, ImplViolation{What: "group run did not complete: " + hang.Error(), Desc: d, Tags: []string{"hang"}})
			dist["hang"]++
			return
		}
		if len(stale) > 0 {
			impl = append(impl, ImplViolation{What: "messages published on a connection object the service is no longer served on: " + strings.Join(stale, " "), Desc: d, Tags: []string{"stale-conn"}})
			dist["stale-conn"]++
		}
		if d.Restart != "" {
			dist["restart:"+d.Restart]++
		}
		if d.Setup.Parallel {
			dist["parallel-handler"]++
		}
		if d.Window {
			dist["shutdown-window"]++
		}
		if mutated {
			impl = append(impl, ImplViolation{What: "event mutated after delivery: an *Event kept by a listener no longer shows what the listener was handed", Desc: d, Tags: []string{"event-mutated"}})
			dist["event-mutated"]++
		}
		if d.Setup.React != nil {
			dist["reentrant-listener"]++
			dist["reaction:"+d.Setup.React.Act.Op]++
		}
		c := Case{Term: term, Desc: d}
		dist["class:"+class]++
		dist["mode:"+d.Setup.Mode]++
		dist["type:"+d.Setup.Type]++
		dist["listeners:"+strconv.Itoa(len(listenersOf(d.Setup)))]++
		dist["callbacks:"+strconv.Itoa(len(d.Cbs))]++
		for _, cb := range d.Cbs {
			dist["ctx:"+cb.Ctx]++
			for _, a := range cb.Script {
				dist["op:"+a.Op]++
				if a.Ap != "" {
					dist["apply:"+a.Ap]++
				}
				if a.V.K == "bad" {
					c.Tags = append(c.Tags, "unmarshalable-value")
				}
				for _, kv := range a.Vals {
					if kv.V.K == "bad" {
						c.Tags = append(c.Tags, "unmarshalable-value")
					}
				}
			}
		}
		// non-trivial: the log holds an apply entry, a listener entry, or the run panicked
		c.Nontrivial = strings.Contains(term, "EApply") || strings.Contains(term, "EListen") || strings.Contains(term, "system.internalError") || strings.Contains(term, "(Some ([")
		if strings.Contains(term, "EApply") {
			dist["log-has-apply"]++
		}
		if strings.Contains(term, "EListen") {
			dist["log-has-listener"]++
		}
		if strings.Contains(term, "RFail") {
			dist["log-has-failed-apply"]++
		}
		cases = append(cases, c)
	}

	if o.Replay != "" {
		var d caseD
		if err := LoadReplay(o.Replay, &d); err != nil {
			fmt.Fprintln(os.Stderr, err)
			os.Exit(2)
		}
		add("replay", d)
	} else {
		// (a) every kind x resource type x apply behaviour x listener count x context, one call each
		for _, op := range []string{"change", "add", "remove", "create", "delete", "custom"} {
			for _, ty := range []string{"model", "collection", "unset"} {
				aps := append([]string{"absent"}, applyChoices(op)...)
				if op == "custom" {
					aps = []string{""}
				}
				for _, ap := range aps {
					nls := []int{0, 1, 3}
					if strings.HasPrefix(ap, "fail") && ap != "fail-res" && ap != "fail-plain" {
						nls = []int{3} // the error VALUE is varied with listeners registered
					}
					for _, nl := range nls {
						for _, ctx := range []string{"call", "with"} {
							mode := []string{"direct", "pattern", "mount", "wild", "mountpat", "root"}[(nl+len(cases))%6]
							sd := setupD{Mode: mode, Type: ty, Apply: allApply(ap != "absent"), Steps: g.steps(mode, nl)}
							a := g.withApply(g.baseAction(op), sd, ap)
							acts := []actD{a}
							if ctx == "call" {
								acts = append(acts, actD{Op: "reply"})
							}
							add("single", single(sd, ctx, acts...))
						}
					}
				}
			}
		}
		// (b) invalid calls and no-ops
		for _, ty := range []string{"model", "collection", "unset"} {
			for _, ctx := range []string{"call", "with"} {
				sd := setupD{Mode: "direct", Type: ty, Apply: allApply(true), Steps: g.steps("direct", 2)}
				for _, op := range []string{"add", "remove"} {
					a := g.withApply(g.baseAction(op), sd, "ok")
					a.Idx = -1
					add("invalid", single(sd, ctx, a, g.withApply(g.baseAction("create"), sd, "ok")))
				}
				for _, nilmap := range []bool{false, true} {
					a := g.withApply(actD{Op: "change", NilMap: nilmap}, sd, "ok")
					add("invalid", single(sd, ctx, a, g.withApply(g.baseAction("delete"), sd, "ok")))
				}
			}
		}
		for _, names := range [][]string{reservedNames, badNames, goodNames} {
			for i, n := range names {
				ctx := []string{"call", "with"}[i%2]
				sd := setupD{Mode: "pattern", Type: "unset", Apply: allApply(false), Steps: g.steps("pattern", 1+i%3)}
				a := g.baseAction("custom")
				a.Name = n
				add("names", single(sd, ctx, a, g.baseAction("reaccess")))
			}
		}
		{
			sd := setupD{Mode: "direct", Type: "model", Apply: allApply(true), Steps: g.steps("direct", 1)}
			add("reply", single(sd, "call", actD{Op: "reply"}, g.baseAction("custom"), actD{Op: "reply"}, g.baseAction("custom")))
			add("reply", single(sd, "call", actD{Op: "timeout", Ms: -5}, g.baseAction("custom")))
			add("reply", single(sd, "call", actD{Op: "timeout", Ms: 0}, actD{Op: "timeout", Ms: 123456789}))
			add("reply", single(sd, "call"))
		}
		// (c) values json.Marshal rejects
		for _, op := range []string{"change", "add", "custom", "create"} {
			for _, nl := range []int{0, 2} {
				for _, ctx := range []string{"call", "with"} {
					sd := setupD{Mode: "direct", Type: "unset", Apply: allApply(nl == 2), Steps: g.steps("direct", nl)}
					a := g.withApply(g.baseAction(op), sd, "ok")
					if op == "change" {
						a.Vals[0].V = valD{K: "bad", N: 7}
					} else {
						a.V = valD{K: "bad", N: 7}
					}
					add("unmarshalable", single(sd, ctx, a, g.baseAction("reaccess")))
				}
			}
		}
		// (e) two events in a row on the SAME resource object inside one callback, with listeners
		evOps := []string{"change", "add", "remove", "create", "delete", "custom"}
		for i, op1 := range evOps {
			for j, op2 := range evOps {
				ty := "unset"
				ctx := []string{"call", "with"}[(i+j)%2]
				mode := []string{"direct", "pattern", "mount", "wild", "mountpat", "root"}[(i*6+j)%6]
				sd := setupD{Mode: mode, Type: ty, Apply: allApply((i+j)%3 != 0), Steps: g.steps(mode, 1+(i+j)%3)}
				a1 := g.withApply(g.baseAction(op1), sd, "ok")
				a2 := g.withApply(g.baseAction(op2), sd, "ok")
				add("two-events", single(sd, ctx, a1, a2, g.withApply(g.baseAction(op1), sd, "ok")))
			}
		}
		// (f) re-entrant listeners: listener k of 3 reacts to event op1 by emitting op2 on ev.Resource
		for i, op1 := range evOps {
			for j, op2 := range evOps {
				for pos := 1; pos <= 3; pos++ {
					ctx := []string{"call", "with"}[(i+j+pos)%2]
					mode := []string{"direct", "pattern", "mount", "wild", "mountpat", "root"}[(i*6+j+pos)%6]
					sd := setupD{Mode: mode, Type: "unset", Apply: allApply((i+j+pos)%2 == 0), Steps: g.steps(mode, 3)}
					sd.React = &reactD{Lid: listenersOf(sd)[pos-1], Act: g.withApply(g.baseAction(op2), sd, "ok")}
					a1 := g.withApply(g.baseAction(op1), sd, "ok")
					add("reentrant", single(sd, ctx, a1, g.baseAction("reaccess")))
				}
			}
		}
		// ... whose reaction panics (invalid call / failing apply) or is a no-op
		for i, op1 := range evOps {
			for k := 0; k < 5; k++ {
				ctx := []string{"call", "with"}[(i+k)%2]
				sd := setupD{Mode: "direct", Type: "collection", Apply: allApply(true), Steps: g.steps("direct", 3)}
				var ra actD
				switch k {
				case 0:
					ra = g.baseAction("custom")
					ra.Name = "patch"
				case 1:
					ra = g.withApply(g.baseAction("remove"), sd, "fail-res")
				case 2:
					ra = g.withApply(g.baseAction("add"), sd, "ok")
					ra.Idx = -1
				case 3:
					ra = g.withApply(actD{Op: "change"}, sd, "ok") // change on a collection: panics
				case 4:
					ra = g.withApply(g.baseAction("create"), sd, "fail-plain")
				}
				sd.React = &reactD{Lid: listenersOf(sd)[1], Act: ra}
				a1 := g.withApply(g.baseAction(op1), sd, "ok")
				if op1 == "change" {
					sd.Type = "unset"
				}
				add("reentrant-panic", single(sd, ctx, a1, g.baseAction("reaccess")))
			}
		}
		// (g) stateful ApplyCreate / ApplyDelete: delete twice, create twice, over 1-3 callbacks;
		// the plan of every call is what the state implies, the handlers decide from their own state
		seqs := [][][]string{
			{{"delete", "delete"}}, {{"create", "create"}}, {{"create", "delete", "delete"}},
			{{"delete", "create", "create"}}, {{"delete"}, {"delete"}}, {{"create"}, {"create"}, {"delete", "delete"}},
			{{"delete", "delete"}, {"create", "delete", "create", "create"}},
		}
		for si, seq := range seqs {
			for _, exists := range []bool{true, false} {
				for _, ctx := range []string{"call", "with"} {
					for _, nl := range []int{0, 2} {
						mode := []string{"direct", "pattern", "mount", "root"}[(si+nl)%4]
						sd := setupD{Mode: mode, Type: []string{"model", "collection", "unset"}[si%3], Apply: allApply(true), Steps: g.steps(mode, nl), Stateful: true, Exists: exists}
						d := caseD{Setup: sd}
						state := exists
						for _, ops := range seq {
							cb := cbD{Ctx: ctx}
							failed := false
							for _, op := range ops {
								a := g.baseAction(op)
								ap := "ok"
								if !failed {
									if op == "delete" {
										if state {
											state = false
										} else {
											ap, failed = "fail-notfound", true
										}
									} else {
										if state {
											ap, failed = "fail-dup", true
										} else {
											state = true
										}
									}
								}
								cb.Script = append(cb.Script, g.withApply(a, sd, ap))
							}
							d.Cbs = append(d.Cbs, cb)
						}
						add("stateful", d)
					}
				}
			}
		}
		// (h) stop/start cycles: the ordinary scripts run in the second serve cycle, on a new connection
		// object, after an idle Shutdown or a Shutdown with a callback in flight that emits an event
		for i, op := range evOps {
			for j, rs := range []string{"idle", "inflight-with", "inflight-call"} {
				for k, ctx := range []string{"call", "with"} {
					mode := []string{"direct", "pattern", "mount", "wild", "mountpat", "root"}[(i+j+k)%6]
					sd := setupD{Mode: mode, Type: "unset", Apply: allApply((i+j)%2 == 0), Steps: g.steps(mode, (i+j+k)%3)}
					acts := []actD{g.withApply(g.baseAction(op), sd, "ok"), g.baseAction("reaccess")}
					if ctx == "call" {
						acts = append(acts, actD{Op: "timeout", Ms: 7}, actD{Op: "reply"}, g.withApply(g.baseAction(op), sd, "ok"))
					}
					d := single(sd, ctx, acts...)
					d.Restart = rs
					add("restart", d)
				}
			}
		}
		nr := 40
		if o.Tier == "thorough" {
			nr = 600
		}
		for i := 0; i < nr; i++ {
			d := g.randomCase()
			d.Restart = g.r.Pick([]string{"idle", "inflight-with", "inflight-call", "inflight-with"})
			add("restart", d)
		}
		// (i) pre-responses: every Timeout(d), d >= 0, publishes its own timeout:"<ms>" whatever was sent
		// before: decreasing, equal, increasing, zero and sub-millisecond durations, several in a row,
		// interleaved with events, after the reply
		tmo := func(us int) actD { return actD{Op: "timeout", Ms: us / 1000, Us: us % 1000} }
		for si, seq := range [][]int{
			{5000000, 2000000}, {2000000, 2000000}, {1000000, 3000000}, {0}, {0, 0}, {3000000, 0}, {0, 3000000, 0},
			{500}, {999, 1}, {1500, 1400}, {1400, 1500}, {1, 0}, {2500500, 2500499}, {5000000, 4000000, 3000000, 2000000, 1000000},
			{1000000, 2000000, 1000000, 2000000}, {7000, 7000, 7000}, {60000000, 1},
		} {
			for _, inter := range []int{0, 1, 2} { // 0: timeouts in a row; 1: an event between them; 2: reply first
				mode := []string{"direct", "pattern", "mount", "root"}[(si+inter)%4]
				sd := setupD{Mode: mode, Type: "unset", Apply: allApply(si%2 == 0), Steps: g.steps(mode, inter)}
				var acts []actD
				if inter == 2 {
					acts = append(acts, actD{Op: "reply"})
				}
				for _, us := range seq {
					acts = append(acts, tmo(us))
					if inter == 1 {
						acts = append(acts, g.withApply(g.baseAction(evOps[(si+us)%6]), sd, "ok"))
					}
				}
				if inter != 2 {
					acts = append(acts, actD{Op: "reply"})
				}
				add("timeouts", single(sd, "call", acts...))
			}
		}
		// (j) ApplyChange handlers reporting every touched key: the revert map is NON-empty but its
		// values equal the new values (DeleteAction on both sides, equal primitives, mixed, extra keys)
		for vi, vals := range [][]kvD{
			{{"a", valD{K: "del"}}},
			{{"a", valD{K: "del"}}, {"b", valD{K: "del"}}},
			{{"a", valD{K: "int", N: 5}}},
			{{"a", valD{K: "str", S: "same"}}, {"b", valD{K: "nil"}}},
			{{"a", valD{K: "del"}}, {"b", valD{K: "int", N: 7}}},
			{{"a", valD{K: "ref", S: "t.ref.1"}}, {"b", valD{K: "del"}}, {"foo", valD{K: "bool", N: 1}}},
		} {
			for variant := 0; variant < 6; variant++ {
				for _, ctx := range []string{"call", "with"} {
					mode := []string{"direct", "pattern", "mount", "root"}[(vi+variant)%4]
					sd := setupD{Mode: mode, Type: []string{"model", "unset"}[variant%2], Apply: allApply(true), Steps: g.steps(mode, 1+variant%3)}
					a := actD{Op: "change", Vals: vals, Ap: "ok", Rev: g.revFrom(vals, variant)}
					acts := []actD{a, g.baseAction("reaccess")}
					if ctx == "call" {
						acts = append(acts, actD{Op: "reply"})
					}
					add("revert-content", single(sd, ctx, acts...))
				}
			}
		}
		// (k) handlers registered with Parallel(true) (also together with a Group option) that carry
		// listeners: the listeners run inside the event method on the calling goroutine all the same
		for i, op := range evOps {
			for _, nl := range []int{1, 3} {
				for k, ctx := range []string{"call", "with"} {
					for _, grp := range []string{"", "g"} {
						mode := []string{"direct", "pattern", "mount", "wild", "mountpat", "root"}[(i+nl+k)%6]
						sd := setupD{Mode: mode, Type: "unset", Apply: allApply((i+k)%2 == 0), Steps: g.steps(mode, nl), Parallel: true, Group: grp}
						acts := []actD{g.withApply(g.baseAction(op), sd, "ok"), g.baseAction("reaccess"), g.withApply(g.baseAction(evOps[(i+1)%6]), sd, "ok")}
						if ctx == "call" {
							acts = append(acts, actD{Op: "timeout", Ms: 3}, actD{Op: "reply"})
						}
						d := single(sd, ctx, acts...)
						if nl == 3 {
							d.Cbs = append(d.Cbs, cbD{Ctx: "with", Script: []actD{g.withApply(g.baseAction(op), sd, "ok")}})
						}
						add("parallel", d)
					}
				}
			}
		}
		// (l) callbacks in flight while Shutdown has begun but the connection is still open
		noReset := func(d caseD) caseD {
			for i := range d.Cbs {
				for j := range d.Cbs[i].Script {
					if d.Cbs[i].Script[j].Op == "reset" {
						d.Cbs[i].Script[j] = actD{Op: "reaccess"}
					}
				}
			}
			return d
		}
		for i, op := range evOps {
			for _, nl := range []int{0, 2} {
				for k, ctx := range []string{"call", "with"} {
					mode := []string{"direct", "pattern", "mount", "wild", "mountpat", "root"}[(i+nl+k)%6]
					sd := setupD{Mode: mode, Type: "unset", Apply: allApply((i+k)%2 == 0), Steps: g.steps(mode, nl)}
					acts := []actD{g.withApply(g.baseAction(op), sd, "ok"), g.baseAction("reaccess")}
					if ctx == "call" {
						acts = append(acts, actD{Op: "timeout", Ms: 9}, g.withApply(g.baseAction(evOps[(i+2)%6]), sd, "ok"), actD{Op: "reply"})
					}
					d := single(sd, ctx, acts...)
					d.Window = true
					add("shutdown-window", d)
				}
			}
		}
		nw := 40
		if o.Tier == "thorough" {
			nw = 600
		}
		for i := 0; i < nw; i++ {
			d := g.randomCase()
			if d.Setup.Parallel {
				continue
			}
			if d.Setup.React != nil && d.Setup.React.Act.Op == "reset" {
				d.Setup.React = nil
			}
			d = noReset(d)
			d.Window = true
			add("shutdown-window", d)
		}
		// (d) random groups
		n := 600
		if o.Tier == "thorough" {
			n = 15000
		}
		if o.N > 0 {
			n = o.N
		}
		for i := 0; i < n; i++ {
			add("random", g.randomCase())
		}
	}
	Emit(o, "C08", "From GoRes Require Import Run.Run_C08.", "gcase",
		"one case = one worker-group run on a real res.Service (1-3 call-handler / With callbacks, scripts of 0-8 event calls, Timeout, OK) with the global effect log; systematic: every event kind x resource type x apply behaviour x {0,1,3} listeners x {call,with} over all registration modes, invalid calls, all reserved / malformed names, unmarshalable values; then random groups. non-trivial = the log holds an apply or listener entry or the callback panicked; distinct by full case term",
		cases, dist, nil, impl, 120)
}
