// Correspondence harness for C18 (types.go Ref/SoftRef, resprot data values and
// responses, store.Value classifier, the payloads a real service publishes).
package main

import (
	"bytes"
	"encoding/hex"
	"encoding/json"
	"errors"
	"fmt"
	"io"
	"sort"
	"strconv"
	"strings"
	"sync"
	"time"
	"unicode/utf8"

	res "github.com/jirenius/go-res"
	"github.com/jirenius/go-res/resprot"
	"github.com/jirenius/go-res/store"
	nats "github.com/nats-io/nats.go"

	. "verifharness/common"
)

// ---------------------------------------------------------------- JSON AST

// J mirrors the Coq type json: numbers keep their text, objects keep member order.
type J struct {
	K byte   `json:"k"` // n b # s a o
	B bool   `json:"b,omitempty"`
	S string `json:"s,omitempty"` // number text or decoded string
	A []J    `json:"a,omitempty"`
	O []M    `json:"o,omitempty"`
}
type M struct {
	Key string `json:"key"`
	V   J      `json:"v"`
}

func jnull() J            { return J{K: 'n'} }
func jbool(b bool) J      { return J{K: 'b', B: b} }
func jnum(t string) J     { return J{K: '#', S: t} }
func jstr(s string) J     { return J{K: 's', S: s} }
func jarr(a ...J) J       { return J{K: 'a', A: a} }
func jobj(m ...M) J       { return J{K: 'o', O: m} }
func mem(k string, v J) M { return M{k, v} }

func (j J) term() string {
	switch j.K {
	case 'n':
		return "JNull"
	case 'b':
		return "(JBool " + Bool(j.B) + ")"
	case '#':
		return "(JNum " + B(j.S) + ")"
	case 's':
		return "(JStr " + B(j.S) + ")"
	case 'a':
		xs := make([]string, len(j.A))
		for i, x := range j.A {
			xs[i] = x.term()
		}
		return "(JArr " + List(xs) + ")"
	default:
		xs := make([]string, len(j.O))
		for i, m := range j.O {
			xs[i] = "(" + B(m.Key) + "," + m.V.term() + ")"
		}
		return "(JObj " + List(xs) + ")"
	}
}

// parse a value from a token stream (UseNumber), keeping member order and duplicates
func parseTokens(dec *json.Decoder) (J, error) {
	t, err := dec.Token()
	if err != nil {
		return J{}, err
	}
	switch v := t.(type) {
	case nil:
		return jnull(), nil
	case bool:
		return jbool(v), nil
	case json.Number:
		return jnum(string(v)), nil
	case string:
		return jstr(v), nil
	case json.Delim:
		switch v {
		case '[':
			out := J{K: 'a'}
			for dec.More() {
				x, err := parseTokens(dec)
				if err != nil {
					return J{}, err
				}
				out.A = append(out.A, x)
			}
			_, err := dec.Token()
			return out, err
		case '{':
			out := J{K: 'o'}
			for dec.More() {
				kt, err := dec.Token()
				if err != nil {
					return J{}, err
				}
				k, ok := kt.(string)
				if !ok {
					return J{}, errors.New("key")
				}
				x, err := parseTokens(dec)
				if err != nil {
					return J{}, err
				}
				out.O = append(out.O, M{k, x})
			}
			_, err := dec.Token()
			return out, err
		}
	}
	return J{}, errors.New("token")
}

func parseAST(text []byte) (J, bool) {
	if !json.Valid(text) {
		return J{}, false
	}
	dec := json.NewDecoder(bytes.NewReader(text))
	dec.UseNumber()
	j, err := parseTokens(dec)
	if err != nil {
		return J{}, false
	}
	return j, true
}

// view of a text as encoding/json sees it (Coq type view), derived from the real parser only
type vmember struct {
	key string
	raw []byte
	ast J
}
type view struct {
	syntax bool
	obj    bool
	ms     []vmember
	val    J
}

func goView(text []byte) view {
	if !json.Valid(text) {
		return view{syntax: true}
	}
	t := bytes.TrimLeft(text, " \t\r\n")
	if len(t) > 0 && t[0] == '{' {
		dec := json.NewDecoder(bytes.NewReader(text))
		dec.UseNumber()
		if _, err := dec.Token(); err != nil {
			return view{syntax: true}
		}
		v := view{obj: true}
		for dec.More() {
			kt, err := dec.Token()
			if err != nil {
				return view{syntax: true}
			}
			var raw json.RawMessage
			if err := dec.Decode(&raw); err != nil {
				return view{syntax: true}
			}
			a, ok := parseAST(raw)
			if !ok {
				return view{syntax: true}
			}
			v.ms = append(v.ms, vmember{kt.(string), append([]byte{}, raw...), a})
		}
		return v
	}
	a, ok := parseAST(text)
	if !ok {
		return view{syntax: true}
	}
	return view{val: a}
}

func (v view) term() string {
	if v.syntax {
		return "VSyntax"
	}
	if v.obj {
		xs := make([]string, len(v.ms))
		for i, m := range v.ms {
			xs[i] = "(" + B(m.key) + "," + B(string(m.raw)) + "," + m.ast.term() + ")"
		}
		return "(VObj " + List(xs) + ")"
	}
	return "(VVal " + v.val.term() + ")"
}

// Go value handed to the real marshaller (object keys must be unique and sorted to keep AST order)
func toGo(j J) interface{} {
	switch j.K {
	case 'n':
		return nil
	case 'b':
		return j.B
	case '#':
		return json.Number(j.S)
	case 's':
		return j.S
	case 'a':
		out := make([]interface{}, len(j.A))
		for i, x := range j.A {
			out[i] = toGo(x)
		}
		return out
	default:
		out := make(map[string]interface{}, len(j.O))
		for _, m := range j.O {
			out[m.Key] = toGo(m.V)
		}
		return out
	}
}

// ---------------------------------------------------------------- generators

var strPool = []string{"", "a", "abc", "a\"b", "back\\slash", "line\nfeed", "tab\t", "\r", "\b\f", "\x00", "\x1f", "\x7f",
	"<tag>", "a&b", "é", "ö€", "😀", "\u2028", "x\u2029y", "\ufffd", "/", "'", "test.model", "日本語", "a.b.c", "K", "ſ"}
var numPool = []string{"0", "1", "-1", "42", "1.0", "-0", "1e3", "1E-2", "0.5", "12345678901234567890", "-12.5e+10",
	// around +-2^53 and +-2^63, long fractions, exponents, the spellings of one and zero
	"9007199254740991", "9007199254740992", "9007199254740993", "-9007199254740992", "-9007199254740993", "9007199254740992.0",
	"9223372036854775807", "9223372036854775808", "-9223372036854775808", "-9223372036854775809", "18446744073709551616", "9.223372036854775807e18",
	"0.1", "0.10000000000000000555", "0.1000000000000000055511151231257827", "3.141592653589793238462643383279", "1e0", "1E+2", "100", "1e2", "1e400", "-0.0", "0e0", "0.0", "1.00"}
var canonNumPool = []string{"0", "1", "7", "-3", "42", "1000"}
var keyPool = []string{"a", "b", "c", "x y", "k<", "é", "", "id", "q\"", "value", "Z"}

// the protocol's own member names and string constants: values that LOOK like envelopes
var protoWords = []string{"data", "rid", "soft", "action", "delete", "result", "error", "resource", "model", "collection", "values", "value",
	"idx", "timeout", "meta", "code", "message", "query", "events"}

func init() {
	keyPool = append(keyPool, protoWords...)
	keyPool = append(keyPool, "data", "data", "rid", "action") // weight
	strPool = append(strPool, protoWords...)
}

var wsPool = []string{" ", "\n", "\t", "\r", "  ", " \n "}

func randUTF8(r *Rng, n int) string {
	var sb strings.Builder
	for i := 0; i < n; i++ {
		switch r.Intn(8) {
		case 0:
			sb.WriteRune(rune(r.Intn(0x20)))
		case 1:
			sb.WriteRune(rune(0x80 + r.Intn(0x780)))
		case 2:
			c := rune(0x800 + r.Intn(0xF800))
			if c >= 0xD800 && c < 0xE000 {
				c = 0x2028 + rune(r.Intn(2))
			}
			sb.WriteRune(c)
		case 3:
			sb.WriteRune(rune(0x10000 + r.Intn(0x100000)))
		case 4:
			sb.WriteString(r.Pick([]string{"\"", "\\", "<", ">", "&", "\u2028", "\u2029", "\x7f", "/"}))
		default:
			sb.WriteRune(rune(0x20 + r.Intn(0x5f)))
		}
	}
	return sb.String()
}

func randBytes(r *Rng, n int) string {
	b := make([]byte, n)
	for i := range b {
		switch r.Intn(4) {
		case 0:
			b[i] = byte(0x80 + r.Intn(0x80))
		case 1:
			b[i] = byte(r.Intn(256))
		default:
			b[i] = byte(0x20 + r.Intn(0x5f))
		}
	}
	return string(b)
}

func genStr(r *Rng) string {
	if r.Chance(15) {
		return randUTF8(r, 1+r.Intn(6))
	}
	return r.Pick(strPool)
}

// canon: unique sorted keys and plain integer numbers (survives a float64 / map round trip)
func genJ(r *Rng, depth int, canon bool) J {
	k := r.Intn(10)
	if depth <= 0 && k >= 6 {
		k = r.Intn(6)
	}
	switch {
	case k == 0:
		return jnull()
	case k == 1:
		return jbool(r.Bool())
	case k <= 3:
		if canon {
			return jnum(r.Pick(canonNumPool))
		}
		return jnum(r.Pick(numPool))
	case k <= 5:
		return jstr(genStr(r))
	case k <= 7:
		n := r.Intn(4)
		out := J{K: 'a'}
		for i := 0; i < n; i++ {
			out.A = append(out.A, genJ(r, depth-1, canon))
		}
		return out
	default:
		n := r.Intn(4)
		out := J{K: 'o'}
		seen := map[string]bool{}
		for i := 0; i < n; i++ {
			key := r.Pick(keyPool)
			if r.Chance(10) {
				key = genStr(r)
			}
			if seen[key] {
				continue
			}
			seen[key] = true
			out.O = append(out.O, M{key, genJ(r, depth-1, canon)})
		}
		sort.Slice(out.O, func(a, b int) bool { return out.O[a].Key < out.O[b].Key })
		return out
	}
}

var ridPool = []string{"a.b", "a", "test.model.42", "lib.book.1?q=1", "", "a..b", "a.*", ".a", "a.", "é", "a b", "x.>", "a.b?", "?", "A_b-1.$x"}

func caseVariant(r *Rng, k string) string {
	switch r.Intn(12) {
	case 0:
		return strings.ToUpper(k)
	case 1:
		return strings.ToUpper(k[:1]) + k[1:]
	case 2:
		return strings.Replace(k, "s", "ſ", 1)
	case 3:
		return strings.Replace(k, "k", "\u212a", 1)
	case 4:
		return k + "x"
	}
	return k
}

// an object/primitive shaped like a RES value, with the usual and unusual deviations
func genValueAST(r *Rng) J {
	extra := func(o *J) {
		for r.Chance(30) {
			m := M{r.Pick(keyPool), genJ(r, 1, false)}
			pos := r.Intn(len(o.O) + 1)
			o.O = append(o.O[:pos], append([]M{m}, o.O[pos:]...)...)
		}
	}
	o := J{K: 'o'}
	switch r.Intn(14) {
	case 0, 1:
		return genJ(r, 1, false)
	case 2, 3:
		o.O = append(o.O, M{caseVariant(r, "rid"), jstr(r.Pick(ridPool))})
	case 4, 5:
		o.O = append(o.O, M{caseVariant(r, "rid"), jstr(r.Pick(ridPool))})
		var s J
		switch r.Intn(8) {
		case 0:
			s = jbool(false)
		case 1:
			s = jnull()
		case 2:
			s = jstr("true")
		case 3:
			s = jnum("1")
		default:
			s = jbool(true)
		}
		o.O = append(o.O, M{caseVariant(r, "soft"), s})
		if r.Chance(15) {
			o.O[0], o.O[1] = o.O[1], o.O[0]
		}
	case 6, 7:
		o.O = append(o.O, M{caseVariant(r, "data"), genJ(r, 2, false)})
	case 8:
		a := jstr(r.Pick([]string{"delete", "delete", "delete", "Delete", "remove", ""}))
		if r.Chance(15) {
			a = pick1J(r, []J{jnull(), jnum("5"), jbool(true)})
		}
		o.O = append(o.O, M{caseVariant(r, "action"), a})
	case 9:
		// combinations that the protocol forbids
		ks := []M{{"rid", jstr("a.b")}, {"action", jstr("delete")}, {"data", genJ(r, 1, false)}, {"soft", jbool(true)}}
		n := 2 + r.Intn(2)
		for i := 0; i < n; i++ {
			o.O = append(o.O, ks[r.Intn(len(ks))])
		}
	case 10:
		// duplicates and nulls
		base := []M{{"rid", jstr("a.b")}, {"rid", jnull()}, {"rid", jstr("c.d")}, {"rid", jnum("1")}, {"soft", jbool(true)}, {"soft", jnull()},
			{"soft", jbool(false)}, {"action", jnull()}, {"action", jstr("delete")}, {"data", jnull()}, {"data", jarr()}, {"data", jnum("1")}}
		n := 1 + r.Intn(4)
		for i := 0; i < n; i++ {
			o.O = append(o.O, base[r.Intn(len(base))])
		}
	case 11:
		return jarr(genJ(r, 1, false))
	case 12:
		// empty or foreign object
	default:
		o.O = append(o.O, M{"rid", pick1J(r, []J{jnum("5"), jnull(), jobj(), jarr(), jbool(true)})})
	}
	extra(&o)
	return o
}

func pick1J(r *Rng, xs []J) J { return xs[r.Intn(len(xs))] }

func pickInt(r *Rng, xs []int) int { return xs[r.Intn(len(xs))] }

func renderStr(r *Rng, s string, fancy bool) string {
	if !fancy || !utf8.ValidString(s) {
		b, _ := json.Marshal(s)
		return string(b)
	}
	var sb strings.Builder
	sb.WriteByte('"')
	for _, c := range s {
		switch {
		case c == '/' && r.Bool():
			sb.WriteString(`\/`)
		case c < 0x10000 && r.Chance(30):
			fmt.Fprintf(&sb, `\u%04x`, c)
		case c >= 0x10000 && r.Chance(30):
			c2 := c - 0x10000
			fmt.Fprintf(&sb, `\u%04X\u%04x`, 0xD800+(c2>>10), 0xDC00+(c2&0x3ff))
		default:
			b, _ := json.Marshal(string(c))
			sb.Write(b[1 : len(b)-1])
		}
	}
	sb.WriteByte('"')
	return sb.String()
}

// text of j with random white space between tokens (wsp = percent chance at each gap)
func render(r *Rng, j J, wsp int) string {
	ws := func() string {
		if r.Chance(wsp) {
			return r.Pick(wsPool)
		}
		return ""
	}
	switch j.K {
	case 'n':
		return "null"
	case 'b':
		return Bool(j.B)
	case '#':
		return j.S
	case 's':
		return renderStr(r, j.S, r.Chance(wsp))
	case 'a':
		var sb strings.Builder
		sb.WriteString("[" + ws())
		for i, x := range j.A {
			if i > 0 {
				sb.WriteString("," + ws())
			}
			sb.WriteString(render(r, x, wsp) + ws())
		}
		sb.WriteString("]")
		return sb.String()
	default:
		var sb strings.Builder
		sb.WriteString("{" + ws())
		for i, m := range j.O {
			if i > 0 {
				sb.WriteString("," + ws())
			}
			sb.WriteString(renderStr(r, m.Key, false) + ws() + ":" + ws() + render(r, m.V, wsp) + ws())
		}
		sb.WriteString("}")
		return sb.String()
	}
}

func renderOuter(r *Rng, j J, wsp int) string {
	lead, trail := "", ""
	if r.Chance(wsp) {
		lead = r.Pick(wsPool)
	}
	if r.Chance(wsp) {
		trail = r.Pick(wsPool)
	}
	return lead + render(r, j, wsp) + trail
}

func malform(r *Rng, s string) string {
	b := []byte(s)
	switch r.Intn(7) {
	case 0:
		if len(b) > 0 {
			b = b[:r.Intn(len(b))]
		}
	case 1:
		if len(b) > 0 {
			b[r.Intn(len(b))] = byte(r.Intn(256))
		}
	case 2:
		pos := r.Intn(len(b) + 1)
		ins := r.Pick([]string{",", "}", "{", "[", "]", "\"", ":", "\\", "x", "\x00", "tru"})
		b = append(b[:pos], append([]byte(ins), b[pos:]...)...)
	case 3:
		b = append(b, []byte(r.Pick([]string{"x", "}", " 1", ","}))...)
	case 4:
		if len(b) > 1 {
			pos := r.Intn(len(b))
			b = append(b[:pos], b[pos+1:]...)
		}
	case 5:
		return r.Pick([]string{"", " ", "\n\t", "{", "[", "nul", "tru e", "{\"rid\":}", "{\"data\"}", "\"abc", "01", "-", "{\"rid\":\"a\",}", "[1,]", "{]", "\xff"})
	default:
		b = append([]byte(r.Pick([]string{"x", ",", "}"})), b...)
	}
	return string(b)
}

// ---------------------------------------------------------------- Coq printers

func outcomeErr() string   { return "Err" }
func outcomePanic() string { return "Panic" }
func ok(t string) string   { return "(Ok " + t + ")" }
func pair(a, b string) string {
	return "(" + a + "," + b + ")"
}
func optJ(j J, has bool) string {
	if !has {
		return "None"
	}
	return "(Some " + j.term() + ")"
}

func safe(f func()) (panicked bool) {
	defer func() {
		if recover() != nil {
			panicked = true
		}
	}()
	f()
	return
}

type desc struct {
	Kind   string   `json:"kind"`
	Hex    []string `json:"hex,omitempty"` // inputs as hex
	Text   []string `json:"text,omitempty"`
	J      *J       `json:"json,omitempty"`
	Via    string   `json:"via,omitempty"`   // how the value is handed to MarshalDataValue
	Value  string   `json:"value,omitempty"` // compact JSON of J, for the reader
	Script *script  `json:"script,omitempty"`
}

func mkDesc(kind string, inputs ...string) desc {
	d := desc{Kind: kind}
	for _, s := range inputs {
		d.Hex = append(d.Hex, hex.EncodeToString([]byte(s)))
		d.Text = append(d.Text, strconv.QuoteToASCII(s))
	}
	return d
}
func (d desc) input(i int) string {
	b, _ := hex.DecodeString(d.Hex[i])
	return string(b)
}

// ---------------------------------------------------------------- cases

func caseStr(s string) Case {
	b, _ := json.Marshal(s)
	var back string
	json.Unmarshal(b, &back)
	c := Case{Desc: mkDesc("str", s)}
	c.Term = fmt.Sprintf("CStr %s %s %s %s", B(s), B(string(b[1:len(b)-1])), Bool(utf8.ValidString(s)), B(back))
	c.Nontrivial = string(b[1:len(b)-1]) != s
	return c
}

func caseUnq(body string) Case {
	var s string
	err := json.Unmarshal([]byte(`"`+body+`"`), &s)
	c := Case{Desc: mkDesc("unq", body)}
	c.Term = fmt.Sprintf("CUnq %s %s", B(body), OptB(s, err == nil))
	c.Nontrivial = strings.Contains(body, `\`)
	return c
}

func caseRef(rid string) Case {
	q, _ := json.Marshal(rid)
	var gr, gs []byte
	var rb, sb string
	var rok, sok bool
	pan := safe(func() {
		gr, _ = res.Ref(rid).MarshalJSON()
		gs, _ = res.SoftRef(rid).MarshalJSON()
		var r res.Ref
		if err := r.UnmarshalJSON(gr); err == nil {
			rb, rok = string(r), true
		}
		var s res.SoftRef
		if err := s.UnmarshalJSON(gs); err == nil {
			sb, sok = string(s), true
		}
	})
	c := Case{Desc: mkDesc("ref", rid)}
	if pan {
		c.Tags = append(c.Tags, "panic")
	}
	c.Term = fmt.Sprintf("CRef %s %s %s %s %s %s (%s,%s)", B(rid), B(string(q)), B(string(gr)), B(string(gs)), OptB(rb, rok), OptB(sb, sok),
		Bool(res.Ref(rid).IsValid()), Bool(res.SoftRef(rid).IsValid()))
	c.Nontrivial = string(q) != `"`+rid+`"`
	return c
}

// scribble overwrites a caller-owned input buffer after the decoder returned (the decoder only borrowed it)
func scribble(buf []byte, k int) {
	junk := []byte(`{"rid":"zz.zz","data":[9,9],"action":"delete","error":{"code":"zz"},"result":0} `)
	for i := range buf {
		if k%2 == 0 {
			buf[i] = junk[i%len(junk)]
		} else {
			buf[i] = 'x'
		}
	}
}

func valueSame(a, b store.Value) bool {
	ma, _ := a.MarshalJSON()
	mb, _ := b.MarshalJSON()
	return a.Type == b.Type && a.RID == b.RID && bytes.Equal(a.RawMessage, b.RawMessage) && bytes.Equal(a.Inner, b.Inner) && bytes.Equal(ma, mb)
}

// streamAlias: >= 4 documents through ONE json.Decoder into distinct Values; the observables are taken at the end
// and must be those of independent decodes
func streamAlias(texts []string) *ImplViolation {
	var docs []string
	for _, t := range texts {
		var probe store.Value
		if json.Valid([]byte(t)) && json.Unmarshal([]byte(t), &probe) == nil {
			docs = append(docs, strings.TrimSpace(t))
		}
	}
	if len(docs) < 4 {
		return nil
	}
	// a reader that hands out small pieces makes the decoder refill and shift its buffer
	dec := json.NewDecoder(&chunkReader{data: []byte(strings.Join(docs, "\n")), n: 7})
	vals := make([]store.Value, len(docs))
	for i := range docs {
		if err := dec.Decode(&vals[i]); err != nil {
			return &ImplViolation{What: "json.Decoder stream: " + err.Error(), Desc: mkDesc("stream", docs...)}
		}
	}
	for i, d := range docs {
		var f store.Value
		f.UnmarshalJSON([]byte(d))
		if !valueSame(vals[i], f) || !vals[i].Equal(f) || !f.Equal(vals[i]) {
			return &ImplViolation{What: fmt.Sprintf("document %d of a json.Decoder stream decoded into a store.Value reads %q/%q at the end of the stream, an independent decode %q/%q",
				i, vals[i].RawMessage, vals[i].Inner, f.RawMessage, f.Inner), Desc: mkDesc("stream", docs...), Tags: []string{"alias"}}
		}
	}
	return nil
}

type chunkReader struct {
	data []byte
	n    int
}

func (c *chunkReader) Read(p []byte) (int, error) {
	if len(c.data) == 0 {
		return 0, io.EOF
	}
	k := c.n
	if k > len(p) {
		k = len(p)
	}
	if k > len(c.data) {
		k = len(c.data)
	}
	copy(p, c.data[:k])
	c.data = c.data[k:]
	return k, nil
}

// violations seen by the Go side when decoding into non-zero targets
var reuseImpl []ImplViolation

func caseRefU(text string) Case {
	var r res.Ref
	rbuf := []byte(text)
	err := r.UnmarshalJSON(rbuf)
	scribble(rbuf, len(text))
	c := Case{Desc: mkDesc("refu", text)}
	// the same text into targets that already hold something
	used, usedSoft := res.Ref("old.value"), res.SoftRef("old.value")
	var freshSoft res.SoftRef
	e1, e2, e3 := used.UnmarshalJSON([]byte(text)), usedSoft.UnmarshalJSON([]byte(text)), freshSoft.UnmarshalJSON([]byte(text))
	if (e1 == nil) != (err == nil) || (e2 == nil) != (e3 == nil) || (err == nil && (used != r || string(usedSoft) != string(freshSoft))) {
		reuseImpl = append(reuseImpl, ImplViolation{What: fmt.Sprintf("Ref/SoftRef.UnmarshalJSON into a used target gives %q/%q, into a zero target %q/%q", used, usedSoft, r, freshSoft), Desc: c.Desc})
	}
	c.Term = fmt.Sprintf("CRefU %s %s %s", B(text), goView([]byte(text)).term(), OptB(string(r), err == nil))
	c.Nontrivial = err == nil && r != ""
	return c
}

func rawOutcome(raw json.RawMessage, err error) string {
	if err != nil {
		return outcomeErr()
	}
	a, okk := parseAST(raw)
	if !okk {
		return "(Ok (JStr [0;0;0]))" // cannot happen: reported as a mismatch
	}
	return ok(a.term())
}

// compact JSON text of j, members in AST order (what Codec/Json.v print gives)
func printJ(j J) []byte {
	var sb bytes.Buffer
	var p func(j J)
	str := func(s string) {
		b, _ := json.Marshal(s)
		sb.Write(b)
	}
	p = func(j J) {
		switch j.K {
		case 'n':
			sb.WriteString("null")
		case 'b':
			sb.WriteString(Bool(j.B))
		case '#':
			sb.WriteString(j.S)
		case 's':
			str(j.S)
		case 'a':
			sb.WriteByte('[')
			for i, x := range j.A {
				if i > 0 {
					sb.WriteByte(',')
				}
				p(x)
			}
			sb.WriteByte(']')
		default:
			sb.WriteByte('{')
			for i, m := range j.O {
				if i > 0 {
					sb.WriteByte(',')
				}
				str(m.Key)
				sb.WriteByte(':')
				p(m.V)
			}
			sb.WriteByte('}')
		}
	}
	p(j)
	return sb.Bytes()
}

// marshalerJ is a user type implementing json.Marshaler whose encoding is j
type marshalerJ struct{ j J }

func (m marshalerJ) MarshalJSON() ([]byte, error) { return printJ(m.j), nil }

func sortedUnique(j J) bool {
	switch j.K {
	case 'a':
		for _, x := range j.A {
			if !sortedUnique(x) {
				return false
			}
		}
	case 'o':
		for i, m := range j.O {
			if i > 0 && j.O[i-1].Key >= m.Key {
				return false
			}
			if !sortedUnique(m.V) {
				return false
			}
		}
	}
	return true
}

// vias lists the ways the JSON value j can be handed to MarshalDataValue as a Go value
func vias(j J) []string {
	out := []string{"marshaler"}
	if sortedUnique(j) {
		out = append(out, "generic")
	}
	if j.K == 'o' && len(j.O) == 1 && j.O[0].Key == "data" && sortedUnique(j) {
		out = append(out, "datavalue")
	}
	return out
}

func goValue(j J, via string) interface{} {
	switch via {
	case "marshaler":
		return marshalerJ{j}
	case "datavalue":
		return res.NewDataValue(toGo(j.O[0].V))
	case "datavalue-marshaler":
		return res.DataValue[marshalerJ]{Data: marshalerJ{j.O[0].V}}
	}
	return toGo(j)
}

// caseDV: MarshalDataValue(v) for a Go value v whose JSON encoding is j, then UnmarshalDataValue of it;
// the property's oracle is decode(encode v) == j on these outputs.  Also decodes into a res.DataValue.
func caseDV(j J, via string) (Case, *ImplViolation) {
	var gm []byte
	var err error
	var raw json.RawMessage
	var uerr error
	var iv *ImplViolation
	d := desc{Kind: "dv", J: &j, Via: via, Value: string(printJ(j))}
	pan := safe(func() {
		gm, err = resprot.MarshalDataValue(goValue(j, via))
		ubuf := append([]byte{}, gm...)
		uerr = resprot.UnmarshalDataValue(ubuf, &raw)
		scribble(ubuf, len(ubuf))
		// a typed target: decoding into res.DataValue[RawMessage] must give the member "data" of j
		if j.K == 'o' && len(j.O) == 1 && j.O[0].Key == "data" {
			var dv res.DataValue[json.RawMessage]
			e := resprot.UnmarshalDataValue(gm, &dv)
			want := printJ(j.O[0].V)
			if e != nil || !bytes.Equal(dv.Data, want) {
				iv = &ImplViolation{What: fmt.Sprintf("UnmarshalDataValue(MarshalDataValue(v), &res.DataValue) gives %q (err %v), v.data is %s", dv.Data, e, want), Desc: d}
			}
		}
	})
	c := Case{Desc: d}
	if pan || err != nil {
		c.Tags = append(c.Tags, "panic")
	}
	c.Term = fmt.Sprintf("CDV %s %s %s %s", j.term(), B(string(gm)), goView(gm).term(), rawOutcome(raw, uerr))
	c.Nontrivial = j.K == 'a' || j.K == 'o'
	c.Key = via + string(printJ(j))
	return c, iv
}

// envelopeValues: JSON values built from the protocol's own keywords - as the only member, among other
// members, nested three and more levels deep, inside arrays, and as string values.
func envelopeValues() []J {
	var out []J
	sorted := func(ms ...M) J {
		o := jobj(ms...)
		sort.Slice(o.O, func(a, b int) bool { return o.O[a].Key < o.O[b].Key })
		return o
	}
	for _, k := range protoWords {
		out = append(out,
			jobj(mem(k, jbool(true))),
			jobj(mem(k, jstr(k))),
			jobj(mem(k, jnull())),
			jobj(mem(k, jarr(jnum("1"), jnum("2")))),
			jobj(mem(k, jobj(mem(k, jbool(true))))),
			jobj(mem(k, jobj(mem(k, jobj(mem(k, jarr(jobj(mem(k, jnum("1")))))))))),
			sorted(mem(k, jobj(mem("data", jstr("x")))), mem("a", jnum("1"))),
			sorted(mem(k, jstr("delete")), mem("data", jarr())),
			jarr(jobj(mem(k, jstr("delete"))), jobj(mem("data", jobj(mem(k, jnum("7")))))),
			jobj(mem("data", jobj(mem(k, jobj(mem("data", jstr(k))))))),
			jstr(k))
	}
	out = append(out,
		jobj(mem("data", jobj(mem("data", jobj(mem("data", jobj(mem("data", jnull())))))))),
		sorted(mem("rid", jstr("a.b")), mem("soft", jbool(true))),
		sorted(mem("rid", jstr("a.b")), mem("data", jnum("1"))),
		jobj(mem("action", jstr("delete"))),
		sorted(mem("action", jstr("delete")), mem("data", jobj(mem("action", jstr("delete"))))),
		sorted(mem("result", jobj(mem("data", jnum("1")))), mem("error", jobj(mem("code", jstr("c")), mem("message", jstr("m"))))),
		sorted(mem("resource", jobj(mem("rid", jstr("a.b")))), mem("meta", jobj(mem("status", jnum("404"))))),
		sorted(mem("model", jobj(mem("data", jobj(mem("data", jnum("1")))))), mem("query", jstr("q=1"))),
		sorted(mem("collection", jarr(jobj(mem("data", jarr())), jobj(mem("rid", jstr("a.b"))))), mem("query", jstr("q"))),
		sorted(mem("events", jarr(jobj(mem("data", jobj(mem("values", jobj(mem("data", jobj(mem("action", jstr("delete")))))))), mem("event", jstr("change"))))), mem("timeout", jnum("1000"))),
		sorted(mem("idx", jnum("0")), mem("value", jobj(mem("data", jobj(mem("data", jarr(jnum("1"))))))), mem("values", jobj())),
		// not sorted / duplicate members: only through a json.Marshaler
		jobj(mem("data", jnum("1")), mem("data", jnum("2"))),
		jobj(mem("soft", jbool(true)), mem("rid", jstr("a.b"))),
		jobj(mem("Data", jarr())), jobj(mem("DATA", jobj(mem("data", jnum("1"))))),
	)
	return out
}

// failMarshaler is a json.Marshaler that fails
type failMarshaler struct{}

func (failMarshaler) MarshalJSON() ([]byte, error) { return nil, errors.New("no encoding") }

// caseDVErr: MarshalDataValue on values json.Marshal rejects
func caseDVErr(k int) Case {
	vs := []interface{}{func() {}, make(chan int), failMarshaler{}, map[string]interface{}{"a": func() {}}, []interface{}{failMarshaler{}}}
	var b []byte
	var err error
	pan := safe(func() { b, err = resprot.MarshalDataValue(vs[k%len(vs)]) })
	c := Case{Desc: desc{Kind: "dverr", Via: strconv.Itoa(k)}}
	out := outcomeErr()
	if pan {
		out = outcomePanic()
	} else if err == nil {
		out = ok(B(string(b)))
	}
	c.Term = "CDVErr " + out
	c.Nontrivial = true
	return c
}

// caseValM: MarshalJSON of Values that were not produced by UnmarshalJSON
func caseValM(k int) Case {
	vs := []store.Value{{}, store.DeleteValue, {Type: store.ValueTypePrimitive}, {Type: store.ValueTypeReference, RID: "a.b"},
		{RawMessage: json.RawMessage(`{"rid":"a.b"}`), Type: store.ValueTypeReference, RID: "a.b"},
		{RawMessage: json.RawMessage(`{"rid":"a.b","soft":true}`), Type: store.ValueTypeSoftReference, RID: "a.b"},
		{RawMessage: json.RawMessage(`{"data":[1]}`), Type: store.ValueTypeData, Inner: json.RawMessage(`[1]`)},
		{RawMessage: json.RawMessage(`12`), Type: store.ValueTypePrimitive}, {Type: store.ValueTypeData, Inner: json.RawMessage(`[1]`)}}
	v := vs[k%len(vs)]
	b, _ := v.MarshalJSON()
	c := Case{Desc: desc{Kind: "valm", Via: strconv.Itoa(k)}}
	c.Term = fmt.Sprintf("CValM %s %s", valueTerm(v), B(string(b)))
	c.Nontrivial = v.RawMessage == nil
	return c
}

func caseDVU(text string) Case {
	var raw json.RawMessage
	var err error
	dbuf := []byte(text)
	pan := safe(func() { err = resprot.UnmarshalDataValue(dbuf, &raw) })
	scribble(dbuf, len(text))
	c := Case{Desc: mkDesc("dvu", text)}
	// the same text into a target that already holds something
	used := json.RawMessage(`{"old":[1,2,3]}`)
	var e2 error
	safe(func() { e2 = resprot.UnmarshalDataValue([]byte(text), &used) })
	if !pan && ((e2 == nil) != (err == nil) || (err == nil && !bytes.Equal(used, raw))) {
		reuseImpl = append(reuseImpl, ImplViolation{What: fmt.Sprintf("UnmarshalDataValue into a used target gives %q, into a zero target %q", used, raw), Desc: c.Desc})
	}
	out := rawOutcome(raw, err)
	if pan {
		out = outcomePanic()
	}
	c.Term = fmt.Sprintf("CDVU %s %s %s", B(text), goView([]byte(text)).term(), out)
	c.Nontrivial = err == nil && strings.Contains(text, "data")
	return c
}

func valueTerm(v store.Value) string {
	return fmt.Sprintf("(MkValue %s %s %s %s)", B(string(v.RawMessage)),
		[]string{"TNone", "TPrim", "TRef", "TSoft", "TData", "TDelete"}[v.Type], B(v.RID), B(string(v.Inner)))
}

func caseVal(ts [3]string) Case {
	var direct, via, rep []string
	var vals [3]store.Value
	var oks [3]bool
	types := ""
	for i, t := range ts {
		var v store.Value
		var err error
		buf := []byte(t)
		pan := safe(func() { err = v.UnmarshalJSON(buf) })
		if !pan && err == nil {
			// the decoder only borrowed buf: whatever happens to it now must not show in v
			before := valueTerm(v)
			scribble(buf, i+len(t))
			var f store.Value
			f.UnmarshalJSON([]byte(t))
			if after := valueTerm(v); after != before || !valueSame(v, f) || !v.Equal(f) || !f.Equal(v) {
				reuseImpl = append(reuseImpl, ImplViolation{What: fmt.Sprintf("store.Value changed after its input buffer was overwritten: RawMessage %q Inner %q, independent decode %q %q", v.RawMessage, v.Inner, f.RawMessage, f.Inner),
					Desc: mkDesc("val", ts[0], ts[1], ts[2]), Tags: []string{"alias"}})
			}
		}
		switch {
		case pan:
			direct = append(direct, outcomePanic())
		case err != nil:
			direct = append(direct, outcomeErr())
		default:
			direct = append(direct, ok(valueTerm(v)))
			vals[i], oks[i] = v, true
			types += strconv.Itoa(int(v.Type))
		}
		var w store.Value
		buf2 := []byte(t)
		pan = safe(func() { err = json.Unmarshal(buf2, &w) })
		scribble(buf2, i)
		switch {
		case pan:
			via = append(via, outcomePanic())
		case err != nil:
			via = append(via, outcomeErr())
		default:
			via = append(via, ok(valueTerm(w)))
		}
		r := false
		if oks[i] {
			safe(func() {
				b, _ := v.MarshalJSON()
				var x store.Value
				if err := x.UnmarshalJSON(b); err == nil {
					r = x.Equal(v) && v.Equal(x)
				}
			})
		}
		rep = append(rep, Bool(r))
	}
	var eq []string
	anyEq := false
	for i := 0; i < 3; i++ {
		for k := 0; k < 3; k++ {
			e := oks[i] && oks[k] && vals[i].Equal(vals[k])
			if e && i != k {
				anyEq = true
			}
			eq = append(eq, Bool(e))
		}
	}
	c := Case{Desc: mkDesc("val", ts[0], ts[1], ts[2])}
	c.Term = fmt.Sprintf("CVal %s %s %s %s %s %s %s %s %s %s", B(ts[0]), goView([]byte(ts[0])).term(), B(ts[1]), goView([]byte(ts[1])).term(),
		B(ts[2]), goView([]byte(ts[2])).term(), List(direct), List(via), List(eq), List(rep))
	c.Nontrivial = anyEq || strings.ContainsAny(types, "2345")
	c.Key = ts[0] + "\x00" + ts[1] + "\x00" + ts[2]
	return c
}

// decodeInto decodes text into the Value that already holds an earlier decode (mode 0: UnmarshalJSON directly,
// 1: json.Unmarshal into the same Value, 2: the same element of one []Value, 3: the same entry of one map)
func reuseDecode(mode int, a, b string) (v store.Value, err error, pan bool) {
	pan = safe(func() {
		switch mode {
		case 0:
			ab, bb := []byte(a), []byte(b)
			v.UnmarshalJSON(ab)
			scribble(ab, 1)
			err = v.UnmarshalJSON(bb)
			scribble(bb, 0)
		case 1:
			json.Unmarshal([]byte(a), &v)
			err = json.Unmarshal([]byte(b), &v)
		case 2:
			var s []store.Value
			json.Unmarshal([]byte("["+a+"]"), &s)
			err = json.Unmarshal([]byte("["+b+"]"), &s)
			if err == nil {
				if len(s) != 1 {
					err = errors.New("length")
				} else {
					v = s[0]
				}
			}
		default:
			m := map[string]store.Value{}
			json.Unmarshal([]byte(`{"k":`+a+`}`), &m)
			err = json.Unmarshal([]byte(`{"k":`+b+`}`), &m)
			v = m["k"]
		}
	})
	return
}

// caseReuse: B and C decoded into Values that held A before, next to fresh decodes of B and C
func caseReuse(mode int, a, b, c string) Case {
	var vals [4]store.Value
	var oks [4]bool
	var terms, marsh []string
	stale := false
	for i := 0; i < 4; i++ {
		var v store.Value
		var err error
		var pan bool
		switch i {
		case 0:
			v, err, pan = reuseDecode(mode, a, b)
		case 1:
			pan = safe(func() { err = v.UnmarshalJSON([]byte(b)) })
		case 2:
			pan = safe(func() { err = v.UnmarshalJSON([]byte(c)) })
		default:
			v, err, pan = reuseDecode(mode, a, c)
		}
		switch {
		case pan:
			terms = append(terms, outcomePanic())
			marsh = append(marsh, "[]")
		case err != nil:
			terms = append(terms, outcomeErr())
			marsh = append(marsh, "[]")
		default:
			terms = append(terms, ok(valueTerm(v)))
			vals[i], oks[i] = v, true
			mb, _ := v.MarshalJSON()
			marsh = append(marsh, B(string(mb)))
		}
	}
	if oks[0] && oks[1] && (vals[0].RID != vals[1].RID || !bytes.Equal(vals[0].Inner, vals[1].Inner)) {
		stale = true
	}
	var eq []string
	for i := 0; i < 4; i++ {
		for k := 0; k < 4; k++ {
			e := false
			if oks[i] && oks[k] {
				safe(func() { e = vals[i].Equal(vals[k]) })
			}
			eq = append(eq, Bool(e))
		}
	}
	d := mkDesc("reuse", a, b, c)
	d.Via = strconv.Itoa(mode)
	cs := Case{Desc: d}
	cs.Term = fmt.Sprintf("CReuse %d %s %s %s %s %s %s %s %s", mode, B(a), B(b), goView([]byte(b)).term(), B(c), goView([]byte(c)).term(),
		List(terms), List(marsh), List(eq))
	cs.Nontrivial = oks[0] || oks[3]
	if stale {
		cs.Tags = append(cs.Tags, "stale-field")
	}
	cs.Key = d.Via + a + "\x00" + b + "\x00" + c
	return cs
}

// ---------------------------------------------------------------- responses through a real service

type script struct {
	Req    string     `json:"req"` // call auth access get new
	Kind   string     `json:"kind"`
	Result *J         `json:"result,omitempty"`
	Rid    string     `json:"rid,omitempty"`
	Code   string     `json:"code,omitempty"`
	Msg    string     `json:"msg,omitempty"`
	Data   *J         `json:"data,omitempty"`
	Query  string     `json:"query,omitempty"`
	Get    bool       `json:"get,omitempty"`
	Call   string     `json:"call,omitempty"`
	Status int        `json:"status,omitempty"`
	Header [][]string `json:"header,omitempty"`                       // key, values... ; sorted by key
	Seq    bool       `json:"after_custom_message_helpers,omitempty"` // ran after seqMutators() in the same process
	// fields of the REQUEST the handler answers (handler-supplied values are made to coincide with them)
	RQuery  string `json:"request_query,omitempty"`
	RCID    string `json:"request_cid,omitempty"`
	RParams *J     `json:"request_params,omitempty"`
	RToken  *J     `json:"request_token,omitempty"`
}

// seqMutators: helper calls carrying a custom message (and their message-less siblings), on Request and QueryRequest
func seqMutators() []*script {
	var seq []*script
	for _, req := range []string{"call", "auth", "get", "access", "query"} {
		seq = append(seq, &script{Req: req, Kind: "invalidquery", Msg: "custom query message " + req},
			&script{Req: req, Kind: "notfound"})
	}
	for _, req := range []string{"call", "auth"} {
		seq = append(seq, &script{Req: req, Kind: "invalidparams", Msg: "custom params message " + req},
			&script{Req: req, Kind: "methodnotfound"})
	}
	return append(seq, &script{Req: "access", Kind: "denied"}, &script{Req: "access", Kind: "access"})
}

type pubMsg struct {
	subj string
	data []byte
}
type recConn struct {
	mu   sync.Mutex
	in   chan *nats.Msg
	subs map[string]chan *nats.Msg // subscriptions other than the service's own (query event inboxes)
	pub  chan pubMsg
}

func (c *recConn) subscribe(subject string, ch chan *nats.Msg) {
	c.mu.Lock()
	defer c.mu.Unlock()
	for _, p := range []string{"get.", "call.", "auth.", "access."} {
		if strings.HasPrefix(subject, p) {
			c.in = ch
			return
		}
	}
	if c.subs == nil {
		c.subs = map[string]chan *nats.Msg{}
	}
	c.subs[subject] = ch
}
func (c *recConn) sub(subject string) chan *nats.Msg {
	c.mu.Lock()
	defer c.mu.Unlock()
	return c.subs[subject]
}

func (c *recConn) Publish(subject string, payload []byte) error {
	c.pub <- pubMsg{subject, append([]byte{}, payload...)}
	return nil
}
func (c *recConn) PublishRequest(subject, reply string, data []byte) error { return nil }
func (c *recConn) ChanSubscribe(subject string, ch chan *nats.Msg) (*nats.Subscription, error) {
	c.subscribe(subject, ch)
	return &nats.Subscription{}, nil
}
func (c *recConn) ChanQueueSubscribe(subject, queue string, ch chan *nats.Msg) (*nats.Subscription, error) {
	c.subscribe(subject, ch)
	return &nats.Subscription{}, nil
}
func (c *recConn) Close() {}

type svc struct {
	s    *res.Service
	c    *recConn
	cur  *script
	n    int
	done chan struct{}
}

type metaReq interface {
	IsHTTP() bool
	SetResponseStatus(int)
	ResponseHeader() map[string][]string
}

func (sv *svc) applyMeta(isHTTP bool, set func(int), hdr func() map[string][]string) {
	sc := sv.cur
	if !isHTTP {
		return
	}
	if sc.Status != 0 {
		set(sc.Status)
	}
	for _, h := range sc.Header {
		hdr()[h[0]] = append([]string{}, h[1:]...)
	}
}

type commonReq interface {
	NotFound()
	InvalidQuery(string)
	Error(error)
}

func (sv *svc) common(r commonReq) bool {
	sc := sv.cur
	switch sc.Kind {
	case "error":
		e := &res.Error{Code: sc.Code, Message: sc.Msg}
		if sc.Data != nil {
			e.Data = toGo(*sc.Data)
		}
		r.Error(e)
	case "errorpredef":
		r.Error(predefErr[sc.Code])
	case "panicpredef":
		panic(predefErr[sc.Code])
	case "errornilface":
		r.Error(nil) // a nil error interface: its Error method cannot be called
	case "errorbaddata":
		r.Error(&res.Error{Code: "custom.code", Message: "m", Data: func() {}}) // cannot be encoded
	case "errornil":
		r.Error((*res.Error)(nil))
	case "errorother":
		r.Error(errors.New(sc.Msg))
	case "notfound":
		r.NotFound()
	case "invalidquery":
		r.InvalidQuery(sc.Msg)
	case "panicerror":
		e := &res.Error{Code: sc.Code, Message: sc.Msg}
		if sc.Data != nil {
			e.Data = toGo(*sc.Data)
		}
		panic(e)
	case "panicstring":
		panic(sc.Msg)
	case "panicerr":
		panic(errors.New(sc.Msg))
	case "noreply":
	default:
		return false
	}
	return true
}

type callLike interface {
	commonReq
	OK(interface{})
	Resource(string)
	MethodNotFound()
	InvalidParams(string)
}

func (sv *svc) callLike(r callLike) {
	sc := sv.cur
	if sv.common(r) {
		return
	}
	switch sc.Kind {
	case "ok":
		r.OK(toGo(*sc.Result))
	case "oknil":
		r.OK(nil)
	case "okbad":
		r.OK(func() {}) // cannot be encoded
	case "resource":
		r.Resource(sc.Rid)
	case "methodnotfound":
		r.MethodNotFound()
	case "invalidparams":
		r.InvalidParams(sc.Msg)
	default:
		panic("harness: bad script kind " + sc.Kind)
	}
}

func newSvc() *svc {
	sv := &svc{c: &recConn{pub: make(chan pubMsg, 64)}, done: make(chan struct{})}
	s := res.NewService("test")
	s.SetLogger(nil)
	s.Handle("model",
		res.Access(func(r res.AccessRequest) {
			sv.applyMeta(r.IsHTTP(), r.SetResponseStatus, func() map[string][]string { return r.ResponseHeader() })
			if sv.common(r) {
				return
			}
			switch sv.cur.Kind {
			case "access":
				r.Access(sv.cur.Get, sv.cur.Call)
			case "denied":
				r.AccessDenied()
			case "granted":
				r.AccessGranted()
			default:
				panic("harness: bad script kind " + sv.cur.Kind)
			}
		}),
		res.GetResource(func(r res.GetRequest) {
			if sv.common(r) {
				return
			}
			sc := sv.cur
			switch sc.Kind {
			case "model":
				if sc.Query != "" {
					r.QueryModel(toGo(*sc.Result), sc.Query)
				} else {
					r.Model(toGo(*sc.Result))
				}
			case "collection":
				if sc.Query != "" {
					r.QueryCollection(toGo(*sc.Result), sc.Query)
				} else {
					r.Collection(toGo(*sc.Result))
				}
			default:
				panic("harness: bad script kind " + sc.Kind)
			}
		}),
		res.Call("m", func(r res.CallRequest) {
			sv.applyMeta(r.IsHTTP(), r.SetResponseStatus, func() map[string][]string { return r.ResponseHeader() })
			sv.callLike(r)
		}),
		res.Auth("a", func(r res.AuthRequest) {
			sv.applyMeta(r.IsHTTP(), r.SetResponseStatus, func() map[string][]string { return r.ResponseHeader() })
			sv.callLike(r)
		}),
		res.New(func(r res.NewRequest) {
			if sv.common(r) {
				return
			}
			r.New(res.Ref(sv.cur.Rid))
		}),
	)
	sv.s = s
	go func() {
		s.Serve(sv.c)
		close(sv.done)
	}()
	// the system.reset event tells that the subscriptions are in place
	select {
	case m := <-sv.c.pub:
		if m.subj != "system.reset" {
			panic("harness: expected system.reset, got " + m.subj)
		}
	case <-time.After(10 * time.Second):
		panic("harness: service did not start")
	}
	return sv
}

func (sv *svc) stop() {
	sv.s.Shutdown()
	select {
	case <-sv.done:
	case <-time.After(10 * time.Second):
	}
}

// run performs one request; ok=false when no reply arrived
// runQuery: a query event is sent for the resource and one query request is answered by the script
func (sv *svc) runQuery(sc *script) ([]byte, bool) {
	sv.cur = sc
	sv.n++
	reply := "reply." + strconv.Itoa(sv.n)
	err := sv.s.With("test.model", func(r res.Resource) {
		r.QueryEvent(func(qr res.QueryRequest) {
			if qr == nil {
				return
			}
			if sv.common(qr) {
				return
			}
			sc := sv.cur
			switch sc.Kind {
			case "model":
				qr.Model(toGo(*sc.Result))
			case "collection":
				qr.Collection(toGo(*sc.Result))
			default:
				panic("harness: bad query script kind " + sc.Kind)
			}
		})
	})
	if err != nil {
		return nil, false
	}
	deadline := time.After(5 * time.Second)
	for {
		select {
		case m := <-sv.c.pub:
			if m.subj == "event.test.model.query" {
				var ev struct {
					Subject string `json:"subject"`
				}
				json.Unmarshal(m.data, &ev)
				ch := sv.c.sub(ev.Subject)
				if ch == nil {
					return nil, false
				}
				ch <- &nats.Msg{Subject: ev.Subject, Reply: reply, Data: []byte(`{"query":"q=1"}`)}
			}
			if m.subj == reply {
				return m.data, true
			}
		case <-deadline:
			return nil, false
		}
	}
}

func (sv *svc) run(sc *script) ([]byte, bool) {
	if sc.Req == "query" {
		return sv.runQuery(sc)
	}
	sv.cur = sc
	sv.n++
	reply := "reply." + strconv.Itoa(sv.n)
	subj := map[string]string{"call": "call.test.model.m", "auth": "auth.test.model.a", "access": "access.test.model",
		"get": "get.test.model", "new": "call.test.model.new"}[sc.Req]
	req := map[string]interface{}{}
	if sc.Status != 0 || len(sc.Header) > 0 {
		req["isHttp"] = true
	}
	if sc.RQuery != "" {
		req["query"] = sc.RQuery
	}
	if sc.RCID != "" {
		req["cid"] = sc.RCID
	}
	if sc.RParams != nil {
		req["params"] = marshalerJ{*sc.RParams}
	}
	if sc.RToken != nil {
		req["token"] = marshalerJ{*sc.RToken}
	}
	data, _ := json.Marshal(req)
	sv.c.in <- &nats.Msg{Subject: subj, Reply: reply, Data: data}
	for {
		select {
		case m := <-sv.c.pub:
			if m.subj == reply {
				return m.data, true
			}
		case <-time.After(5 * time.Second):
			return nil, false
		}
	}
}

func metaTerm(sc *script) string {
	var hs []string
	for _, h := range sc.Header {
		hs = append(hs, "("+B(h[0])+","+BList(h[1:])+")")
	}
	return fmt.Sprintf("(meta_of (MkMeta %d %s))", sc.Status, List(hs))
}

func errTerm(code, msg string, data *J) string {
	d := "None"
	if data != nil && data.K != 'n' { // toGo(null) is a nil interface: Error.Data unset
		d = "(Some " + data.term() + ")"
	}
	return fmt.Sprintf("(MkErr %s %s %s)", B(code), B(msg), d)
}

func outcomeTerm(sc *script) string {
	switch sc.Kind {
	case "ok":
		return "(HOk (Some " + sc.Result.term() + "))"
	case "oknil":
		return "(HOk None)"
	case "resource":
		return "(HResource " + B(sc.Rid) + ")"
	case "new":
		return "(HNew " + B(sc.Rid) + ")"
	case "error":
		return "(HError (Some " + errTerm(sc.Code, sc.Msg, sc.Data) + "))"
	case "errorpredef":
		return "(HError (Some " + errTerm(sc.Code, predefDefault[sc.Code], nil) + "))"
	case "panicpredef":
		return "(HPanicError " + errTerm(sc.Code, predefDefault[sc.Code], nil) + ")"
	case "errornilface":
		return "(HErrorOther " + B("panic in Error method") + ")"
	case "errorbaddata":
		return "(HError None)" // the pre-encoded system.internalError payload
	case "okbad":
		return "(HErrorOther " + B("json: unsupported type: func()") + ")"
	case "errornil":
		return "(HError None)"
	case "errorother":
		return "(HErrorOther " + B(sc.Msg) + ")"
	case "notfound":
		return "HNotFound"
	case "methodnotfound":
		return "HMethodNotFound"
	case "invalidparams":
		return "(HInvalidParams " + B(sc.Msg) + ")"
	case "invalidquery":
		return "(HInvalidQuery " + B(sc.Msg) + ")"
	case "access":
		return "(HAccess " + Bool(sc.Get) + " " + B(sc.Call) + ")"
	case "denied":
		return "HAccessDenied"
	case "granted":
		return "HAccessGranted"
	case "model":
		if sc.Req == "query" {
			return "(HModel " + sc.Result.term() + " [])"
		}
		return "(HModel " + sc.Result.term() + " " + B(sc.Query) + ")"
	case "collection":
		if sc.Req == "query" {
			return "(HCollection " + sc.Result.term() + " [])"
		}
		return "(HCollection " + sc.Result.term() + " " + B(sc.Query) + ")"
	case "panicerror":
		return "(HPanicError " + errTerm(sc.Code, sc.Msg, sc.Data) + ")"
	case "panicstring", "panicerr":
		return "(HPanicString " + B(sc.Msg) + ")"
	case "noreply":
		return "HNoReply"
	}
	panic("harness: outcomeTerm " + sc.Kind)
}

func jqOutcome(raw json.RawMessage, q string, err error) string {
	if err != nil {
		return outcomeErr()
	}
	a, okk := parseAST(raw)
	if !okk {
		return outcomeErr()
	}
	return ok(pair(a.term(), B(q)))
}

// client side: everything resprot tells about a payload
func parseTerm(payload []byte) (string, [3]bool) {
	pbuf := append([]byte{}, payload...)
	resp := resprot.ParseResponse(pbuf)
	scribble(pbuf, len(pbuf))
	has := [3]bool{resp.HasResult(), resp.HasResource(), resp.HasError()}
	// which error: unmarshal failure, "invalid response", or a decoded error object
	var probe resprot.Response
	perr := error(nil)
	if len(payload) > 0 {
		perr = json.Unmarshal(payload, &probe)
	}
	errT := "None"
	switch {
	case resp.Error == nil:
	case len(payload) > 0 && perr != nil && resp.Error.Code == res.CodeInternalError && resp.Error.Message == "Internal error: "+perr.Error():
		errT = "(Some PEUnmarshal)"
	case (len(payload) == 0 || (perr == nil && probe.Error == nil && probe.Resource == "" && probe.Result == nil)) &&
		resp.Error.Code == res.CodeInternalError && resp.Error.Message == "Internal error: invalid response":
		errT = "(Some PEInvalid)"
	default:
		d := "None"
		if resp.Error.Data != nil {
			b, _ := json.Marshal(resp.Error.Data)
			if a, okk := parseAST(b); okk {
				d = "(Some " + a.term() + ")"
			}
		}
		errT = fmt.Sprintf("(Some (PEDecoded (MkErr %s %s %s)))", B(resp.Error.Code), B(resp.Error.Message), d)
	}
	resT := "None"
	if resp.Result != nil {
		a, okk := parseAST(resp.Result)
		if !okk {
			a = jnull()
		}
		resT = "(Some " + pair(B(string(resp.Result)), a.term()) + ")"
	}
	respT := fmt.Sprintf("(MkResponse %s %s %s)", resT, B(string(resp.Resource)), errT)

	var raw json.RawMessage
	err := resp.ParseResult(&raw)
	if resp.Error != nil && (err != error(resp.Error) || err.Error() != resp.Error.Message) {
		reuseImpl = append(reuseImpl, ImplViolation{What: fmt.Sprintf("ParseResult on an error response returns %v, the response's error is %q", err, resp.Error.Message), Desc: mkDesc("respu", string(payload))})
	}
	resultT := outcomeErr()
	if err == nil {
		if raw == nil {
			resultT = ok("None")
		} else if a, okk := parseAST(raw); okk {
			resultT = ok("(Some " + a.term() + ")")
		}
	}
	var rm, rc json.RawMessage
	qm, errm := resp.ParseModel(&rm)
	qc, errc := resp.ParseCollection(&rc)
	g, call, erra := resp.AccessResult()
	accT := outcomeErr()
	if erra == nil {
		accT = ok(pair(Bool(g), B(call)))
	}
	// typed targets: the error branches of json.Unmarshal inside ParseResult / ParseModel / ParseCollection
	var ts string
	var tm []json.RawMessage
	var tc map[string]json.RawMessage
	te1 := resp.ParseResult(&ts)
	_, te2 := resp.ParseModel(&tm)
	_, te3 := resp.ParseCollection(&tc)
	return fmt.Sprintf("(MkG %s (%s,%s,%s) %s %s %s %s (%s,%s,%s))", respT, Bool(has[0]), Bool(has[1]), Bool(has[2]),
		resultT, jqOutcome(rm, qm, errm), jqOutcome(rc, qc, errc), accT, Bool(te1 == nil), Bool(te2 == nil), Bool(te3 == nil)), has
}

func caseResp(sv *svc, sc *script) (Case, *ImplViolation) {
	payload, got := sv.run(sc)
	c := Case{Desc: desc{Kind: "resp", Script: sc}}
	if !got {
		return c, &ImplViolation{What: "no reply published for a request whose handler outcome calls for one", Desc: c.Desc}
	}
	pt, _ := parseTerm(payload)
	c.Term = fmt.Sprintf("CResp %s %s %s %s %s", metaTerm(sc), outcomeTerm(sc), B(string(payload)), goView(payload).term(), pt)
	c.Nontrivial = sc.Status != 0 || len(sc.Header) > 0 || sc.Result != nil || sc.Data != nil
	return c, nil
}

func caseRespU(text string) Case {
	pt, _ := parseTerm([]byte(text))
	c := Case{Desc: mkDesc("respu", text)}
	c.Term = fmt.Sprintf("CRespU %s %s %s", B(text), goView([]byte(text)).term(), pt)
	c.Nontrivial = json.Valid([]byte(text)) && strings.Contains(text, "{")
	return c
}

// the predefined errors of errors.go by code
var predefErr = map[string]*res.Error{
	res.CodeAccessDenied: res.ErrAccessDenied, res.CodeInternalError: res.ErrInternalError, res.CodeInvalidParams: res.ErrInvalidParams,
	res.CodeInvalidQuery: res.ErrInvalidQuery, res.CodeMethodNotFound: res.ErrMethodNotFound, res.CodeNotFound: res.ErrNotFound,
	res.CodeTimeout: res.ErrTimeout,
}

// the documented defaults as literals: the res.Err* variables are pointers that a defect may modify
var predefDefault = map[string]string{
	"system.accessDenied": "Access denied", "system.internalError": "Internal error", "system.invalidParams": "Invalid parameters",
	"system.invalidQuery": "Invalid query", "system.methodNotFound": "Method not found", "system.notFound": "Not found",
	"system.timeout": "Request timeout",
}

// predefIntact reports the predefined error variables that no longer hold their documented value
func predefIntact() []string {
	var bad []string
	for code, e := range predefErr {
		if e.Code != code || e.Message != predefDefault[code] || e.Data != nil {
			bad = append(bad, fmt.Sprintf("%s is now {%q %q %v}", code, e.Code, e.Message, e.Data))
		}
	}
	sort.Strings(bad)
	return bad
}

var predefCodes = []string{res.CodeAccessDenied, res.CodeInternalError, res.CodeInvalidParams, res.CodeInvalidQuery,
	res.CodeMethodNotFound, res.CodeNotFound, res.CodeTimeout}

// errorMatrix: *res.Error values with every predefined code x {default, custom message} x
// {no data, object, array, string, number} sent through r.Error and panic(*res.Error), on every
// request kind (full product when full, else kinds rotate so that every code and every path
// meets every kind), without and (where the kind allows it) with meta; plus the predefined
// error variables themselves.
func errorMatrix(full bool) []*script {
	obj := jobj(mem("reason", jstr("r")), mem("n", jnum("1")))
	sort.Slice(obj.O, func(a, b int) bool { return obj.O[a].Key < obj.O[b].Key })
	arr := jarr(jnum("1"), jstr("x"))
	str := jstr("details")
	num := jnum("42")
	datas := []*J{nil, &obj, &arr, &str, &num}
	kinds := []string{"access", "get", "call", "auth", "new", "query"}
	var out []*script
	i := 0
	for _, code := range predefCodes {
		for _, custom := range []bool{false, true} {
			msg := predefDefault[code]
			if custom {
				msg = "Custom: " + code
			}
			for _, d := range datas {
				for _, path := range []string{"error", "panicerror"} {
					for ki, req := range kinds {
						if !full && ki != i%len(kinds) {
							continue
						}
						out = append(out, &script{Req: req, Kind: path, Code: code, Msg: msg, Data: d})
						// the same with meta on the kinds that can set it (a stride of them unless full)
						if req != "get" && req != "new" && req != "query" && (full || i%3 == 0) {
							out = append(out, &script{Req: req, Kind: path, Code: code, Msg: msg, Data: d, Status: 404, Header: [][]string{{"Location", "/x"}}})
						}
					}
					i++
				}
			}
		}
		for _, req := range kinds {
			out = append(out, &script{Req: req, Kind: "errorpredef", Code: code})
		}
		out = append(out, &script{Req: "call", Kind: "panicpredef", Code: code}, &script{Req: "query", Kind: "panicpredef", Code: code})
	}
	return out
}

func genScript(r *Rng) *script {
	sc := genScript0(r)
	// the request's own fields; with a good chance the handler-supplied values coincide with them
	if r.Chance(50) {
		sc.RQuery = r.Pick([]string{"q=1", "a=b&c=<d>", "limit=10", "x"})
		if (sc.Kind == "model" || sc.Kind == "collection") && sc.Req == "get" && r.Chance(60) {
			sc.Query = r.Pick([]string{sc.RQuery, sc.RQuery, strings.ToUpper(sc.RQuery), sc.RQuery[:len(sc.RQuery)-1], sc.RQuery + "&"}) // RQuery pool is ASCII
		}
		if (sc.Kind == "invalidquery" || sc.Kind == "error" || sc.Kind == "errorother" || sc.Kind == "panicstring") && r.Chance(40) {
			sc.Msg = sc.RQuery
		}
	}
	if r.Chance(40) {
		sc.RCID = r.Pick([]string{"cid1", "bt8v2qnpk3a"})
		if sc.Kind == "ok" && r.Chance(30) {
			j := jstr(sc.RCID)
			sc.Result = &j
		}
	}
	if r.Chance(30) {
		p := genJ(r, 2, false)
		sc.RParams = &p
		if sc.Kind == "ok" && sortedUnique(p) && r.Chance(50) {
			sc.Result = &p
		}
	}
	return sc
}

func genScript0(r *Rng) *script {
	sc := &script{}
	msgs := []string{"", "Custom message", "with \"quotes\" <&>", "é\u2028", "x"}
	codes := []string{"system.notFound", "custom.error", "", "a<b"}
	withMeta := func() {
		if r.Chance(35) {
			sc.Status = pickInt(r, []int{0, 200, 303, 404, 500})
			if r.Chance(60) {
				hs := [][]string{{"Location", "/x"}, {"Set-Cookie", "a=b", "c=d"}, {"X-Empty"}}
				n := 1 + r.Intn(len(hs))
				sc.Header = hs[:n]
			}
		}
	}
	errFields := func() {
		sc.Code, sc.Msg = r.Pick(codes), r.Pick(msgs)
		if r.Chance(40) {
			sc.Code = r.Pick(predefCodes)
			if r.Bool() {
				sc.Msg = predefDefault[sc.Code]
			}
		}
		if r.Chance(40) {
			d := genJ(r, 2, true)
			sc.Data = &d
		}
	}
	switch k := r.Intn(24); {
	case k < 5:
		sc.Req, sc.Kind = r.Pick([]string{"call", "auth"}), "ok"
		j := genJ(r, 3, false)
		sc.Result = &j
		withMeta()
	case k < 6:
		sc.Req, sc.Kind = r.Pick([]string{"call", "auth"}), "oknil"
		withMeta()
	case k < 9:
		sc.Req, sc.Kind, sc.Rid = r.Pick([]string{"call", "auth"}), "resource", r.Pick(ridPool)
		withMeta()
	case k < 10:
		sc.Req, sc.Kind, sc.Rid = "new", "new", r.Pick(ridPool)
	case k < 13:
		sc.Req, sc.Kind = r.Pick([]string{"call", "auth", "get", "access", "new", "query"}), "error"
		errFields()
		if sc.Req == "call" || sc.Req == "auth" || sc.Req == "access" {
			withMeta()
		}
	case k < 14:
		sc.Req, sc.Kind, sc.Msg = r.Pick([]string{"call", "get"}), "errorother", r.Pick(msgs)
	case k < 15:
		sc.Req = r.Pick([]string{"call", "auth", "get", "access", "query", "query"})
		sc.Kind = r.Pick([]string{"notfound", "invalidquery"})
		sc.Msg = r.Pick(msgs)
		if sc.Req != "get" && sc.Req != "query" {
			withMeta()
		}
	case k < 16:
		sc.Req = r.Pick([]string{"call", "auth"})
		sc.Kind = r.Pick([]string{"methodnotfound", "invalidparams"})
		sc.Msg = r.Pick(msgs)
		withMeta()
	case k < 18:
		sc.Req, sc.Kind = "access", r.Pick([]string{"access", "access", "denied", "granted"})
		sc.Get, sc.Call = r.Bool(), r.Pick([]string{"", "*", "set,foo", "a\"b"})
		withMeta()
	case k < 20:
		sc.Req, sc.Kind = r.Pick([]string{"get", "get", "query"}), "model"
		j := genJ(r, 2, false)
		if r.Chance(70) {
			j = J{K: 'o'}
			for _, key := range []string{"a", "b", "ref"} {
				if r.Bool() {
					j.O = append(j.O, M{key, genJ(r, 1, false)})
				}
			}
		}
		sc.Result = &j
		sc.Query = r.Pick([]string{"", "", "q=1", "a=b&c=<d>"})
	case k < 22:
		sc.Req, sc.Kind = r.Pick([]string{"get", "get", "query"}), "collection"
		j := genJ(r, 2, false)
		if r.Chance(70) {
			j = jarr()
			for i := r.Intn(4); i > 0; i-- {
				j.A = append(j.A, genJ(r, 1, false))
			}
		}
		sc.Result = &j
		sc.Query = r.Pick([]string{"", "", "q=1"})
	case k < 23:
		sc.Req = r.Pick([]string{"call", "auth", "get", "query"})
		sc.Kind = r.Pick([]string{"panicerror", "panicstring", "panicerr"})
		errFields()
	default:
		sc.Req, sc.Kind = r.Pick([]string{"call", "auth", "get"}), r.Pick([]string{"noreply", "errornil"})
	}
	return sc
}

// a response-shaped text as some other implementation might send it
func genRespAST(r *Rng) J {
	o := J{K: 'o'}
	refv := func() J {
		switch r.Intn(6) {
		case 0:
			return jstr("a.b")
		case 1:
			return jnull()
		case 2:
			return jobj(mem("rid", jnum("5")))
		case 3:
			return jobj(mem(caseVariant(r, "rid"), jstr(r.Pick(ridPool))), mem("soft", jbool(true)))
		}
		return jobj(mem(caseVariant(r, "rid"), jstr(r.Pick(ridPool))))
	}
	errv := func() J {
		switch r.Intn(8) {
		case 0:
			return jnull()
		case 1:
			return jstr("boom")
		case 2:
			return jobj(mem("code", jnum("5")), mem("message", jstr("m")))
		case 3:
			return jobj()
		}
		e := jobj(mem(caseVariant(r, "code"), jstr(r.Pick([]string{"system.notFound", "x", ""}))), mem(caseVariant(r, "message"), jstr(genStr(r))))
		if r.Chance(40) {
			e.O = append(e.O, M{caseVariant(r, "data"), genJ(r, 2, true)})
		}
		if r.Chance(15) {
			e.O = append(e.O, M{"message", jnull()})
		}
		return e
	}
	n := 1 + r.Intn(3)
	if r.Chance(8) {
		n = 0
	}
	for i := 0; i < n; i++ {
		switch r.Intn(7) {
		case 0, 1:
			o.O = append(o.O, M{caseVariant(r, "result"), genJ(r, 2, false)})
		case 2:
			o.O = append(o.O, M{caseVariant(r, "resource"), refv()})
		case 3, 4:
			o.O = append(o.O, M{caseVariant(r, "error"), errv()})
		case 5:
			o.O = append(o.O, M{"meta", jobj(mem("status", jnum("404")))})
		default:
			o.O = append(o.O, M{r.Pick(keyPool), genJ(r, 1, false)})
		}
	}
	if r.Chance(6) {
		return genJ(r, 1, false)
	}
	return o
}

// ---------------------------------------------------------------- main

func main() {
	o := ParseOpts()
	r := NewRng(o.Seed)
	var cases []Case
	var impl []ImplViolation
	dist := map[string]int{}
	add := func(kind string, c Case) {
		dist[kind]++
		if c.Nontrivial {
			dist["nontrivial"]++
		}
		cases = append(cases, c)
	}
	thorough := o.Tier == "thorough"
	scale := func(quick, thor int) int {
		if o.N > 0 {
			return o.N
		}
		if thorough {
			return thor
		}
		return quick
	}

	if o.Replay != "" {
		var d desc
		if err := LoadReplay(o.Replay, &d); err != nil {
			panic(err)
		}
		switch d.Kind {
		case "str":
			add("replay", caseStr(d.input(0)))
		case "unq":
			add("replay", caseUnq(d.input(0)))
		case "ref":
			add("replay", caseRef(d.input(0)))
		case "refu":
			add("replay", caseRefU(d.input(0)))
		case "dv":
			via := d.Via
			if via == "" {
				via = "generic"
			}
			c, iv := caseDV(*d.J, via)
			if iv != nil {
				impl = append(impl, *iv)
			}
			add("replay", c)
		case "dvu":
			add("replay", caseDVU(d.input(0)))
		case "dverr":
			k, _ := strconv.Atoi(d.Via)
			add("replay", caseDVErr(k))
		case "valm":
			k, _ := strconv.Atoi(d.Via)
			add("replay", caseValM(k))
		case "val":
			add("replay", caseVal([3]string{d.input(0), d.input(1), d.input(2)}))
		case "reuse":
			mode, _ := strconv.Atoi(d.Via)
			add("replay", caseReuse(mode, d.input(0), d.input(1), d.input(2)))
		case "respu":
			add("replay", caseRespU(d.input(0)))
		case "resp":
			sv := newSvc()
			if d.Script.Seq {
				for _, m := range seqMutators() {
					sv.run(m)
				}
			}
			c, iv := caseResp(sv, d.Script)
			sv.stop()
			if iv != nil {
				impl = append(impl, *iv)
			} else {
				add("replay", c)
			}
		default:
			panic("unknown replay kind " + d.Kind)
		}
	} else {
		// (a) strings: every 1-byte string, every valid 2-byte string (quick: a stride of them), random ones
		for b := 0; b < 256; b++ {
			add("str1", caseStr(string([]byte{byte(b)})))
		}
		stride := 7
		if thorough {
			stride = 1
		}
		k := 0
		for a := 0; a < 256; a++ {
			for b := 0; b < 256; b++ {
				s := string([]byte{byte(a), byte(b)})
				if !utf8.ValidString(s) {
					continue
				}
				special := a < 0x20 || b < 0x20 || strings.ContainsAny(s, "\"\\<>&\x7f") || a >= 0x80
				k++
				if special || k%stride == 0 {
					if !thorough && special && a < 0x80 && !strings.ContainsAny(s, "\"\\<>&") && k%3 != 0 {
						continue
					}
					add("str2", caseStr(s))
				}
			}
		}
		for i := scale(300, 6000); i > 0; i-- {
			add("str-utf8", caseStr(randUTF8(r, 1+r.Intn(12))))
		}
		for i := scale(150, 3000); i > 0; i-- {
			add("str-bytes", caseStr(randBytes(r, 1+r.Intn(8))))
		}
		for _, s := range strPool {
			add("str-pool", caseStr(s))
		}
		for _, s := range []string{"\xe2\x80", "\xe2\x80\xa8", "\xe2\x80\xa9", "\xe2\x80\xaa", "\xed\xa0\x80", "\xed\x9f\xbf", "\xf4\x8f\xbf\xbf", "\xf4\x90\x80\x80",
			"\xc0\x80", "\xc1\xbf", "\xe0\x9f\xbf", "\xe0\xa0\x80", "\xf0\x8f\xbf\xbf", "\xf0\x90\x80\x80", "a\xffb", "\xef\xbf\xbd"} {
			add("str-edge", caseStr(s))
		}
		// (b) string tokens through the decoder
		for i := scale(250, 5000); i > 0; i-- {
			var body string
			switch r.Intn(6) {
			case 0:
				body = renderStr(r, randUTF8(r, 1+r.Intn(6)), true)
				body = body[1 : len(body)-1]
			case 1:
				body = r.Pick([]string{`\ud83d\ude00`, `\ud83d`, `\ud83dx`, `\ude00\ud83d`, `\ud83d\u0041`, `\uD83D\uDE00`, `\u00e9`, `\u0000`, `\/`, `\x`, `\u12G4`, `\u12`,
					`a"b`, `abc\`, `\\`, `\"`, "\x01", "\x7f", `\ud800\udc00`, `\udbff\udfff`, `\ud7ff`, `\ue000`, `\ufffd`, `\uFFFF`, `\ud83d\ud83d\ude00`, `\b\f\n\r\t`})
			case 2:
				body = randBytes(r, 1+r.Intn(6))
			default:
				b, _ := json.Marshal(genStr(r))
				body = string(b[1 : len(b)-1])
			}
			add("unquote", caseUnq(body))
		}
		// (c) references
		for _, rid := range ridPool {
			add("ref", caseRef(rid))
		}
		for _, s := range strPool {
			add("ref", caseRef(s))
		}
		for i := scale(150, 3000); i > 0; i-- {
			if r.Chance(70) {
				add("ref", caseRef(randUTF8(r, r.Intn(10))))
			} else {
				add("ref", caseRef(randBytes(r, r.Intn(8))))
			}
		}
		for i := scale(150, 3000); i > 0; i-- {
			t := renderOuter(r, genValueAST(r), 25)
			if r.Chance(10) {
				t = malform(r, t)
			}
			add("ref-unmarshal", caseRefU(t))
		}
		// (d) data values
		addDV := func(kind string, j J, via string) {
			c, iv := caseDV(j, via)
			if iv != nil {
				impl = append(impl, *iv)
			}
			add(kind, c)
		}
		for _, j := range envelopeValues() {
			for _, via := range vias(j) {
				addDV("datavalue-envelope", j, via)
			}
			if j.K == 'o' && len(j.O) == 1 && j.O[0].Key == "data" {
				addDV("datavalue-envelope", j, "datavalue-marshaler")
			}
		}
		for i := scale(200, 4000); i > 0; i-- {
			j := genJ(r, 3, false)
			if r.Chance(25) { // wrap in the protocol's own envelopes
				for n := 1 + r.Intn(3); n > 0; n-- {
					j = jobj(mem(r.Pick([]string{"data", "data", "rid", "action", "result", "error", "value"}), j))
				}
			}
			vs := vias(j)
			addDV("datavalue", j, vs[r.Intn(len(vs))])
		}
		for i := scale(200, 4000); i > 0; i-- {
			t := renderOuter(r, genValueAST(r), 30)
			if r.Chance(12) {
				t = malform(r, t)
			}
			add("datavalue-unmarshal", caseDVU(t))
			// the other direction: what was decoded from a text is encoded and decoded again
			var raw json.RawMessage
			if resprot.UnmarshalDataValue([]byte(t), &raw) == nil {
				if a, okk := parseAST(raw); okk && r.Chance(50) {
					addDV("datavalue-reencode", a, "marshaler")
				}
			}
		}
		for k := 0; k < 5; k++ {
			add("datavalue-unmarshalable", caseDVErr(k))
		}
		for k := 0; k < 9; k++ {
			add("value-marshal", caseValM(k))
		}
		var streamTexts []string
		// (e) store values: triples of texts
		for i := scale(500, 10000); i > 0; i-- {
			a := genValueAST(r)
			var ts [3]string
			ts[0] = renderOuter(r, a, 25)
			for k := 1; k < 3; k++ {
				switch r.Intn(6) {
				case 0, 1:
					ts[k] = renderOuter(r, a, 40) // same value, other layout
				case 2:
					b := a
					if b.K == 'o' {
						b.O = append(append([]M{}, b.O...), M{r.Pick(keyPool), genJ(r, 1, false)})
					} else {
						b = jobj(mem("data", a))
					}
					ts[k] = renderOuter(r, b, 10)
				case 3:
					ts[k] = malform(r, ts[0])
				default:
					ts[k] = renderOuter(r, genValueAST(r), 25)
				}
			}
			add("value", caseVal(ts))
			streamTexts = append(streamTexts, ts[0], ts[1], ts[2])
			if len(streamTexts) >= 24 {
				if iv := streamAlias(streamTexts); iv != nil {
					impl = append(impl, *iv)
				}
				dist["value-stream"]++
				streamTexts = nil
			}
		}
		// numbers: values that differ only where float64 cannot tell, and the spellings of one number
		for _, ns := range [][3]string{{"9007199254740992", "9007199254740993", "9007199254740992.0"}, {"-9007199254740992", "-9007199254740993", "-9007199254740994"},
			{"9223372036854775807", "9223372036854775808", "9.223372036854775807e18"}, {"-9223372036854775808", "-9223372036854775809", "-9223372036854775808.0"},
			{"1.0", "1", "1e0"}, {"-0", "0", "0.0"}, {"0.1", "0.10000000000000000555", "0.1000000000000000055511151231257827"},
			{"100", "1e2", "1E+2"}, {"1e400", "1e401", "1e400"}, {"3.141592653589793238462643383279", "3.141592653589793", "3.1415926535897932"},
			{"18446744073709551616", "18446744073709551617", "18446744073709551616"}} {
			for _, tmpl := range []string{`%s`, `{"data":%s}`, `{"data":[%s]}`, `{"data":{"n":%s}}`, `{"data":[[{"a":[%s,"x"]}]]}`} {
				add("value-numbers", caseVal([3]string{fmt.Sprintf(tmpl, ns[0]), fmt.Sprintf(tmpl, ns[1]), fmt.Sprintf(tmpl, ns[2])}))
			}
			add("value-numbers", caseVal([3]string{fmt.Sprintf(`{"data":[%s]}`, ns[0]), fmt.Sprintf(`{"data":[%s]}`, ns[1]), fmt.Sprintf(`{"data":[%s]}`, ns[0])}))
		}
		for _, ts := range [][3]string{{"", " ", "\n"}, {"1", " 1", "1 "}, {`{"data":1}`, "1", "1.0"}, {`{"rid":"a"}`, `{"rid":"a","soft":false}`, `{"rid":"a","soft":true}`},
			{`{"action":"delete"}`, `{"action":"delete","x":1}`, `{"data":{"action":"delete"}}`}, {`{"data":[1]}`, `{"data":[1] }`, `{"data": [1]}`}, {"null", `{"data":null}`, "{}"}} {
			add("value", caseVal(ts))
		}
		// (e') reuse: every ordered pair of classifier categories, B and a sibling C of B's category decoded into a
		// Value / slice element / map entry that held A before
		cats := [][2]string{{"5", "6"}, {`"s"`, `"t"`}, {`{"data":[1]}`, `{"data":[2]}`}, {`{"data":5}`, `{"data":6}`}, {`{"data":{"a":1}}`, `{"x":0,"data":{"a":2}}`},
			{`{"rid":"a.b"}`, `{"rid":"c.d"}`}, {`{"rid":"a.b","soft":true}`, `{"rid":"c.d","soft":true}`},
			{`{"action":"delete"}`, `{"action":"delete","x":1}`}, {`[1]`, `{}`}, {`{"rid":"a..b"}`, `{"data":1,"rid":"a.b"}`}}
		for mode := 0; mode < 4; mode++ {
			for _, ca := range cats {
				for _, cb := range cats {
					add("value-reuse", caseReuse(mode, ca[0], cb[0], cb[1]))
				}
			}
		}
		for i := scale(120, 3000); i > 0; i-- {
			a, b := render(r, genValueAST(r), 20), render(r, genValueAST(r), 20)
			c := render(r, genValueAST(r), 20)
			if r.Chance(50) {
				c = b
			}
			add("value-reuse", caseReuse(r.Intn(4), a, b, c))
		}
		// (f) responses of a real service
		sv := newSvc()
		// every reply builder once without and once with meta (all static payloads are hit)
		one := jobj(mem("a", jnum("1")))
		for _, meta := range []bool{false, true} {
			for _, sc := range []*script{
				{Req: "call", Kind: "ok", Result: &one}, {Req: "auth", Kind: "oknil"}, {Req: "call", Kind: "resource", Rid: "test.model.1"},
				{Req: "call", Kind: "resource", Rid: "bad..rid"}, {Req: "call", Kind: "error", Code: "custom.code", Msg: "Custom", Data: &one},
				{Req: "call", Kind: "errornil"}, {Req: "call", Kind: "errornilface"}, {Req: "call", Kind: "errorother", Msg: "plain error"}, {Req: "call", Kind: "notfound"},
				{Req: "auth", Kind: "methodnotfound"}, {Req: "call", Kind: "invalidparams"}, {Req: "call", Kind: "invalidparams", Msg: "bad p"},
				{Req: "call", Kind: "invalidquery"}, {Req: "auth", Kind: "invalidquery", Msg: "bad q"}, {Req: "access", Kind: "access", Get: true, Call: "set"},
				{Req: "access", Kind: "access", Get: true}, {Req: "access", Kind: "access", Call: "*"}, {Req: "access", Kind: "access"},
				{Req: "access", Kind: "denied"}, {Req: "access", Kind: "granted"}, {Req: "call", Kind: "panicerror", Code: "c", Msg: "m"},
				{Req: "call", Kind: "panicstring", Msg: "boom"}, {Req: "auth", Kind: "panicerr", Msg: "boom"}, {Req: "call", Kind: "noreply"},
				{Req: "access", Kind: "notfound"}, {Req: "access", Kind: "error", Code: "c", Msg: "m"},
			} {
				if meta {
					sc.Status, sc.Header = 404, [][]string{{"Location", "/x"}}
				}
				if c, iv := caseResp(sv, sc); iv != nil {
					impl = append(impl, *iv)
				} else {
					add("response-fixed", c)
				}
			}
		}
		for _, sc := range []*script{{Req: "call", Kind: "okbad"}, {Req: "auth", Kind: "okbad"}, {Req: "call", Kind: "errorbaddata"}, {Req: "get", Kind: "errorbaddata"},
			{Req: "new", Kind: "new", Rid: "test.model.2"}, {Req: "new", Kind: "new", Rid: "a b"}, {Req: "get", Kind: "model", Result: &one},
			{Req: "get", Kind: "model", Result: &one, Query: "q=1"}, {Req: "get", Kind: "collection", Result: &J{K: 'a', A: []J{one}}},
			{Req: "get", Kind: "collection", Result: &J{K: 'a'}, Query: "q=1"}, {Req: "get", Kind: "notfound"}, {Req: "get", Kind: "noreply"}} {
			if c, iv := caseResp(sv, sc); iv != nil {
				impl = append(impl, *iv)
			} else {
				add("response-fixed", c)
			}
		}
		// envelope-shaped values as result, model, collection member and error data
		for i, v := range envelopeValues() {
			if !sortedUnique(v) {
				continue
			}
			v := v
			scs := []*script{{Req: []string{"call", "auth"}[i%2], Kind: "ok", Result: &v}}
			if thorough || i%3 == 0 {
				model := v
				if model.K != 'o' {
					model = jobj(mem("data", v))
				}
				coll := jarr(v, jobj(mem("data", v)))
				scs = append(scs, &script{Req: "get", Kind: "model", Result: &model, Query: []string{"", "q=1"}[i%2]},
					&script{Req: "get", Kind: "collection", Result: &coll},
					&script{Req: []string{"call", "get", "access", "auth", "new"}[i%5], Kind: []string{"error", "panicerror"}[i%2], Code: "system.notFound", Msg: "Not found", Data: &v})
			}
			for _, sc := range scs {
				if c, iv := caseResp(sv, sc); iv != nil {
					impl = append(impl, *iv)
				} else {
					add("response-envelope", c)
				}
			}
		}
		for _, sc := range errorMatrix(thorough) {
			if c, iv := caseResp(sv, sc); iv != nil {
				impl = append(impl, *iv)
			} else {
				add("response-error-matrix", c)
			}
		}
		for i := scale(350, 7000); i > 0; i-- {
			c, iv := caseResp(sv, genScript(r))
			if iv != nil {
				impl = append(impl, *iv)
				sv.stop()
				sv = newSvc()
				continue
			}
			add("response", c)
		}
		// handler-supplied values that coincide with fields of the request being answered: the client must still
		// decode exactly what the handler supplied (nothing may be dropped or abbreviated because the requester "knows" it)
		for qi, rq := range []string{"q=1", "a=b&c=d", "limit=10&from=0", "name=é&tag=<x>"} {
			parts := strings.SplitN(rq, "&", 2)
			reordered := rq
			if len(parts) == 2 {
				reordered = parts[1] + "&" + parts[0]
			}
			rs := []rune(rq)
			for vi, q := range []string{rq, string(rs[:len(rs)/2]), string(rs[len(rs)/2:]), strings.ToUpper(rq), reordered, "", rq + "&x=1", "other=1", "?" + rq, rq + " "} {
				m, c := jobj(mem("query", jstr(rq))), jarr(jstr(rq), jstr(q))
				for _, sc := range []*script{{Req: "get", Kind: "model", Result: &m, Query: q, RQuery: rq}, {Req: "get", Kind: "collection", Result: &c, Query: q, RQuery: rq},
					{Req: "get", Kind: "model", Result: &m, Query: q}, {Req: "get", Kind: "collection", Result: &c, Query: q, RQuery: strings.ToUpper(rq)}} {
					if (qi+vi)%2 == 0 {
						sc.RCID = "cid123"
					}
					if cs, iv := caseResp(sv, sc); iv != nil {
						impl = append(impl, *iv)
					} else {
						add("response-echo", cs)
					}
				}
			}
			cid, method := "cid"+strconv.Itoa(qi), "m"
			params := jobj(mem("query", jstr(rq)), mem("rid", jstr("test.model")))
			cidJ, ridJ := jstr(cid), jstr("test.model")
			edata := jobj(mem("cid", jstr(cid)), mem("query", jstr(rq)))
			for _, sc := range []*script{
				{Req: "call", Kind: "ok", Result: &cidJ}, {Req: "call", Kind: "ok", Result: &params}, {Req: "auth", Kind: "ok", Result: &ridJ},
				{Req: "call", Kind: "resource", Rid: "test.model"}, {Req: "auth", Kind: "resource", Rid: "test.model?" + rq}, {Req: "new", Kind: "new", Rid: "test.model"},
				{Req: "call", Kind: "error", Code: rq, Msg: method, Data: &edata}, {Req: "get", Kind: "error", Code: "test.model", Msg: rq},
				{Req: "call", Kind: "invalidquery", Msg: rq}, {Req: "get", Kind: "invalidquery", Msg: rq}, {Req: "call", Kind: "invalidparams", Msg: string(printJ(params))},
				{Req: "access", Kind: "access", Get: true, Call: method}, {Req: "access", Kind: "access", Call: rq}, {Req: "call", Kind: "panicstring", Msg: rq},
				{Req: "call", Kind: "errorother", Msg: cid}, {Req: "query", Kind: "model", Result: &params}, {Req: "query", Kind: "error", Code: "q=1", Msg: "q=1"},
			} {
				sc.RQuery, sc.RCID, sc.RParams, sc.RToken = rq, cid, &params, &edata
				if cs, iv := caseResp(sv, sc); iv != nil {
					impl = append(impl, *iv)
				} else {
					add("response-echo", cs)
				}
			}
		}
		// sequences in this one process: helper calls with a custom message (on Request and on QueryRequest), then
		// responses built from the predefined error VARIABLES through every path that encodes them (not the
		// pre-encoded static payloads); the expectation is the literal documented code and message
		for round := 0; round < 2; round++ {
			seq := seqMutators()
			nmut := len(seq)
			for _, code := range predefCodes {
				for _, req := range []string{"call", "auth", "get", "access", "new", "query"} {
					seq = append(seq, &script{Req: req, Kind: "errorpredef", Code: code}, &script{Req: req, Kind: "panicpredef", Code: code})
				}
			}
			hdr := [][]string{{"Location", "/x"}}
			for _, req := range []string{"call", "auth"} {
				for _, kind := range []string{"notfound", "methodnotfound", "invalidparams", "invalidquery"} {
					seq = append(seq, &script{Req: req, Kind: kind, Status: 404, Header: hdr})
				}
			}
			seq = append(seq, &script{Req: "access", Kind: "denied", Status: 403}, &script{Req: "access", Kind: "access", Status: 403},
				&script{Req: "access", Kind: "notfound", Status: 404}, &script{Req: "access", Kind: "invalidquery", Status: 400})
			for i, sc := range seq {
				sc.Seq = i >= nmut
				if c, iv := caseResp(sv, sc); iv != nil {
					impl = append(impl, *iv)
				} else {
					add("response-sequence", c)
				}
			}
		}
		sv.stop()
		if bad := predefIntact(); len(bad) > 0 {
			impl = append(impl, ImplViolation{What: "a predefined error variable was modified while serving requests: " + strings.Join(bad, "; "),
				Desc: desc{Kind: "predefined-errors"}, Tags: []string{"predefined-error-mutated"}})
		}
		// (g) arbitrary response texts
		for i := scale(300, 6000); i > 0; i-- {
			t := renderOuter(r, genRespAST(r), 25)
			if r.Chance(12) {
				t = malform(r, t)
			}
			add("response-text", caseRespU(t))
		}
		for _, t := range []string{"", "null", "[]", "5", `"x"`, "{}", `{"result":null}`, `{"error":null}`, `{"resource":null}`, `{"resource":{"rid":""}}`,
			`{"result":1,"resource":{"rid":"a"}}`, `{"result":1,"error":{"code":"c","message":"m"}}`, `{"error":{"code":"a"},"error":{"message":"b"}}`} {
			add("response-text", caseRespU(t))
		}
	}
	impl = append(impl, reuseImpl...)
	Emit(o, "C18", "From GoRes Require Import Run.Run_C18.", "ccase",
		"json.Marshal of every 1-byte string, valid 2-byte strings (all in thorough, a stride in quick) and random valid/invalid UTF-8 vs json_escape; string tokens through the decoder vs json_unescape; Ref/SoftRef marshal+unmarshal; resprot data values on random ASTs and texts (also into used targets); store values decoded into used Values / slice elements / map entries for every ordered pair of categories; triples of RES-value-shaped JSON texts (random white space, extra/duplicate/case-folded members, malformed variants) through store.Value.UnmarshalJSON directly and via json.Unmarshal with the Equal matrix; handler outcomes run on a real res.Service over a recording Conn and parsed with resprot.ParseResponse; arbitrary response texts; non-trivial = escaping changes the string / container data value / a non-primitive store value or an Equal pair / a response with meta, result or error data; distinct by input",
		cases, dist, nil, impl, 1500)
}
