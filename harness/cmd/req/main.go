// Correspondence harness for C04 / C05 (request path of res.Service).
//
// A real res.Service is served on a recording connection that hands a request to the service once per subscription whose subject matches (the harness implements
// res.Conn; the service's in-channel is handed over by ChanSubscribe, so *nats.Msg
// requests are injected directly).  Handlers are closures interpreting the same
// action SCRIPTS as coq/Req/Model.v and record everything they can read from the
// request.  Routing is taken as a black box: Mux.GetHandler(rname) of the same
// service tells which pattern (marked through Handler.Type), params and group the
// request resolves to (that is property C06).
//
// All cases run in a child process of this binary (one child for many cases, lines
// of JSON on stdout), so that a service that dies - a panic escaping a handler
// kills the whole process - is observed as a result (crash) instead of killing
// the harness.
//
//	-prop C04|C05   which property's case distribution / evaluator module
package main

import (
	"bufio"
	"bytes"
	"encoding/json"
	"errors"
	"flag"
	"fmt"
	"io"
	"net/url"
	"os"
	"os/exec"
	"path/filepath"
	"reflect"
	"runtime"
	"sort"
	"strconv"
	"strings"
	"sync"
	"sync/atomic"
	"time"

	res "github.com/jirenius/go-res"
	"github.com/jirenius/go-res/logger"
	"github.com/jirenius/go-res/verifhook"
	nats "github.com/nats-io/nats.go"

	. "verifharness/common"
)

// ---------------------------------------------------------------- descriptions (replayable)

type Val struct {
	K string            `json:"k"` // null str int bool map list bad
	S string            `json:"s,omitempty"`
	I int               `json:"i,omitempty"`
	B bool              `json:"b,omitempty"`
	M map[string]string `json:"m,omitempty"`
	L []int             `json:"l,omitempty"`
}

type RErr struct {
	Code string `json:"code"`
	Msg  string `json:"msg"`
	Data Val    `json:"data"`
}

type Action struct {
	Op   string `json:"op"`             // reply timeout event panic status header token value
	Kind string `json:"kind,omitempty"` // reply kind / panic kind
	EK   string `json:"ek,omitempty"`   // reply error: err | nil | go
	V    *Val   `json:"v,omitempty"`
	S    string `json:"s,omitempty"`
	S2   string `json:"s2,omitempty"`
	N    int    `json:"n,omitempty"`
	B    bool   `json:"b,omitempty"`
	E    *RErr  `json:"e,omitempty"`
}

type Handlers struct {
	Pid    int                 `json:"pid"`
	Access *[]Action           `json:"access,omitempty"`
	Get    *[]Action           `json:"get,omitempty"`
	New    *[]Action           `json:"new,omitempty"`
	Call   map[string][]Action `json:"call,omitempty"`
	Auth   map[string][]Action `json:"auth,omitempty"`
}

type PatternDef struct {
	Mounts  []string `json:"mounts,omitempty"`  // mount paths, outermost first, of the sub-Mux the pattern is registered on
	Route   bool     `json:"route,omitempty"`   // that sub-Mux is created with Route (else NewMux + Mount)
	Late    bool     `json:"late,omitempty"`    // registered after its Mux was mounted
	Opt     string   `json:"options,omitempty"` // handler set built through the Option API; the get handler as "model" | "collection" | "resource"
	Pattern string   `json:"pattern"`           // relative to the service name / to its sub-Mux
	Group   string   `json:"group,omitempty"`
	H       Handlers `json:"h"`
}

type ReqData struct {
	CID        string              `json:"cid"`
	Params     string              `json:"params"` // raw JSON text
	Token      string              `json:"token"`
	Header     map[string][]string `json:"header"`
	Host       string              `json:"host"`
	RemoteAddr string              `json:"remoteAddr"`
	URI        string              `json:"uri"`
	Query      string              `json:"query"`
	IsHTTP     bool                `json:"isHttp"`
}

type Request struct {
	Parts   []string `json:"parts"` // [type, rname, method] the subject was built from; empty = malformed on purpose
	Subject string   `json:"subject"`
	Reply   string   `json:"reply"`
	PKind   string   `json:"payload_kind"` // full partial empty obj null bad
	Payload string   `json:"payload"`      // as sent
	Data    ReqData  `json:"data"`         // the fields the payload was built from (zero if absent)
}

type desc struct {
	Kind     string       `json:"kind"` // single | conc | pair (reqs[0] is stopped in its handler until reqs[1] is done) | flood
	Service  string       `json:"service"`
	Patterns []PatternDef `json:"patterns"`
	Req      Request      `json:"req"`            // single
	Reqs     []Request    `json:"reqs,omitempty"` // conc
	Workers  int          `json:"workers,omitempty"`
	Twice    bool         `json:"read_twice,omitempty"` // pair: the stopped handler also reads before stopping
	GenSeed  uint64       `json:"gen_seed,omitempty"`   // flood: the requests are regenerated from this (they are left out of the stored description)
	InCh     int          `json:"in_channel_size,omitempty"`
	Held     int          `json:"held,omitempty"`  // flood: reqs[:held] are stopped in their handlers (one per worker) while reqs[held:held+flood] are delivered
	Flood    int          `json:"flood,omitempty"` // flood: the rest, reqs[held+flood:], is sent after release and quiescence
	Late     int          `json:"late,omitempty"`
	Logger   string       `json:"logger,omitempty"`    // "" = SetLogger(nil) | mem = logger.NewMemLogger() | std = logger.NewStdLogger()
	OnError  bool         `json:"on_error,omitempty"`  // SetOnError(callback)
	HeldType string       `json:"held_type,omitempty"` // held-mix: type of the held request, types queued behind it, one resource or one group
	Mix      []string     `json:"mix,omitempty"`
	SameRes  bool         `json:"same_resource,omitempty"`
	cfgSet   bool         // the generator chose logger / OnError itself
	Burst    int          `json:"burst,omitempty"`           // flood on ONE resource: size of the burst (first request held, the others queued behind it)
	Lookups  int          `json:"lookups,omitempty"`         // conc: goroutines calling Service.With / Service.Resource all the time ...
	LookupPs []string     `json:"lookup_patterns,omitempty"` // ... on fresh names of these patterns (other resources, same token counts)
	Procs    int          `json:"gomaxprocs,omitempty"`      // pair: run with this GOMAXPROCS (1 = both requests share per-P caches such as sync.Pool's)
}

// ---------------------------------------------------------------- Coq printers

func pZ(n int) string { return Z(n) }

func pVal(v Val) string {
	switch v.K {
	case "null":
		return "VNull"
	case "str":
		return "(VStr " + B(v.S) + ")"
	case "int":
		return "(VInt " + pZ(v.I) + ")"
	case "bool":
		return "(VBool " + Bool(v.B) + ")"
	case "map":
		return "(VMap " + AMap(v.M) + ")"
	case "list":
		xs := make([]string, len(v.L))
		for i, x := range v.L {
			xs[i] = pZ(x)
		}
		return "(VList " + List(xs) + ")"
	case "bad":
		return "VBad"
	case "mpanic":
		// only reached for the Data of an *Error (reply / event positions are printed as a panic, see pAction):
		// data that panics while being encoded is answered like data that cannot be encoded (fix 689dc02;
		// before it, the recover path died here)
		return "VBad"
	}
	panic("val kind " + v.K)
}

func pRErr(e RErr) string {
	return "(RErr " + B(e.Code) + " " + B(e.Msg) + " " + pVal(e.Data) + ")"
}

func pv(v *Val) string {
	if v == nil {
		return "VNull"
	}
	return pVal(*v)
}

func pAction(a Action) string {
	if isMPanic(a.V) {
		switch {
		case a.Op == "reply" && (a.Kind == "ok" || a.Kind == "model" || a.Kind == "querymodel" || a.Kind == "collection" || a.Kind == "querycollection"):
			return mpanicAction(a.V.S)
		case a.Op == "token":
			return mpanicAction(a.V.S)
		case a.Op == "event":
			if reservedEvents[a.S] || !res.VerifIsValidPart(a.S) {
				return "AEvent " + B(a.S) + " VNull" // the name is rejected before anything is encoded
			}
			return mpanicAction(a.V.S)
		}
		panic("harness: panicking value in an unsupported position")
	}
	switch a.Op {
	case "reply":
		var k string
		switch a.Kind {
		case "ok":
			k = "KOK " + pv(a.V)
		case "resource":
			k = "KResource " + B(a.S)
		case "error":
			switch a.EK {
			case "err":
				k = "KError (EErr " + pRErr(*a.E) + ")"
			case "nil":
				k = "KError ENilErr"
			case "bad":
				k = "KError (EGoErr " + B(badErrText) + ")"
			default:
				k = "KError (EGoErr " + B(a.S) + ")"
			}
		case "notfound":
			k = "KNotFound"
		case "methodnotfound":
			k = "KMethodNotFound"
		case "invalidparams":
			k = "KInvalidParams " + B(a.S)
		case "invalidquery":
			k = "KInvalidQuery " + B(a.S)
		case "access":
			k = "KAccess " + Bool(a.B) + " " + B(a.S)
		case "accessdenied":
			k = "KAccessDenied"
		case "accessgranted":
			k = "KAccessGranted"
		case "model":
			k = "KModel " + pv(a.V)
		case "querymodel":
			k = "KQueryModel " + pv(a.V) + " " + B(a.S)
		case "collection":
			k = "KCollection " + pv(a.V)
		case "querycollection":
			k = "KQueryCollection " + pv(a.V) + " " + B(a.S)
		case "new":
			k = "KNew " + B(a.S)
		default:
			panic("reply kind " + a.Kind)
		}
		return "AReply (" + k + ")"
	case "timeout":
		return "ATimeout " + pZ(a.N)
	case "event":
		return "AEvent " + B(a.S) + " " + pv(a.V)
	case "panic":
		switch a.Kind {
		case "err":
			return "APanic (PErr " + pRErr(*a.E) + ")"
		case "nilerr":
			return "APanic PNilErr"
		case "goerr":
			return "APanic (PGoErr " + B(a.S) + ")"
		case "str":
			return "APanic (PStr " + B(a.S) + ")"
		case "other":
			return "APanic (POther " + B(strconv.Itoa(a.N)) + ")"
		case "baderr":
			// an error value whose Error method panics is, to the library, an error with this text
			return "APanic (PGoErr " + B(badErrText) + ")"
		case "rt-index", "rt-nilmap", "rt-nilderef", "rt-divide", "rt-assert":
			// a real Go runtime error (a value implementing runtime.Error) is, to the library, an error with its text
			return "APanic (PGoErr " + B(rtText(a.Kind)) + ")"
		}
		panic("panic kind " + a.Kind)
	case "status":
		return "ASetStatus " + pZ(a.N)
	case "header":
		return "AHeader " + B(a.S) + " " + B(a.S2)
	case "token":
		return "ATokenEvent " + pv(a.V)
	case "value":
		return "AValue " + Bool(a.B)
	case "parse":
		raw := ""
		if printReq != nil {
			raw = printReq.Data.Params
			if a.B {
				raw = printReq.Data.Token
			}
		}
		zero, ok, text := parseOutcome(a.S, raw)
		if ok {
			return "AParse " + Bool(a.B) + " " + B(zero) + " (ParseOk " + B(text) + ")"
		}
		return "AParse " + Bool(a.B) + " " + B(zero) + " (ParseFail " + B(text) + ")"
	}
	panic("op " + a.Op)
}

// the request whose case term is being printed: the outcome of decoding ITS raw params / token into the
// script's target type is part of the term (encoding/json trusted)
var printReq *Request

type parseStruct struct {
	ID   int    `json:"id"`
	Pad  string `json:"pad"`
	A    int    `json:"a"`
	User string `json:"user"`
}

func newTarget(kind string) interface{} {
	switch kind {
	case "struct":
		return &parseStruct{}
	case "map":
		return &map[string]interface{}{}
	case "int":
		return new(int)
	case "strs":
		return &[]string{}
	}
	return new(interface{})
}

func seenOf(t interface{}) string {
	b, err := json.Marshal(t)
	if err != nil {
		return "!" + err.Error()
	}
	return string(b)
}

// what json.Unmarshal does with the raw value and a fresh target of that kind
func parseOutcome(kind, raw string) (zero string, ok bool, text string) {
	zero = seenOf(newTarget(kind))
	if raw == "" {
		return zero, true, zero
	}
	t := newTarget(kind)
	if err := json.Unmarshal([]byte(raw), t); err != nil {
		return zero, false, err.Error()
	}
	return zero, true, seenOf(t)
}

func pScript(s []Action) string {
	xs := make([]string, len(s))
	for i, a := range s {
		xs[i] = pAction(a)
	}
	return List(xs)
}

func pOptScript(s *[]Action) string {
	if s == nil {
		return "None"
	}
	return "(Some " + pScript(*s) + ")"
}

func pTable(m map[string][]Action) string {
	keys := make([]string, 0, len(m))
	for k := range m {
		keys = append(keys, k)
	}
	sort.Strings(keys)
	xs := make([]string, len(keys))
	for i, k := range keys {
		xs[i] = "(" + B(k) + "," + pScript(m[k]) + ")"
	}
	return List(xs)
}

func pHandlers(h Handlers) string {
	return fmt.Sprintf("(H %d %s %s %s %s %s)", h.Pid, pOptScript(h.Access), pOptScript(h.Get), pOptScript(h.New), pTable(h.Call), pTable(h.Auth))
}

func pHdr(h map[string][]string) string {
	keys := make([]string, 0, len(h))
	for k := range h {
		keys = append(keys, k)
	}
	sort.Strings(keys)
	xs := make([]string, len(keys))
	for i, k := range keys {
		xs[i] = "(" + B(k) + "," + BList(h[k]) + ")"
	}
	return List(xs)
}

func pReqData(d ReqData) string {
	return fmt.Sprintf("(RD %s %s %s %s %s %s %s %s %s)", B(d.CID), B(d.Params), B(d.Token), pHdr(d.Header), B(d.Host), B(d.RemoteAddr), B(d.URI), B(d.Query), Bool(d.IsHTTP))
}

// ---------------------------------------------------------------- published messages -> AST

type jv struct {
	k    byte // n b i s a o
	b    bool
	i    int64
	s    string
	arr  []jv
	keys []string
	vals []jv
}

var errNotAST = errors.New("outside the AST")

func parseJV(dec *json.Decoder) (jv, error) {
	t, err := dec.Token()
	if err != nil {
		return jv{}, err
	}
	switch v := t.(type) {
	case json.Delim:
		if v == '{' {
			o := jv{k: 'o'}
			for dec.More() {
				kt, err := dec.Token()
				if err != nil {
					return jv{}, err
				}
				ks, ok := kt.(string)
				if !ok {
					return jv{}, errNotAST
				}
				x, err := parseJV(dec)
				if err != nil {
					return jv{}, err
				}
				o.keys = append(o.keys, ks)
				o.vals = append(o.vals, x)
			}
			if _, err := dec.Token(); err != nil {
				return jv{}, err
			}
			return o, nil
		}
		if v == '[' {
			a := jv{k: 'a'}
			for dec.More() {
				x, err := parseJV(dec)
				if err != nil {
					return jv{}, err
				}
				a.arr = append(a.arr, x)
			}
			if _, err := dec.Token(); err != nil {
				return jv{}, err
			}
			return a, nil
		}
		return jv{}, errNotAST
	case string:
		return jv{k: 's', s: v}, nil
	case json.Number:
		n, err := strconv.ParseInt(string(v), 10, 64)
		if err != nil {
			return jv{}, errNotAST
		}
		return jv{k: 'i', i: n}, nil
	case bool:
		return jv{k: 'b', b: v}, nil
	case nil:
		return jv{k: 'n'}, nil
	}
	return jv{}, errNotAST
}

func parseJSON(data []byte) (jv, error) {
	dec := json.NewDecoder(bytes.NewReader(data))
	dec.UseNumber()
	x, err := parseJV(dec)
	if err != nil {
		return jv{}, err
	}
	if _, err := dec.Token(); err != io.EOF {
		return jv{}, errNotAST
	}
	return x, nil
}

func pJV(x jv) string {
	switch x.k {
	case 'n':
		return "JNull"
	case 'b':
		return "(JBool " + Bool(x.b) + ")"
	case 'i':
		if x.i < 0 {
			return "(JNum (" + strconv.FormatInt(x.i, 10) + ")%Z)"
		}
		return "(JNum " + strconv.FormatInt(x.i, 10) + "%Z)"
	case 's':
		return "(JStr " + B(x.s) + ")"
	case 'a':
		xs := make([]string, len(x.arr))
		for i, y := range x.arr {
			xs[i] = pJV(y)
		}
		return "(JArr " + List(xs) + ")"
	case 'o':
		xs := make([]string, len(x.keys))
		for i := range x.keys {
			xs[i] = "(" + B(x.keys[i]) + "," + pJV(x.vals[i]) + ")"
		}
		return "(JObj " + List(xs) + ")"
	}
	panic("jv")
}

func (x jv) get(k string) (jv, bool) {
	for i, kk := range x.keys {
		if kk == k {
			return x.vals[i], true
		}
	}
	return jv{}, false
}

// meta object -> Coq [meta]; ok=false if it has an unexpected shape
func pMeta(x jv, present bool) (string, bool) {
	if !present {
		return "None", true
	}
	if x.k != 'o' {
		return "", false
	}
	status := int64(0)
	hdr := "[]"
	for i, k := range x.keys {
		v := x.vals[i]
		switch k {
		case "status":
			if v.k != 'i' {
				return "", false
			}
			status = v.i
		case "header":
			if v.k != 'o' {
				return "", false
			}
			var hs []string
			for j, hk := range v.keys {
				hv := v.vals[j]
				if hv.k != 'a' {
					return "", false
				}
				var vs []string
				for _, e := range hv.arr {
					if e.k != 's' {
						return "", false
					}
					vs = append(vs, e.s)
				}
				hs = append(hs, "("+B(hk)+","+BList(vs)+")")
			}
			hdr = List(hs)
		default:
			return "", false
		}
	}
	st := strconv.FormatInt(status, 10) + "%Z"
	if status < 0 {
		st = "(" + strconv.FormatInt(status, 10) + ")%Z"
	}
	return "(Some (" + st + "," + hdr + "))", true
}

func onlyKeys(x jv, allowed ...string) bool {
	for _, k := range x.keys {
		ok := false
		for _, a := range allowed {
			if a == k {
				ok = true
			}
		}
		if !ok {
			return false
		}
	}
	seen := map[string]bool{}
	for _, k := range x.keys {
		if seen[k] {
			return false
		}
		seen[k] = true
	}
	return true
}

// payload of a message on a request's reply subject
func pResponse(data []byte) string {
	raw := "(PRaw " + B(string(data)) + ")"
	s := string(data)
	if strings.HasPrefix(s, `timeout:"`) && strings.HasSuffix(s, `"`) && len(s) > 10 {
		n, err := strconv.ParseInt(s[9:len(s)-1], 10, 64)
		if err == nil && strconv.FormatInt(n, 10) == s[9:len(s)-1] {
			return "(PPre " + pZ(int(n)) + ")"
		}
		return raw
	}
	x, err := parseJSON(data)
	if err != nil || x.k != 'o' {
		return raw
	}
	mv, hasMeta := x.get("meta")
	meta, ok := pMeta(mv, hasMeta)
	if !ok {
		return raw
	}
	if r, has := x.get("result"); has && onlyKeys(x, "result", "meta") {
		return "(PResult " + pJV(r) + " " + meta + ")"
	}
	if r, has := x.get("resource"); has && onlyKeys(x, "resource", "meta") {
		rid, ok := r.get("rid")
		if r.k != 'o' || !ok || rid.k != 's' || len(r.keys) != 1 {
			return raw
		}
		return "(PResource " + B(rid.s) + " " + meta + ")"
	}
	if e, has := x.get("error"); has && onlyKeys(x, "error", "meta") {
		if e.k != 'o' || !onlyKeys(e, "code", "message", "data") {
			return raw
		}
		c, ok1 := e.get("code")
		m, ok2 := e.get("message")
		if !ok1 || !ok2 || c.k != 's' || m.k != 's' {
			return raw
		}
		d, hasData := e.get("data")
		ds := "None"
		if hasData {
			ds = "(Some " + pJV(d) + ")"
		}
		return "(PError " + B(c.s) + " " + B(m.s) + " " + ds + " " + meta + ")"
	}
	return raw
}

func pEventPayload(data []byte) string {
	if len(data) == 0 {
		return "(PEvt None)"
	}
	x, err := parseJSON(data)
	if err != nil {
		return "(PRaw " + B(string(data)) + ")"
	}
	return "(PEvt (Some " + pJV(x) + "))"
}

type pub struct {
	subj string
	data []byte
}

func pPubs(ps []pub, reply string) string {
	xs := make([]string, len(ps))
	for i, p := range ps {
		pay := ""
		if p.subj == reply {
			pay = pResponse(p.data)
		} else {
			pay = pEventPayload(p.data)
		}
		xs[i] = "(Pub " + B(p.subj) + " " + pay + ")"
	}
	return List(xs)
}

// ---------------------------------------------------------------- recording connection

type recSub struct {
	subject string
	ch      chan *nats.Msg
}

type recConn struct {
	mu   sync.Mutex
	pubs []pub
	inCh chan *nats.Msg
	subs []recSub
}

// NATS subject matching: token-wise, * = exactly one token, > = one or more remaining tokens
func natsMatch(pattern, subject string) bool {
	pt, st := strings.Split(pattern, "."), strings.Split(subject, ".")
	for i, t := range pt {
		if t == ">" && i == len(pt)-1 {
			return len(st) > i
		}
		if i >= len(st) || (t != "*" && t != st[i]) {
			return false
		}
	}
	return len(pt) == len(st)
}

// deliver hands the message to the service the way a connection without queue semantics does: once per
// subscription whose subject matches (overlapping subscriptions => delivered more than once). A subject
// no subscription matches would not reach the service at all; it is injected once all the same, so that
// handleRequest is also exercised on what a misbehaving gateway could send.
func (c *recConn) deliver(m *nats.Msg) int {
	c.mu.Lock()
	subs := append([]recSub(nil), c.subs...)
	in := c.inCh
	c.mu.Unlock()
	n := 0
	for _, sb := range subs {
		if natsMatch(sb.subject, m.Subject) {
			cp := *m
			sb.ch <- &cp
			n++
		}
	}
	if n == 0 {
		in <- m
	}
	return n
}

func (c *recConn) Publish(subj string, payload []byte) error {
	c.mu.Lock()
	c.pubs = append(c.pubs, pub{subj, append([]byte(nil), payload...)})
	c.mu.Unlock()
	return nil
}
func (c *recConn) PublishRequest(subj, reply string, data []byte) error { return nil }
func (c *recConn) ChanSubscribe(subj string, ch chan *nats.Msg) (*nats.Subscription, error) {
	c.mu.Lock()
	c.inCh = ch
	c.subs = append(c.subs, recSub{subj, ch})
	c.mu.Unlock()
	return &nats.Subscription{Subject: subj}, nil
}
func (c *recConn) ChanQueueSubscribe(subj, queue string, ch chan *nats.Msg) (*nats.Subscription, error) {
	return c.ChanSubscribe(subj, ch)
}
func (c *recConn) Close() {}
func (c *recConn) snapshot() []pub {
	c.mu.Lock()
	defer c.mu.Unlock()
	return append([]pub(nil), c.pubs...)
}

// ---------------------------------------------------------------- handlers interpreting scripts

type recorder struct {
	mu  sync.Mutex
	log []string // Coq lentry terms
	off bool

	// concurrent variants: entries are kept per resource name (every request of such a
	// run has its own resource name, which comes from the subject, not from the payload)
	keyed bool
	logs  map[string][]string
	yield int // runtime.Gosched calls before a handler reads the request
	// the (first) handler invocation serving a resource in gateNames stops on entry until released
	gateNames map[string]bool
	gateUsed  map[string]bool
	cur       map[string]string // resource name -> key of the request being served on it (same group: one at a time)
	entered   chan struct{}     // one token per stopped handler
	release   chan struct{}
	sentQuery map[string]string // request key -> the query text sent (ParseQuery is judged against it)
	twice     bool              // it also reads the request before stopping; both reads must agree
	viol      []string
}

func (r *recorder) add(key, s string) {
	r.mu.Lock()
	if !r.off {
		if r.keyed {
			if r.logs == nil {
				r.logs = map[string][]string{}
			}
			r.logs[key] = append(r.logs[key], s)
		} else {
			r.log = append(r.log, s)
		}
	}
	r.mu.Unlock()
}

// requests are told apart by what comes from their subject: resource name, type and method
func reqKey(rname, typ, method string) string { return rname + "|" + typ + "|" + method }

func (r *recorder) setCur(rname, key string) {
	r.mu.Lock()
	if r.cur == nil {
		r.cur = map[string]string{}
	}
	r.cur[rname] = key
	r.mu.Unlock()
}

func (r *recorder) curOf(rname string) string {
	r.mu.Lock()
	defer r.mu.Unlock()
	return r.cur[rname]
}

func (r *recorder) takeGate(rname string) bool {
	r.mu.Lock()
	defer r.mu.Unlock()
	if !r.gateNames[rname] || r.gateUsed[rname] {
		return false
	}
	if r.gateUsed == nil {
		r.gateUsed = map[string]bool{}
	}
	r.gateUsed[rname] = true
	return true
}

// ParseQuery() must be url.ParseQuery (net/url, trusted) of the query text that was SENT
func (r *recorder) checkParseQuery(key string, got url.Values) {
	r.mu.Lock()
	defer r.mu.Unlock()
	sent, ok := r.sentQuery[key]
	if !ok {
		return
	}
	want, _ := url.ParseQuery(sent)
	if !reflect.DeepEqual(map[string][]string(got), map[string][]string(want)) {
		r.viol = append(r.viol, fmt.Sprintf("ParseQuery() gives %v for the sent query %q, url.ParseQuery of it is %v", got, sent, want))
	}
}

func sentQueries(reqs ...Request) map[string]string {
	m := map[string]string{}
	for _, rq := range reqs {
		if len(rq.Parts) == 3 && rq.PKind != "bad" {
			m[reqKey(rq.Parts[1], rq.Parts[0], rq.Parts[2])] = rq.Data.Query
		}
	}
	return m
}

func (r *recorder) logOf(key string) []string {
	r.mu.Lock()
	defer r.mu.Unlock()
	return append([]string(nil), r.logs[key]...)
}

// a value whose MarshalJSON panics. json.Marshal lets such a panic through unchanged, so handing the value to
// a reply / event method is, to the library, a panic with that value at the point where it encodes the value:
// the case term carries APanic with the corresponding value there (see mpanicAction).
type panicMarshaler struct{ flavour string }

func (p panicMarshaler) MarshalJSON() ([]byte, error) {
	switch p.flavour {
	case "rt":
		var q *panicMarshaler
		return []byte(q.flavour), nil // nil dereference: a runtime.Error
	case "str":
		panic("marshal: boom")
	case "err":
		panic(errors.New("marshal: failed"))
	default:
		panic(&res.Error{Code: "marshal.custom", Message: "Custom from MarshalJSON"})
	}
}

func mpanicAction(flavour string) string {
	switch flavour {
	case "rt":
		return "APanic (PGoErr " + B(rtText("rt-nilderef")) + ")"
	case "str":
		return "APanic (PStr " + B("marshal: boom") + ")"
	case "err":
		return "APanic (PGoErr " + B("marshal: failed") + ")"
	}
	return "APanic (PErr (RErr " + B("marshal.custom") + " " + B("Custom from MarshalJSON") + " VNull))"
}

func isMPanic(v *Val) bool { return v != nil && v.K == "mpanic" }

var reservedEvents = map[string]bool{"change": true, "delete": true, "add": true, "remove": true, "patch": true, "reaccess": true, "unsubscribe": true, "query": true}

func goVal(v *Val) interface{} {
	if v == nil {
		return nil
	}
	switch v.K {
	case "null":
		return nil
	case "str":
		return v.S
	case "int":
		return v.I
	case "bool":
		return v.B
	case "map":
		m := map[string]string{}
		for k, x := range v.M {
			m[k] = x
		}
		return m
	case "list":
		return append([]int{}, v.L...)
	case "bad":
		return make(chan int)
	case "mpanic":
		return panicMarshaler{v.S}
	}
	panic("val")
}

func valOf(x interface{}) Val {
	switch v := x.(type) {
	case panicMarshaler:
		return Val{K: "mpanic", S: v.flavour}
	case nil:
		return Val{K: "null"}
	case string:
		return Val{K: "str", S: v}
	case int:
		return Val{K: "int", I: v}
	case bool:
		return Val{K: "bool", B: v}
	case map[string]string:
		return Val{K: "map", M: v}
	case []int:
		return Val{K: "list", L: v}
	case chan int:
		return Val{K: "bad"}
	}
	return Val{K: "str", S: fmt.Sprintf("?%T", x)}
}

func goErr(e *RErr) *res.Error {
	return &res.Error{Code: e.Code, Message: e.Msg, Data: goVal(&e.Data)}
}

func pGErr(err error) string {
	if err == nil {
		return "None"
	}
	if re, ok := err.(*res.Error); ok {
		if re == nil {
			return "(Some (GErr None))"
		}
		return "(Some (GErr (Some " + pRErr(RErr{re.Code, re.Message, valOf(re.Data)}) + ")))"
	}
	return "(Some (GOther " + B(safeErrText(err)) + "))"
}

func pHid(kind, key string) string {
	switch kind {
	case "access":
		return "HAccess"
	case "get":
		return "HGet"
	case "new":
		return "HNew"
	case "call":
		return "(HCall " + B(key) + ")"
	case "auth":
		return "(HAuth " + B(key) + ")"
	}
	panic("hid")
}

type hctx struct {
	rec  *recorder
	pid  int
	kind string
	key  string
}

// what errors.go errString yields for an error whose Error method panics
const badErrText = "panic in Error method"

// an error value whose Error method panics (nil receiver dereference)
func badErr() error { return (*os.PathError)(nil) }

func safeErrText(err error) (s string) {
	defer func() {
		if recover() != nil {
			s = badErrText
		}
	}()
	return err.Error()
}

func replyErrArg(a Action) error {
	switch a.EK {
	case "bad":
		return badErr()
	case "err":
		return goErr(a.E)
	case "nil":
		return (*res.Error)(nil)
	default:
		return errors.New(a.S)
	}
}

// raises a REAL Go runtime error (the panic value implements runtime.Error); operands are fixed,
// so the message is deterministic
var rtSink int

func raiseRuntimeError(kind string) {
	switch kind {
	case "rt-index":
		a := make([]int, 3)
		i := 5 + rtSink
		rtSink += a[i]
	case "rt-nilmap":
		var m map[string]int
		m["k"] = 1
	case "rt-nilderef":
		var p *Request
		rtSink += len(p.Subject)
	case "rt-divide":
		z := rtSink
		rtSink = 10 / z
	case "rt-assert":
		var x interface{} = "s"
		rtSink += x.(int)
	}
	panic("harness: no runtime error raised for " + kind)
}

var rtTexts sync.Map

// the Error() text of that runtime error (Go runtime trusted), checked to be a runtime.Error
func rtText(kind string) string {
	if t, ok := rtTexts.Load(kind); ok {
		return t.(string)
	}
	var text string
	func() {
		defer func() {
			v := recover()
			re, ok := v.(runtime.Error)
			if !ok {
				panic(fmt.Sprint("harness: not a runtime.Error: ", v))
			}
			text = re.Error()
		}()
		raiseRuntimeError(kind)
	}()
	rtTexts.Store(kind, text)
	return text
}

func doPanic(a Action) {
	switch a.Kind {
	case "rt-index", "rt-nilmap", "rt-nilderef", "rt-divide", "rt-assert":
		raiseRuntimeError(a.Kind)
	case "err":
		panic(goErr(a.E))
	case "nilerr":
		panic((*res.Error)(nil))
	case "goerr":
		panic(errors.New(a.S))
	case "baderr":
		panic(badErr())
	case "str":
		panic(a.S)
	default:
		panic(a.N)
	}
}

// the service's own invocation: r is a *res.Request whatever the handler's interface type
func (h hctx) runOuter(r *res.Request, script []Action) {
	rn := r.ResourceName()
	read := func() string {
		return fmt.Sprintf("LInvoke (Obs %d %s %s %s %s %s %s %s %s %s %s %s %s %s %s %s %s)",
			h.pid, pHid(h.kind, h.key), Bool(r.ForValue()), B(r.Type()), B(r.Method()), B(r.ResourceName()),
			AMap(r.PathParams()), B(r.Query()), B(r.Group()), B(r.CID()), B(string(r.RawToken())), B(string(r.RawParams())),
			pHdr(r.Header()), B(r.Host()), B(r.RemoteAddr()), B(r.URI()), Bool(r.IsHTTP()))
	}
	rn = reqKey(rn, r.Type(), r.Method()) // from here on: the key of this request's records
	h.rec.setCur(r.ResourceName(), rn)
	h.rec.checkParseQuery(rn, r.ParseQuery())
	if h.rec.takeGate(r.ResourceName()) {
		first := ""
		if h.rec.twice {
			first = read()
		}
		h.rec.entered <- struct{}{}
		select {
		case <-h.rec.release:
		case <-time.After(20 * time.Second):
		}
		second := read()
		if h.rec.twice && first != second {
			h.rec.mu.Lock()
			h.rec.viol = append(h.rec.viol, "the request read by the handler changed while another request was processed: before "+first+" after "+second)
			h.rec.mu.Unlock()
		}
		h.rec.add(rn, second)
	} else {
		for i := 0; i < h.rec.yield; i++ {
			runtime.Gosched()
		}
		h.rec.add(rn, read())
	}
	for _, a := range script {
		switch a.Op {
		case "reply":
			switch a.Kind {
			case "ok":
				r.OK(goVal(a.V))
			case "resource":
				r.Resource(a.S)
			case "error":
				r.Error(replyErrArg(a))
			case "notfound":
				r.NotFound()
			case "methodnotfound":
				r.MethodNotFound()
			case "invalidparams":
				r.InvalidParams(a.S)
			case "invalidquery":
				r.InvalidQuery(a.S)
			case "access":
				r.Access(a.B, a.S)
			case "accessdenied":
				res.AccessDenied(r) // the predefined handler: r.AccessDenied()
			case "accessgranted":
				res.AccessGranted(r) // the predefined handler: r.AccessGranted()
			case "model":
				r.Model(goVal(a.V))
			case "querymodel":
				r.QueryModel(goVal(a.V), a.S)
			case "collection":
				r.Collection(goVal(a.V))
			case "querycollection":
				r.QueryCollection(goVal(a.V), a.S)
			case "new":
				r.New(res.Ref(a.S))
			}
		case "timeout":
			r.Timeout(time.Duration(a.N) * time.Millisecond)
		case "event":
			r.Event(a.S, goVal(a.V))
		case "panic":
			doPanic(a)
		case "status":
			r.SetResponseStatus(a.N)
		case "header":
			hd := r.ResponseHeader()
			hd[a.S] = append(hd[a.S], a.S2)
		case "token":
			r.TokenEvent(goVal(a.V))
		case "parse":
			t := newTarget(a.S)
			if a.B {
				r.ParseToken(t)
			} else {
				r.ParseParams(t)
			}
			h.rec.add(rn, "LParsed "+Bool(a.B)+" "+B(seenOf(t)))
		case "value":
			if a.B {
				v := r.RequireValue()
				h.rec.add(rn, "LValue "+pVal(valOf(v))+" None")
			} else {
				v, err := r.Value()
				h.rec.add(rn, "LValue "+pVal(valOf(v))+" "+pGErr(err))
			}
		}
	}
}

// the get handler called through Value(): r is the in-memory get request; only the
// GetRequest interface exists, other actions cannot be written and are skipped
func (h hctx) runNested(r res.GetRequest, script []Action) {
	h.rec.add(h.rec.curOf(r.ResourceName()), fmt.Sprintf("LInvoke (Obs %d %s %s [] [] %s %s %s %s [] [] [] [] [] [] [] false)",
		h.pid, pHid(h.kind, h.key), Bool(r.ForValue()), B(r.ResourceName()), AMap(r.PathParams()), B(r.Query()), B(r.Group())))
	for _, a := range script {
		switch a.Op {
		case "reply":
			switch a.Kind {
			case "model":
				r.Model(goVal(a.V))
			case "querymodel":
				r.QueryModel(goVal(a.V), a.S)
			case "collection":
				r.Collection(goVal(a.V))
			case "querycollection":
				r.QueryCollection(goVal(a.V), a.S)
			case "notfound":
				r.NotFound()
			case "invalidquery":
				r.InvalidQuery(a.S)
			case "error":
				r.Error(replyErrArg(a))
			}
		case "timeout":
			r.Timeout(time.Duration(a.N) * time.Millisecond)
		case "event":
			r.Event(a.S, goVal(a.V))
		case "panic":
			doPanic(a)
		case "value":
			if a.B {
				r.RequireValue()
			} else {
				r.Value()
			}
		}
	}
}

const typeBase = 10
const probeName = "zzprobe"

func buildService(d desc, rec *recorder) *res.Service {
	s := res.NewService(d.Service)
	switch d.Logger {
	case "mem":
		s.SetLogger(logger.NewMemLogger())
	case "std":
		s.SetLogger(logger.NewStdLogger())
	default:
		s.SetLogger(nil)
	}
	if d.OnError {
		s.SetOnError(func(*res.Service, string) { atomic.AddInt64(&onErrorCalls, 1) })
	}
	if d.Workers > 0 {
		s.SetWorkerCount(d.Workers)
	}
	if d.InCh > 0 {
		s.SetInChannelSize(d.InCh)
	}
	type reg struct {
		p PatternDef
		h res.Handler
	}
	var regs []reg
	for _, p := range d.Patterns {
		p := p
		h := res.Handler{Type: res.ResourceType(typeBase + p.H.Pid), Group: p.Group}
		if p.H.Access != nil {
			sc := *p.H.Access
			hc := hctx{rec, p.H.Pid, "access", ""}
			h.Access = func(r res.AccessRequest) { hc.runOuter(r.(*res.Request), sc) }
		}
		if p.H.Get != nil {
			sc := *p.H.Get
			hc := hctx{rec, p.H.Pid, "get", ""}
			h.Get = func(r res.GetRequest) {
				if rr, ok := r.(*res.Request); ok {
					hc.runOuter(rr, sc)
				} else {
					hc.runNested(r, sc)
				}
			}
		}
		if p.H.New != nil {
			sc := *p.H.New
			hc := hctx{rec, p.H.Pid, "new", ""}
			h.New = func(r res.NewRequest) { hc.runOuter(r.(*res.Request), sc) }
		}
		if p.H.Call != nil {
			h.Call = map[string]res.CallHandler{}
			for k, sc := range p.H.Call {
				sc := sc
				hc := hctx{rec, p.H.Pid, "call", k}
				h.Call[k] = func(r res.CallRequest) { hc.runOuter(r.(*res.Request), sc) }
			}
		}
		if p.H.Auth != nil {
			h.Auth = map[string]res.AuthHandler{}
			for k, sc := range p.H.Auth {
				sc := sc
				hc := hctx{rec, p.H.Pid, "auth", k}
				h.Auth[k] = func(r res.AuthRequest) { hc.runOuter(r.(*res.Request), sc) }
			}
		}
		if p.Opt != "" {
			h = viaOptions(p, h)
		}
		regs = append(regs, reg{p, h})
	}
	// sub-Muxes: one per distinct mount chain; handlers are added before or after mounting
	muxes := map[string]*res.Mux{"": s.Mux}
	routed := map[string]bool{}
	var chains [][]string
	for _, p := range d.Patterns {
		if p.Route && len(p.Mounts) > 0 {
			routed[strings.Join(p.Mounts, "/")] = true
		}
	}
	for _, p := range d.Patterns {
		for n := 1; n <= len(p.Mounts); n++ {
			k := strings.Join(p.Mounts[:n], "/")
			if _, seen := muxes[k]; !seen {
				muxes[k] = nil
				chains = append(chains, append([]string(nil), p.Mounts[:n]...))
			}
		}
	}
	addEarly := func(k string, m *res.Mux) {
		for _, rg := range regs {
			if !rg.p.Late && strings.Join(rg.p.Mounts, "/") == k {
				m.AddHandler(rg.p.Pattern, rg.h)
			}
		}
	}
	addEarly("", s.Mux)
	// Route creates and mounts in one go (outermost first); the others are NewMux + Mount
	sort.SliceStable(chains, func(i, j int) bool { return len(chains[i]) < len(chains[j]) })
	for _, c := range chains {
		k := strings.Join(c, "/")
		if !routed[k] {
			muxes[k] = res.NewMux("")
			addEarly(k, muxes[k])
		}
	}
	for _, c := range chains {
		k := strings.Join(c, "/")
		if routed[k] {
			muxes[k] = muxes[strings.Join(c[:len(c)-1], "/")].Route(c[len(c)-1], func(m *res.Mux) { addEarly(k, m) })
		}
	}
	// mount inner ones first or last, both are allowed: longest chains first for even pattern counts
	sort.SliceStable(chains, func(i, j int) bool {
		if len(d.Patterns)%2 == 0 {
			return len(chains[i]) > len(chains[j])
		}
		return len(chains[i]) < len(chains[j])
	})
	for _, c := range chains {
		if !routed[strings.Join(c, "/")] {
			muxes[strings.Join(c[:len(c)-1], "/")].Mount(c[len(c)-1], muxes[strings.Join(c, "/")])
		}
	}
	for _, rg := range regs {
		if rg.p.Late {
			muxes[strings.Join(rg.p.Mounts, "/")].AddHandler(rg.p.Pattern, rg.h)
		}
	}
	s.AddHandler(probeName, res.Handler{Type: res.ResourceType(typeBase + 200),
		Call: map[string]res.CallHandler{"ping": func(r res.CallRequest) { r.OK("pong") }},
		Get:  func(r res.GetRequest) { r.Model(map[string]string{"p": "q"}) }, Access: res.AccessGranted})
	return s
}

// the same handler set, built with the Option constructors (Access, GetModel/GetCollection/GetResource, Call, Set,
// New, Auth, Group) as Mux.Handle does; the pattern marker in Type is put back afterwards
func viaOptions(p PatternDef, h res.Handler) res.Handler {
	var opts []res.Option
	if h.Access != nil {
		opts = append(opts, res.Access(h.Access))
	}
	if h.Get != nil {
		get := h.Get
		switch p.Opt {
		case "model":
			opts = append(opts, res.GetModel(func(r res.ModelRequest) { get(r.(res.GetRequest)) }))
		case "collection":
			opts = append(opts, res.GetCollection(func(r res.CollectionRequest) { get(r.(res.GetRequest)) }))
		default:
			opts = append(opts, res.GetResource(get))
		}
	}
	for k, f := range h.Call {
		if k == "set" {
			opts = append(opts, res.Set(f))
		} else {
			opts = append(opts, res.Call(k, f))
		}
	}
	if h.New != nil {
		opts = append(opts, res.New(h.New))
	}
	for k, f := range h.Auth {
		opts = append(opts, res.Auth(k, f))
	}
	if h.Group != "" {
		opts = append(opts, res.Group(h.Group))
	}
	var out res.Handler
	for _, o := range opts {
		o.SetOption(&out)
	}
	out.Type = h.Type
	return out
}

func optionable(h Handlers) bool {
	for _, m := range []map[string][]Action{h.Call, h.Auth} {
		for k := range m {
			if k != "*" && !res.VerifIsValidPart(k) {
				return false
			}
		}
	}
	return true
}

// ---- registration through options: conflicting options must panic as documented
type optSpec struct {
	Kind   string `json:"kind"` // access getmodel getcollection getresource call set new auth model collection applychange applyadd applyremove applycreate applydelete
	Method string `json:"method,omitempty"`
}

func mkOption(o optSpec) res.Option {
	switch o.Kind {
	case "access":
		return res.Access(res.AccessGranted)
	case "getmodel":
		return res.GetModel(func(res.ModelRequest) {})
	case "getcollection":
		return res.GetCollection(func(res.CollectionRequest) {})
	case "getresource":
		return res.GetResource(func(res.GetRequest) {})
	case "call":
		return res.Call(o.Method, func(res.CallRequest) {})
	case "set":
		return res.Set(func(res.CallRequest) {})
	case "new":
		return res.New(func(res.NewRequest) {})
	case "auth":
		return res.Auth(o.Method, func(res.AuthRequest) {})
	case "model":
		return res.Model
	case "collection":
		return res.Collection
	case "applychange":
		return res.ApplyChange(func(res.Resource, map[string]interface{}) (map[string]interface{}, error) { return nil, nil })
	case "applyadd":
		return res.ApplyAdd(func(res.Resource, interface{}, int) error { return nil })
	case "applyremove":
		return res.ApplyRemove(func(res.Resource, int) (interface{}, error) { return nil, nil })
	case "applycreate":
		return res.ApplyCreate(func(res.Resource, interface{}) error { return nil })
	case "applydelete":
		return res.ApplyDelete(func(res.Resource) (interface{}, error) { return nil, nil })
	}
	panic("harness: option kind " + o.Kind)
}

// the documented outcome of Handle(pattern, options...): "" = registered, else the panic text. All option
// constructors run first (argument evaluation), then the options are applied in order.
func expectedOptions(os []optSpec) string {
	for _, o := range os {
		if (o.Kind == "call" || o.Kind == "auth") && o.Method != "*" && !res.VerifIsValidPart(o.Method) {
			return "res: invalid method name: " + o.Method
		}
	}
	typ, get, access, nw := false, false, false, false
	call, auth, apply := map[string]bool{}, map[string]bool{}, map[string]bool{}
	setType := func() string {
		if typ {
			return "res: resource type set multiple times"
		}
		typ = true
		return ""
	}
	setGet := func() string {
		if get {
			return "res: multiple get handlers"
		}
		get = true
		return ""
	}
	for _, o := range os {
		msg := ""
		switch o.Kind {
		case "access":
			if access {
				msg = "res: multiple access handlers"
			}
			access = true
		case "model", "collection":
			msg = setType()
		case "getmodel", "getcollection":
			if msg = setType(); msg == "" {
				msg = setGet()
			}
		case "getresource":
			msg = setGet()
		case "call", "set":
			m := o.Method
			if o.Kind == "set" {
				m = "set"
			}
			if call[m] {
				msg = "res: multiple call handlers for method " + m
			}
			call[m] = true
		case "new":
			if nw {
				msg = "res: multiple new handlers"
			}
			nw = true
		case "auth":
			if auth[o.Method] {
				msg = "res: multiple auth handlers for method " + o.Method
			}
			auth[o.Method] = true
		default:
			name := strings.TrimPrefix(o.Kind, "apply")
			if apply[name] {
				msg = "res: multiple apply " + name + " handlers"
			}
			apply[name] = true
		}
		if msg != "" {
			return msg
		}
	}
	return ""
}

func runOptions(os []optSpec) (got string, shape string) {
	func() {
		defer func() {
			if v := recover(); v != nil {
				got = fmt.Sprint(v)
			}
		}()
		opts := make([]res.Option, len(os))
		for i, o := range os {
			opts[i] = mkOption(o)
		}
		m := res.NewMux("opt")
		m.Handle("x.$id", opts...)
		mh := m.GetHandler("opt.x.1")
		if mh == nil {
			got = "harness: registered pattern not found"
			return
		}
		h := mh.Handler
		var keys []string
		for k := range h.Call {
			keys = append(keys, "call:"+k)
		}
		for k := range h.Auth {
			keys = append(keys, "auth:"+k)
		}
		sort.Strings(keys)
		shape = fmt.Sprintf("type=%d access=%v get=%v new=%v apply=%v%v%v%v%v %v", h.Type, h.Access != nil, h.Get != nil, h.New != nil,
			h.ApplyChange != nil, h.ApplyAdd != nil, h.ApplyRemove != nil, h.ApplyCreate != nil, h.ApplyDelete != nil, keys)
	}()
	return
}

func expectedShape(os []optSpec) string {
	typ := 0
	has := map[string]bool{}
	var keys []string
	for _, o := range os {
		switch o.Kind {
		case "model", "getmodel":
			typ = 1
		case "collection", "getcollection":
			typ = 2
		}
		switch o.Kind {
		case "getmodel", "getcollection", "getresource":
			has["get"] = true
		case "call":
			keys = append(keys, "call:"+o.Method)
		case "set":
			keys = append(keys, "call:set")
		case "auth":
			keys = append(keys, "auth:"+o.Method)
		default:
			has[o.Kind] = true
		}
	}
	sort.Strings(keys)
	return fmt.Sprintf("type=%d access=%v get=%v new=%v apply=%v%v%v%v%v %v", typ, has["access"], has["get"], has["new"],
		has["applychange"], has["applyadd"], has["applyremove"], has["applycreate"], has["applydelete"], keys)
}

func optionStream(r *Rng, n int, dist map[string]int) []ImplViolation {
	kinds := []string{"access", "getmodel", "getcollection", "getresource", "call", "call", "set", "new", "auth", "auth", "model", "collection",
		"applychange", "applyadd", "applyremove", "applycreate", "applydelete"}
	methods := []string{"set", "get", "*", "login", "a.b", "", "x"}
	fixed := [][]optSpec{
		{{Kind: "access"}, {Kind: "access"}}, {{Kind: "call", Method: "m"}, {Kind: "call", Method: "m"}}, {{Kind: "set"}, {Kind: "call", Method: "set"}},
		{{Kind: "call", Method: "set"}, {Kind: "set"}}, {{Kind: "new"}, {Kind: "new"}}, {{Kind: "getmodel"}, {Kind: "getcollection"}},
		{{Kind: "getmodel"}, {Kind: "getmodel"}}, {{Kind: "getresource"}, {Kind: "getmodel"}}, {{Kind: "getresource"}, {Kind: "getresource"}},
		{{Kind: "model"}, {Kind: "getcollection"}}, {{Kind: "auth", Method: "a"}, {Kind: "auth", Method: "a"}}, {{Kind: "auth", Method: "*"}, {Kind: "auth", Method: "*"}},
		{{Kind: "call", Method: "a.b"}}, {{Kind: "auth", Method: ""}}, {{Kind: "access"}, {Kind: "call", Method: "bad name"}, {Kind: "access"}},
		{{Kind: "applychange"}, {Kind: "applychange"}}, {{Kind: "applyadd"}, {Kind: "applyadd"}}, {{Kind: "applyremove"}, {Kind: "applyremove"}},
		{{Kind: "applycreate"}, {Kind: "applycreate"}}, {{Kind: "applydelete"}, {Kind: "applydelete"}},
		{{Kind: "access"}, {Kind: "getmodel"}, {Kind: "set"}, {Kind: "call", Method: "*"}, {Kind: "new"}, {Kind: "auth", Method: "login"}},
		{{Kind: "getcollection"}, {Kind: "applyadd"}, {Kind: "applyremove"}},
	}
	var impl []ImplViolation
	one := func(os []optSpec) {
		want := expectedOptions(os)
		got, shape := runOptions(os)
		dist["options"]++
		if want != "" {
			dist["options:panic"]++
		}
		if got != want {
			impl = append(impl, ImplViolation{What: fmt.Sprintf("handler options: expected outcome %q (\"\" = registered), got %q", want, got), Desc: os, Tags: []string{"options"}})
		} else if want == "" && shape != expectedShape(os) {
			impl = append(impl, ImplViolation{What: fmt.Sprintf("handler options: registered handler set is %s, expected %s", shape, expectedShape(os)), Desc: os, Tags: []string{"options"}})
		}
	}
	for _, os := range fixed {
		one(os)
	}
	for i := 0; i < n; i++ {
		os := make([]optSpec, 1+r.Intn(6))
		for j := range os {
			os[j].Kind = kinds[r.Intn(len(kinds))]
			if os[j].Kind == "call" || os[j].Kind == "auth" {
				os[j].Method = methods[r.Intn(len(methods))]
			}
		}
		one(os)
	}
	return impl
}

func fullPattern(svc string, p PatternDef) string {
	return fullName(svc, strings.Join(append(append([]string{}, p.Mounts...), p.Pattern), "."))
}

func fullName(svc, local string) string {
	if svc == "" {
		return local
	}
	if local == "" {
		return svc // the root pattern of a named service
	}
	return svc + "." + local
}

// routing as a black box: what Mux.GetHandler says for the resource name
func routeTerm(s *res.Service, d desc, rq Request) string {
	if len(rq.Parts) != 3 {
		return "None"
	}
	printReq = &rq
	defer func() { printReq = nil }()
	var mh *res.Match
	func() {
		// a routing that panics on the name is observed on the request itself (the service dies); here it is "no answer"
		defer func() { recover() }()
		mh = s.GetHandler(rq.Parts[1])
	}()
	if mh == nil {
		return "None"
	}
	pid := int(mh.Handler.Type) - typeBase
	for _, p := range d.Patterns {
		if p.H.Pid == pid {
			{
				// Which pattern a name resolves to is the routing black box (C06); what the handler must then see
				// is not: path params and group are derived from the request's own subject and the FULL pattern
				// as registered (service name, mount paths, pattern) with Pattern.Values (C17), and the group string
				if vals, ok := res.Pattern(fullPattern(d.Service, p)).Values(rq.Parts[1]); ok {
					if len(vals) == 0 {
						vals = nil
					}
					group := rq.Parts[1]
					if p.Group != "" {
						group = p.Group
						for k, v := range vals {
							group = strings.Replace(group, "${"+k+"}", v, -1)
						}
					}
					if d.Kind != "single" && (AMap(vals) != AMap(mh.Params) || group != mh.Group) {
						concViolMu.Lock()
						concViol = append(concViol, fmt.Sprintf("quiescent Mux.GetHandler(%q) gives params %v group %q, the subject gives %v %q", rq.Parts[1], mh.Params, mh.Group, vals, group))
						concViolMu.Unlock()
					}
					return "(Some (HM " + pHandlers(p.H) + " " + AMap(vals) + " " + B(group) + "))"
				}
			}
			return "(Some (HM " + pHandlers(p.H) + " " + AMap(mh.Params) + " " + B(mh.Group) + "))"
		}
	}
	// the probe resource or an unknown marker: a handler set the model does not have
	return "(Some (HM (H 999 None None None [] []) " + AMap(mh.Params) + " " + B(mh.Group) + "))"
}

func partsTerm(rq Request) string {
	if len(rq.Parts) != 3 {
		return "None"
	}
	return "(Some (" + B(rq.Parts[0]) + "," + B(rq.Parts[1]) + "," + B(rq.Parts[2]) + "))"
}

func msgTerm(rq Request) string {
	var data string
	switch rq.PKind {
	case "empty":
		data = "InEmpty"
	case "bad":
		data = "(InBad " + B(decodeError(rq.Payload)) + ")"
	default:
		data = "(InJson " + pReqData(rq.Data) + ")"
	}
	// + the independent judgement on the exact bytes sent (json.Valid; an empty payload counts as fine)
	return "(Msg " + B(rq.Subject) + " " + B(rq.Reply) + " " + data + ") " + Bool(payloadIsJSON(rq.Payload))
}

func payloadIsJSON(p string) bool { return len(p) == 0 || json.Valid([]byte(p)) }

// same shape as the library's request struct: encoding/json (trusted) yields the
// same error text, up to the package name in the type's name
type resRequest struct {
	CID        string              `json:"cid"`
	Params     json.RawMessage     `json:"params"`
	Token      json.RawMessage     `json:"token"`
	Header     map[string][]string `json:"header"`
	Host       string              `json:"host"`
	RemoteAddr string              `json:"remoteAddr"`
	URI        string              `json:"uri"`
	Query      string              `json:"query"`
	IsHTTP     bool                `json:"isHttp"`
}

func decodeError(payload string) string {
	var rc resRequest
	err := json.Unmarshal([]byte(payload), &rc)
	if err == nil {
		return "<no error>"
	}
	return strings.Replace(err.Error(), "main.resRequest", "res.resRequest", -1)
}

// ---------------------------------------------------------------- running a case on the real service

type result struct {
	Idx     int      `json:"idx"`
	Terms   []string `json:"terms"` // one per request (1 for single, n for conc, 2 for pair)
	Viol    []string `json:"viol,omitempty"`
	Lookups int64    `json:"lookups,omitempty"`
	Err     string   `json:"err,omitempty"`
}

type doneHub struct {
	mu sync.Mutex
	ch map[string]chan struct{}
	n  int
	nc chan struct{}
}

var hub = &doneHub{ch: map[string]chan struct{}{}}

func (h *doneHub) expect(subj string) chan struct{} {
	h.mu.Lock()
	defer h.mu.Unlock()
	c := make(chan struct{}, 1024)
	h.ch[subj] = c
	return c
}
func (h *doneHub) clear() {
	h.mu.Lock()
	h.ch = map[string]chan struct{}{}
	h.mu.Unlock()
}

var enqCount int64
var sentinelWid atomic.Value // string: work id (group) of the sentinel request
var sentinelEnq = make(chan struct{}, 64)

func (h *doneHub) note(pt, s string, n int) {
	if pt == "enq-new" || pt == "enq-append" {
		atomic.AddInt64(&enqCount, 1)
		if w, _ := sentinelWid.Load().(string); w != "" && w == s {
			select {
			case sentinelEnq <- struct{}{}:
			default:
			}
		}
		return
	}
	if pt != "request-done" {
		return
	}
	h.mu.Lock()
	c := h.ch[s]
	h.mu.Unlock()
	if c != nil {
		select {
		case c <- struct{}{}:
		default:
		}
	}
}

func wait(c chan struct{}, d time.Duration) bool {
	select {
	case <-c:
		return true
	case <-time.After(d):
		return false
	}
}

func startService(d desc, rec *recorder) (*res.Service, *recConn, chan error) {
	s := buildService(d, rec)
	conn := &recConn{}
	ready := make(chan struct{})
	s.SetOnServe(func(*res.Service) { close(ready) })
	served := make(chan error, 1)
	go func() { served <- s.Serve(conn) }()
	select {
	case <-ready:
	case err := <-served:
		panic(fmt.Sprint("service did not start: ", err))
	case <-time.After(10 * time.Second):
		panic("service did not start")
	}
	return s, conn, served
}

func probe(s *res.Service, conn *recConn, d desc, tag string) bool {
	subj := "call." + fullName(d.Service, probeName) + ".ping"
	reply := "_INBOX.probe." + tag
	c := hub.expect(subj)
	conn.deliver(&nats.Msg{Subject: subj, Reply: reply})
	if !wait(c, 5*time.Second) {
		return false
	}
	n := 0
	ok := false
	for _, p := range conn.snapshot() {
		if p.subj == reply {
			n++
			ok = string(p.data) == `{"result":"pong"}`
		}
	}
	return n == 1 && ok
}

// A sentinel request (to the probe resource) is sent right behind the request(s) under test: the listener goroutine
// handles messages one after the other, so once the sentinel has been handed to the work queue the listener is
// through with everything before it. Returns how many work-queue hand-overs happened since `before`, the
// sentinel's own excluded - a request that the listener dropped (or never routed) shows up as a missing one,
// at once, instead of as a long wait for a completion note that cannot come.
func passListener(conn *recConn, d desc, before int64, tag string) (enqueued int64, passed bool) {
	for len(sentinelEnq) > 0 {
		<-sentinelEnq
	}
	sentinelWid.Store(fullName(d.Service, probeName))
	subj := "call." + fullName(d.Service, probeName) + ".ping"
	c := hub.expect(subj)
	conn.deliver(&nats.Msg{Subject: subj, Reply: "_INBOX.probe.sentinel." + tag})
	passed = wait(sentinelEnq, 5*time.Second)
	sentinelWid.Store("")
	if passed {
		wait(c, 5*time.Second)
	}
	return atomic.LoadInt64(&enqCount) - before - 1, passed
}

func runSingle(d desc) (string, []string) {
	rec := &recorder{sentQuery: sentQueries(d.Req)}
	s, conn, served := startService(d, rec)
	rq := d.Req
	route := routeTerm(s, d, rq)
	mark := len(conn.snapshot())
	c := hub.expect(rq.Subject)
	before := atomic.LoadInt64(&enqCount)
	conn.deliver(&nats.Msg{Subject: rq.Subject, Reply: rq.Reply, Data: []byte(rq.Payload)})
	// bounded and fast whatever happens to the request: handed to a worker => wait for its completion note;
	// not handed over (malformed subject, no reply subject, dropped by the listener) => judged "not completed"
	done := false
	if enq, passed := passListener(conn, d, before, "x"); passed && enq >= 1 {
		// a request delivered through several overlapping subscriptions is handed over (and answered) as often
		for i := int64(0); i < enq && i < 8; i++ {
			done = wait(c, 5*time.Second)
		}
	}
	probeOK := probe(s, conn, d, "x")
	rec.mu.Lock()
	rec.off = true
	logTerms := append([]string(nil), rec.log...)
	rec.mu.Unlock()
	var ps []pub
	for _, p := range conn.snapshot()[mark:] {
		if !strings.HasPrefix(p.subj, "_INBOX.probe.") {
			ps = append(ps, p)
		}
	}
	s.Shutdown()
	select {
	case <-served:
	case <-time.After(5 * time.Second):
	}
	hub.clear()
	rec.mu.Lock()
	viol := append([]string(nil), rec.viol...)
	rec.mu.Unlock()
	return fmt.Sprintf("RC %s %s %s false %s %s %s %s", route, partsTerm(rq), msgTerm(rq), pPubs(ps, rq.Reply), List(logTerms), Bool(done), Bool(probeOK)), viol
}

var lookupsMade int64
var onErrorCalls int64
var totalLookups int64
var concViol []string
var concViolMu sync.Mutex

// a fresh name of one of the lookup patterns: every placeholder gets a token never used by a request
func lookupName(d desc, g, n int) string {
	pt := strings.Split(d.LookupPs[(g+n)%len(d.LookupPs)], ".")
	for i, t := range pt {
		if strings.HasPrefix(t, "$") {
			pt[i] = fmt.Sprintf("z%dn%dt%d", g, n, i)
		}
	}
	return fullName(d.Service, strings.Join(pt, "."))
}

func runConc(d desc) []string {
	rec := &recorder{keyed: true, yield: 3, sentQuery: sentQueries(d.Reqs...)}
	s, conn, served := startService(d, rec)
	chans := make([]chan struct{}, len(d.Reqs))
	// subjects repeat: count completions per subject
	perSubj := map[string]int{}
	for _, rq := range d.Reqs {
		perSubj[rq.Subject]++
	}
	subjCh := map[string]chan struct{}{}
	for sj := range perSubj {
		subjCh[sj] = hub.expect(sj)
	}
	_ = chans
	// lookups racing with the routing of the requests: With / Resource are meant to be called from any goroutine
	stop := make(chan struct{})
	var lwg, started sync.WaitGroup
	var nLook int64
	if len(d.LookupPs) > 0 {
		for g := 0; g < d.Lookups; g++ {
			lwg.Add(1)
			started.Add(1)
			go func(g int) {
				defer lwg.Done()
				first := true
				for n := 0; ; n++ {
					select {
					case <-stop:
						return
					default:
					}
					name := lookupName(d, g, n)
					if n%4 == 0 {
						s.With(name, func(res.Resource) {})
						runtime.Gosched()
					} else {
						s.Resource(name)
					}
					atomic.AddInt64(&nLook, 1)
					if first {
						first = false
						started.Done()
					}
				}
			}(g)
		}
		started.Wait()
	}
	// several feeders, as messages of different subscriptions arrive interleaved
	var wg sync.WaitGroup
	feeders := 4
	for f := 0; f < feeders; f++ {
		wg.Add(1)
		go func(f int) {
			defer wg.Done()
			for i := f; i < len(d.Reqs); i += feeders {
				rq := d.Reqs[i]
				conn.deliver(&nats.Msg{Subject: rq.Subject, Reply: rq.Reply, Data: []byte(rq.Payload)})
			}
		}(f)
	}
	wg.Wait()
	doneBy := map[string]bool{}
	passListener(conn, d, 0, "c")
	deadline := time.Now().Add(6 * time.Second) // shared: requests that were lost or dropped never complete
	for sj, n := range perSubj {
		ok := true
		for i := 0; i < n; i++ {
			rem := time.Until(deadline)
			if rem < 0 {
				rem = 0
			}
			if !wait(subjCh[sj], rem+time.Millisecond) {
				ok = false
				break
			}
		}
		doneBy[sj] = ok
	}
	close(stop)
	lwg.Wait()
	lookupsMade = atomic.LoadInt64(&nLook)
	probeOK := probe(s, conn, d, "c")
	all := conn.snapshot()
	terms := make([]string, len(d.Reqs))
	for i, rq := range d.Reqs {
		var ps []pub
		for _, p := range all {
			if p.subj == rq.Reply {
				ps = append(ps, p)
			}
		}
		terms[i] = fmt.Sprintf("RC %s %s %s true %s %s %s %s", routeTerm(s, d, rq), partsTerm(rq), msgTerm(rq), pPubs(ps, rq.Reply), List(rec.logOf(reqKey(rq.Parts[1], rq.Parts[0], rq.Parts[2]))), Bool(doneBy[rq.Subject]), Bool(probeOK))
	}
	s.Shutdown()
	select {
	case <-served:
	case <-time.After(5 * time.Second):
	}
	hub.clear()
	return terms
}

// every worker is occupied by a stopped handler while many requests on other resources are
// delivered; nothing may be lost: after release each of them gets its response
func runFlood(d desc) ([]string, []string) {
	held, flood, late := d.Reqs[:d.Held], d.Reqs[d.Held:d.Held+d.Flood], d.Reqs[d.Held+d.Flood:]
	gates := map[string]bool{}
	for _, rq := range held {
		gates[rq.Parts[1]] = true
	}
	rec := &recorder{keyed: true, gateNames: gates, entered: make(chan struct{}, len(held)), release: make(chan struct{})}
	s, conn, served := startService(d, rec)
	chs := map[string]chan struct{}{}
	for _, rq := range d.Reqs {
		chs[rq.Subject] = hub.expect(rq.Subject)
	}
	var viol []string
	send := func(rq Request) {
		conn.deliver(&nats.Msg{Subject: rq.Subject, Reply: rq.Reply, Data: []byte(rq.Payload)})
	}
	for _, rq := range held {
		send(rq)
	}
	for range held {
		if !wait(rec.entered, 5*time.Second) {
			viol = append(viol, "harness: not every worker could be occupied by a stopped handler")
			break
		}
	}
	// deliver from a goroutine: the in-channel is small; the listener only enqueues, so it keeps draining
	before := atomic.LoadInt64(&enqCount)
	fed := make(chan struct{})
	go func() {
		for _, rq := range flood {
			send(rq)
		}
		close(fed)
	}()
	wait(fed, 10*time.Second)
	for t0 := time.Now(); atomic.LoadInt64(&enqCount)-before < int64(len(flood)) && time.Since(t0) < 5*time.Second; {
		time.Sleep(200 * time.Microsecond)
	}
	if n := atomic.LoadInt64(&enqCount) - before; n != int64(len(flood)) {
		viol = append(viol, fmt.Sprintf("harness: %d of %d delivered requests were handed to the work queue", n, len(flood)))
	}
	close(rec.release)
	// quiescence: one shared deadline, lost requests never complete
	quiesce, lateWait := 3*time.Second, 2*time.Second
	if len(flood) < 10 {
		// a handful of requests: lost ones are judged quickly
		quiesce, lateWait = 800*time.Millisecond, 500*time.Millisecond
	}
	deadline := time.Now().Add(quiesce)
	done := map[string]bool{}
	for _, rq := range d.Reqs[:d.Held+d.Flood] {
		rem := time.Until(deadline)
		if rem < 0 {
			rem = 0
		}
		done[rq.Subject] = wait(chs[rq.Subject], rem+time.Millisecond)
	}
	// the resources must still be served afterwards
	for _, rq := range late {
		send(rq)
	}
	deadline = time.Now().Add(lateWait)
	for _, rq := range late {
		rem := time.Until(deadline)
		if rem < 0 {
			rem = 0
		}
		done[rq.Subject] = wait(chs[rq.Subject], rem+time.Millisecond)
	}
	probeOK := probe(s, conn, d, "f")
	all := conn.snapshot()
	byReply := map[string][]pub{}
	for _, p := range all {
		byReply[p.subj] = append(byReply[p.subj], p)
	}
	terms := make([]string, len(d.Reqs))
	for i, rq := range d.Reqs {
		terms[i] = fmt.Sprintf("RC %s %s %s true %s %s %s %s", routeTerm(s, d, rq), partsTerm(rq), msgTerm(rq), pPubs(byReply[rq.Reply], rq.Reply),
			List(rec.logOf(reqKey(rq.Parts[1], rq.Parts[0], rq.Parts[2]))), Bool(done[rq.Subject]), Bool(probeOK))
	}
	s.Shutdown()
	select {
	case <-served:
	case <-time.After(5 * time.Second):
	}
	hub.clear()
	return terms, viol
}

// request A (reqs[0]) is stopped inside its handler - after entry, before it reads anything - until
// request B (reqs[1], another resource, hence another worker group) has been processed completely
func runPair(d desc) ([]string, []string) {
	a, b := d.Reqs[0], d.Reqs[1]
	if d.Procs > 0 {
		defer runtime.GOMAXPROCS(runtime.GOMAXPROCS(d.Procs))
	}
	rec := &recorder{keyed: true, gateNames: map[string]bool{a.Parts[1]: true}, entered: make(chan struct{}, 1), release: make(chan struct{}), twice: d.Twice}
	s, conn, served := startService(d, rec)
	ca, cb := hub.expect(a.Subject), hub.expect(b.Subject)
	conn.deliver(&nats.Msg{Subject: a.Subject, Reply: a.Reply, Data: []byte(a.Payload)})
	enteredOK := wait(rec.entered, 5*time.Second)
	conn.deliver(&nats.Msg{Subject: b.Subject, Reply: b.Reply, Data: []byte(b.Payload)})
	doneB := wait(cb, 2*time.Second)
	close(rec.release)
	doneA := wait(ca, 2*time.Second)
	probeOK := probe(s, conn, d, "p")
	all := conn.snapshot()
	var viol []string
	if !enteredOK {
		viol = append(viol, "harness: the handler of the stopped request was never entered")
	}
	rec.mu.Lock()
	viol = append(viol, rec.viol...)
	rec.mu.Unlock()
	terms := make([]string, 2)
	for i, rq := range d.Reqs[:2] {
		var ps []pub
		for _, p := range all {
			if p.subj == rq.Reply {
				ps = append(ps, p)
			}
		}
		done := doneA
		if i == 1 {
			done = doneB
		}
		terms[i] = fmt.Sprintf("RC %s %s %s true %s %s %s %s", routeTerm(s, d, rq), partsTerm(rq), msgTerm(rq), pPubs(ps, rq.Reply), List(rec.logOf(reqKey(rq.Parts[1], rq.Parts[0], rq.Parts[2]))), Bool(done), Bool(probeOK))
	}
	s.Shutdown()
	select {
	case <-served:
	case <-time.After(5 * time.Second):
	}
	hub.clear()
	return terms, viol
}

// the case as it looks when the service process died while handling it
func crashedTerms(d desc) []string {
	rec := &recorder{off: true}
	s := buildService(d, rec)
	one := func(rq Request, conc bool) string {
		return fmt.Sprintf("RC %s %s %s %s [] [] false false", routeTerm(s, d, rq), partsTerm(rq), msgTerm(rq), Bool(conc))
	}
	if d.Kind == "conc" || d.Kind == "pair" || d.Kind == "flood" {
		ts := make([]string, len(d.Reqs))
		for i, rq := range d.Reqs {
			ts[i] = one(rq, true)
		}
		return ts
	}
	return []string{one(d.Req, false)}
}

// what is stored as a case's description for the multi-request kinds
func compactDesc(d desc) desc {
	if d.Kind == "flood" {
		d.Reqs, d.Patterns = nil, nil
	}
	return d
}

func childMain(file string, from int) {
	verifhook.SetNote(hub.note)
	b, err := os.ReadFile(file)
	if err != nil {
		panic(err)
	}
	var ds []desc
	if err := json.Unmarshal(b, &ds); err != nil {
		panic(err)
	}
	w := bufio.NewWriter(os.Stdout)
	for i := from; i < len(ds); i++ {
		r := result{Idx: i}
		if cur, err := json.Marshal(map[string]interface{}{"index": i, "desc": compactDesc(ds[i])}); err == nil {
			os.WriteFile(filepath.Join(filepath.Dir(file), "current_case.json"), cur, 0o644)
		}
		if ds[i].Kind == "conc" {
			r.Terms = runConc(ds[i])
			r.Viol, concViol = concViol, nil
			r.Lookups = lookupsMade
		} else if ds[i].Kind == "pair" {
			r.Terms, r.Viol = runPair(ds[i])
		} else if ds[i].Kind == "flood" {
			r.Terms, r.Viol = runFlood(ds[i])
		} else {
			var t string
			t, r.Viol = runSingle(ds[i])
			r.Terms = []string{t}
		}
		line, _ := json.Marshal(r)
		w.Write(line)
		w.WriteByte('\n')
		w.Flush()
	}
}

// runs all descriptions in child processes; a child that dies marks the case it was working on
func runAll(prop string, out string, ds []desc) (terms [][]string, crashed []bool, viols [][]string, stderrTail string) {
	file := out + "/descs_" + prop + ".json"
	b, _ := json.Marshal(ds)
	if err := os.WriteFile(file, b, 0o644); err != nil {
		panic(err)
	}
	terms = make([][]string, len(ds))
	crashed = make([]bool, len(ds))
	viols = make([][]string, len(ds))
	from := 0
	for from < len(ds) {
		cmd := exec.Command(os.Args[0], "-prop", prop, "-out", out, "-child", file, "-from", strconv.Itoa(from))
		var eb bytes.Buffer
		cmd.Stderr = &eb
		so, err := cmd.StdoutPipe()
		if err != nil {
			panic(err)
		}
		if err := cmd.Start(); err != nil {
			panic(err)
		}
		rd := bufio.NewReaderSize(so, 1<<20)
		next := from
		for {
			line, err := rd.ReadBytes('\n')
			if len(line) > 0 && err == nil {
				var r result
				if json.Unmarshal(line, &r) == nil && r.Idx == next {
					terms[next] = r.Terms
					viols[next] = r.Viol
					totalLookups += r.Lookups
					next++
				}
			}
			if err != nil {
				break
			}
		}
		cmd.Wait()
		if next < len(ds) {
			crashed[next] = true
			terms[next] = crashedTerms(ds[next])
			t := eb.String()
			at := -1
			for _, mark := range []string{"fatal error:", "panic:"} {
				if i := strings.LastIndex(t, mark); i >= 0 && (at < 0 || i < at) {
					at = i
				}
			}
			if at >= 0 {
				t = t[at:]
			}
			if len(t) > 600 {
				t = t[:600]
			}
			stderrTail = t
			next++
		}
		from = next
	}
	os.Remove(file)
	os.Remove(filepath.Join(filepath.Dir(file), "current_case.json"))
	return
}

// ---------------------------------------------------------------- generators

var strPool = []string{"", "a", "hello world", "q\"uote", "<tag>&", "é", "line\nbreak", "system.notFound"}
var ridPool = []string{"test.model", "test.a.b", "x", "test.q?a=1", "a..b", "", "test.model.42", "test.*", "lib.book.$id", "test.model.42?q=1"}
var evPool = []string{"custom", "foo", "change", "delete", "add", "remove", "patch", "reaccess", "unsubscribe", "query", "a.b", "", "x>", "ok-1"}

func genVal(r *Rng, allowBad bool) *Val {
	switch k := r.Intn(12); {
	case k < 2:
		return &Val{K: "null"}
	case k < 4:
		return &Val{K: "str", S: r.Pick(strPool)}
	case k < 6:
		return &Val{K: "int", I: r.Intn(2000) - 1000}
	case k < 7:
		return &Val{K: "bool", B: r.Bool()}
	case k < 9:
		m := map[string]string{}
		for i := r.Intn(3); i > 0; i-- {
			m[r.Pick([]string{"a", "b", "name", "z\"q"})] = r.Pick(strPool)
		}
		return &Val{K: "map", M: m}
	case k < 11 || !allowBad:
		l := []int{}
		for i := r.Intn(4); i > 0; i-- {
			l = append(l, r.Intn(100)-50)
		}
		return &Val{K: "list", L: l}
	default:
		return &Val{K: "bad"}
	}
}

func genRErr(r *Rng) *RErr {
	d := genVal(r, true)
	if r.Chance(50) {
		d = &Val{K: "null"}
	} else if r.Chance(25) {
		d = &Val{K: "mpanic", S: r.Pick([]string{"rt", "str", "err", "reserr"})} // Data whose MarshalJSON panics
	}
	return &RErr{Code: r.Pick([]string{"test.custom", "system.notFound", "system.internalError", "a.b", ""}), Msg: r.Pick([]string{"Custom", "Not found", "", "msg \"q\" <x>"}), Data: *d}
}

var replyKinds = []string{"ok", "resource", "error", "notfound", "methodnotfound", "invalidparams", "invalidquery", "access", "accessdenied", "accessgranted", "model", "querymodel", "collection", "querycollection", "new"}
var getReplyKinds = []string{"model", "querymodel", "collection", "querycollection", "notfound", "invalidquery", "error", "ok"}

func genReply(r *Rng, kinds []string) Action {
	a := Action{Op: "reply", Kind: kinds[r.Intn(len(kinds))]}
	switch a.Kind {
	case "ok", "model", "collection":
		a.V = genVal(r, true)
	case "querymodel", "querycollection":
		a.V = genVal(r, true)
		a.S = r.Pick([]string{"", "q=1", "a=b&c=d"})
	case "resource", "new":
		a.S = r.Pick(ridPool)
	case "error":
		switch r.Intn(9) {
		case 0, 1, 2, 3:
			a.EK = "err"
			a.E = genRErr(r)
		case 4, 5:
			a.EK = "nil"
		case 6:
			a.EK = "bad"
		default:
			a.EK = "go"
			a.S = r.Pick([]string{"boom", "", "disk <full>"})
		}
	case "invalidparams", "invalidquery":
		a.S = r.Pick([]string{"", "bad thing", "x"})
	case "access":
		a.B = r.Bool()
		a.S = r.Pick([]string{"", "*", "set,get"})
	}
	return a
}

func genPanic(r *Rng) Action {
	a := Action{Op: "panic", Kind: r.Pick([]string{"err", "err", "err", "nilerr", "nilerr", "goerr", "goerr", "str", "str", "other", "other", "baderr",
		"rt-index", "rt-index", "rt-nilmap", "rt-nilmap", "rt-nilderef", "rt-divide", "rt-assert"})}
	switch a.Kind {
	case "err":
		a.E = genRErr(r)
	case "goerr", "str":
		a.S = r.Pick([]string{"boom", "", "res: response already sent on request", "ü"})
	case "other":
		a.N = r.Intn(200) - 100
	}
	return a
}

func genAction(r *Rng, kinds []string) Action {
	switch k := r.Intn(100); {
	case k < 38:
		return genReply(r, kinds)
	case k < 52:
		return genPanic(r)
	case k < 62:
		ms := r.Intn(5000)
		if r.Chance(8) {
			ms = -1 - r.Intn(10)
		}
		return Action{Op: "timeout", N: ms}
	case k < 74:
		return Action{Op: "event", S: r.Pick(evPool), V: genVal(r, true)}
	case k < 80:
		return Action{Op: "status", N: pickInt(r, []int{0, 200, 302, 404, 500})}
	case k < 86:
		return Action{Op: "header", S: r.Pick([]string{"Set-Cookie", "X-A", "Location"}), S2: r.Pick([]string{"v1", "a=b; Path=/", ""})}
	case k < 91:
		return Action{Op: "token", V: genVal(r, true)}
	case k < 95:
		return Action{Op: "parse", B: r.Bool(), S: r.Pick([]string{"struct", "map", "int", "strs", "any"})}
	default:
		return Action{Op: "value", B: r.Bool()}
	}
}

func genScript(r *Rng, kinds []string) []Action {
	// common shapes first, then free-form
	switch k := r.Intn(26); {
	case k == 0:
		return []Action{}
	case k == 1:
		return []Action{genReply(r, kinds)}
	case k == 2:
		return []Action{genReply(r, kinds), genReply(r, kinds)}
	case k == 3:
		return []Action{genPanic(r)}
	case k == 4:
		return []Action{genReply(r, kinds), genPanic(r)}
	case k == 5:
		return []Action{{Op: "timeout", N: r.Intn(3000)}, genPanic(r)}
	case k == 6:
		return []Action{{Op: "timeout", N: r.Intn(3000)}, {Op: "timeout", N: r.Intn(3000)}}
	case k == 7:
		return []Action{{Op: "value", B: r.Bool()}, genReply(r, kinds)}
	case k == 8:
		return []Action{{Op: "timeout", N: r.Intn(3000)}, {Op: "reply", Kind: "error", EK: "err", E: genRErr(r)}}
	case k == 9:
		return []Action{{Op: "status", N: pickInt(r, []int{0, 201, 302, 404})}, {Op: "header", S: r.Pick([]string{"Set-Cookie", "X-A"}), S2: r.Pick([]string{"v1", "a=b; Path=/"})},
			{Op: "header", S: r.Pick([]string{"Set-Cookie", "Location"}), S2: "v2"}, genReply(r, kinds)}
	case k == 10:
		return []Action{{Op: "header", S: "X-A", S2: "v"}, genPanic(r)}
	case k == 11:
		return []Action{{Op: "event", S: r.Pick([]string{"custom", "foo", "ok-1"}), V: genVal(r, true)}, {Op: "token", V: genVal(r, true)}, genReply(r, kinds),
			{Op: "event", S: "after", V: genVal(r, false)}}
	case k == 12:
		return []Action{{Op: "value", B: false}, {Op: "value", B: true}, genReply(r, kinds), {Op: "timeout", N: 10}}
	case k == 13:
		// reply, then a real runtime error
		return []Action{genReply(r, kinds), {Op: "panic", Kind: r.Pick([]string{"rt-index", "rt-nilmap", "rt-nilderef", "rt-divide", "rt-assert"})}}
	case k == 14:
		return []Action{{Op: "value", B: r.Bool()}, genReply(r, kinds), {Op: "panic", Kind: r.Pick([]string{"rt-index", "rt-nilmap"})}}
	case k == 15:
		// typed access to params and token, then the reply
		return []Action{{Op: "parse", B: false, S: r.Pick([]string{"struct", "map", "any"})}, {Op: "parse", B: true, S: r.Pick([]string{"struct", "map", "int", "strs"})}, genReply(r, kinds)}
	case k == 16:
		return []Action{{Op: "parse", B: r.Bool(), S: r.Pick([]string{"int", "strs", "struct"})}, genReply(r, kinds), {Op: "parse", B: r.Bool(), S: "int"}}
	case k == 17 && len(kinds) == len(getReplyKinds):
		// get handlers that send timeouts (no-ops when called through Value())
		return []Action{{Op: "timeout", N: r.Intn(3000)}, {Op: "timeout", N: -1 - r.Intn(5)}, genReply(r, kinds)}
	case k == 17:
		return []Action{{Op: "value", B: false}, {Op: "value", B: false}, genReply(r, kinds)}
	case k == 18:
		// the static replies have a second form when response meta is set (HTTP requests only)
		return []Action{{Op: "status", N: pickInt(r, []int{201, 404, 500})}, {Op: "reply", Kind: r.Pick([]string{"notfound", "methodnotfound", "invalidparams", "invalidquery", "accessdenied", "accessgranted", "ok"})}}
	}
	n := r.Intn(7)
	sc := make([]Action, n)
	for i := range sc {
		sc[i] = genAction(r, kinds)
	}
	return sc
}

func pickInt(r *Rng, xs []int) int { return xs[r.Intn(len(xs))] }

// gives one value position of a script (never a get handler's: it also runs behind Value(), where nothing is
// encoded) a value whose MarshalJSON panics
func injectMPanic(r *Rng, sc []Action) {
	var pos []int
	for i, a := range sc {
		if a.V != nil && (a.Op == "token" || a.Op == "event" || (a.Op == "reply" && (a.Kind == "ok" || a.Kind == "model" || a.Kind == "querymodel" || a.Kind == "collection" || a.Kind == "querycollection"))) {
			pos = append(pos, i)
		}
	}
	if len(pos) == 0 {
		return
	}
	sc[pos[r.Intn(len(pos))]].V = &Val{K: "mpanic", S: r.Pick([]string{"rt", "str", "err", "reserr"})}
}

func injectHandlers(r *Rng, h *Handlers, pct int) {
	for _, p := range []*[]Action{h.Access, h.New} {
		if p != nil && r.Chance(pct) {
			injectMPanic(r, *p)
		}
	}
	for _, m := range []map[string][]Action{h.Call, h.Auth} {
		keys := make([]string, 0, len(m))
		for k := range m {
			keys = append(keys, k)
		}
		sort.Strings(keys)
		for _, k := range keys {
			if r.Chance(pct) {
				injectMPanic(r, m[k])
			}
		}
	}
}

var tokPool = []string{"call", "get", "auth", "access", "set", "new", "model", "a", "42", "x-y", "ping", "event", "conn"}
var methodPool = []string{"set", "get", "new", "call", "auth", "add", "login", "x"}

func scanMP(scripts ...[]Action) bool {
	for _, sc := range scripts {
		for _, a := range sc {
			if a.E != nil && a.E.Data.K == "mpanic" {
				return true
			}
			if isMPanic(a.V) {
				return true
			}
		}
	}
	return false
}

func scanRT(scripts ...[]Action) bool {
	for _, sc := range scripts {
		for _, a := range sc {
			if a.Op == "panic" && strings.HasPrefix(a.Kind, "rt-") {
				return true
			}
		}
	}
	return false
}

func scan(scripts ...[]Action) (nilErr, badErr bool) {
	for _, sc := range scripts {
		for _, a := range sc {
			if (a.Op == "panic" && a.Kind == "nilerr") || (a.Op == "reply" && a.Kind == "error" && a.EK == "nil") {
				nilErr = true
			}
			if (a.Op == "panic" && a.Kind == "baderr") || (a.Op == "reply" && a.Kind == "error" && a.EK == "bad") {
				badErr = true
			}
		}
	}
	return
}

func allScripts(h Handlers) [][]Action {
	var out [][]Action
	for _, p := range []*[]Action{h.Access, h.Get, h.New} {
		if p != nil {
			out = append(out, *p)
		}
	}
	for _, m := range []map[string][]Action{h.Call, h.Auth} {
		for _, sc := range m {
			out = append(out, sc)
		}
	}
	return out
}

func genTable(r *Rng, must []string, c05 bool) map[string][]Action {
	if r.Chance(12) && len(must) == 0 {
		return nil
	}
	m := map[string][]Action{}
	for _, k := range must {
		m[k] = genScript(r, replyKinds)
	}
	for i := r.Intn(3); i > 0; i-- {
		m[r.Pick(methodPool)] = genScript(r, replyKinds)
	}
	if r.Chance(35) {
		m["*"] = genScript(r, replyKinds)
	}
	return m
}

type shape struct {
	typ      string // access get call auth foo
	mcase    string // named star none new-handler new-call new-none empty
	present  bool
	hpresent bool // access / get handler present
	pkind    string
	badIdx   int
}

// queries as sent: plain ones, and ones starting with / containing each separator-like byte - the accessor must
// hand the text on unchanged (the "?" of a resource ID is NOT part of the query field)
var queryPool = []string{"q=1", "a=b&c=d", "", "x y", "?a=b", "??a=b", "?", "&a=b", "=", "=v", ".q=1", " a=b", "%41=1", "a=b?", "a%", "a=b&", "&", "a.b=c.d", "%3Fa=b", "a=?b"}

var badPayloads = []string{"{", "[]", "nul", `{"cid":5}`, `{"isHttp":"yes"}`, `"str"`, `{"cid":"a"`, " ", `{"header":{"a":"b"}}`}
var rawPool = []string{`{"a":1}`, `[1,2]`, `"str"`, `null`, `12`, `{"nested":{"x":[true,null]}}`, `{"foo":"bär"}`}

func genData(r *Rng, kind string) (ReqData, string) {
	var d ReqData
	var parts []string
	has := func() bool { return kind == "full" || r.Chance(40) }
	js := func(v interface{}) string { b, _ := json.Marshal(v); return string(b) }
	if has() {
		d.CID = r.Pick([]string{"cid1", "bt8sp7ctg9a2p5rq1234", "", "a.b"})
		parts = append(parts, `"cid":`+js(d.CID))
	}
	if has() {
		d.Params = r.Pick(rawPool)
		parts = append(parts, `"params":`+d.Params)
	}
	if has() {
		d.Token = r.Pick(rawPool)
		parts = append(parts, `"token":`+d.Token)
	}
	if has() {
		d.Header = map[string][]string{}
		for i := r.Intn(3); i > 0; i-- {
			k := r.Pick([]string{"Accept", "Cookie", "x-lower", "Origin", "Host", "X-Forwarded-For"})
			d.Header[k] = []string{r.Pick([]string{"v", "a=b", ""})}
			if r.Chance(30) {
				d.Header[k] = append(d.Header[k], "second")
			}
		}
		parts = append(parts, `"header":`+js(d.Header))
		if len(d.Header) == 0 {
			d.Header = nil
		}
	}
	if has() {
		d.Host = r.Pick([]string{"example.com", "localhost:8080", ""})
		parts = append(parts, `"host":`+js(d.Host))
	}
	if has() {
		d.RemoteAddr = r.Pick([]string{"1.2.3.4:5678", "[::1]:80", ""})
		parts = append(parts, `"remoteAddr":`+js(d.RemoteAddr))
	}
	if has() {
		d.URI = r.Pick([]string{"/ws", "/api/x?y=<z>", ""})
		parts = append(parts, `"uri":`+js(d.URI))
	}
	if has() {
		d.Query = r.Pick(queryPool)
		parts = append(parts, `"query":`+js(d.Query))
	}
	if has() {
		d.IsHTTP = r.Chance(60)
		parts = append(parts, `"isHttp":`+Bool(d.IsHTTP))
	}
	// field order on the wire is irrelevant: rotate
	if n := len(parts); n > 1 {
		k := r.Intn(n)
		parts = append(parts[k:], parts[:k]...)
	}
	return d, "{" + strings.Join(parts, ",") + "}"
}

func genCase(r *Rng, sh shape, prop string, seq int) desc {
	svc := r.Pick([]string{"test", "test", "", "call", "lib.v2"})
	nt := 1 + r.Intn(5)
	if svc == "" && nt == 1 && prop == "C04" {
		nt = 2
	}
	var name, pat []string
	var tags []string
	for i := 0; i < nt; i++ {
		t := r.Pick(tokPool)
		name = append(name, t)
		switch k := r.Intn(20); {
		case k < 5:
			pat = append(pat, fmt.Sprintf("$p%d", i))
			tags = append(tags, fmt.Sprintf("p%d", i))
		case k < 6:
			pat = append(pat, "*")
		default:
			pat = append(pat, t)
		}
	}
	if r.Chance(10) && nt >= 2 {
		cut := 1 + r.Intn(nt-1)
		pat = append(pat[:cut], ">")
		var nt2 []string
		for _, t := range tags {
			n, _ := strconv.Atoi(t[1:])
			if n < cut {
				nt2 = append(nt2, t)
			}
		}
		tags = nt2
	}
	local := strings.Join(name, ".")
	group := ""
	switch k := r.Intn(4); {
	case k == 0:
		group = "grp"
	case k == 1 && len(tags) > 0:
		group = "g.${" + tags[r.Intn(len(tags))] + "}"
	}
	// handler set of the main pattern
	h := Handlers{Pid: 0}
	sc := func(kinds []string) *[]Action { s := genScript(r, kinds); return &s }
	if (sh.typ == "access" && sh.hpresent) || (sh.typ != "access" && r.Chance(60)) {
		h.Access = sc(replyKinds)
	}
	if (sh.typ == "get" && sh.hpresent) || (sh.typ != "get" && r.Chance(70)) {
		if r.Chance(50) {
			h.Get = sc(getReplyKinds)
		} else {
			h.Get = sc(replyKinds)
		}
	}
	method := ""
	var must []string
	star := false
	switch sh.mcase {
	case "named":
		method = r.Pick(methodPool)
		must = []string{method}
	case "star":
		method = "zzz"
		star = true
	case "none":
		method = "zzz"
	case "new-handler":
		method = "new"
		h.New = sc(replyKinds)
		if r.Chance(50) {
			must = []string{"new"}
		}
	case "new-call":
		method = "new"
		must = []string{"new"}
	case "new-none":
		method = "new"
		star = r.Chance(50)
	case "empty":
		method = ""
		star = r.Chance(50)
	}
	if sh.mcase != "new-handler" && sh.mcase != "new-call" && sh.mcase != "new-none" && r.Chance(30) {
		h.New = sc(replyKinds)
	}
	mk := func(mine bool) map[string][]Action {
		var t map[string][]Action
		if mine {
			t = genTable(r, must, prop == "C05")
			if t != nil {
				if star {
					t["*"] = genScript(r, replyKinds)
				} else {
					delete(t, "*")
				}
				if sh.mcase == "none" || sh.mcase == "star" || sh.mcase == "empty" {
					delete(t, method)
				}
				if sh.mcase == "new-none" || sh.mcase == "new-handler" && len(must) == 0 {
					delete(t, "new")
				}
			} else if star {
				t = map[string][]Action{"*": genScript(r, replyKinds)}
			}
			return t
		}
		return genTable(r, nil, false)
	}
	h.Call = mk(sh.typ == "call")
	h.Auth = mk(sh.typ == "auth")
	injectHandlers(r, &h, 22)
	pats := []PatternDef{{Pattern: strings.Join(pat, "."), Group: group, H: h}}
	if optionable(h) && r.Chance(35) {
		pats[0].Opt = r.Pick([]string{"model", "collection", "resource"})
	}
	// distractors: a longer and a sibling pattern
	ok := Action{Op: "reply", Kind: "ok", V: &Val{K: "str", S: "distractor"}}
	dh := func(pid int) Handlers {
		return Handlers{Pid: pid, Access: &[]Action{{Op: "reply", Kind: "accessgranted"}}, Get: &[]Action{{Op: "reply", Kind: "model", V: &Val{K: "map", M: map[string]string{"d": "1"}}}},
			Call: map[string][]Action{"*": {ok}}, Auth: map[string][]Action{"*": {ok}}}
	}
	if pat[len(pat)-1] != ">" {
		pats = append(pats, PatternDef{Pattern: strings.Join(pat, ".") + ".zz", H: dh(1)})
		if len(pat) >= 2 && !strings.HasPrefix(pat[len(pat)-1], "$") && pat[len(pat)-1] != "*" {
			sib := append(append([]string{}, pat[:len(pat)-1]...), "zzsib")
			pats = append(pats, PatternDef{Pattern: strings.Join(sib, "."), H: dh(2)})
		}
	}
	// the request
	target := local
	if !sh.present {
		switch r.Intn(3) {
		case 0:
			target = local + ".nomatch"
		case 1:
			target = "nomatch." + local
		default:
			target = strings.Join(append(append([]string{}, name[:len(name)-1]...), "nomatch"), ".")
		}
	}
	rname := fullName(svc, target)
	if !sh.present && r.Chance(25) {
		rname = "elsewhere." + target
	}
	rq := Request{Reply: fmt.Sprintf("_INBOX.%s.%d", prop, seq)}
	switch sh.typ {
	case "call", "auth":
		rq.Parts = []string{sh.typ, rname, method}
		rq.Subject = sh.typ + "." + rname + "." + method
	default:
		rq.Parts = []string{sh.typ, rname, ""}
		rq.Subject = sh.typ + "." + rname
	}
	rq.PKind = sh.pkind
	switch sh.pkind {
	case "empty":
	case "obj":
		rq.Payload = "{}"
	case "null":
		rq.Payload = "null"
	case "bad":
		rq.Payload = badPayloads[sh.badIdx%len(badPayloads)]
	default:
		rq.Data, rq.Payload = genData(r, sh.pkind)
	}
	return desc{Kind: "single", Service: svc, Patterns: pats, Req: rq}
}

func malformed(r *Rng, prop string, seq int, k int) desc {
	d := genCase(r, shape{typ: "call", mcase: "named", present: true, hpresent: true, pkind: "empty"}, prop, seq)
	switch k % 5 {
	case 0:
		d.Req.Subject, d.Req.Parts = "nodot", nil
	case 1:
		d.Req.Subject, d.Req.Parts = "call.nomethod", nil
	case 2:
		d.Req.Subject, d.Req.Parts = "auth."+strings.Replace(d.Req.Parts[1], ".", "-", -1), nil
	case 3:
		d.Req.Reply = "" // well-formed subject, but no reply subject
	case 4:
		d.Req.Subject, d.Req.Parts = "", nil
	}
	return d
}

// handler sets with mounted sub-Muxes (depth 1-2, Mount and Route) and parent patterns whose token at the mount
// position is a placeholder; request names that match inside a mount, that enter a mount path but only match a
// pattern of the parent (routing falls back out of the mount), and near misses
func genMountCase(r *Rng, prop string, seq, k int) (desc, string) {
	svc := r.Pick([]string{"test", "test", "", "lib.v2"})
	mt := []string{r.Pick([]string{"admin", "sys", "call", "v2"})}
	if r.Chance(35) {
		mt = append(mt, r.Pick([]string{"v2", "get", "zone"}))
	}
	M := strings.Join(mt, ".")
	deep := r.Pick([]string{"deep", "new", "x1"})
	fill := "" // placeholders of the parent covering the extra tokens of a two-token mount path
	fillName := ""
	if len(mt) == 2 {
		fill, fillName = "$b.", "zone9."
	}
	grp := func(opts ...string) string { return opts[r.Intn(len(opts))] }
	route1, route2 := r.Chance(40), r.Chance(40)
	pid := 0
	mk := func(mounts []string, route bool, pattern, group string) PatternDef {
		p := PatternDef{Mounts: mounts, Route: route, Late: r.Chance(30), Pattern: pattern, Group: group, H: loadHandlers(r, pid, pid%3 == 0)}
		pid++
		return p
	}
	in1 := []string{M}
	in2 := []string{M, deep}
	pats := []PatternDef{
		mk(nil, false, "$tenant."+fill+"$section.settings", grp("", "g.${tenant}", "${section}.${tenant}", "fixed")), // 0
		mk(in1, route1, "user.$id", grp("", "u.${id}")),                                                              // 1
		mk(in1, route1, "user.$id.roles", grp("", "r.${id}")),                                                        // 2
		mk(in1, route1, "$x.$y.info", grp("", "${y}-${x}")),                                                          // 3
		mk(in2, route2, "$k.leaf", grp("", "${k}")),                                                                  // 4
		mk(in2, route2, "fixed", ""),                                                                                 // 5
		mk(nil, false, "$tenant."+fill+"ui.$page", grp("", "p.${page}.${tenant}")),                                   // 6
	}
	if r.Chance(50) {
		pats = append(pats, mk(nil, false, "$w.>", grp("", "w.${w}"))) // 7
	}
	if r.Chance(40) {
		pats = append(pats, mk(in1, route1, "$x.>", grp("", "${x}"))) // falls back inside the first mount only
	}
	shapes := []struct {
		local string
		tag   string
	}{
		{M + ".ui.settings", "mount-fallback"}, // enters the mount, matches the parent's pattern only
		{M + ".user.42", "mounted"},
		{M + ".user.42.roles", "mounted"},
		{M + "." + deep + ".k1.leaf", "mounted"},
		{M + "." + deep + ".zz.info", "mount-fallback"}, // enters the inner mount, matches a pattern of the outer one
		{M + ".ui.other", "mount-fallback"},
		{"other." + fillName + "ui.settings", "mounted"}, // never enters the mount
		{M + ".user", "near-miss"},
		{M + "." + deep + ".k1.leaf.x", "near-miss"},
		{M + "." + deep + ".fixed", "mounted"},
		{M + "." + deep + ".zz.settings", "near-miss"},
		{M + ".user.settings", "mount-fallback"}, // literal child inside the mount fails at the last token
		{M + "x.ui.settings", "near-miss"},
		{mt[0] + "." + fillName + "section7.settings", "mount-fallback"},
	}
	sh := shapes[k%len(shapes)]
	rname := fullName(svc, sh.local)
	rq := loadRequest(r, fmt.Sprintf("_INBOX.%s.m%d", prop, seq), rname, 7000+seq, []string{"set", "login", "set", "zzz"}, r.Intn(9))
	return desc{Kind: "single", Service: svc, Patterns: pats, Req: rq}, sh.tag
}

// payloads around the border of "is JSON": a valid payload followed by more bytes, two values, whitespace variants
var trailers = []struct {
	pre, post string
	valid     bool
}{
	{"", " trailing", false}, {"", "}", false}, {"", `{"cid":"x"}`, false}, {"", "\x00", false}, {"", " ", true},
	{"\t\n ", "\r\n", true}, {"", ",", false}, {"", "\n{}", false}, {"", " x", false}, {"", " null", false},
	{"\xef\xbb\xbf", "", false}, {"", "\v", false}, {"", "//c", false}, {" ", "\n\n\t", true}, {"", "]", false}, {"", `""`, false},
}

func genTrailing(r *Rng, prop string, seq, k int) desc {
	types := []string{"call", "auth", "get", "access"}
	pk := []string{"partial", "full", "obj", "null", "partial"}[r.Intn(5)]
	d := genCase(r, shape{typ: types[r.Intn(4)], mcase: "named", present: true, hpresent: true, pkind: pk}, prop, seq)
	t := trailers[k%len(trailers)]
	d.Req.Payload = t.pre + d.Req.Payload + t.post
	if !t.valid {
		d.Req.PKind = "bad"
		d.Req.Data = ReqData{}
	}
	if payloadIsJSON(d.Req.Payload) != t.valid {
		panic("harness: trailer table disagrees with json.Valid on " + strconv.Quote(d.Req.Payload))
	}
	return d
}

// a service with a small in-channel (= initial work queue capacity) and few workers, all of them held in
// stopped handlers, while many requests on distinct (and some repeated) resources are delivered
// a burst of n requests for ONE resource (one worker group): the first one is held in its handler until the
// listener has queued all the others behind it, so the group's own callback queue grows to n-1 entries and is
// then worked off without ever draining in between; every request has its own method (served by the * handler)
// and reply subject, so responses and handler invocations are counted per request
func genBurst(prop string, gseed uint64, idx, n int) desc {
	r := NewRng(gseed)
	d := desc{Kind: "flood", Service: "fl", GenSeed: gseed, Burst: n, Held: 1, Flood: n - 1, Late: 3}
	if n > 900 {
		d.InCh = n + 64
	}
	short := func() []Action {
		sc := genScript(r, replyKinds)
		if len(sc) > 3 {
			sc = sc[:3]
		}
		return sc
	}
	d.Patterns = []PatternDef{{Pattern: "q.$id", H: Handlers{Pid: 0, Call: map[string][]Action{"*": short(), "set": short()}, Auth: map[string][]Action{"*": short()}}}}
	rn := "fl.q.b0"
	for k := 0; k < n+d.Late; k++ {
		typ := "call"
		if k%7 == 3 {
			typ = "auth"
		}
		m := fmt.Sprintf("m%d", k)
		if k == 10 {
			m, typ = "set", "call"
		}
		pk := 8
		if r.Chance(10) {
			pk = r.Intn(8)
		}
		rq := loadRequest(r, fmt.Sprintf("_INBOX.%s.bu%d.%d", prop, idx, k), rn, 20000+k, []string{m}, pk)
		rq.Parts = []string{typ, rn, m}
		rq.Subject = typ + "." + rn + "." + m
		d.Reqs = append(d.Reqs, rq)
	}
	return d
}

// directed: a get / call / auth request of one worker group is held in its handler while requests of the SAME
// group - access requests among them - are queued behind it, then released; one response and one handler
// invocation per request. sameRes: all on one resource (types then differ), else one resource each in a shared group.
func genHeldMix(prop string, gseed uint64, idx int, held string, mix []string, sameRes bool) desc {
	r := NewRng(gseed)
	d := desc{Kind: "flood", Service: "fl", GenSeed: gseed, Held: 1, Flood: len(mix), Late: 1, HeldType: held, Mix: mix, SameRes: sameRes}
	short := func() *[]Action {
		sc := genScript(r, replyKinds)
		if len(sc) > 3 {
			sc = sc[:3]
		}
		return &sc
	}
	h := Handlers{Pid: 0, Access: short(), Get: short(), Call: map[string][]Action{"*": *short()}, Auth: map[string][]Action{"*": *short()}}
	p := PatternDef{Pattern: "q.$id", H: h}
	if !sameRes {
		p.Group = "grp"
	}
	d.Patterns = []PatternDef{p}
	types := append(append([]string{held}, mix...), "call")
	for k, typ := range types {
		rn := "fl.q.r0"
		if !sameRes {
			rn = fmt.Sprintf("fl.q.r%d", k)
		}
		rq := loadRequest(r, fmt.Sprintf("_INBOX.%s.hm%d.%d", prop, idx, k), rn, 30000+k, []string{fmt.Sprintf("m%d", k)}, 8)
		me := ""
		if typ == "call" || typ == "auth" {
			me = fmt.Sprintf("m%d", k)
			rq.Subject = typ + "." + rn + "." + me
		} else {
			rq.Subject = typ + "." + rn
		}
		rq.Parts = []string{typ, rn, me}
		d.Reqs = append(d.Reqs, rq)
	}
	return d
}

func genFlood(prop string, gseed uint64, idx, inCh, workers, nflood, nlate int) desc {
	r := NewRng(gseed)
	d := desc{Kind: "flood", Service: "fl", GenSeed: gseed, InCh: inCh, Workers: workers, Flood: nflood, Late: nlate}
	d.Held = workers
	if workers == 0 {
		d.Held = 32
	}
	qh := loadHandlers(r, 0, true)
	d.Patterns = []PatternDef{{Pattern: "q.$id", H: qh},
		{Pattern: "hold.$id", H: Handlers{Pid: 1, Call: map[string][]Action{"hold": {{Op: "reply", Kind: "ok", V: &Val{K: "str", S: "held"}}}}}}}
	reply := func(k int) string { return fmt.Sprintf("_INBOX.%s.fl%d.%d", prop, idx, k) }
	n := 0
	for i := 0; i < d.Held; i++ {
		rn := fmt.Sprintf("fl.hold.h%d", i)
		d.Reqs = append(d.Reqs, Request{Parts: []string{"call", rn, "hold"}, Subject: "call." + rn + ".hold", Reply: reply(n), PKind: "empty"})
		n++
	}
	pkOf := func() int {
		if r.Chance(75) {
			return 8 // empty
		}
		return r.Intn(10)
	}
	call := func(rn, m string) Request {
		rq := loadRequest(r, reply(n), rn, 9000+n, []string{m}, pkOf())
		rq.Parts = []string{"call", rn, m}
		rq.Subject = "call." + rn + "." + m
		return rq
	}
	var used []string
	for k := 0; k < nflood; k++ {
		if len(used) > 4 && r.Chance(20) {
			d.Reqs = append(d.Reqs, call(used[r.Intn(len(used))], fmt.Sprintf("m%d", k))) // a resource that already has pending work
		} else {
			rn := fmt.Sprintf("fl.q.r%d", k)
			used = append(used, rn)
			d.Reqs = append(d.Reqs, loadRequest(r, reply(n), rn, 9000+n, []string{"set", "login", "new", "zzz"}, pkOf()))
		}
		n++
	}
	for k := 0; k < nlate; k++ {
		d.Reqs = append(d.Reqs, call(used[r.Intn(len(used))], fmt.Sprintf("late%d", k)))
		n++
	}
	return d
}

// requests to the ROOT resource of a named service (pattern ""): subjects call.<svc>.<method>, auth.<svc>.<method>,
// get.<svc>, access.<svc> - the ones that several of the default subscriptions can match at once
func genRootCase(r *Rng, prop string, seq, k int) desc {
	types := []string{"call", "auth", "call", "auth", "get", "access"}
	mc := []string{"named", "star", "none", "new-handler", "named", "none"}[(k/6)%6]
	typ := types[k%6]
	if typ == "auth" && mc == "new-handler" {
		mc = "named"
	}
	d := genCase(r, shape{typ: typ, mcase: mc, present: true, hpresent: k%5 != 4,
		pkind: []string{"empty", "partial", "full", "bad", "partial"}[(k/3)%5], badIdx: k}, prop, seq)
	svc := []string{"test", "svc", "lib.v2"}[k%3]
	d.Service = svc
	root := d.Patterns[0]
	root.Pattern, root.Mounts = "", nil
	if strings.Contains(root.Group, "${") {
		root.Group = "grp"
	}
	d.Patterns = []PatternDef{root, {Pattern: "zz", H: Handlers{Pid: 1, Call: map[string][]Action{"*": {{Op: "reply", Kind: "ok", V: &Val{K: "str", S: "distractor"}}}}}}}
	me := d.Req.Parts[2]
	d.Req.Parts = []string{typ, svc, me}
	if typ == "call" || typ == "auth" {
		d.Req.Subject = typ + "." + svc + "." + me
	} else {
		d.Req.Subject = typ + "." + svc
	}
	return d
}

// the error paths (they all end in Service.errorf) under one given service configuration
func genErrPath(r *Rng, prop string, seq, k int, lg string, onErr bool) desc {
	typ := []string{"call", "get", "auth", "access"}[k%4]
	d := genCase(r, shape{typ: typ, mcase: "named", present: true, hpresent: true, pkind: "empty"}, prop, seq)
	ok := Action{Op: "reply", Kind: "ok", V: &Val{K: "int", I: k}}
	scripts := [][]Action{
		{{Op: "panic", Kind: "str", S: "boom"}},
		{ok, ok},
		{},
		{ok, {Op: "panic", Kind: "rt-index"}},
		{{Op: "panic", Kind: "goerr", S: "failed"}},
		{ok, {Op: "panic", Kind: "nilerr"}},
		{{Op: "event", S: "custom", V: &Val{K: "bad"}}, ok},
		{{Op: "reply", Kind: "ok", V: &Val{K: "bad"}}},
		{{Op: "panic", Kind: "other", N: 7}},
		{ok},
	}
	sc := scripts[(k/4)%len(scripts)]
	h := &d.Patterns[0].H
	switch typ {
	case "call":
		h.Call[d.Req.Parts[2]] = sc
	case "auth":
		h.Auth[d.Req.Parts[2]] = sc
	case "get":
		h.Get = &sc
	default:
		h.Access = &sc
	}
	if (k/4)%len(scripts) == len(scripts)-1 {
		d.Req.PKind, d.Req.Payload, d.Req.Data = "bad", badPayloads[k%len(badPayloads)], ReqData{}
	}
	d.Logger, d.OnError, d.cfgSet = lg, onErr, true
	return d
}

// one field absent or empty while related fields carry look-alike data: the handler must see exactly what was
// sent, an absent field as its zero value, never a value synthesised from another field
func genLookalike(r *Rng, prop string, seq, k int) desc {
	typ := []string{"auth", "call", "access", "get"}[k%4]
	d := genCase(r, shape{typ: typ, mcase: "named", present: true, hpresent: true, pkind: "partial"}, prop, seq)
	js := func(v interface{}) string { b, _ := json.Marshal(v); return string(b) }
	var dt ReqData
	var parts []string
	put := func(key, val string) { parts = append(parts, js(key)+":"+val) }
	hdr := map[string][]string{}
	for _, hk := range [][2]string{{"Host", "lookalike.example.com"}, {"host", "lower.example.com"}, {"X-Forwarded-For", "203.0.113.7"}, {"X-Real-Ip", "198.51.100.9"},
		{"Cookie", "cid=fromcookie; token=abc"}, {"Referer", "/from/referer?x=1"}, {"X-Original-Uri", "/orig?q=hdr"}, {"Authorization", "Bearer tok"}} {
		if r.Chance(55) {
			hdr[hk[0]] = []string{hk[1]}
		}
	}
	if k%8 < 6 {
		hdr["Host"] = []string{"lookalike.example.com"}
	}
	dt.Header = hdr
	put("header", js(hdr))
	// each related field: absent, present but empty, or carrying its own value
	field := func(name, own string, set func(string)) {
		switch r.Intn(3) {
		case 0:
		case 1:
			set("")
			put(name, `""`)
		default:
			set(own)
			put(name, js(own))
		}
	}
	field("host", "real.example.org", func(v string) { dt.Host = v })
	field("remoteAddr", "192.0.2.1:4000", func(v string) { dt.RemoteAddr = v })
	field("uri", "/ws?viaUri=1", func(v string) { dt.URI = v })
	field("query", "own=1", func(v string) { dt.Query = v })
	field("cid", "owncid", func(v string) { dt.CID = v })
	switch r.Intn(3) {
	case 1:
		dt.Token = `{"cid":"tokencid","host":"token.example"}`
		put("token", dt.Token)
	case 2:
		dt.Token = `null`
		put("token", dt.Token)
	}
	if r.Chance(50) {
		dt.Params = `{"cid":"paramcid","query":"p=1","host":"params.example"}`
		put("params", dt.Params)
	}
	if r.Chance(50) {
		dt.IsHTTP = r.Bool()
		put("isHttp", Bool(dt.IsHTTP))
	}
	if n := len(parts); n > 1 {
		j := r.Intn(n)
		parts = append(parts[j:], parts[:j]...)
	}
	d.Req.PKind, d.Req.Data, d.Req.Payload = "partial", dt, "{"+strings.Join(parts, ",")+"}"
	return d
}

// degenerate but deliverable resource names: "<service>.", "<service>..x", "<service>.a.", dots only, empty -
// with and without method tokens, for named and unnamed services. The subject is still well-formed for
// handleRequest (type, name, method), so exactly one response is due (normally system.notFound).
func degenerate(r *Rng, prop string, seq, k int) desc {
	types := []string{"get", "access", "call", "auth"}
	d := genCase(r, shape{typ: types[k%4], mcase: []string{"named", "star", "none"}[r.Intn(3)], present: true, hpresent: true,
		pkind: []string{"empty", "partial", "bad"}[r.Intn(3)], badIdx: r.Intn(9)}, prop, seq)
	svc := d.Service
	var names []string
	if svc != "" {
		names = []string{svc + ".", svc + "..x", svc + ".a.", svc + "..", svc + "...", "." + svc, svc + "..a.b", ".", "..", ""}
	} else {
		names = []string{".", "..x", "a.", "..", "", ".a", "a..b", "a.b."}
	}
	rn := names[(k/4)%len(names)]
	typ, me := d.Req.Parts[0], d.Req.Parts[2]
	d.Req.Parts = []string{typ, rn, me}
	if typ == "call" || typ == "auth" {
		d.Req.Subject = typ + "." + rn + "." + me
	} else {
		d.Req.Subject = typ + "." + rn
	}
	return d
}

// request payload whose every field is unique to the request id and of a length depending on it
func uniqData(r *Rng, id int, kind string) (ReqData, string) {
	pad := func(n int) string { return strings.Repeat("x", n) }
	has := func() bool { return kind == "full" || r.Chance(70) }
	js := func(v interface{}) string { b, _ := json.Marshal(v); return string(b) }
	var d ReqData
	var parts []string
	if has() {
		d.CID = fmt.Sprintf("cid-%d-%s", id, pad(id*7%23))
		parts = append(parts, `"cid":`+js(d.CID))
	}
	if has() {
		d.Params = fmt.Sprintf(`{"id":%d,"pad":"%s"}`, id, pad(id*13%61))
		parts = append(parts, `"params":`+d.Params)
	}
	if has() {
		d.Token = fmt.Sprintf(`{"user":"u%d","k":[%d,%d],"p":"%s"}`, id, id, id*id, pad(id*5%37))
		parts = append(parts, `"token":`+d.Token)
	}
	if has() {
		d.Header = map[string][]string{"X-Req": {fmt.Sprintf("h%d-%s", id, pad(id*3%17))}}
		if id%3 == 0 {
			d.Header["Cookie"] = []string{fmt.Sprintf("c=%d", id), "second"}
		}
		parts = append(parts, `"header":`+js(d.Header))
	}
	if has() {
		d.Host = fmt.Sprintf("host%d.example.com", id)
		parts = append(parts, `"host":`+js(d.Host))
	}
	if has() {
		d.RemoteAddr = fmt.Sprintf("10.0.%d.%d:%d", id/250, id%250, 1000+id)
		parts = append(parts, `"remoteAddr":`+js(d.RemoteAddr))
	}
	if has() {
		d.URI = fmt.Sprintf("/ws/%d/%s", id, pad(id*11%19))
		parts = append(parts, `"uri":`+js(d.URI))
	}
	if has() {
		d.Query = fmt.Sprintf("id=%d&p=%s", id, pad(id*17%29))
		if id%3 == 1 {
			d.Query = queryPool[id%len(queryPool)] + d.Query // separator-like bytes in front of the unique part
		}
		parts = append(parts, `"query":`+js(d.Query))
	}
	if has() {
		d.IsHTTP = id%2 == 0
		parts = append(parts, `"isHttp":`+Bool(d.IsHTTP))
	}
	if n := len(parts); n > 1 {
		k := r.Intn(n)
		parts = append(parts[k:], parts[:k]...)
	}
	return d, "{" + strings.Join(parts, ",") + "}"
}

func loadHandlers(r *Rng, pid int, withNew bool) Handlers {
	h := Handlers{Pid: pid}
	s1, s2, s3 := genScript(r, replyKinds), genScript(r, getReplyKinds), genScript(r, replyKinds)
	h.Access, h.Get = &s1, &s2
	if withNew {
		h.New = &s3
	}
	h.Call = genTable(r, []string{"set"}, false)
	h.Auth = genTable(r, []string{"login"}, false)
	injectHandlers(r, &h, 12)
	return h
}

func loadRequest(r *Rng, reply, rname string, id int, methods []string, pk int) Request {
	typ := r.Pick([]string{"access", "get", "call", "call", "auth"})
	rq := Request{Reply: reply}
	if typ == "call" || typ == "auth" {
		m := r.Pick(methods)
		rq.Parts = []string{typ, rname, m}
		rq.Subject = typ + "." + rname + "." + m
	} else {
		rq.Parts = []string{typ, rname, ""}
		rq.Subject = typ + "." + rname
	}
	switch {
	case pk < 5:
		rq.PKind = "full"
		rq.Data, rq.Payload = uniqData(r, id, "full")
	case pk < 8:
		rq.PKind = "partial"
		rq.Data, rq.Payload = uniqData(r, id, "partial")
	case pk < 9:
		rq.PKind = "empty"
	default:
		rq.PKind = "bad"
		rq.Payload = badPayloads[r.Intn(len(badPayloads))]
	}
	return rq
}

// many requests, every one on its own resource name (so on its own worker group, except
// the resources sharing a group), with payload values unique to the request
func genConc(r *Rng, prop string, round, nreq, nres, workers int) desc {
	d := desc{Kind: "conc", Service: "load", Workers: workers}
	d.Lookups = 3
	d.LookupPs = []string{"lk0.$x", "lk1.$a.$b.$c.$d.$e"}
	for i := 0; i < nres; i++ {
		p := PatternDef{Pattern: fmt.Sprintf("res%d.$id", i), H: loadHandlers(r, i, i%3 == 0)}
		if i%4 == 2 && optionable(p.H) {
			p.Opt = []string{"model", "collection", "resource"}[i%3]
		}
		if i%2 == 1 {
			p.Pattern += ".$p2.$p3.$p4.$p5"
		}
		if i%5 == 0 {
			p.Group = "shared"
		} else if i%7 == 3 {
			p.Group = "g.${p3}.${id}"
		}
		d.Patterns = append(d.Patterns, p)
	}
	for j := range d.LookupPs {
		d.Patterns = append(d.Patterns, PatternDef{Pattern: d.LookupPs[j], H: Handlers{Pid: nres + j, Get: &[]Action{{Op: "reply", Kind: "model", V: &Val{K: "null"}}}}})
	}
	for k := 0; k < nreq; k++ {
		i := r.Intn(nres)
		rname := fmt.Sprintf("load.res%d.k%d", i, k)
		if i%2 == 1 {
			rname += fmt.Sprintf(".a%d.b%d.c%d.d%d", k, k*3, k*7, k*11)
		}
		d.Reqs = append(d.Reqs, loadRequest(r, fmt.Sprintf("_INBOX.%s.c%d.%d", prop, k, round), rname, round*1000+k, []string{"set", "login", "new", "zzz", "get"}, r.Intn(10)))
	}
	return d
}

// requests on patterns with 12 path params, routed on the listener goroutine while other goroutines
// look up other names of the same token count through Service.With / Service.Resource
func genRouteRace(r *Rng, prop string, round, nreq int) desc {
	d := desc{Kind: "conc", Service: "rt", Lookups: 4}
	tags := func(prefix string) string {
		ts := make([]string, 12)
		for i := range ts {
			ts[i] = fmt.Sprintf("$%s%d", prefix, i+1)
		}
		return strings.Join(ts, ".")
	}
	for i := 0; i < 4; i++ {
		p := PatternDef{Pattern: fmt.Sprintf("w%d.", i) + tags("p"), H: loadHandlers(r, i, i == 0)}
		switch i {
		case 1:
			p.Group = "g.${p5}"
		case 2:
			p.Group = "${p12}.${p1}"
		}
		d.Patterns = append(d.Patterns, p)
	}
	d.LookupPs = []string{"o0." + tags("q"), "o1." + tags("q")}
	for j := range d.LookupPs {
		d.Patterns = append(d.Patterns, PatternDef{Pattern: d.LookupPs[j], H: Handlers{Pid: 4 + j, Get: &[]Action{{Op: "reply", Kind: "model", V: &Val{K: "null"}}}}})
	}
	for k := 0; k < nreq; k++ {
		ts := make([]string, 12)
		for i := range ts {
			ts[i] = fmt.Sprintf("k%dv%d", k, i+1)
		}
		rname := fmt.Sprintf("rt.w%d.", r.Intn(4)) + strings.Join(ts, ".")
		d.Reqs = append(d.Reqs, loadRequest(r, fmt.Sprintf("_INBOX.%s.w%d.%d", prop, k, round), rname, 5000+round*1000+k, []string{"set", "login", "set", "login", "zzz"}, r.Intn(9)))
	}
	return d
}

// request A is stopped in its handler until request B, on another resource, is done
func genPair(r *Rng, prop string, seq int) desc {
	d := desc{Kind: "pair", Service: "ovl", Twice: seq%3 == 2}
	if seq%4 < 2 {
		d.Procs = 1
	}
	d.Patterns = []PatternDef{{Pattern: "pa.$id", H: loadHandlers(r, 0, false)}, {Pattern: "pb.$id", H: loadHandlers(r, 1, seq%2 == 0)}}
	ida := 1 + r.Intn(400)
	idb := 1 + r.Intn(400)
	if seq%2 == 0 {
		idb = ida + 1 + r.Intn(50) // mostly longer values
	}
	// A must reach a handler: registered methods only, decodable payload
	a := loadRequest(r, fmt.Sprintf("_INBOX.%s.pa%d", prop, seq), fmt.Sprintf("ovl.pa.a%d", seq), ida, []string{"set", "login"}, r.Intn(8))
	if a.Parts[0] == "call" {
		a.Parts[2], a.Subject = "set", "call."+a.Parts[1]+".set"
	} else if a.Parts[0] == "auth" {
		a.Parts[2], a.Subject = "login", "auth."+a.Parts[1]+".login"
	}
	b := loadRequest(r, fmt.Sprintf("_INBOX.%s.pb%d", prop, seq), fmt.Sprintf("ovl.pb.b%d", seq), idb, []string{"set", "login", "new", "zzz"}, r.Intn(8))
	d.Reqs = []Request{a, b}
	return d
}

func main() {
	prop := flag.String("prop", "C04", "C04|C05")
	child := flag.String("child", "", "(internal) run the descriptions of this file, results as JSON lines")
	from := flag.Int("from", 0, "(internal) first description to run")
	workers := flag.Int("workers", 0, "worker count of the concurrent-load service (0 = the library's default, 32)")
	o := ParseOpts()
	if *child != "" {
		childMain(*child, *from)
		return
	}
	r := NewRng(o.Seed*2 + uint64(len(*prop)) + uint64((*prop)[2]))
	var ds []desc
	mountTag := map[int]string{}
	degTag := map[int]bool{}
	rootTag := map[int]bool{}
	lookTag := map[int]bool{}
	dist := map[string]int{}
	seq := 0
	add := func(d desc) {
		// every family runs under every service configuration {no logger, MemLogger, StdLogger} x {OnError unset, set}
		if o.Replay == "" && !d.cfgSet {
			d.Logger = []string{"", "mem", "std"}[seq%3]
			d.OnError = (seq/3)%2 == 1
		}
		ds = append(ds, d)
		seq++
	}
	if o.Replay != "" {
		var d desc
		if err := LoadReplay(o.Replay, &d); err != nil {
			panic(err)
		}
		if d.Kind == "flood" && len(d.Reqs) == 0 && len(d.Mix) > 0 {
			d = genHeldMix(*prop, d.GenSeed, 0, d.HeldType, d.Mix, d.SameRes)
		}
		if d.Kind == "flood" && len(d.Reqs) == 0 && d.Burst > 0 {
			d = genBurst(*prop, d.GenSeed, 0, d.Burst)
		}
		if d.Kind == "flood" && len(d.Reqs) == 0 {
			d = genFlood(*prop, d.GenSeed, 0, d.InCh, d.Workers, d.Flood, d.Late)
		}
		if d.Kind == "conc" && len(d.Reqs) == 0 {
			d.Kind = "single"
		}
		add(d)
	} else {
		// (a) the product of request shapes
		types := []string{"access", "get", "call", "auth"}
		mcases := []string{"named", "star", "none", "new-handler", "new-call", "new-none", "empty"}
		pkinds := []string{"full", "partial", "empty", "obj", "null", "bad", "bad", "bad"}
		reps := 1
		if o.Tier == "thorough" {
			reps = 12
		}
		bi := 0
		for rep := 0; rep < reps; rep++ {
			for _, t := range types {
				ms := []string{""}
				if t == "call" {
					ms = mcases
				} else if t == "auth" {
					ms = []string{"named", "star", "none", "new-none", "empty"}
				}
				for _, mc := range ms {
					for _, present := range []bool{true, false} {
						for _, hp := range []bool{true, false} {
							if !hp && (t == "call" || t == "auth") {
								continue
							}
							for _, pk := range pkinds {
								if !present && pk != "full" && pk != "bad" && pk != "empty" {
									continue
								}
								bi++
								add(genCase(r, shape{t, mc, present, hp, pk, bi}, *prop, seq))
							}
						}
					}
				}
			}
		}
		// (b) random shapes
		n := 750
		if o.Tier == "thorough" {
			n = 12000
		}
		if o.N > 0 {
			n = o.N
		}
		for i := 0; i < n; i++ {
			sh := shape{typ: types[r.Intn(4)], present: r.Chance(90), hpresent: r.Chance(80), badIdx: r.Intn(100)}
			if r.Chance(3) {
				sh.typ = "foo"
			}
			switch k := r.Intn(100); {
			case k < 40:
				sh.mcase = "named"
			case k < 60:
				sh.mcase = "star"
			case k < 72:
				sh.mcase = "new-handler"
			case k < 80:
				sh.mcase = "new-call"
			case k < 88:
				sh.mcase = "none"
			case k < 94:
				sh.mcase = "new-none"
			default:
				sh.mcase = "empty"
			}
			if sh.typ == "auth" && strings.HasPrefix(sh.mcase, "new-") {
				sh.mcase = "new-none"
			}
			switch k := r.Intn(20); {
			case k < 7:
				sh.pkind = "full"
			case k < 12:
				sh.pkind = "partial"
			case k < 16:
				sh.pkind = "empty"
			case k < 17:
				sh.pkind = "obj"
			case k < 18:
				sh.pkind = "null"
			default:
				sh.pkind = "bad"
			}
			add(genCase(r, sh, *prop, seq))
		}
		// (b') payloads that start with a valid JSON value
		nt := 5 * len(trailers)
		if o.Tier == "thorough" {
			nt = 60 * len(trailers)
		}
		for k := 0; k < nt; k++ {
			add(genTrailing(r, *prop, seq, k))
		}
		// (b'') mounted sub-Muxes and parent patterns with a placeholder at the mount position
		nm := 9 * 14
		if o.Tier == "thorough" {
			nm = 150 * 14
		}
		for k := 0; k < nm; k++ {
			d, tag := genMountCase(r, *prop, seq, k)
			mountTag[len(ds)] = tag
			add(d)
		}
		// (c) malformed subjects / no reply subject
		for k := 0; k < 10; k++ {
			add(malformed(r, *prop, seq, k))
		}
		// (b3) the error paths under every service configuration
		for _, lg := range []string{"", "mem", "std"} {
			for _, oe := range []bool{false, true} {
				for k := 0; k < 40; k++ {
					add(genErrPath(r, *prop, seq, k, lg, oe))
				}
			}
		}
		// (b4) absent / empty fields next to look-alike data in related fields
		nlook := 96
		if o.Tier == "thorough" {
			nlook = 1200
		}
		for k := 0; k < nlook; k++ {
			lookTag[len(ds)] = true
			add(genLookalike(r, *prop, seq, k))
		}
		// (c0) the root resource of a named service
		nroot := 72
		if o.Tier == "thorough" {
			nroot = 720
		}
		for k := 0; k < nroot; k++ {
			rootTag[len(ds)] = true
			add(genRootCase(r, *prop, seq, k))
		}
		// (c') degenerate but deliverable resource names
		ndeg := 80
		if o.Tier == "thorough" {
			ndeg = 800
		}
		for k := 0; k < ndeg; k++ {
			degTag[len(ds)] = true
			add(degenerate(r, *prop, seq, k))
		}
		// (d) concurrent load
		rounds := 2
		if o.Tier == "thorough" {
			rounds = 10
		}
		for k := 0; k < rounds; k++ {
			add(genConc(r, *prop, k, 200, 20, *workers))
		}
		// (d') routing of requests with many path params while With / Resource lookups run on other goroutines
		for k := 0; k < rounds; k++ {
			add(genRouteRace(r, *prop, k, 200))
		}
		// (d'') more pending work items than the work queue's initial capacity while every worker is busy
		floods := [][2]int{{1, 1}, {2, 1}, {4, 2}, {1, 2}, {2, 2}, {4, 1}}
		for fi, f := range floods {
			add(genFlood(*prop, r.Next(), fi, f[0], f[1], 40, 6))
		}
		if o.Tier == "thorough" {
			for fi := 0; fi < 12; fi++ {
				add(genFlood(*prop, r.Next(), 100+fi, 1+r.Intn(8), 1+r.Intn(3), 30+r.Intn(200), 10))
			}
			add(genFlood(*prop, r.Next(), 200, 0, 0, 3000, 20)) // the library's defaults: 1024 / 32
			add(genFlood(*prop, r.Next(), 201, 64, 0, 400, 20))
		}
		// (d3) long per-group callback queues: bursts for one resource, sizes around powers of two and beyond
		bursts := []int{65, 129, 258, 300}
		if o.Tier == "thorough" {
			bursts = []int{65, 129, 257, 258, 300, 513, 600, 1025, 1100, 2049}
		}
		for bi, n := range bursts {
			add(genBurst(*prop, r.Next(), bi, n))
		}
		// (d4) directed: requests (access among them) queued behind a held get / call / auth request of the same group
		hm := 0
		for _, held := range []string{"get", "call", "auth"} {
			for _, mix := range [][]string{{"access"}, {"access", "get"}, {"get", "access", "call"}, {"access", "access", "access"}, {"call", "access"}, {"access", "auth", "access"}, {"access", "call"}} {
				for _, same := range []bool{true, false} {
					if same {
						// on one resource the request types must differ (they tell the requests apart)
						seen := map[string]bool{held: true}
						dup := false
						for _, t := range mix {
							if (t == "get" || t == "access") && seen[t] {
								dup = true
							}
							seen[t] = true
						}
						if dup {
							continue
						}
					}
					add(genHeldMix(*prop, r.Next(), hm, held, mix, same))
					hm++
				}
			}
		}
		// (e) deterministic overlap of two requests on different worker groups
		pairs := 60
		if o.Tier == "thorough" {
			pairs = 600
		}
		for k := 0; k < pairs; k++ {
			add(genPair(r, *prop, seq))
		}
	}

	terms, crashed, viols, errTail := runAll(*prop, o.Out, ds)
	var cases []Case
	var impl []ImplViolation
	if o.Replay == "" {
		nopt := 150
		if o.Tier == "thorough" {
			nopt = 3000
		}
		impl = append(impl, optionStream(NewRng(o.Seed*7+3), nopt, dist)...)
	}
	for i, d := range ds {
		dist[fmt.Sprintf("cfg:logger=%s,onerror=%v", d.Logger, d.OnError)]++
		if crashed[i] {
			dist["crashed"]++
			impl = append(impl, ImplViolation{What: "the service process died while handling the request (a panic escaped): " + errTail, Desc: d, Tags: []string{"crash"}})
		}
		for _, v := range viols[i] {
			tag := "overlap-pair"
			if strings.HasPrefix(v, "ParseQuery()") {
				tag = "parse-query"
			} else if d.Kind == "conc" {
				tag = "routing"
			} else if d.Kind == "flood" {
				tag = "queue-flood"
			}
			impl = append(impl, ImplViolation{What: v, Desc: d, Tags: []string{tag}})
		}
		if d.Kind == "flood" {
			for j, t := range terms[i] {
				// stored description: the scenario (regenerated from gen_seed on replay) plus this member's own request
				compact := d
				compact.Reqs = nil
				compact.Req = d.Reqs[j]
				role := "flooding-request"
				if j < d.Held {
					role = "held-request"
				} else if j >= d.Held+d.Flood {
					role = "late-request"
				}
				c := Case{Term: t, Desc: compact, Nontrivial: true, Tags: []string{"queue-flood", role}, Key: t}
				if len(d.Mix) > 0 {
					c.Tags = []string{"held-mix", role}
					dist["held-mix-member"]++
				} else if d.Burst > 0 {
					c.Tags = []string{"group-burst", role}
					dist["burst-member"]++
				}
				dist["flood-member"]++
				dist["type:"+d.Reqs[j].Parts[0]]++
				cases = append(cases, c)
			}
			continue
		}
		if d.Kind == "pair" {
			for j, t := range terms[i] {
				c := Case{Term: t, Desc: d, Nontrivial: true, Tags: []string{"overlap-pair", []string{"stopped-request", "overlapping-request"}[j%2]}}
				if d.Twice {
					c.Tags = append(c.Tags, "read-twice")
				}
				dist["pair-member"]++
				dist["type:"+d.Reqs[j].Parts[0]]++
				cases = append(cases, c)
			}
			continue
		}
		if d.Kind == "conc" {
			for j, t := range terms[i] {
				// replayable: a small concurrent round of this request and the 7 fed after it
				one := desc{Kind: "conc", Service: d.Service, Workers: d.Workers, Lookups: d.Lookups, LookupPs: d.LookupPs}
				need := map[string]bool{}
				for k := 0; k < 8 && k < len(d.Reqs); k++ {
					rq := d.Reqs[(j+k)%len(d.Reqs)]
					one.Reqs = append(one.Reqs, rq)
					need[strings.Split(rq.Parts[1], ".")[1]] = true
				}
				for _, p := range d.Patterns {
					first := strings.Split(p.Pattern, ".")[0]
					if need[first] || strings.HasPrefix(first, "lk") || strings.HasPrefix(first, "o") {
						one.Patterns = append(one.Patterns, p)
					}
				}
				c := Case{Term: t, Desc: one, Nontrivial: true, Tags: []string{"concurrent-load"}}
				if d.Service == "rt" {
					c.Tags = append(c.Tags, "routing-race")
					dist["routing-race"]++
				}
				dist["conc"]++
				dist["type:"+d.Reqs[j].Parts[0]]++
				cases = append(cases, c)
			}
			continue
		}
		rq := d.Req
		c := Case{Term: terms[i][0], Desc: d}
		scripts := allScripts(d.Patterns[0].H)
		ne, be := scan(scripts...)
		if ne {
			c.Tags = append(c.Tags, "nil-error")
		}
		if lookTag[i] {
			c.Tags = append(c.Tags, "lookalike-fields")
			dist["lookalike-fields"]++
		}
		if rootTag[i] {
			c.Tags = append(c.Tags, "root-resource")
			dist["root-resource"]++
		}
		if degTag[i] {
			c.Tags = append(c.Tags, "degenerate-name")
			dist["degenerate-name"]++
		}
		if t := mountTag[i]; t != "" {
			c.Tags = append(c.Tags, "mounts", t)
			dist["mounts:"+t]++
		}
		if be {
			c.Tags = append(c.Tags, "bad-error-panic")
			dist["bad-error-panic"]++
		}
		if scanMP(scripts...) {
			c.Tags = append(c.Tags, "marshal-panic")
			dist["marshal-panic"]++
		}
		if scanRT(scripts...) {
			c.Tags = append(c.Tags, "runtime-error-panic")
			dist["runtime-error-panic"]++
		}
		if crashed[i] {
			c.Tags = append(c.Tags, "crash")
		}
		dist["single"]++
		dist["payload:"+rq.PKind]++
		if len(rq.Parts) == 3 {
			dist["type:"+rq.Parts[0]]++
			if strings.Contains(terms[i][0], "RC None") {
				dist["no-match"]++
			}
			methodLike := false
			for _, t := range strings.Split(rq.Parts[1], ".") {
				for _, m := range []string{"call", "get", "auth", "access", "set", "new"} {
					if t == m {
						methodLike = true
					}
				}
			}
			if methodLike {
				dist["name-with-type-or-method-token"]++
			}
			if rq.Reply == "" {
				dist["no-reply-subject"]++
			}
		} else {
			dist["malformed-subject"]++
		}
		if rq.Data.IsHTTP {
			dist["isHttp"]++
		}
		maxLen := 0
		for _, sc := range scripts {
			if len(sc) > maxLen {
				maxLen = len(sc)
			}
		}
		dist[fmt.Sprintf("max-script-len:%d", maxLen)]++
		c.Nontrivial = len(rq.Parts) == 3 && rq.Reply != "" && (maxLen >= 1 || rq.PKind == "bad")
		cases = append(cases, c)
	}
	// how often the interesting branches were hit, measured on what the service published
	for _, c := range cases {
		t := c.Term
		for _, k := range []string{"PPre", "PEvt", "PResource", "PResult", "LInvoke", "LValue", "(Some (GErr", "meta:(Some ("} {
			if strings.HasPrefix(k, "meta:") {
				// a response carrying a meta object
				if strings.Contains(t, "%Z,[") {
					dist["saw:meta"]++
				}
				continue
			}
			if strings.Contains(t, k) {
				dist["saw:"+k]++
			}
		}
		for code, name := range map[string]string{"system.internalError": "internalError", "system.notFound": "notFound", "system.methodNotFound": "methodNotFound",
			"Internal error: missing response": "missing-response", "res: response already sent on request": "double-reply-panic"} {
			if strings.Contains(t, "PError "+B(code)) || strings.Contains(t, " "+B("Internal error: "+code)+" ") || strings.Contains(t, " "+B(code)+" None") {
				dist["saw:"+name]++
			}
		}
	}
	rule := "one request per case against a freshly served res.Service on a recording connection that hands a request to the service once per subscription whose subject matches (scripts of 0-6 actions per handler incl. ParseParams/ParseToken into typed targets, a third of the handler sets built through the Option API (GetModel/GetCollection/GetResource, Set, ...), 150 option lists with conflicts checked against the documented registration panics, panic values incl. real runtime errors: index out of range, nil map write, nil dereference, divide by zero, failed type assertion; product of request type x method case {named,*,none,new with/without New handler,empty} x resource matched/unmatched x handler present/absent x payload {full,partial,empty,{},null,6 undecodable texts} + random shapes + 72 requests to the root resource of a named service (the empty pattern) + malformed subjects + 80 degenerate but deliverable resource names (<service>., <service>..x, trailing dot, dots only, empty; all four types, named and unnamed services) + 2 rounds of 200 concurrent requests over 20 resource patterns, each request on its own resource name with payload values unique to it, handlers yielding before they read, compared per reply subject and per-request handler observations + 2 rounds of 200 requests on patterns with 12 path params routed while 4 goroutines call Service.With / Service.Resource on other names of the same token count (the load rounds have 3 such goroutines too); params and group expected in concurrent cases are derived from the subject with Pattern.Values + payloads that start with a valid JSON value (trailing bytes, two concatenated values, NUL/BOM/whitespace variants; validity judged by json.Valid on the bytes sent) + 126 requests on handler sets with sub-Muxes mounted (Mount/Route, depth 1-2, handlers added before/after mounting) under parent patterns that have placeholders at the mount position: names matching inside a mount, names entering a mount path but matching only a pattern of the parent / of the outer mount, near misses; expected path params and group always derived from subject + full registered pattern, never from the Mux + 6 queue-flood scenarios (in-channel size 1/2/4, 1-2 workers all held in stopped handlers, 40 requests on distinct and repeated resources delivered meanwhile, 6 more after release; thorough also the default 1024/32 with 3000 pending) + same-resource bursts of 65/129/258/300 requests (thorough up to 2049) queued behind a held first request, responses and handler invocations counted per request + every family under the service configurations {no logger, MemLogger, StdLogger} x {OnError unset, set} and 240 error-path cases (40 per configuration) + values whose MarshalJSON panics (runtime error / string / error / *Error) in OK, Model, Collection, Query*, event and token-event positions of non-get handlers and as Data of *Error values (panicked, passed to Error, returned through RequireValue) + 96 payloads with absent or empty host/remoteAddr/uri/query/cid next to look-alike header, token and params entries + directed held-mix scenarios (a get/call/auth request held in its handler, access/get/call/auth requests of the same resource or group queued behind it, enumerated) + 60 overlap pairs: request A stopped inside its handler before (or between two) reads of its fields until request B on another worker group was processed completely, half of them under GOMAXPROCS=1); non-trivial = well-formed request whose pattern carries a non-empty script or whose payload does not decode; distinct by the whole case term"
	Emit(o, *prop, "From GoRes Require Import Run.Run_"+*prop+".", "rcase", rule, cases, dist, map[string]interface{}{"children_crashed": dist["crashed"], "racing_lookups_made": totalLookups}, impl, 250)
}
