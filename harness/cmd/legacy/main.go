// Correspondence harness for C20: the two deprecated BadgerDB middlewares
// (middleware/badgerdb.go and middleware/resbadger) on a real BadgerDB behind a real
// res.Service that serves on a recording connection.
package main

import (
	"encoding/json"
	"fmt"
	"net/url"
	"os"
	"sort"
	"strings"
	"sync"
	"time"

	"github.com/dgraph-io/badger"
	res "github.com/jirenius/go-res"
	"github.com/jirenius/go-res/middleware"
	"github.com/jirenius/go-res/middleware/resbadger"
	nats "github.com/nats-io/nats.go"

	. "verifharness/common"
)

// ---------- replayable description of a case ----------

// GV is a Go value handed to an event method: K = "f" float64, "i" int, "s" string, "null" nil,
// "b" bool, "arr" []interface{} of float64, "del" res.DeleteAction.
type GV struct {
	K string `json:"k"`
	N int    `json:"n,omitempty"`
	S string `json:"s,omitempty"`
	B bool   `json:"b,omitempty"`
	A []int  `json:"a,omitempty"`
}

// Res is a resource value: a model (property -> float64 | string | nil | bool | []interface{} of float64)
// or a collection of such values.
type Res struct {
	Model map[string]interface{} `json:"model,omitempty"`
	Coll  []interface{}          `json:"collection,omitempty"`
	IsC   bool                   `json:"is_collection,omitempty"`
	Null  bool                   `json:"is_null,omitempty"` // the JSON value null (Go nil)
}

type Ev struct {
	Op   string        `json:"op"` // change add remove create delete
	Ch   map[string]GV `json:"ch,omitempty"`
	V    *GV           `json:"v,omitempty"`
	Idx  int           `json:"idx,omitempty"`
	Data *Res          `json:"data,omitempty"`
	// create on a struct-typed handler: hand CreateEvent a value of the Type itself (the data then has
	// exactly the struct's fields) instead of a map[string]interface{}
	AsType bool `json:"as_type,omitempty"`
	// create with a value that encoding/json cannot marshal (Data unused)
	Bad bool `json:"unmarshalable,omitempty"`
}

type CfgD struct {
	Pkg  string   `json:"pkg"`  // legacy | resb
	Type string   `json:"type"` // model | collection
	Ty   string   `json:"ty"`   // untyped | any | num | struct (model: tstruct; collection: []interface{})
	Def  *Res     `json:"default,omitempty"`
	Idx  []string `json:"index_on,omitempty"`
	Map  bool     `json:"with_map,omitempty"` // resbadger.Model.WithMap(stdMap)
	// run Model.RebuildIndexes on the (private) database after the events
	Rebuild bool `json:"rebuild_indexes,omitempty"`
}

type Desc struct {
	Cfg    CfgD `json:"cfg"`
	Init   *Res `json:"init,omitempty"`
	Events []Ev `json:"events"`
	Len    int  `json:"gen_len,omitempty"` // generator: number of events to draw when Events is empty
	// concurrent section: the other resources of the same database / service whose event
	// sequences ran at the same time on other goroutines (replay runs the whole group again)
	Group []Desc `json:"concurrent_with,omitempty"`
}

// ---------- recording connection ----------

type pubRec struct {
	subj string
	data []byte
}

type recConn struct {
	mu      sync.Mutex
	subs    map[string]chan *nats.Msg
	events  map[string][]pubRec // by resource name ("" = not an event subject)
	replies map[string]chan []byte
	ready   chan struct{}
	once    sync.Once
	n       int
}

func newConn() *recConn {
	return &recConn{subs: map[string]chan *nats.Msg{}, events: map[string][]pubRec{}, replies: map[string]chan []byte{}, ready: make(chan struct{})}
}
func (c *recConn) Publish(subj string, data []byte) error {
	c.mu.Lock()
	defer c.mu.Unlock()
	d := append([]byte(nil), data...)
	switch {
	case strings.HasPrefix(subj, "event."):
		rn := ""
		if i := strings.LastIndexByte(subj, '.'); i > 6 {
			rn = subj[6:i]
		}
		c.events[rn] = append(c.events[rn], pubRec{subj, d})
	case subj == "system.reset":
		c.once.Do(func() { close(c.ready) })
	default:
		if ch, ok := c.replies[subj]; ok {
			ch <- d
		} else {
			c.events[""] = append(c.events[""], pubRec{subj, d})
		}
	}
	return nil
}
func (c *recConn) PublishRequest(subj, reply string, data []byte) error { return c.Publish(subj, data) }
func (c *recConn) ChanSubscribe(subj string, ch chan *nats.Msg) (*nats.Subscription, error) {
	c.mu.Lock()
	defer c.mu.Unlock()
	c.subs[subj] = ch
	return &nats.Subscription{Subject: subj}, nil
}
func (c *recConn) ChanQueueSubscribe(subj, q string, ch chan *nats.Msg) (*nats.Subscription, error) {
	return c.ChanSubscribe(subj, ch)
}
func (c *recConn) Close() {}

// takeEvents returns and forgets what was published on event.<rname>.* (and on unknown subjects)
func (c *recConn) takeEvents(rname string) []pubRec {
	c.mu.Lock()
	defer c.mu.Unlock()
	e := append(c.events[rname], c.events[""]...)
	delete(c.events, rname)
	delete(c.events, "")
	return e
}

var errTimeout = fmt.Errorf("timeout")

// get sends a get request for rname and returns the raw response
func (c *recConn) get(rname string) ([]byte, error) { return c.getQ(rname, nil) }

// getQ sends a get request with the given payload (e.g. {"query":"..."})
func (c *recConn) getQ(rname string, payload []byte) ([]byte, error) {
	c.mu.Lock()
	c.n++
	inbox := fmt.Sprintf("_INBOX.%d", c.n)
	rch := make(chan []byte, 1)
	c.replies[inbox] = rch
	var ch chan *nats.Msg
	for p, x := range c.subs {
		if strings.HasPrefix(p, "get.") {
			ch = x
		}
	}
	c.mu.Unlock()
	if ch == nil {
		return nil, fmt.Errorf("no get subscription")
	}
	ch <- &nats.Msg{Subject: "get." + rname, Reply: inbox, Data: payload}
	select {
	case d := <-rch:
		c.mu.Lock()
		delete(c.replies, inbox)
		c.mu.Unlock()
		return d, nil
	case <-time.After(10 * time.Second):
		return nil, errTimeout
	}
}

// ---------- values ----------

func (g GV) goVal() interface{} {
	switch g.K {
	case "f":
		return float64(g.N)
	case "i":
		return g.N
	case "s":
		return g.S
	case "null":
		return nil
	case "bad":
		return make(chan int) // encoding/json cannot marshal it
	case "b":
		return g.B
	case "arr":
		a := make([]interface{}, len(g.A))
		for i, x := range g.A {
			a[i] = float64(x)
		}
		return a
	}
	return res.DeleteAction
}
func nlist(a []int) string {
	p := make([]string, len(a))
	for i, x := range a {
		p[i] = N(x)
	}
	return List(p)
}
func (g GV) coq() string {
	switch g.K {
	case "f":
		return "GNum " + N(g.N)
	case "i":
		return "GInt " + N(g.N)
	case "bad":
		return "GBad"
	case "null":
		return "GNull"
	case "b":
		return "GBool " + Bool(g.B)
	case "arr":
		return "GArr " + nlist(g.A)
	default:
		return "GStr " + B(g.S)
	}
}
func (g GV) act() string {
	if g.K == "del" {
		return "Del"
	}
	return "(Put (" + g.coq() + "))"
}
func (g GV) isNum() bool { return g.K == "f" || g.K == "i" }

// jv renders a decoded JSON scalar as a Coq jval; ok=false when it is outside the modelled domain
func smallNat(v float64) bool { return v >= 0 && v == float64(int(v)) && v < 1e9 }
func jv(x interface{}) (string, bool) {
	switch v := x.(type) {
	case nil:
		return "JNull", true
	case bool:
		return "(JBool " + Bool(v) + ")", true
	case float64:
		if smallNat(v) {
			return "(JNum " + N(int(v)) + ")", true
		}
	case string:
		return "(JStr " + B(v) + ")", true
	case []interface{}:
		a := make([]int, len(v))
		for i, e := range v {
			f, ok := e.(float64)
			if !ok || !smallNat(f) {
				return "", false
			}
			a[i] = int(f)
		}
		return "(JArr " + nlist(a) + ")", true
	}
	return "", false
}

// actOf renders a decoded JSON value as act jval
func actOf(x interface{}) (string, bool) {
	if m, ok := x.(map[string]interface{}); ok {
		if len(m) == 1 && m["action"] == "delete" {
			return "Del", true
		}
		return "", false
	}
	s, ok := jv(x)
	return "(Put " + s + ")", ok
}

// resOf renders decoded JSON (object or array of scalars) as a Coq res
func resOf(x interface{}) (string, bool) {
	switch v := x.(type) {
	case nil:
		return "RNull", true
	case map[string]interface{}:
		keys := make([]string, 0, len(v))
		for k := range v {
			keys = append(keys, k)
		}
		sort.Strings(keys)
		parts := make([]string, len(keys))
		for i, k := range keys {
			s, ok := jv(v[k])
			if !ok {
				return "", false
			}
			parts[i] = "(" + B(k) + "," + s + ")"
		}
		return "(RModel " + List(parts) + ")", true
	case []interface{}:
		parts := make([]string, len(v))
		for i, e := range v {
			s, ok := jv(e)
			if !ok {
				return "", false
			}
			parts[i] = s
		}
		return "(RColl " + List(parts) + ")", true
	}
	return "", false
}
func (r *Res) generic() interface{} {
	if r.Null {
		return nil
	}
	if r.IsC || (r.Model == nil && r.Coll != nil) {
		c := make([]interface{}, len(r.Coll))
		copy(c, r.Coll)
		return c
	}
	m := map[string]interface{}{}
	for k, v := range r.Model {
		m[k] = v
	}
	return m
}
func (r *Res) isColl() bool { return r.IsC || (r.Model == nil && r.Coll != nil) }
func (r *Res) coq() string {
	s, ok := resOf(r.generic())
	if !ok {
		panic("bad Res")
	}
	return s
}
func optRes(r *Res) string {
	if r == nil {
		return "None"
	}
	return "(Some " + r.coq() + ")"
}
func (r *Res) allNum() bool {
	for _, v := range r.Model {
		if _, ok := v.(float64); !ok {
			return false
		}
	}
	for _, v := range r.Coll {
		if _, ok := v.(float64); !ok {
			return false
		}
	}
	return true
}

// tstruct is the struct Type of the "struct" handlers (Coq: TyStruct)
type tstruct struct {
	A float64 `json:"a"`
	B string  `json:"b"`
}

// exactStruct: the JSON of a tstruct value: exactly a number a and a string b
func (r *Res) exactStruct() bool {
	if r.Null || r.isColl() || len(r.Model) != 2 {
		return false
	}
	_, okA := r.Model["a"].(float64)
	_, okB := r.Model["b"].(string)
	return okA && okB
}

// typed converts r to the handler's Go type when it fits, else to the generic value; for the struct
// Type only when asType is set (otherwise a map[string]interface{} is handed over)
func (r *Res) typed(c CfgD, asType bool) interface{} {
	g := r.generic()
	if c.Ty == "struct" && c.Type == "model" && asType && r.exactStruct() {
		return tstruct{A: r.Model["a"].(float64), B: r.Model["b"].(string)}
	}
	if r.Null || c.Ty != "num" || !r.allNum() || r.isColl() != (c.Type == "collection") {
		return g
	}
	if r.isColl() {
		o := make([]float64, len(r.Coll))
		for i, v := range r.Coll {
			o[i] = v.(float64)
		}
		return o
	}
	o := map[string]float64{}
	for k, v := range r.Model {
		o[k] = v.(float64)
	}
	return o
}
func (r *Res) fits(c CfgD) bool {
	if c.Ty == "struct" && c.Type == "model" {
		return r.exactStruct()
	}
	return !r.Null && r.isColl() == (c.Type == "collection") && (c.Ty != "num" || r.allNum())
}

// parse decodes JSON bytes into generic values with float64 numbers
func parse(b []byte) (interface{}, bool) {
	var x interface{}
	if err := json.Unmarshal(b, &x); err != nil {
		return nil, false
	}
	return x, true
}

// ---------- the Index.Key callback (Coq: field_key) ----------

func fieldKey(f string) func(interface{}) []byte {
	num := func(x float64) []byte { return []byte{byte('0' + int(x)%10)} }
	return func(v interface{}) []byte {
		switch m := v.(type) {
		case map[string]interface{}:
			switch x := m[f].(type) {
			case string:
				return []byte(x) // the empty string gives an empty, non-nil slice
			case float64:
				return num(x)
			}
		case map[string]float64:
			if x, ok := m[f]; ok {
				return num(x)
			}
		case tstruct:
			switch f {
			case "a":
				return num(m.A)
			case "b":
				return []byte(m.B)
			}
		}
		return nil
	}
}

var idxNames = []string{"ia", "ib", "ic"}

// ---------- one batch: many cases on one database and one service ----------

type caseRun struct {
	d           Desc
	rname       string // test.cN
	calls       []string
	callBad     bool
	get0        string
	val0        string
	steps       []string
	reget       string
	restored    string
	reidx       string
	tags        map[string]bool
	npub        int
	nfail       int
	kinds       map[string]int
	broken      string // harness-level problem
	sawEmptyKey bool
	icalls      []string
	rbModel     *resbadger.Model
	rebuilt     string // lc_rebuild term
	fold        cview  // the view a client folds from the first get and this resource's published events
	diverged    string // first step at which the fold differs from get (concurrent section: runtime violation)
}

type batch struct {
	dir     string
	db      *badger.DB
	svc     *res.Service
	conn    *recConn
	done    chan struct{}
	cases   []*caseRun
	workers int
}

func openDB(dir string) *badger.DB {
	opts := badger.DefaultOptions(dir)
	opts.Logger = nil
	opts.SyncWrites = false
	db, err := badger.Open(opts)
	if err != nil {
		panic(err)
	}
	return db
}

func typeVal(c CfgD) interface{} {
	switch c.Ty {
	case "any":
		if c.Type == "model" {
			return map[string]interface{}{}
		}
		return []interface{}{}
	case "num":
		if c.Type == "model" {
			return map[string]float64{}
		}
		return []float64{}
	case "struct":
		if c.Type == "model" {
			return tstruct{}
		}
		return []interface{}{}
	}
	return nil
}

func (b *batch) register(cr *caseRun, listen bool) {
	c := cr.d.Cfg
	name := strings.TrimPrefix(cr.rname, "test.")
	var def interface{}
	if c.Def != nil {
		def = c.Def.typed(c, true)
	}
	tv := typeVal(c)
	switch c.Pkg {
	case "legacy":
		o := middleware.BadgerDB{}.WithDB(b.db)
		if def != nil {
			o = o.WithDefault(def)
		}
		if tv != nil {
			o = o.WithType(tv)
		}
		if c.Type == "model" {
			b.svc.Handle(name, res.Model, o)
		} else {
			b.svc.Handle(name, res.Collection, o)
		}
	case "resb":
		bd := resbadger.BadgerDB{}.WithDB(b.db)
		if c.Type == "model" {
			o := bd.Model()
			if def != nil {
				o = o.WithDefault(def)
			}
			if tv != nil {
				o = o.WithType(tv)
			}
			if c.Idx != nil {
				is := &resbadger.IndexSet{}
				for i, f := range c.Idx {
					is.Indexes = append(is.Indexes, resbadger.Index{Name: idxNames[i], Key: fieldKey(f)})
				}
				if listen {
					rec := func(name string) func(r res.Resource, before, after interface{}) {
						return func(r res.Resource, before, after interface{}) {
							if r == nil || r.ResourceName() != cr.rname {
								cr.callBad = true
							}
							cr.icalls = append(cr.icalls, "IC "+name+" "+optVal(before, &cr.callBad)+" "+optVal(after, &cr.callBad))
						}
					}
					is.Listen(rec("None"))
					for i := range c.Idx {
						is.ListenIndex(idxNames[i], rec("(Some "+N(i)+")"))
					}
				}
				o = o.WithIndexSet(is)
			}
			if c.Map {
				o = o.WithMap(stdMap)
			}
			om := o
			cr.rbModel = &om
			b.svc.Handle(name, o)
		} else {
			o := bd.Collection()
			if def != nil {
				o = o.WithDefault(def)
			}
			if tv != nil {
				o = o.WithType(tv)
			}
			b.svc.Handle(name, o)
		}
	}
	if listen {
		b.svc.AddListener(name, func(ev *res.Event) { b.onEvent(cr, ev) })
	}
}

// optVal renders a value handed to an index listener: nil interface = None
func optVal(v interface{}, bad *bool) string {
	if v == nil {
		return "None"
	}
	x, ok := marshalParse(v)
	s, ok2 := resOf(x)
	if !ok || !ok2 {
		*bad = true
		return "None"
	}
	return "(Some " + s + ")"
}

// stdMap is the Map callback (Coq: std_map): keeps property a, adds m = 1, fails when b = "y"
func stdMap(v interface{}) (interface{}, error) {
	out := map[string]interface{}{"m": 1.0}
	switch m := v.(type) {
	case map[string]interface{}:
		if m["b"] == "y" {
			return nil, fmt.Errorf("b is y")
		}
		if x, ok := m["a"]; ok {
			out["a"] = x
		}
	case map[string]float64:
		if x, ok := m["a"]; ok {
			out["a"] = x
		}
	case tstruct:
		if m.B == "y" {
			return nil, fmt.Errorf("b is y")
		}
		out["a"] = m.A
	default:
		return nil, fmt.Errorf("unexpected type %T", v)
	}
	return out, nil
}

func marshalParse(v interface{}) (interface{}, bool) {
	dta, err := json.Marshal(v)
	if err != nil {
		return nil, false
	}
	return parse(dta)
}

func revmapOf(m map[string]interface{}) (string, bool) {
	keys := make([]string, 0, len(m))
	for k := range m {
		keys = append(keys, k)
	}
	sort.Strings(keys)
	parts := make([]string, len(keys))
	for i, k := range keys {
		x, ok := marshalParse(m[k])
		if !ok {
			return "", false
		}
		a, ok := actOf(x)
		if !ok {
			return "", false
		}
		parts[i] = "(" + B(k) + "," + a + ")"
	}
	return List(parts), true
}

func (b *batch) onEvent(cr *caseRun, ev *res.Event) {
	if ev.Resource == nil || ev.Resource.ResourceName() != cr.rname {
		cr.callBad = true
	}
	bad := func() { cr.callBad = true }
	switch ev.Name {
	case "change":
		n, ok1 := revmapOf(ev.NewValues)
		o, ok2 := revmapOf(ev.OldValues)
		if !ok1 || !ok2 {
			bad()
			return
		}
		cr.calls = append(cr.calls, "LChange "+n+" "+o)
	case "add":
		x, ok := marshalParse(ev.Value)
		s, ok2 := jv(x)
		if !ok || !ok2 || ev.Idx < 0 {
			bad()
			return
		}
		cr.calls = append(cr.calls, "LAdd "+s+" "+N(ev.Idx))
	case "remove":
		if ev.Idx < 0 || ev.Value != nil {
			bad()
			return
		}
		cr.calls = append(cr.calls, "LRemove "+N(ev.Idx))
	case "create":
		x, ok := marshalParse(ev.Data)
		s, ok2 := resOf(x)
		if !ok || !ok2 {
			bad()
			return
		}
		cr.calls = append(cr.calls, "LCreate "+s)
	case "delete":
		// no data: a nil interface, or the json.RawMessage(nil) of middleware/badgerdb.go for a missing
		// resource; a typed nil map / slice (a stored `null`) is data and marshals to null
		if rm, isRaw := ev.Data.(json.RawMessage); ev.Data == nil || (isRaw && len(rm) == 0) {
			cr.calls = append(cr.calls, "LDelete None")
			return
		}
		x, ok := marshalParse(ev.Data)
		if !ok {
			bad()
			return
		}
		s, ok2 := resOf(x)
		if !ok2 {
			bad()
			return
		}
		cr.calls = append(cr.calls, "LDelete (Some "+s+")")
	default:
		bad()
	}
}

func (b *batch) start(listen bool) {
	b.conn = newConn()
	b.svc = res.NewService("test")
	b.svc.SetLogger(nil)
	if b.workers > 0 {
		b.svc.SetWorkerCount(b.workers)
	}
	for _, cr := range b.cases {
		b.register(cr, listen)
	}
	b.done = make(chan struct{})
	go func() {
		defer close(b.done)
		if err := b.svc.Serve(b.conn); err != nil {
			panic(err)
		}
	}()
	select {
	case <-b.conn.ready:
	case <-time.After(20 * time.Second):
		panic("service did not start")
	}
}
func (b *batch) stop() {
	b.svc.Shutdown()
	select {
	case <-b.done:
	case <-time.After(20 * time.Second):
		panic("service did not stop")
	}
}

// with runs f on the resource's worker goroutine and waits; panics inside f are returned
func (b *batch) with(rname string, f func(r res.Resource)) (panicked bool, pv interface{}, err error) {
	ch := make(chan struct{})
	e := b.svc.With(rname, func(r res.Resource) {
		defer close(ch)
		defer func() {
			if v := recover(); v != nil {
				panicked = true
				pv = v
			}
		}()
		f(r)
	})
	if e != nil {
		return false, nil, e
	}
	select {
	case <-ch:
	case <-time.After(20 * time.Second):
		return false, nil, errTimeout
	}
	return
}

// gresOfResponse classifies a get response
func gresOfResponse(b []byte) string {
	var r struct {
		Result map[string]json.RawMessage `json:"result"`
		Error  *struct {
			Code string `json:"code"`
		} `json:"error"`
	}
	if err := json.Unmarshal(b, &r); err != nil {
		return "GErr"
	}
	if r.Error != nil {
		if r.Error.Code == res.CodeNotFound {
			return "GNotFound"
		}
		return "GErr"
	}
	var raw json.RawMessage
	if m, ok := r.Result["model"]; ok {
		raw = m
	} else if c, ok := r.Result["collection"]; ok {
		raw = c
	} else {
		return "GErr"
	}
	x, ok := parse(raw)
	if !ok {
		return "GErr"
	}
	s, ok := resOf(x)
	if !ok {
		return "GErr"
	}
	return "(GOk " + s + ")"
}

func (b *batch) getG(cr *caseRun) string {
	d, err := b.conn.get(cr.rname)
	if err != nil {
		cr.broken = "get: " + err.Error()
		return "GErr"
	}
	return gresOfResponse(d)
}

func (b *batch) valueG(cr *caseRun) string {
	out := "GErr"
	_, _, err := b.with(cr.rname, func(r res.Resource) {
		v, e := r.Value()
		if e != nil {
			if re, ok := e.(*res.Error); ok && re.Code == res.CodeNotFound {
				out = "GNotFound"
			}
			return
		}
		x, ok := marshalParse(v)
		if !ok {
			return
		}
		if s, ok := resOf(x); ok {
			out = "(GOk " + s + ")"
		}
	})
	if err != nil {
		cr.broken = "value: " + err.Error()
	}
	return out
}

// stored reads the raw database entry and the index entries of the resource
func (b *batch) stored(cr *caseRun) (string, string) {
	st := "None"
	var ents []string
	err := b.db.View(func(txn *badger.Txn) error {
		item, err := txn.Get([]byte(cr.rname))
		if err == nil {
			dta, err := item.ValueCopy(nil)
			if err != nil {
				return err
			}
			x, ok := parse(dta)
			s, ok2 := resOf(x)
			if !ok || !ok2 {
				st = "(Some (RColl [JStr " + B("unparsable:"+string(dta)) + "]))"
			} else {
				st = "(Some " + s + ")"
			}
		} else if err != badger.ErrKeyNotFound {
			return err
		}
		suffix := "\x00" + cr.rname
		for i := range cr.d.Cfg.Idx {
			prefix := []byte(idxNames[i] + ":")
			it := txn.NewIterator(badger.DefaultIteratorOptions)
			for it.Seek(prefix); it.ValidForPrefix(prefix); it.Next() {
				k := string(it.Item().Key())
				if strings.HasSuffix(k, suffix) {
					ents = append(ents, "("+N(i)+","+B(k[len(prefix):len(k)-len(suffix)])+")")
				}
			}
			it.Close()
		}
		return nil
	})
	if err != nil {
		cr.broken = "db: " + err.Error()
	}
	return st, List(ents)
}

// fetchCounts asks IndexQuery.FetchCollection (no prefix, no limit) for every index and counts the resource
func (b *batch) fetchCounts(cr *caseRun) string {
	var out []string
	for i, f := range cr.d.Cfg.Idx {
		iq := resbadger.IndexQuery{Index: resbadger.Index{Name: idxNames[i], Key: fieldKey(f)}, Limit: -1}
		if cr.rbModel != nil && cr.rbModel.IndexSet != nil {
			if ix, err := cr.rbModel.IndexSet.GetIndex(idxNames[i]); err == nil {
				iq.Index = ix
			} else {
				cr.broken = "GetIndex: " + err.Error()
			}
		}
		refs, err := iq.FetchCollection(b.db)
		if err != nil {
			cr.broken = "FetchCollection: " + err.Error()
		}
		n := 0
		for _, r := range refs {
			if string(r) == cr.rname {
				n++
			}
		}
		out = append(out, "("+N(i)+","+N(n)+")")
	}
	return List(out)
}

// indexStale compares the index entries in the database with the keys of the stored value
func (b *batch) indexStale(cr *caseRun) string {
	want := map[string]bool{}
	have := map[string]bool{}
	empty := false
	err := b.db.View(func(txn *badger.Txn) error {
		item, err := txn.Get([]byte(cr.rname))
		if err == nil {
			dta, err := item.ValueCopy(nil)
			if err != nil {
				return err
			}
			if x, ok := parse(dta); ok {
				for i, f := range cr.d.Cfg.Idx {
					if k := fieldKey(f)(x); k != nil {
						want[fmt.Sprintf("%d:%s", i, k)] = true
						if len(k) == 0 {
							empty = true
						}
					}
				}
			}
		}
		suffix := "\x00" + cr.rname
		for i := range cr.d.Cfg.Idx {
			prefix := []byte(idxNames[i] + ":")
			it := txn.NewIterator(badger.DefaultIteratorOptions)
			for it.Seek(prefix); it.ValidForPrefix(prefix); it.Next() {
				k := string(it.Item().Key())
				if strings.HasSuffix(k, suffix) {
					key := k[len(prefix) : len(k)-len(suffix)]
					have[fmt.Sprintf("%d:%s", i, key)] = true
					if len(key) == 0 {
						empty = true
					}
				}
			}
			it.Close()
		}
		return nil
	})
	if err != nil {
		cr.broken = "db: " + err.Error()
		return ""
	}
	same := len(want) == len(have)
	for k := range want {
		if !have[k] {
			same = false
		}
	}
	switch {
	case same:
		return ""
	case cr.d.Cfg.Def != nil:
		return "index-stale-with-default"
	case empty || cr.sawEmptyKey:
		cr.sawEmptyKey = true
		return "index-stale-empty-key"
	}
	return "index-stale-other"
}

func evCoq(e Ev) string {
	switch e.Op {
	case "change":
		keys := make([]string, 0, len(e.Ch))
		for k := range e.Ch {
			keys = append(keys, k)
		}
		sort.Strings(keys)
		parts := make([]string, len(keys))
		for i, k := range keys {
			parts[i] = "(" + B(k) + "," + e.Ch[k].act() + ")"
		}
		return "(EChange " + List(parts) + ")"
	case "add":
		return "(EAdd (" + e.V.coq() + ") " + Z(e.Idx) + ")"
	case "remove":
		return "(ERemove " + Z(e.Idx) + ")"
	case "create":
		if e.Bad {
			return "ECreateBad"
		}
		return "(ECreate " + e.Data.coq() + ")"
	}
	return "EDelete"
}

func (b *batch) fire(cr *caseRun, e Ev) (panicked bool) {
	c := cr.d.Cfg
	p, _, err := b.with(cr.rname, func(r res.Resource) {
		switch e.Op {
		case "change":
			m := map[string]interface{}{}
			for k, g := range e.Ch {
				m[k] = g.goVal()
			}
			r.ChangeEvent(m)
		case "add":
			r.AddEvent(e.V.goVal(), e.Idx)
		case "remove":
			r.RemoveEvent(e.Idx)
		case "create":
			if e.Bad {
				r.CreateEvent(make(chan int))
			} else {
				r.CreateEvent(e.Data.typed(c, e.AsType))
			}
		case "delete":
			r.DeleteEvent()
		}
	})
	if err != nil {
		cr.broken = "event: " + err.Error()
	}
	return p
}

func pubCoq(cr *caseRun, p pubRec) (string, bool) {
	pre := "event." + cr.rname + "."
	if !strings.HasPrefix(p.subj, pre) {
		return "", false
	}
	switch p.subj[len(pre):] {
	case "change":
		var x struct {
			Values map[string]interface{} `json:"values"`
		}
		if json.Unmarshal(p.data, &x) != nil || x.Values == nil {
			return "", false
		}
		s, ok := revmapOf(x.Values)
		return "PChange " + s, ok
	case "add":
		var x struct {
			Value interface{} `json:"value"`
			Idx   *int        `json:"idx"`
		}
		if json.Unmarshal(p.data, &x) != nil || x.Idx == nil || *x.Idx < 0 {
			return "", false
		}
		s, ok := jv(x.Value)
		return "PAdd " + s + " " + N(*x.Idx), ok
	case "remove":
		var x struct {
			Idx *int `json:"idx"`
		}
		if json.Unmarshal(p.data, &x) != nil || x.Idx == nil || *x.Idx < 0 {
			return "", false
		}
		return "PRemove " + N(*x.Idx), true
	case "create":
		return "PCreate", len(p.data) == 0
	case "delete":
		return "PDelete", len(p.data) == 0
	}
	return "", false
}

// current view of the resource as last observed (used by the generator only)
type viewInfo struct {
	exists bool
	coll   bool
	n      int
	keys   []string
	vals   map[string]interface{}
	nulls  []string // properties whose value is null
}

func viewOf(g string, raw []byte) viewInfo {
	var vi viewInfo
	var r struct {
		Result map[string]json.RawMessage `json:"result"`
	}
	if json.Unmarshal(raw, &r) != nil || r.Result == nil {
		return vi
	}
	for _, m := range r.Result {
		x, ok := parse(m)
		if !ok {
			continue
		}
		vi.exists = true
		switch v := x.(type) {
		case []interface{}:
			vi.coll = true
			vi.n = len(v)
		case map[string]interface{}:
			vi.vals = v
			for k, x := range v {
				vi.keys = append(vi.keys, k)
				if x == nil {
					vi.nulls = append(vi.nulls, k)
				}
			}
			sort.Strings(vi.keys)
			sort.Strings(vi.nulls)
		}
	}
	return vi
}

// ---------- client-side fold (Go side, for the runtime diagnosis of the concurrent section) ----------

// cview is what a client holds: ok=false once the fold cannot be continued
type cview struct {
	ok     bool
	exists bool
	v      interface{} // map[string]interface{} | []interface{} | nil (null)
}

func viewFromGet(raw []byte) cview {
	var r struct {
		Result map[string]json.RawMessage `json:"result"`
		Error  *struct {
			Code string `json:"code"`
		} `json:"error"`
	}
	if json.Unmarshal(raw, &r) != nil {
		return cview{}
	}
	if r.Error != nil {
		return cview{ok: r.Error.Code == res.CodeNotFound}
	}
	for _, k := range []string{"model", "collection"} {
		if m, ok := r.Result[k]; ok {
			x, ok := parse(m)
			return cview{ok: ok, exists: true, v: x}
		}
	}
	return cview{}
}
func (cv cview) String() string {
	if !cv.ok {
		return "<unknown>"
	}
	if !cv.exists {
		return "<not found>"
	}
	b, _ := json.Marshal(cv.v)
	return string(b)
}

// apply folds one published event (its payload; for create the data given to CreateEvent)
func (cv cview) apply(e Ev, p pubRec, def *Res) cview {
	if !cv.ok {
		return cv
	}
	bad := cview{}
	name := p.subj[strings.LastIndexByte(p.subj, '.')+1:]
	list := func() ([]interface{}, bool) {
		if !cv.exists || cv.v == nil {
			return []interface{}{}, true
		}
		l, ok := cv.v.([]interface{})
		return l, ok
	}
	switch name {
	case "change":
		m, ok := cv.v.(map[string]interface{})
		var x struct {
			Values map[string]interface{} `json:"values"`
		}
		if !cv.exists || !ok || json.Unmarshal(p.data, &x) != nil {
			return bad
		}
		n := map[string]interface{}{}
		for k, v := range m {
			n[k] = v
		}
		for k, v := range x.Values {
			if a, isObj := v.(map[string]interface{}); isObj && a["action"] == "delete" {
				delete(n, k)
			} else {
				n[k] = v
			}
		}
		return cview{ok: true, exists: true, v: n}
	case "add":
		var x struct {
			Value interface{} `json:"value"`
			Idx   int         `json:"idx"`
		}
		l, ok := list()
		if !ok || json.Unmarshal(p.data, &x) != nil || x.Idx < 0 || x.Idx > len(l) {
			return bad
		}
		n := append(append(append([]interface{}{}, l[:x.Idx]...), x.Value), l[x.Idx:]...)
		return cview{ok: true, exists: true, v: n}
	case "remove":
		var x struct {
			Idx int `json:"idx"`
		}
		l, ok := list()
		if !ok || !cv.exists || json.Unmarshal(p.data, &x) != nil || x.Idx < 0 || x.Idx >= len(l) {
			return bad
		}
		n := append(append([]interface{}{}, l[:x.Idx]...), l[x.Idx+1:]...)
		return cview{ok: true, exists: true, v: n}
	case "create":
		if e.Data == nil {
			return bad
		}
		x, ok := marshalParse(e.Data.generic())
		return cview{ok: ok, exists: true, v: x}
	case "delete":
		if def == nil {
			return cview{ok: true}
		}
		x, ok := marshalParse(def.generic())
		return cview{ok: ok, exists: true, v: x}
	}
	return bad
}

// ---------- generator ----------

var keyPool = []string{"a", "b", "c"}
var strPool = []string{"", "x", "y"}

// genScalar draws a JSON value; for a float64-typed handler mostly numbers
func genScalar(r *Rng, c CfgD) interface{} {
	other := 60
	if c.Ty == "num" {
		other = 7
	}
	if !r.Chance(other) {
		return float64(r.Intn(4))
	}
	switch k := r.Intn(100); {
	case k < 45:
		return r.Pick(strPool)
	case k < 75:
		return nil
	case k < 90:
		return r.Bool()
	default:
		a := make([]interface{}, r.Intn(3))
		for i := range a {
			a[i] = float64(r.Intn(3))
		}
		return a
	}
}
func genGV(r *Rng, c CfgD) GV {
	switch x := genScalar(r, c).(type) {
	case nil:
		return GV{K: "null"}
	case bool:
		return GV{K: "b", B: x}
	case []interface{}:
		g := GV{K: "arr", A: []int{}}
		for _, e := range x {
			g.A = append(g.A, int(e.(float64)))
		}
		return g
	case string:
		return GV{K: "s", S: x}
	case float64:
		if r.Chance(35) {
			return GV{K: "i", N: int(x)}
		}
		return GV{K: "f", N: int(x)}
	}
	return GV{K: "f"}
}
func genRes(r *Rng, c CfgD, coll bool) *Res {
	if coll {
		n := r.Intn(4)
		o := &Res{IsC: true, Coll: []interface{}{}}
		for i := 0; i < n; i++ {
			o.Coll = append(o.Coll, genScalar(r, c))
		}
		return o
	}
	o := &Res{Model: map[string]interface{}{}}
	for _, k := range keyPool {
		if r.Chance(55) {
			o.Model[k] = genScalar(r, c)
		}
	}
	return o
}

// genFitting draws a value of the handler's Type (used for Default, which Go type-checks)
func genFitting(r *Rng, c CfgD) *Res {
	if c.Ty == "struct" && c.Type == "model" {
		return &Res{Model: map[string]interface{}{"a": float64(r.Intn(4)), "b": r.Pick(strPool)}}
	}
	for {
		x := genRes(r, c, c.Type == "collection")
		if x.fits(c) {
			return x
		}
	}
}

func genCfg(r *Rng, i int) CfgD {
	c := CfgD{}
	c.Pkg = []string{"legacy", "resb"}[i%2]
	c.Type = []string{"model", "collection"}[(i/2)%2]
	c.Ty = []string{"untyped", "any", "num", "struct"}[(i/4)%4]
	if r.Chance(45) {
		c.Def = genFitting(r, c)
	}
	if c.Pkg == "resb" && c.Type == "model" && r.Chance(60) {
		switch r.Intn(3) {
		case 0:
			c.Idx = []string{"a"}
		case 1:
			c.Idx = []string{"a", "b"}
		default:
			c.Idx = []string{"b", "c", "a"}
		}
	}
	if c.Pkg == "resb" && c.Type == "model" && r.Chance(15) {
		c.Map = true
	}
	return c
}

// genStructCreate draws create data for a struct-typed model: the Type itself, a map with exactly the
// struct's fields, a map with an extra property, a map missing a field, a map with a field of another JSON kind
func genStructCreate(r *Rng, c CfgD) Ev {
	d := genFitting(r, c)
	e := Ev{Op: "create", Data: d}
	switch r.Intn(5) {
	case 0:
		e.AsType = true
	case 1:
	case 2:
		d.Model["c"] = genScalar(r, CfgD{Ty: "any"})
	case 3:
		delete(d.Model, r.Pick([]string{"a", "b"}))
	default:
		if r.Bool() {
			d.Model["a"] = r.Pick([]string{"x", ""})
		} else {
			d.Model["b"] = []interface{}{float64(1), nil, true}[r.Intn(3)]
		}
	}
	return e
}

// genStructChange: mostly a number for a / a string for b, sometimes anything
func genStructChange(r *Rng, c CfgD) Ev {
	e := Ev{Op: "change", Ch: map[string]GV{}}
	for j, n := 0, 1+r.Intn(2); j < n; j++ {
		switch x := r.Intn(100); {
		case x < 40:
			k := "f"
			if r.Chance(30) {
				k = "i"
			}
			e.Ch["a"] = GV{K: k, N: r.Intn(4)}
		case x < 75:
			e.Ch["b"] = GV{K: "s", S: r.Pick(strPool)}
		case x < 85:
			e.Ch[r.Pick(keyPool)] = GV{K: "del"}
		default:
			e.Ch[r.Pick(keyPool)] = genGV(r, CfgD{Ty: "any"})
		}
	}
	return e
}

func genEvent(r *Rng, c CfgD, vi viewInfo) Ev {
	model := c.Type == "model"
	k := r.Intn(100)
	if model && c.Ty == "struct" {
		switch {
		case k < 50:
			e := genStructChange(r, c)
			if r.Chance(2) {
				e.Ch[r.Pick(keyPool)] = GV{K: "bad"}
			}
			return e
		case k < 78:
			return genStructCreate(r, c)
		case k < 96:
			return Ev{Op: "delete"}
		}
	}
	if model {
		switch {
		case k < 62:
			e := Ev{Op: "change", Ch: map[string]GV{}}
			n := 1 + r.Intn(3)
			if r.Chance(4) {
				n = 0
			}
			for j := 0; j < n; j++ {
				key := r.Pick(keyPool)
				if r.Chance(25) {
					e.Ch[key] = GV{K: "del"}
				} else {
					e.Ch[key] = genGV(r, c)
				}
			}
			// a property that is present with value null: delete it, set it to null again, or change it
			if len(vi.nulls) > 0 && r.Chance(45) {
				key := r.Pick(vi.nulls)
				switch x := r.Intn(100); {
				case x < 35:
					e.Ch[key] = GV{K: "del"}
				case x < 55:
					e.Ch[key] = GV{K: "null"}
				default:
					e.Ch[key] = genGV(r, c)
				}
			}
			if r.Chance(2) {
				e.Ch[r.Pick(keyPool)] = GV{K: "bad"}
			}
			return e
		case k < 78:
			if r.Chance(4) {
				return Ev{Op: "create", Data: &Res{Null: true}}
			}
			if r.Chance(3) {
				return Ev{Op: "create", Bad: true}
			}
			return Ev{Op: "create", Data: genRes(r, c, r.Chance(8))}
		case k < 94:
			return Ev{Op: "delete"}
		case k < 97:
			g := genGV(r, c)
			return Ev{Op: "add", V: &g, Idx: r.Intn(2)}
		default:
			return Ev{Op: "remove", Idx: r.Intn(2)}
		}
	}
	idx := func(max int) int {
		switch x := r.Intn(20); {
		case x == 0:
			return -1
		case x < 3:
			return max + 1 + r.Intn(2)
		default:
			return r.Intn(max + 1)
		}
	}
	switch {
	case k < 45:
		g := genGV(r, c)
		if r.Chance(2) {
			g = GV{K: "bad"}
		}
		return Ev{Op: "add", V: &g, Idx: idx(vi.n)}
	case k < 75:
		m := vi.n - 1
		if m < 0 {
			m = 0
		}
		return Ev{Op: "remove", Idx: idx(m)}
	case k < 86:
		if r.Chance(4) {
			return Ev{Op: "create", Data: &Res{Null: true}}
		}
		if r.Chance(3) {
			return Ev{Op: "create", Bad: true}
		}
		return Ev{Op: "create", Data: genRes(r, c, !r.Chance(8))}
	case k < 97:
		return Ev{Op: "delete"}
	default:
		return Ev{Op: "change", Ch: map[string]GV{"a": genGV(r, c)}}
	}
}

func evFits(c CfgD, e Ev) bool {
	switch e.Op {
	case "change":
		for k, g := range e.Ch {
			if c.Ty == "num" && !g.isNum() && g.K != "del" {
				return false
			}
			if c.Ty == "struct" && c.Type == "model" && !((k == "a" && g.isNum()) || (k == "b" && g.K == "s")) {
				return false
			}
		}
	case "add":
		return !(c.Ty == "num" && !e.V.isNum())
	case "create":
		return e.Bad || e.Data.fits(c)
	}
	return true
}

// ---------- running a batch ----------

// runBatch runs the cases on one database and one service: one after the other, or (conc)
// every case on its own goroutine at the same time, each with its own generator rngs[i]
func runBatch(r *Rng, descs []Desc, base int, conc bool, rngs []*Rng) []*caseRun {
	dir, err := os.MkdirTemp("", "verif-c20-")
	if err != nil {
		panic(err)
	}
	defer os.RemoveAll(dir)
	b := &batch{dir: dir}
	if conc {
		b.workers = 8
	}
	b.db = openDB(dir)
	for i, d := range descs {
		cr := &caseRun{d: d, rname: fmt.Sprintf("test.c%d", base+i), tags: map[string]bool{}, kinds: map[string]int{}}
		b.cases = append(b.cases, cr)
		if d.Init != nil {
			meta := byte(res.TypeModel)
			if d.Cfg.Type == "collection" {
				meta = byte(res.TypeCollection)
			}
			dta, _ := json.Marshal(d.Init.generic())
			err := b.db.Update(func(txn *badger.Txn) error {
				return txn.SetEntry(&badger.Entry{Key: []byte(cr.rname), Value: dta, UserMeta: meta})
			})
			if err != nil {
				panic(err)
			}
		}
	}
	b.start(true)
	if conc {
		var wg sync.WaitGroup
		for i, cr := range b.cases {
			wg.Add(1)
			go func(cr *caseRun, rg *Rng) {
				defer wg.Done()
				b.runCase(rg, cr)
			}(cr, rngs[i])
		}
		wg.Wait()
	} else {
		for _, cr := range b.cases {
			b.runCase(r, cr)
		}
	}
	b.stop()
	if err := b.db.Close(); err != nil {
		panic(err)
	}
	// reopen: new database handle, new service, new handlers
	b.db = openDB(dir)
	b.start(false)
	for _, cr := range b.cases {
		raw, err := b.conn.get(cr.rname)
		if err != nil {
			cr.broken = "get: " + err.Error()
		}
		cr.reget = gresOfResponse(raw)
		if now := viewFromGet(raw); cr.diverged == "" && cr.fold.ok && cr.fold.String() != now.String() {
			cr.diverged = fmt.Sprintf("%s after reopening: fold of its own published events = %s, get serves %s",
				cr.rname, cr.fold.String(), now.String())
		}
		cr.restored, cr.reidx = b.stored(cr)
	}
	b.stop()
	for _, cr := range b.cases {
		if cr.d.Cfg.Rebuild && cr.rbModel != nil {
			code := 0
			func() {
				defer func() {
					if recover() != nil {
						code = 2
					}
				}()
				if err := cr.rbModel.RebuildIndexes(cr.rname); err != nil {
					code = 1
				}
			}()
			_, ix := b.stored(cr)
			cr.rebuilt = fmt.Sprintf("(Some (%s, %s, %s))", Bool(cr.d.Cfg.Ty != "untyped"), N(code), ix)
			cr.kinds[fmt.Sprintf("rebuild-indexes/outcome-%d", code)]++
		}
	}
	b.db.Close()
	return b.cases
}

func (b *batch) runCase(r *Rng, cr *caseRun) {
	c := cr.d.Cfg
	gen := len(cr.d.Events) == 0 && cr.d.Len > 0
	raw, err := b.conn.get(cr.rname)
	if err != nil {
		cr.broken = "get: " + err.Error()
	}
	cr.get0 = gresOfResponse(raw)
	cr.fold = viewFromGet(raw)
	if c.Map {
		cr.fold = cview{} // get serves the mapped value by design: no Go-side fold comparison
	}
	cr.val0 = b.valueG(cr)
	b.conn.takeEvents(cr.rname)
	vi := viewOf(cr.get0, raw)
	prevStored, _ := b.stored(cr)
	prevG := cr.get0
	n := len(cr.d.Events)
	if gen {
		n = cr.d.Len
	}
	for i := 0; i < n; i++ {
		var e Ev
		if gen {
			e = genEvent(r, c, vi)
			cr.d.Events = append(cr.d.Events, e)
		} else {
			e = cr.d.Events[i]
		}
		if !evFits(c, e) {
			cr.tags["ill-typed"] = true
		}
		if e.Op == "create" && !e.Bad && c.Ty == "struct" && c.Type == "model" && e.Data != nil && !e.Data.Null && !e.Data.isColl() {
			kind := "field-of-other-kind"
			_, hasA := e.Data.Model["a"]
			_, hasB := e.Data.Model["b"]
			switch {
			case e.AsType && e.Data.exactStruct():
				kind = "the-type-itself"
			case e.Data.exactStruct():
				kind = "map-with-exactly-the-fields"
			case !hasA || !hasB:
				kind = "map-missing-a-field"
			case len(e.Data.Model) > 2:
				kind = "map-with-extra-property"
			}
			ix := "no-index"
			if c.Idx != nil {
				ix = "index-set"
			}
			cr.kinds["struct-create:"+c.Pkg+"/"+ix+"/"+kind]++
		}
		if e.Op == "change" {
			for k, g := range e.Ch {
				old, present := vi.vals[k]
				switch {
				case present && old == nil && g.K == "del":
					cr.kinds["null:delete-null-property"]++
				case present && old == nil && g.K == "null":
					cr.kinds["null:null-to-null"]++
				case present && old == nil:
					cr.kinds["null:null-to-value"]++
				case g.K == "null" && present:
					cr.kinds["null:value-to-null"]++
				case g.K == "null":
					cr.kinds["null:absent-to-null"]++
				}
			}
		}
		cr.calls = nil
		cr.icalls = nil
		panicked := b.fire(cr, e)
		pubs := b.conn.takeEvents(cr.rname)
		var ps []string
		for _, p := range pubs {
			s, ok := pubCoq(cr, p)
			if !ok {
				cr.broken = "unexpected message published: " + p.subj + " " + string(p.data)
				continue
			}
			ps = append(ps, s)
		}
		raw, err := b.conn.get(cr.rname)
		if err != nil {
			cr.broken = "get: " + err.Error()
		}
		g := gresOfResponse(raw)
		if len(pubs) > 0 {
			cr.fold = cr.fold.apply(e, pubs[0], c.Def)
		}
		if now := viewFromGet(raw); cr.diverged == "" && cr.fold.ok && cr.fold.String() != now.String() {
			got := now.String()
			if !now.ok {
				got = "the response " + string(raw)
				if len(got) > 300 {
					got = got[:300]
				}
			}
			cr.diverged = fmt.Sprintf("%s after event %d (%s): fold of its own published events = %s, get serves %s",
				cr.rname, i, e.Op, cr.fold.String(), got)
			cr.fold = now
		}
		v := b.valueG(cr)
		st, ix := b.stored(cr)
		if extra := b.conn.takeEvents(cr.rname); len(extra) > 0 {
			cr.broken = "get/Value published an event: " + extra[0].subj
		}
		cr.steps = append(cr.steps, fmt.Sprintf("SO %s %s %s %s %s %s %s %s %s %s",
			evCoq(e), Bool(panicked), List(ps), List(parenAll(cr.calls)), g, v, st, ix, List(parenAll(cr.icalls)), b.fetchCounts(cr)))
		out := "silent"
		if len(ps) > 0 {
			out = "published"
			cr.npub++
		} else if panicked {
			out = "failed"
			cr.nfail++
		}
		cr.kinds[e.Op+"/"+out]++
		if len(ps) == 0 && st != prevStored {
			cr.tags["unpublished-storage-change"] = true
			cr.tags[e.Op+"-failed-but-storage-changed"] = true
		}
		if len(ps) > 0 && prevG == "GNotFound" {
			switch e.Op {
			case "delete":
				cr.tags["delete-on-missing-published"] = true
			case "add":
				cr.tags["add-on-missing-creates"] = true
			}
		}
		if c.Idx != nil {
			if t := b.indexStale(cr); t != "" {
				cr.tags["index-stale"] = true
				cr.tags[t] = true
			}
		}
		prevG = g
		prevStored = st
		vi = viewOf(g, raw)
	}
	if cr.callBad {
		cr.broken = "listener called with an unexpected event or resource"
	}
}

func parenAll(xs []string) []string {
	o := make([]string, len(xs))
	for i, x := range xs {
		o[i] = "(" + x + ")"
	}
	return o
}

func cfgCoq(c CfgD) string {
	pk := "Legacy"
	if c.Pkg == "resb" {
		pk = "ResB"
	}
	t := "TModel"
	if c.Type == "collection" {
		t = "TColl"
	}
	ty := "TyAny"
	if c.Ty == "num" {
		ty = "TyNum"
	}
	if c.Ty == "struct" {
		ty = "TyStruct"
	}
	idx := "None"
	if c.Idx != nil {
		idx = "(Some " + BList(c.Idx) + ")"
	}
	return fmt.Sprintf("(CC %s %s %s %s %s %s)", pk, t, ty, optRes(c.Def), idx, Bool(c.Map))
}

// ---------- option plumbing, error branches and the index API, asserted directly in Go ----------

func panics(f func()) (p bool) {
	defer func() {
		if recover() != nil {
			p = true
		}
	}()
	f()
	return
}

// runPlumbing exercises what the per-resource cases cannot reach and reports every unexpected behaviour
func runPlumbing(dist map[string]int) []ImplViolation {
	var impl []ImplViolation
	fail := func(what string) {
		impl = append(impl, ImplViolation{What: "plumbing: " + what, Desc: map[string]string{"section": "plumbing"}, Tags: []string{"plumbing"}})
	}
	check := func(ok bool, what string) {
		dist["plumbing:assertions"]++
		if !ok {
			fail(what)
		}
	}
	dir, err := os.MkdirTemp("", "verif-c20-")
	if err != nil {
		panic(err)
	}
	defer os.RemoveAll(dir)
	db := openDB(dir)
	defer db.Close()
	mh := func() *res.Handler { h := &res.Handler{}; res.Model.SetOption(h); return h }
	ch := func() *res.Handler { h := &res.Handler{}; res.Collection.SetOption(h); return h }
	bad := map[string]interface{}{"x": make(chan int)}

	// SetOption validation of both packages
	check(panics(func() { middleware.BadgerDB{}.SetOption(mh()) }), "middleware.BadgerDB without DB: SetOption did not panic")
	check(panics(func() { middleware.BadgerDB{}.WithDB(db).SetOption(&res.Handler{}) }), "middleware.BadgerDB on a handler without resource type: SetOption did not panic")
	check(panics(func() {
		middleware.BadgerDB{}.WithDB(db).WithType(map[string]float64{}).WithDefault(map[string]interface{}{}).SetOption(mh())
	}), "middleware.BadgerDB Default not assignable to Type: SetOption did not panic")
	check(panics(func() { middleware.BadgerDB{}.WithDB(db).WithDefault(bad).SetOption(mh()) }), "middleware.BadgerDB Default that cannot be marshalled: SetOption did not panic")
	check(!panics(func() { middleware.BadgerDB{}.WithDB(db).WithDefault([]interface{}{1.0}).SetOption(ch()) }), "middleware.BadgerDB valid collection options: SetOption panicked")
	rb := resbadger.BadgerDB{}.WithDB(db)
	check(panics(func() { resbadger.BadgerDB{}.Model().SetOption(&res.Handler{}) }), "resbadger.Model without DB: SetOption did not panic")
	check(panics(func() {
		rb.Model().WithType(map[string]float64{}).WithDefault(map[string]interface{}{}).SetOption(&res.Handler{})
	}), "resbadger.Model Default not assignable to Type: SetOption did not panic")
	check(panics(func() { rb.Model().WithDefault(bad).SetOption(&res.Handler{}) }), "resbadger.Model Default that cannot be marshalled: SetOption did not panic")
	check(panics(func() { resbadger.BadgerDB{}.Collection().SetOption(&res.Handler{}) }), "resbadger.Collection without DB: SetOption did not panic")
	check(panics(func() { rb.Collection().WithType([]float64{}).WithDefault([]interface{}{}).SetOption(&res.Handler{}) }), "resbadger.Collection Default not assignable to Type: SetOption did not panic")
	check(panics(func() { rb.Collection().WithDefault([]interface{}{make(chan int)}).SetOption(&res.Handler{}) }), "resbadger.Collection Default that cannot be marshalled: SetOption did not panic")
	check(panics(func() { resbadger.BadgerDB{}.QueryCollection().SetOption(&res.Handler{}) }), "resbadger.QueryCollection without DB: SetOption did not panic")
	check(panics(func() { rb.QueryCollection().SetOption(&res.Handler{}) }), "resbadger.QueryCollection without index set: SetOption did not panic")
	{
		h := &res.Handler{}
		rb.Model().SetOption(h)
		check(h.Type == res.TypeModel && h.Get != nil && h.ApplyChange != nil && h.ApplyCreate != nil && h.ApplyDelete != nil && h.ApplyAdd == nil,
			"resbadger.Model.SetOption does not set type Model and the get/change/create/delete handlers")
		h = &res.Handler{}
		rb.Collection().SetOption(h)
		check(h.Type == res.TypeCollection && h.Get != nil && h.ApplyAdd != nil && h.ApplyRemove != nil && h.ApplyCreate != nil && h.ApplyDelete != nil && h.ApplyChange == nil,
			"resbadger.Collection.SetOption does not set type Collection and the get/add/remove/create/delete handlers")
		h = mh()
		middleware.BadgerDB{}.WithDB(db).SetOption(h)
		check(h.Get != nil && h.ApplyChange != nil && h.ApplyAdd != nil && h.ApplyRemove != nil && h.ApplyCreate != nil && h.ApplyDelete != nil,
			"middleware.BadgerDB.SetOption does not set all handlers")
	}

	// a service with models (index set, listeners) and a query collection over the same index definitions
	mkIdx := func() *resbadger.IndexSet {
		return &resbadger.IndexSet{Indexes: []resbadger.Index{{Name: "pa", Key: fieldKey("a")}, {Name: "pb", Key: fieldKey("b")}}}
	}
	is := mkIdx()
	if ix, err := is.GetIndex("pb"); err != nil || ix.Name != "pb" {
		fail("IndexSet.GetIndex(existing) failed")
	}
	if _, err := is.GetIndex("nope"); err == nil {
		fail("IndexSet.GetIndex(missing) returned no error")
	}
	dist["plumbing:assertions"] += 2
	conn := newConn()
	svc := res.NewService("test")
	svc.SetLogger(nil)
	svc.Handle("pm.$id", rb.Model().WithIndexSet(is))
	qis := mkIdx() // not shared with the models: no query events, only the get path of the query collection
	svc.Handle("pq", rb.QueryCollection().WithIndexSet(qis).WithQueryCallback(
		func(idxs *resbadger.IndexSet, rname string, params map[string]string, q url.Values) (*resbadger.IndexQuery, string, error) {
			if q.Get("fail") != "" {
				return nil, "", fmt.Errorf("query refused")
			}
			ix, err := idxs.GetIndex("pa")
			if err != nil {
				return nil, "", err
			}
			if q.Get("ix") != "" {
				ix = resbadger.Index{Name: q.Get("ix")}
			}
			norm := ""
			if q.Get("n") != "" {
				norm = "p=" + q.Get("p")
			}
			return &resbadger.IndexQuery{Index: ix, KeyPrefix: []byte(q.Get("p")), Limit: -1}, norm, nil
		}))
	// plain resources of each type, to call the Apply handlers with a resource of the wrong type
	svc.Handle("tm", res.Model)
	svc.Handle("tc", res.Collection)
	svc.Handle("tu")
	// a legacy model whose entry carries the type byte of a collection
	svc.Handle("mm", res.Model, middleware.BadgerDB{}.WithDB(db))
	if err := db.Update(func(txn *badger.Txn) error {
		return txn.SetEntry(&badger.Entry{Key: []byte("test.mm"), Value: []byte(`{"a":1}`), UserMeta: byte(res.TypeCollection)})
	}); err != nil {
		panic(err)
	}
	done := make(chan struct{})
	go func() { defer close(done); svc.Serve(conn) }()
	<-conn.ready
	with := func(rid string, f func(r res.Resource)) (p bool) {
		c := make(chan struct{})
		if err := svc.With(rid, func(r res.Resource) {
			defer close(c)
			defer func() {
				if recover() != nil {
					p = true
				}
			}()
			f(r)
		}); err != nil {
			fail("With(" + rid + "): " + err.Error())
			return
		}
		<-c
		return
	}
	vals := map[string]string{"1": "xa", "2": "xb", "3": "y", "4": "xa", "5": ""}
	for id, a := range vals {
		with("test.pm."+id, func(r res.Resource) { r.CreateEvent(map[string]interface{}{"a": a, "b": 2.0}) })
	}
	// expected order: by index key, then by resource id
	expect := func(prefix string, filter func(string) bool) []string {
		var ks []string
		for id, a := range vals {
			if strings.HasPrefix(a, prefix) && (filter == nil || filter(a)) {
				ks = append(ks, a+"\x00test.pm."+id)
			}
		}
		sort.Strings(ks)
		out := []string{}
		for _, k := range ks {
			out = append(out, k[strings.IndexByte(k, 0)+1:])
		}
		return out
	}
	refs := func(rs []res.Ref) []string {
		out := []string{}
		for _, r := range rs {
			out = append(out, string(r))
		}
		return out
	}
	same := func(a, b []string) bool { return strings.Join(a, ",") == strings.Join(b, ",") && len(a) == len(b) }
	pa, _ := is.GetIndex("pa")
	fetch := func(iq resbadger.IndexQuery) []string {
		rs, err := iq.FetchCollection(db)
		if err != nil {
			fail("FetchCollection: " + err.Error())
		}
		return refs(rs)
	}
	check(same(fetch(resbadger.IndexQuery{Index: pa, Limit: -1}), expect("", nil)), "FetchCollection(all) is not the resources ordered by key")
	check(same(fetch(resbadger.IndexQuery{Index: pa, KeyPrefix: []byte("x"), Limit: -1}), expect("x", nil)), "FetchCollection(prefix x) wrong")
	check(same(fetch(resbadger.IndexQuery{Index: pa, KeyPrefix: []byte("xa"), Limit: 1}), expect("xa", nil)[:1]), "FetchCollection(prefix xa, limit 1) wrong")
	check(same(fetch(resbadger.IndexQuery{Index: pa, KeyPrefix: []byte("x"), Offset: 1, Limit: 2}), expect("x", nil)[1:3]), "FetchCollection(prefix x, offset 1, limit 2) wrong")
	check(len(fetch(resbadger.IndexQuery{Index: pa, Limit: 0})) == 0, "FetchCollection(limit 0) not empty")
	check(len(fetch(resbadger.IndexQuery{Index: pa, KeyPrefix: []byte("xa\x00test.pm.1"), Limit: -1})) == 0, "FetchCollection(prefix reaching into the resource id) not empty")
	notB := func(k []byte) bool { return string(k) != "xb" }
	check(same(fetch(resbadger.IndexQuery{Index: pa, KeyPrefix: []byte("x"), FilterKeys: notB, Limit: -1}),
		expect("x", func(a string) bool { return a != "xb" })), "FetchCollection(prefix x, filter) wrong")
	check(len(fetch(resbadger.IndexQuery{Index: resbadger.Index{Name: "none"}, Limit: -1})) == 0, "FetchCollection(unknown index) not empty")
	// the query collection serves what FetchCollection gives for the callback's query
	qget := func(query string) (coll []string, q string, errCode string) {
		pl, _ := json.Marshal(map[string]string{"query": query})
		raw, err := conn.getQ("test.pq", pl)
		if err != nil {
			fail("get query collection: " + err.Error())
			return
		}
		var r struct {
			Result *struct {
				Collection []struct {
					RID string `json:"rid"`
				} `json:"collection"`
				Query string `json:"query"`
			} `json:"result"`
			Error *struct {
				Code string `json:"code"`
			} `json:"error"`
		}
		if json.Unmarshal(raw, &r) != nil {
			fail("query collection response: " + string(raw))
			return
		}
		if r.Error != nil {
			return nil, "", r.Error.Code
		}
		coll = []string{}
		if r.Result != nil {
			for _, x := range r.Result.Collection {
				coll = append(coll, x.RID)
			}
			q = r.Result.Query
		}
		return
	}
	c1, q1, e1 := qget("p=x")
	check(e1 == "" && same(c1, expect("x", nil)) && q1 == "p=x", "query collection ?p=x is not FetchCollection(prefix x) with the query as sent")
	c2, q2, e2 := qget("p=xa&n=1")
	check(e2 == "" && same(c2, expect("xa", nil)) && q2 == "p=xa", "query collection ?p=xa&n=1 is not FetchCollection(prefix xa) with the normalised query")
	_, _, e3 := qget("fail=1")
	check(e3 != "", "query collection: a failing query callback gave no error response")
	// the type guards of the Apply handlers (the event methods of resource.go check the type first, so
	// they are reached only by calling the handlers with a resource of another type)
	{
		hl, hrm, hrc := mh(), &res.Handler{}, &res.Handler{}
		middleware.BadgerDB{}.WithDB(db).SetOption(hl)
		rb.Model().SetOption(hrm)
		rb.Collection().SetOption(hrc)
		var e [9]error
		with("test.tc", func(r res.Resource) {
			_, e[0] = hl.ApplyChange(r, map[string]interface{}{"a": 1.0})
			_, e[1] = hrm.ApplyChange(r, map[string]interface{}{"a": 1.0})
		})
		with("test.tm", func(r res.Resource) {
			e[2] = hl.ApplyAdd(r, 1.0, 0)
			e[3] = hrc.ApplyAdd(r, 1.0, 0)
			_, e[4] = hl.ApplyRemove(r, 0)
			_, e[5] = hrc.ApplyRemove(r, 0)
		})
		with("test.tu", func(r res.Resource) {
			e[6] = hl.ApplyCreate(r, 1.0)
			e[7] = hrm.ApplyCreate(r, 1.0)
			e[8] = hrc.ApplyCreate(r, 1.0)
		})
		for i, x := range e {
			check(x != nil, fmt.Sprintf("Apply handler %d accepted a resource of the wrong type", i))
		}
		for _, rid := range []string{"test.tc", "test.tm", "test.tu"} {
			err := db.View(func(txn *badger.Txn) error { _, err := txn.Get([]byte(rid)); return err })
			check(err == badger.ErrKeyNotFound, "an Apply handler refused "+rid+" but wrote an entry")
		}
	}
	// an index entry without the resource id separator makes FetchCollection (and the query collection) fail
	if err := db.Update(func(txn *badger.Txn) error { return txn.Set([]byte("px:broken"), nil) }); err != nil {
		panic(err)
	}
	_, ferr := (&resbadger.IndexQuery{Index: resbadger.Index{Name: "px"}, Limit: -1}).FetchCollection(db)
	check(ferr != nil, "FetchCollection over an invalid index entry returned no error")
	_, _, e4 := qget("ix=px")
	check(e4 != "", "query collection over an invalid index entry gave no error response")
	// RebuildIndexes: nothing to do without index set, invalid pattern, wildcard pattern with an entry that
	// has the prefix but does not match; afterwards every resource has one entry per index (empty key for nil)
	check(rb.Model().RebuildIndexes("test.pm.$id") == nil, "RebuildIndexes without index set returned an error")
	check(rb.Model().WithIndexSet(is).RebuildIndexes("test..pm") != nil, "RebuildIndexes with an invalid pattern returned no error")
	if err := db.Update(func(txn *badger.Txn) error { return txn.Set([]byte("test.pm.1.sub"), []byte(`{"a":"zz"}`)) }); err != nil {
		panic(err)
	}
	check(rb.Model().WithType(map[string]interface{}{}).WithIndexSet(is).RebuildIndexes("test.pm.$id") == nil, "RebuildIndexes(test.pm.$id) failed")
	check(same(fetch(resbadger.IndexQuery{Index: pa, Limit: -1}), expect("", nil)), "after RebuildIndexes FetchCollection(all) is not the resources ordered by key")
	pbx, _ := is.GetIndex("pb")
	check(len(fetch(resbadger.IndexQuery{Index: pbx, Limit: -1})) == len(vals), "after RebuildIndexes index pb does not list every resource once")
	// type byte mismatch (middleware/badgerdb.go): get and Value fail until an event rewrites the entry
	raw, _ := conn.get("test.mm")
	check(gresOfResponse(raw) == "GErr", "legacy get of an entry with another resource type byte did not fail: "+string(raw))
	var verr error
	with("test.mm", func(r res.Resource) { _, verr = r.Value() })
	check(verr != nil, "legacy Value() of an entry with another resource type byte did not fail")
	conn.takeEvents("test.mm")
	p := with("test.mm", func(r res.Resource) { r.ChangeEvent(map[string]interface{}{"a": 2.0}) })
	ev := conn.takeEvents("test.mm")
	raw, _ = conn.get("test.mm")
	check(!p && len(ev) == 1 && strings.Contains(gresOfResponse(raw), "JNum 2"), "legacy change on an entry with another type byte: expected the event and a readable entry afterwards, got "+string(raw))
	svc.Shutdown()
	<-done

	// write errors: resource names starting with badger's reserved prefix make txn.Set / txn.Delete fail
	conn = newConn()
	svc = res.NewService("!badger!t")
	svc.SetLogger(nil)
	svc.Handle("lm", res.Model, middleware.BadgerDB{}.WithDB(db).WithDefault(map[string]interface{}{"a": 1.0}))
	svc.Handle("lc", res.Collection, middleware.BadgerDB{}.WithDB(db).WithDefault([]interface{}{1.0, 2.0}))
	svc.Handle("ln", res.Model, middleware.BadgerDB{}.WithDB(db))
	svc.Handle("rm", rb.Model().WithDefault(map[string]interface{}{"a": 1.0}).WithIndexSet(mkIdx()))
	svc.Handle("rc", rb.Collection().WithDefault([]interface{}{1.0, 2.0}))
	svc.Handle("rn", rb.Model())
	done = make(chan struct{})
	go func() { defer close(done); svc.Serve(conn) }()
	<-conn.ready
	for _, t := range []struct {
		rid string
		f   func(r res.Resource)
	}{
		{"lm", func(r res.Resource) { r.ChangeEvent(map[string]interface{}{"a": 2.0}) }},
		{"rm", func(r res.Resource) { r.ChangeEvent(map[string]interface{}{"a": 2.0}) }},
		{"lc", func(r res.Resource) { r.AddEvent(3.0, 1) }},
		{"rc", func(r res.Resource) { r.AddEvent(3.0, 1) }},
		{"lc", func(r res.Resource) { r.RemoveEvent(0) }},
		{"rc", func(r res.Resource) { r.RemoveEvent(0) }},
		{"ln", func(r res.Resource) { r.CreateEvent(map[string]interface{}{"a": 1.0}) }},
		{"rn", func(r res.Resource) { r.CreateEvent(map[string]interface{}{"a": 1.0}) }},
	} {
		rid := "!badger!t." + t.rid
		before, _ := conn.get(rid)
		conn.takeEvents(rid)
		p := with(rid, t.f)
		ev := conn.takeEvents(rid)
		after, _ := conn.get(rid)
		check(p && len(ev) == 0 && string(before) == string(after), "an event whose database write fails ("+rid+") did not panic, published something or changed what get serves")
	}
	svc.Shutdown()
	<-done
	return impl
}

// genConcGroup draws one group of the concurrent section: 6 resources of one package
func genConcGroup(r *Rng, g int, tier string) []Desc {
	var ds []Desc
	for j := 0; j < 6; j++ {
		c := genCfg(r, r.Intn(12))
		c.Pkg = []string{"resb", "legacy"}[g%2]
		c.Type = []string{"model", "collection"}[j%2]
		if c.Ty == "num" && r.Chance(60) {
			c.Ty = "any"
		}
		if c.Pkg != "resb" || c.Type != "model" {
			c.Idx = nil
		}
		if c.Def != nil {
			c.Def = genFitting(r, c)
		}
		d := Desc{Cfg: c, Len: 14 + r.Intn(12)}
		if c.Idx == nil && r.Chance(40) {
			d.Init = genFitting(r, c)
		}
		ds = append(ds, d)
	}
	return ds
}

func main() {
	o := ParseOpts()
	r := NewRng(o.Seed)
	var descs []Desc
	var replayGroup []Desc
	if o.Replay != "" {
		var d Desc
		if err := LoadReplay(o.Replay, &d); err != nil {
			panic(err)
		}
		d.Len = 0
		if len(d.Group) > 0 {
			g := d.Group
			d.Group = nil
			replayGroup = append([]Desc{d}, g...)
		} else {
			descs = append(descs, d)
		}
	} else {
		n := 1500
		if o.Tier == "thorough" {
			n = 12000
		}
		if o.N > 0 {
			n = o.N
		}
		for i := 0; i < n; i++ {
			c := genCfg(r, i)
			d := Desc{Cfg: c}
			if c.Idx == nil && r.Chance(30) {
				d.Init = genFitting(r, c)
				if r.Chance(8) {
					d.Init = &Res{Null: true} // the entry is the JSON text null
				} else if r.Chance(6) {
					d.Init = genRes(r, c, c.Type != "collection") // an entry of the other resource kind
				}
			}
			switch {
			case r.Chance(25):
				d.Len = 1 + r.Intn(4)
			default:
				d.Len = 1 + r.Intn(20)
			}
			descs = append(descs, d)
		}
	}
	var cases []Case
	var impl []ImplViolation
	dist := map[string]int{}
	emit := func(crs []*caseRun, conc bool) {
		for i, cr := range crs {
			c := cr.d.Cfg
			if cr.rebuilt == "" {
				cr.rebuilt = "None"
			}
			term := fmt.Sprintf("LC %s %s %s %s %s %s %s %s %s", cfgCoq(c), optRes(cr.d.Init), cr.get0, cr.val0,
				"[\n  "+strings.Join(cr.steps, ";\n  ")+"]", cr.reget, cr.restored, cr.reidx, cr.rebuilt)
			d := cr.d
			d.Len = 0
			if conc {
				cr.tags["concurrent"] = true
				for j, o := range crs {
					if j != i {
						od := o.d
						od.Len = 0
						od.Group = nil
						d.Group = append(d.Group, od)
					}
				}
			}
			var tags []string
			if c.Def != nil {
				cr.tags["default"] = true
			}
			if c.Idx != nil {
				cr.tags["index-set"] = true
			}
			for t := range cr.tags {
				tags = append(tags, t)
			}
			sort.Strings(tags)
			cases = append(cases, Case{Term: term, Desc: d, Tags: tags, Nontrivial: cr.npub >= 2 && cr.nfail >= 1})
			if cr.broken != "" {
				impl = append(impl, ImplViolation{What: cr.broken, Desc: d, Tags: tags})
			}
			if conc && cr.diverged != "" {
				impl = append(impl, ImplViolation{What: "concurrent events on different resources: " + cr.diverged, Desc: d, Tags: tags})
			}
			pre := "cfg:"
			if conc {
				pre = "concurrent:cfg:"
				dist["concurrent:cases"]++
				dist["concurrent:events"] += len(cr.steps)
				dist["concurrent:published"] += cr.npub
			}
			dist[pre+c.Pkg+"/"+c.Type+"/"+c.Ty]++
			if c.Def != nil {
				dist["cfg:with-default"]++
			}
			if c.Idx != nil {
				dist["cfg:with-index-set"]++
			}
			if d.Init != nil {
				dist["cfg:with-initial-entry"]++
			}
			for _, t := range tags {
				dist["tag:"+t]++
			}
			for k, v := range cr.kinds {
				dist["event:"+k] += v
			}
			dist["events"] += len(cr.steps)
		}
	}
	const batchSize = 120
	for off := 0; off < len(descs); off += batchSize {
		end := off + batchSize
		if end > len(descs) {
			end = len(descs)
		}
		emit(runBatch(r, descs[off:end], off, false, nil), false)
	}
	// concurrent section: groups of 6 different resources of one database and one service (8 workers)
	// receive their event sequences at the same time, one goroutine per resource
	if o.Replay == "" {
		impl = append(impl, runPlumbing(dist)...)
	}
	switch {
	case replayGroup != nil:
		// re-run the recorded group until the interference shows again (it depends on scheduling)
		var crs []*caseRun
		for round := 0; round < 40; round++ {
			g := make([]Desc, len(replayGroup))
			copy(g, replayGroup)
			rngs := make([]*Rng, len(g))
			for i := range rngs {
				rngs[i] = NewRng(o.Seed + uint64(i))
			}
			crs = runBatch(r, g, 0, true, rngs)
			hit := false
			for _, cr := range crs {
				hit = hit || cr.diverged != ""
			}
			if hit {
				break
			}
		}
		emit(crs, true)
	case o.Replay == "":
		groups := 24
		if o.Tier == "thorough" {
			groups = 240
		}
		base := len(descs)
		for g := 0; g < groups; g++ {
			ds := genConcGroup(r, g, o.Tier)
			rngs := make([]*Rng, len(ds))
			for i := range rngs {
				rngs[i] = NewRng(o.Seed*1000003 + uint64(g)*64 + uint64(i) + 17)
			}
			emit(runBatch(r, ds, base+g*6, true, rngs), true)
		}
		// RebuildIndexes section: one resbadger model with an index set on its own database; after the
		// events and the reopen check Model.RebuildIndexes(<its name>) runs and the entries are read back
		nrb := 30
		if o.Tier == "thorough" {
			nrb = 300
		}
		base += groups * 6
		for i := 0; i < nrb; i++ {
			c := genCfg(r, 1+4*r.Intn(4)) // resb / model
			c.Pkg, c.Type = "resb", "model"
			c.Rebuild = true
			if c.Idx == nil {
				c.Idx = [][]string{{"a"}, {"a", "b"}, {"b", "c", "a"}}[r.Intn(3)]
			}
			if r.Chance(80) {
				c.Def = nil
			}
			emit(runBatch(r, []Desc{{Cfg: c, Len: 2 + r.Intn(8)}}, base+i, false, nil), false)
		}
	}
	Emit(o, "C20", "From GoRes Require Import Run.Run_C20.", "lcase",
		"random handler configurations (package x model/collection x untyped/typed-any/typed-number x default x index set x pre-seeded entry) "+
			"with sequences of 1-20 change/add/remove/create/delete events drawn against the currently served value (in-range and out-of-range "+
			"indexes, negative indexes, deletes of absent properties, unchanged values, int vs float64 values, null / bool / array values, create on existing, "+
			"events of the wrong resource type, a few values that do not fit the handler's Type); plus a concurrent section: groups of 6 different "+
			"resources of one database and one service (8 workers) receiving sequences of 14-25 events at the same time from one goroutine each, "+
			"one ordinary case per resource; non-trivial = at least two published events and one failed event; distinct by full observation trace",
		cases, dist, nil, impl, 100)
}
