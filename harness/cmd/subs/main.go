// Correspondence harness for C09 (service.go: ownership defaults, subscribe, system.reset).
//
// A real res.Service is served on a recording connection that enforces nats.go's client side
// subject rule (badSubject).  Every ChanSubscribe / ChanQueueSubscribe and every Publish is
// recorded and emitted as a Coq term; the Coq side compares with the model (mismatches) and
// evaluates the property on the recorded data (violations).
//
// Thorough tier only: the NATS semantics used by the Coq specification (subject validity and
// wildcard matching) are cross-checked against an embedded nats-server, and a few
// configurations are run over a real connection that is forced to reconnect.
package main

import (
	"encoding/json"
	"flag"
	"fmt"
	"io"
	"net"
	"sort"
	"strings"
	"sync"
	"time"

	res "github.com/jirenius/go-res"
	"github.com/nats-io/nats-server/v2/server"
	nats "github.com/nats-io/nats.go"

	. "verifharness/common"
)

// ---- configuration of one case ----

type desc struct {
	Name     string   `json:"name"`
	Res      []string `json:"resources"` // meaningful when ResSet
	ResSet   bool     `json:"resources_set"`
	Acc      []string `json:"access"`
	AccSet   bool     `json:"access_set"`
	Kinds    []string `json:"handler_kinds"`                // get call auth access new
	HPat     string   `json:"handler_pattern"`              // pattern the handler is registered on
	Layout   []hdl    `json:"layout,omitempty"`             // further Handle calls (nested patterns, mounted muxes, root pattern)
	Build    []op     `json:"construction_order,omitempty"` // explicit sequence of NewMux / Handle / Mount / Route calls building the mux tree
	Order    string   `json:"order_name,omitempty"`
	Restart  []phase  `json:"restart,omitempty"`      // further runs of the SAME Service object: Shutdown, reconfigure, Serve on a fresh connection
	Run      int      `json:"observed_run,omitempty"` // which run of the sequence this case observes (0 = first)
	Queue    string   `json:"queue"`                  // "default" (= service name), "off", or a group name
	Extra    int      `json:"extra_resetall"`
	Ops      []int    `json:"ops_while_serving,omitempty"`     // 0 ResetAll, 1 reconnect (VerifHandleReconnect), 2 disconnect; empty = Extra x ResetAll
	Off      []int    `json:"ops_while_not_started,omitempty"` // the same operations before the first Serve and after every Shutdown
	SetReset bool     `json:"use_SetReset,omitempty"`          // configure through the deprecated alias SetReset
	Live     bool     `json:"live,omitempty"`                  // real nats-server + forced reconnect
	NatsSub  string   `json:"nats_sub,omitempty"`
	NatsSbj  string   `json:"nats_subject,omitempty"`
	IsNats   bool     `json:"nats_differential,omitempty"`
}

// hdl is one Handle call: on the service itself (Mount == "") or on a sub-mux mounted at Mount.
type hdl struct {
	Mount string   `json:"mount,omitempty"`
	Pat   string   `json:"pattern"`
	Kinds []string `json:"kinds"` // may be empty: a handler without any method
}

// phase is what happens to the stopped service before it is served again.
type phase struct {
	Reconfigure bool     `json:"set_owned_resources"` // call SetOwnedResources(Res, Acc) while stopped
	Res         []string `json:"resources"`
	ResSet      bool     `json:"resources_set"`
	Acc         []string `json:"access"`
	AccSet      bool     `json:"access_set"`
	Add         []hdl    `json:"add_handlers,omitempty"` // Handle calls made while stopped
	Queue       string   `json:"queue,omitempty"`        // SetQueueGroup while stopped ("" = unchanged)
	Extra       int      `json:"extra_resetall"`
	Ops         []int    `json:"ops_while_serving,omitempty"`
}

// op is one mux construction call.  Muxes are numbered: 0 is the service itself, others are created by
// "newmux" (res.NewMux(Path)) or "route" (parent.Route(Path, fn) with Inner executed inside fn).
//
//	handle: muxes[Mux].Handle(Pat, kinds)   mount: muxes[Mux].Mount(Path, muxes[Sub])
type op struct {
	Op    string   `json:"op"`
	Mux   int      `json:"mux"`
	Sub   int      `json:"sub,omitempty"`
	Path  string   `json:"path,omitempty"`
	Pat   string   `json:"pattern,omitempty"`
	Kinds []string `json:"kinds,omitempty"`
	Inner []op     `json:"inside_callback,omitempty"`
}

// builtHandles resolves the full pattern (below the service name) of every Handle call of a construction
// order; it depends only on the final tree, not on the order of the calls.
func builtHandles(ops []op) []hdl {
	type mx struct {
		parent      int
		mount, path string
	}
	muxes := map[int]*mx{0: {parent: -1}}
	type hc struct {
		mux   int
		pat   string
		kinds []string
	}
	var calls []hc
	var walk func(ops []op)
	walk = func(ops []op) {
		for _, o := range ops {
			switch o.Op {
			case "newmux":
				muxes[o.Mux] = &mx{parent: -1, path: o.Path}
			case "handle":
				calls = append(calls, hc{o.Mux, o.Pat, o.Kinds})
			case "mount":
				muxes[o.Sub].parent, muxes[o.Sub].mount = o.Mux, o.Path
			case "route":
				muxes[o.Sub] = &mx{parent: o.Mux, mount: o.Path}
				walk(o.Inner)
			}
		}
	}
	walk(ops)
	var prefix func(id int) string
	prefix = func(id int) string {
		m := muxes[id]
		if m.parent < 0 {
			return ""
		}
		return merge(prefix(m.parent), merge(m.mount, m.path))
	}
	var hs []hdl
	for _, c := range calls {
		hs = append(hs, hdl{Pat: merge(prefix(c.mux), c.pat), Kinds: c.kinds})
	}
	return hs
}

func handlerOpts(kinds []string) []res.Option {
	var opts []res.Option
	if has(kinds, "get") {
		opts = append(opts, res.GetResource(func(r res.GetRequest) { r.NotFound() }))
	}
	if has(kinds, "call") {
		opts = append(opts, res.Call("m", func(r res.CallRequest) { r.OK(nil) }))
	}
	if has(kinds, "auth") {
		opts = append(opts, res.Auth("m", func(r res.AuthRequest) { r.OK(nil) }))
	}
	if has(kinds, "access") {
		opts = append(opts, res.Access(func(r res.AccessRequest) { r.AccessGranted() }))
	}
	if has(kinds, "new") {
		opts = append(opts, res.New(func(r res.NewRequest) { r.NotFound() }))
	}
	return opts
}

// runBuild executes a construction order on the service.
func runBuild(s *res.Service, ops []op) {
	muxes := map[int]*res.Mux{0: s.Mux}
	var walk func(ops []op)
	walk = func(ops []op) {
		for _, o := range ops {
			switch o.Op {
			case "newmux":
				muxes[o.Mux] = res.NewMux(o.Path)
			case "handle":
				muxes[o.Mux].Handle(o.Pat, handlerOpts(o.Kinds)...)
			case "mount":
				muxes[o.Mux].Mount(o.Path, muxes[o.Sub])
			case "route":
				o := o
				muxes[o.Mux].Route(o.Path, func(m *res.Mux) {
					muxes[o.Sub] = m
					walk(o.Inner)
				})
			default:
				panic("unknown construction op " + o.Op)
			}
		}
	}
	walk(ops)
}

// handles returns every Handle call of the configuration.
func (d desc) handles() []hdl {
	if len(d.Build) > 0 {
		return append(builtHandles(d.Build), d.Layout...)
	}
	var hs []hdl
	if len(d.Kinds) > 0 {
		hs = append(hs, hdl{Pat: d.HPat, Kinds: d.Kinds})
	}
	return append(hs, d.Layout...)
}

func merge(a, b string) string {
	if a == "" {
		return b
	}
	if b == "" {
		return a
	}
	return a + "." + b
}

func (h hdl) full() string { return merge(h.Mount, h.Pat) }
func (h hdl) res() bool {
	return has(h.Kinds, "get") || has(h.Kinds, "call") || has(h.Kinds, "auth") || has(h.Kinds, "new")
}
func (h hdl) acc() bool { return has(h.Kinds, "access") }

// ---- recording connection ----

type subRec struct {
	subject, queue string
	rejected       bool
}

type recConn struct {
	mu     sync.Mutex
	subs   []subRec
	pubs   []pubRec
	closed bool
	tr     *tracer
}
type pubRec struct {
	subject string
	payload []byte
}

func badSubject(subj string) bool { // nats.go v1.10.0
	if strings.ContainsAny(subj, " \t\r\n") {
		return true
	}
	for _, t := range strings.Split(subj, ".") {
		if len(t) == 0 {
			return true
		}
	}
	return false
}

func (c *recConn) Publish(subject string, payload []byte) error {
	c.mu.Lock()
	defer c.mu.Unlock()
	c.pubs = append(c.pubs, pubRec{subject, append([]byte(nil), payload...)})
	if c.tr != nil && subject == "system.reset" {
		if pl, ok := decodeReset(payload); ok {
			c.tr.add("EReset " + payloadTerm(pl))
		}
	}
	return nil
}
func (c *recConn) PublishRequest(subject, reply string, data []byte) error {
	return c.Publish(subject, data)
}
func (c *recConn) sub(subject, queue string) (*nats.Subscription, error) {
	c.mu.Lock()
	defer c.mu.Unlock()
	if badSubject(subject) {
		c.subs = append(c.subs, subRec{subject, queue, true})
		return nil, nats.ErrBadSubject
	}
	if strings.ContainsAny(queue, " \t\r\n") {
		c.subs = append(c.subs, subRec{subject, queue, true})
		return nil, nats.ErrBadQueueName
	}
	c.subs = append(c.subs, subRec{subject, queue, false})
	return &nats.Subscription{Subject: subject, Queue: queue}, nil
}
func (c *recConn) ChanSubscribe(subject string, ch chan *nats.Msg) (*nats.Subscription, error) {
	return c.sub(subject, "")
}
func (c *recConn) ChanQueueSubscribe(subject, queue string, ch chan *nats.Msg) (*nats.Subscription, error) {
	if queue == "" { // nats.go treats an empty queue as a plain subscription
		return c.sub(subject, "")
	}
	return c.sub(subject, queue)
}
func (c *recConn) Close() {
	c.mu.Lock()
	c.closed = true
	c.mu.Unlock()
}

// ---- logger recording errors ----

type recLogger struct {
	mu   sync.Mutex
	errs []string
	tr   *tracer // "Failed to reset" errors go to the trace instead
}

func (l *recLogger) Infof(string, ...interface{})  {}
func (l *recLogger) Tracef(string, ...interface{}) {}
func (l *recLogger) Errorf(f string, v ...interface{}) {
	m := fmt.Sprintf(f, v...)
	if l.tr != nil && strings.Contains(m, "Failed to reset: service not started") {
		l.tr.add("ERefused")
		return
	}
	l.mu.Lock()
	l.errs = append(l.errs, m)
	l.mu.Unlock()
}

// ---- building the service ----

func has(xs []string, x string) bool {
	for _, y := range xs {
		if x == y {
			return true
		}
	}
	return false
}

func buildService(d desc, lg *recLogger) *res.Service {
	s := res.NewService(d.Name)
	s.SetLogger(lg)
	s.SetWorkerCount(1)
	s.SetInChannelSize(4)
	if len(d.Build) > 0 {
		runBuild(s, d.Build)
		registerHandles(s, d.Layout)
	} else {
		registerHandles(s, d.handles())
	}
	setOwned(s, d.SetReset, d.Res, d.ResSet, d.Acc, d.AccSet)
	setQueue(s, d.Queue)
	return s
}

// registerHandles makes the Handle calls; handles sharing a Mount go to one new sub-mux mounted there.
func registerHandles(s *res.Service, hs []hdl) {
	subs := map[string]*res.Mux{}
	var mounts []string
	for _, h := range hs {
		var opts []res.Option
		if has(h.Kinds, "get") {
			opts = append(opts, res.GetResource(func(r res.GetRequest) { r.NotFound() }))
		}
		if has(h.Kinds, "call") {
			opts = append(opts, res.Call("m", func(r res.CallRequest) { r.OK(nil) }))
		}
		if has(h.Kinds, "auth") {
			opts = append(opts, res.Auth("m", func(r res.AuthRequest) { r.OK(nil) }))
		}
		if has(h.Kinds, "access") {
			opts = append(opts, res.Access(func(r res.AccessRequest) { r.AccessGranted() }))
		}
		if has(h.Kinds, "new") {
			opts = append(opts, res.New(func(r res.NewRequest) { r.NotFound() }))
		}
		if h.Mount == "" {
			s.Handle(h.Pat, opts...)
			continue
		}
		sub := subs[h.Mount]
		if sub == nil {
			sub = res.NewMux("")
			subs[h.Mount] = sub
			mounts = append(mounts, h.Mount)
		}
		sub.Handle(h.Pat, opts...)
	}
	for _, m := range mounts {
		s.Mount(m, subs[m])
	}
}

func setOwned(s *res.Service, alias bool, res []string, resSet bool, acc []string, accSet bool) {
	var r, a []string
	if resSet {
		r = append([]string{}, res...)
	}
	if accSet {
		a = append([]string{}, acc...)
	}
	if alias {
		s.SetReset(r, a)
	} else {
		s.SetOwnedResources(r, a)
	}
}

func setQueue(s *res.Service, q string) {
	switch q {
	case "default":
		s.SetQueueGroup(s.Path()) // the default queue group is the service name
	case "off":
		s.SetQueueGroup("")
	default:
		s.SetQueueGroup(q)
	}
}

func effQueue(d desc) string {
	switch d.Queue {
	case "default":
		return d.Name
	case "off":
		return ""
	}
	return d.Queue
}

func hasRes(d desc) bool {
	for _, h := range d.handles() {
		if h.res() {
			return true
		}
	}
	return false
}

func hasAcc(d desc) bool {
	for _, h := range d.handles() {
		if h.acc() {
			return true
		}
	}
	return false
}

func layoutTerm(d desc) string {
	var xs []string
	for _, h := range d.handles() {
		xs = append(xs, fmt.Sprintf("HReg %s %s %s", B(h.full()), Bool(h.res()), Bool(h.acc())))
	}
	return List(xs)
}

// onlyBelow reports whether some kind class (resource methods / access) is registered, but only on
// handlers whose pattern lies strictly below the pattern of another registered handler.
func onlyBelow(d desc) bool {
	hs := d.handles()
	below := func(h hdl) bool {
		for _, o := range hs {
			of, hf := o.full(), h.full()
			if of != hf && (of == "" || strings.HasPrefix(hf, of+".")) {
				return true
			}
		}
		return false
	}
	for _, class := range []func(hdl) bool{hdl.res, hdl.acc} {
		any, all := false, true
		for _, h := range hs {
			if class(h) {
				any = true
				if !below(h) {
					all = false
				}
			}
		}
		if any && all {
			return true
		}
	}
	return false
}

type payload struct {
	res, acc       []string
	hasRes, hasAcc bool
}

func decodeReset(b []byte) (payload, bool) {
	var m map[string]json.RawMessage
	var p payload
	if json.Unmarshal(b, &m) != nil {
		return p, false
	}
	for k, v := range m {
		var l []string
		if json.Unmarshal(v, &l) != nil || l == nil {
			return p, false
		}
		switch k {
		case "resources":
			p.res, p.hasRes = l, true
		case "access":
			p.acc, p.hasAcc = l, true
		default:
			return p, false
		}
	}
	return p, true
}

func optBList(xs []string, set bool) string {
	if !set {
		return "None"
	}
	return "(Some " + BList(xs) + ")"
}

func payloadTerm(p payload) string {
	return "(" + optBList(p.res, p.hasRes) + "," + optBList(p.acc, p.hasAcc) + ")"
}

type observed struct {
	err      int
	subs     []subRec
	resets   []payload
	other    int
	script   []int    // operations actually performed while serving
	trace    []string // Coq terms of the events seen while serving, in order
	off      []int    // operations performed while not started
	offTrace []string
}

// tracer orders the events of one service: reset publishes (from the connection), callbacks, refused resets.
type tracer struct {
	mu  sync.Mutex
	evs []string
}

func (t *tracer) add(e string) {
	t.mu.Lock()
	t.evs = append(t.evs, e)
	t.mu.Unlock()
}
func (t *tracer) take() []string {
	t.mu.Lock()
	defer t.mu.Unlock()
	e := t.evs
	t.evs = nil
	return e
}

func script(extra int, ops []int) []int {
	if len(ops) > 0 {
		return ops
	}
	return make([]int, extra) // extra x ResetAll
}

func ints(xs []int) string {
	ys := make([]string, len(xs))
	for i, x := range xs {
		ys[i] = fmt.Sprint(x)
	}
	return List(ys)
}

// doOp performs one scripted operation.
func doOp(s *res.Service, op int) {
	switch op {
	case 0:
		s.ResetAll()
	case 1:
		s.VerifHandleReconnect()
	default:
		s.VerifHandleDisconnect()
	}
}

func caseTerm(d desc, o observed) string {
	ss := make([]string, len(o.subs))
	for i, s := range o.subs {
		ss[i] = "(" + B(s.subject) + "," + B(s.queue) + "," + Bool(s.rejected) + ")"
	}
	ps := make([]string, len(o.resets))
	for i, p := range o.resets {
		ps[i] = payloadTerm(p)
	}
	nreset := 0
	for _, op := range o.script {
		if op < 2 {
			nreset++
		}
	}
	return fmt.Sprintf("SC %s %s %s %s %s %d %s %s %d %s %s %s %s %d",
		B(d.Name), optBList(d.Res, d.ResSet), optBList(d.Acc, d.AccSet), layoutTerm(d),
		B(effQueue(d)), o.err, List(ss), List(ps), nreset, ints(o.script), List(o.trace), ints(o.off), List(o.offTrace), o.other)
}

func classifyErrs(errs []string) int {
	e := 0
	for _, m := range errs {
		switch {
		case strings.Contains(m, "no resources to serve"):
			e = 1
		case strings.Contains(m, "Failed to subscribe"):
			if e == 0 {
				e = 2
			}
		default:
			if e == 0 {
				e = 3
			}
		}
	}
	return e
}

// serveOnce performs the operations pre on the not yet started service, serves it on a fresh recording
// connection, performs the operations ops while it is serving, shuts it down and, if it had been
// serving, performs the operations post on the stopped service.  Operations: 0 ResetAll, 1 reconnect
// (the handler the service installs on a nats.Conn), 2 disconnect.
func serveOnce(s *res.Service, lg *recLogger, ops, pre, post []int) (o observed, impl string) {
	defer func() {
		if r := recover(); r != nil {
			impl = fmt.Sprintf("panic: %v", r)
		}
	}()
	tr := &tracer{}
	lg.mu.Lock()
	lg.errs = nil
	lg.tr = tr
	lg.mu.Unlock()
	nerrs := func() int {
		lg.mu.Lock()
		defer lg.mu.Unlock()
		return len(lg.errs)
	}
	s.SetOnReconnect(func(*res.Service) { tr.add("EOnReconnect") })
	s.SetOnDisconnect(func(*res.Service) { tr.add("EOnDisconnect") })
	for _, op := range pre {
		doOp(s, op)
		o.off = append(o.off, op)
	}
	o.offTrace = tr.take()
	o.other += nerrs() // nothing but the refused resets may be logged while not started
	lg.mu.Lock()
	lg.errs = nil
	lg.mu.Unlock()
	conn := &recConn{tr: tr}
	served := make(chan struct{})
	s.SetOnServe(func(*res.Service) { close(served) })
	done := make(chan error, 1)
	go func() {
		// after a failed subscribe the service shuts itself down asynchronously: wait until it is stopped
		for i := 0; ; i++ {
			err := s.Serve(conn)
			if err != nil && strings.Contains(err.Error(), "not stopped") && i < 2000 {
				time.Sleep(time.Millisecond)
				continue
			}
			done <- err
			return
		}
	}()
	wasServing := false
	select {
	case <-served:
		wasServing = true
		for _, op := range ops {
			doOp(s, op)
			o.script = append(o.script, op)
		}
		if err := s.Shutdown(); err != nil {
			impl = "Shutdown: " + err.Error()
		}
		select {
		case <-done:
		case <-time.After(10 * time.Second):
			impl = "Serve did not return after Shutdown"
			wasServing = false
		}
	case err := <-done:
		// subscribe failed: serve shuts itself down and returns nil
		if err != nil {
			lg.Errorf("Serve returned: %s", err)
		}
	case <-time.After(10 * time.Second):
		impl = "Serve neither started nor returned"
	}
	o.trace = tr.take()
	func() {
		conn.mu.Lock()
		defer conn.mu.Unlock()
		lg.mu.Lock()
		defer lg.mu.Unlock()
		o.err = classifyErrs(lg.errs)
		o.subs = append(o.subs, conn.subs...)
		for _, p := range conn.pubs {
			if p.subject != "system.reset" {
				o.other++
				continue
			}
			pl, ok := decodeReset(p.payload)
			if !ok {
				o.other++
				continue
			}
			o.resets = append(o.resets, pl)
		}
	}()
	if wasServing {
		n0, p0 := nerrs(), len(conn.pubs)
		for _, op := range post {
			doOp(s, op)
			o.off = append(o.off, op)
		}
		o.offTrace = append(o.offTrace, tr.take()...)
		conn.mu.Lock()
		o.other += nerrs() - n0 + len(conn.pubs) - p0
		conn.mu.Unlock()
	}
	return
}

// runResult is one run of a sequence: the configuration in force during that run and what was observed.
type runResult struct {
	cfg  desc
	ob   observed
	impl string
}

// runRecorded serves the configuration on the recording connection; with d.Restart the SAME Service
// object is then reconfigured while stopped and served again on a fresh connection, once per phase.
func runRecorded(d desc) (out []runResult) {
	lg := &recLogger{}
	var s *res.Service
	cur := d
	cur.Restart = nil
	func() {
		defer func() {
			if r := recover(); r != nil {
				out = append(out, runResult{cfg: cur, impl: fmt.Sprintf("panic while building: %v", r)})
			}
		}()
		s = buildService(d, lg)
	}()
	if s == nil {
		return
	}
	ob, iv := serveOnce(s, lg, script(d.Extra, d.Ops), d.Off, d.Off)
	out = append(out, runResult{cur, ob, iv})
	for k, ph := range d.Restart {
		next := cur
		next.Layout = append(append([]hdl{}, cur.Layout...), ph.Add...)
		if ph.Reconfigure {
			next.Res, next.ResSet, next.Acc, next.AccSet = ph.Res, ph.ResSet, ph.Acc, ph.AccSet
		}
		if ph.Queue != "" {
			next.Queue = ph.Queue
		}
		next.Extra = ph.Extra
		next.Run = k + 1
		var piv string
		func() {
			defer func() {
				if r := recover(); r != nil {
					piv = fmt.Sprintf("panic while reconfiguring: %v", r)
				}
			}()
			registerHandles(s, ph.Add)
			if ph.Reconfigure {
				setOwned(s, d.SetReset, ph.Res, ph.ResSet, ph.Acc, ph.AccSet)
			}
			if ph.Queue != "" {
				setQueue(s, ph.Queue)
			}
		}()
		if piv != "" {
			out = append(out, runResult{cfg: next, impl: piv})
			return
		}
		cur = next
		ob, iv := serveOnce(s, lg, script(ph.Extra, ph.Ops), nil, d.Off)
		out = append(out, runResult{cur, ob, iv})
	}
	return
}

// ---- thorough tier: embedded nats-server ----

func startServer() *server.Server {
	opts := &server.Options{Host: "127.0.0.1", Port: -1, NoLog: true, NoSigs: true}
	srv, err := server.NewServer(opts)
	if err != nil {
		panic(err)
	}
	go srv.Start()
	if !srv.ReadyForConnections(10 * time.Second) {
		panic("embedded nats-server did not start")
	}
	return srv
}

// natsDifferential returns, per subscription subject, the server's validity verdict and the set of
// published subjects that were delivered to it.
func natsDifferential(srv *server.Server, subs, subjects []string) (cases []Case) {
	url := fmt.Sprintf("nats://%s", srv.Addr().String())
	for _, sub := range subs {
		valid := server.IsValidSubject(sub) && !badSubject(sub)
		delivered := map[string]int{}
		if valid {
			nc, err := nats.Connect(url)
			if err != nil {
				panic(err)
			}
			sc, err := nc.SubscribeSync(sub)
			if err != nil {
				panic(err)
			}
			sc.SetPendingLimits(-1, -1)
			nc.Flush()
			for _, sj := range subjects {
				if err := nc.Publish(sj, nil); err != nil {
					panic(err)
				}
			}
			nc.Flush()
			for {
				m, err := sc.NextMsg(time.Millisecond)
				if err != nil {
					break
				}
				delivered[m.Subject]++
			}
			if nc.LastError() != nil {
				valid = false
			}
			nc.Close()
		}
		for _, sj := range subjects {
			d := desc{IsNats: true, NatsSub: sub, NatsSbj: sj}
			cases = append(cases, Case{
				Term:       fmt.Sprintf("NC %s %s %s %d", B(sub), B(sj), Bool(valid), delivered[sj]),
				Desc:       d,
				Nontrivial: valid && strings.ContainsAny(sub, "*>"),
			})
		}
	}
	return
}

// tcpProxy forwards to target; Drop closes every open connection.
type tcpProxy struct {
	ln     net.Listener
	target string
	mu     sync.Mutex
	conns  []net.Conn
}

func newProxy(target string) *tcpProxy {
	ln, err := net.Listen("tcp", "127.0.0.1:0")
	if err != nil {
		panic(err)
	}
	p := &tcpProxy{ln: ln, target: target}
	go func() {
		for {
			c, err := ln.Accept()
			if err != nil {
				return
			}
			u, err := net.Dial("tcp", target)
			if err != nil {
				c.Close()
				continue
			}
			p.mu.Lock()
			p.conns = append(p.conns, c, u)
			p.mu.Unlock()
			go func() { io.Copy(u, c); u.Close(); c.Close() }()
			go func() { io.Copy(c, u); u.Close(); c.Close() }()
		}
	}()
	return p
}
func (p *tcpProxy) Drop() {
	p.mu.Lock()
	for _, c := range p.conns {
		c.Close()
	}
	p.conns = nil
	p.mu.Unlock()
}
func (p *tcpProxy) Close() { p.ln.Close(); p.Drop() }

// runLive serves the configuration over a real connection to the embedded server (through a
// proxy), reads the subscriptions back from the server, and forces d.Extra reconnects.
func runLive(srv *server.Server, d desc) (o observed, impl string) {
	defer func() {
		if r := recover(); r != nil {
			impl = fmt.Sprintf("panic: %v", r)
		}
	}()
	direct := fmt.Sprintf("nats://%s", srv.Addr().String())
	obs, err := nats.Connect(direct)
	if err != nil {
		panic(err)
	}
	defer obs.Close()
	och, err := obs.SubscribeSync("system.reset")
	if err != nil {
		panic(err)
	}
	obs.Flush()
	var omu sync.Mutex
	// drain moves the resets that have reached the observer into the observations
	drain := func(wait time.Duration) {
		omu.Lock()
		defer omu.Unlock()
		for {
			m, err := och.NextMsg(wait)
			if err != nil {
				return
			}
			pl, ok := decodeReset(m.Data)
			if !ok {
				o.other++
				continue
			}
			o.resets = append(o.resets, pl)
			o.trace = append(o.trace, "EReset "+payloadTerm(pl))
		}
	}
	px := newProxy(srv.Addr().String())
	defer px.Close()
	nc, err := nats.Connect("nats://"+px.ln.Addr().String(), nats.MaxReconnects(-1), nats.ReconnectWait(20*time.Millisecond))
	if err != nil {
		panic(err)
	}
	lg := &recLogger{}
	s := buildService(d, lg)
	served := make(chan struct{})
	s.SetOnServe(func(*res.Service) { close(served) })
	recon := make(chan struct{}, 16)
	closing := false // Shutdown closes the nats.Conn, which reports one more disconnect: not part of the script
	s.SetOnDisconnect(func(*res.Service) {
		omu.Lock()
		if !closing {
			o.trace = append(o.trace, "EOnDisconnect")
		}
		omu.Unlock()
	})
	s.SetOnReconnect(func(*res.Service) {
		// whatever the service published before calling back has reached the observer after the two flushes
		nc.Flush()
		obs.Flush()
		drain(time.Millisecond)
		omu.Lock()
		o.trace = append(o.trace, "EOnReconnect")
		omu.Unlock()
		recon <- struct{}{}
	})
	done := make(chan error, 1)
	go func() { done <- s.Serve(nc) }()
	select {
	case <-served:
	case <-done:
		impl = "live: Serve returned early: " + strings.Join(lg.errs, "; ")
		return
	case <-time.After(10 * time.Second):
		impl = "live: Serve did not start"
		return
	}
	nc.Flush()
	cid, _ := nc.GetClientID()
	sz, err := srv.Subsz(&server.SubszOptions{Subscriptions: true, Limit: 100000})
	if err != nil {
		panic(err)
	}
	for _, sd := range sz.Subs {
		if sd.Cid == cid && !strings.HasPrefix(sd.Subject, "_INBOX") {
			o.subs = append(o.subs, subRec{sd.Subject, sd.Queue, false})
		}
	}
	sort.Slice(o.subs, func(i, j int) bool { return o.subs[i].subject < o.subs[j].subject })
	obs.Flush()
	drain(time.Millisecond)
	for i := 0; i < d.Extra; i++ {
		o.script = append(o.script, 2, 1) // a dropped connection: disconnect, then reconnect
		px.Drop()
		select {
		case <-recon:
		case <-time.After(10 * time.Second):
			impl = "live: no reconnect"
			return
		}
		nc.Flush()
	}
	obs.Flush()
	omu.Lock()
	closing = true
	omu.Unlock()
	s.Shutdown()
	select {
	case <-done:
	case <-time.After(10 * time.Second):
		impl = "live: Serve did not return"
	}
	drain(50 * time.Millisecond)
	lg.mu.Lock()
	o.err = classifyErrs(lg.errs)
	lg.mu.Unlock()
	return
}

// ---- generation ----

func entries(alpha []string, maxTok int) []string {
	var out []string
	var gen func(prefix []string, n int)
	gen = func(prefix []string, n int) {
		if len(prefix) > 0 {
			out = append(out, strings.Join(prefix, "."))
		}
		if n == 0 {
			return
		}
		for _, t := range alpha {
			gen(append(append([]string{}, prefix...), t), n-1)
		}
	}
	gen(nil, maxTok)
	return out
}

func specValid(p string) bool { // valid NATS wildcard subject, wildcards as whole tokens, '>' last, no $-token
	if p == "" || strings.ContainsAny(p, " \t\r\n") {
		return false
	}
	ts := strings.Split(p, ".")
	for i, t := range ts {
		if t == "" || t[0] == '$' {
			return false
		}
		if t == "*" {
			continue
		}
		if t == ">" {
			if i != len(ts)-1 {
				return false
			}
			continue
		}
		if strings.ContainsAny(t, "*>") {
			return false
		}
	}
	return true
}

func main() {
	// -stale-defaults adds stop/start sequences in which handlers are registered while the service is
	// stopped and SetOwnedResources is NOT called again (ownership stays "nil = default" for the user).
	staleDefaults := flag.Bool("stale-defaults", false, "include restart sequences that add handlers while stopped without calling SetOwnedResources again")
	o := ParseOpts()
	r := NewRng(o.Seed)
	thorough := o.Tier == "thorough"
	var cases []Case
	var impl []ImplViolation
	dist := map[string]int{}
	extra := map[string]interface{}{}
	rejectedSeen := 0
	eliminatedSeen := 0

	var addRun func(kind string, full desc, d desc, ob observed, iv string)
	opsPool := [][]int{nil, {2, 1}, {1}, {0, 2, 1, 1}, {2, 2, 1, 0}}
	offPool := [][]int{nil, {1}, nil, {2, 1, 0}}
	genCount := 0
	add := func(kind string, d desc) {
		if o.Replay == "" {
			// spread the ResetAll / reconnect / disconnect scripts and the SetReset alias over all configurations
			genCount++
			if d.Ops == nil {
				d.Ops = opsPool[genCount%len(opsPool)]
			}
			d.Off = offPool[(genCount/len(opsPool))%len(offPool)]
			d.SetReset = genCount%3 == 1
			for i := range d.Restart {
				if d.Restart[i].Ops == nil {
					d.Restart[i].Ops = opsPool[(genCount+i+1)%len(opsPool)]
				}
			}
		}
		for _, rr := range runRecorded(d) {
			addRun(kind, d, rr.cfg, rr.ob, rr.impl)
		}
	}
	// full: the whole (possibly multi-run) configuration, kept as the replayable description;
	// d: the configuration in force during the observed run
	addRun = func(kind string, full desc, d desc, ob observed, iv string) {
		full.Run = d.Run
		c := Case{Term: caseTerm(d, ob), Desc: full}
		dist[kind]++
		if len(full.Build) > 0 {
			c.Tags = append(c.Tags, "construction-order")
		}
		if len(full.Restart) > 0 {
			c.Tags = append(c.Tags, "restart", fmt.Sprintf("run-%d", d.Run))
			if d.Run > 0 {
				dist["restart-later-run"]++
			}
		}
		for _, h := range d.handles() {
			if h.full() == "" {
				c.Tags = append(c.Tags, "root-handler")
				break
			}
		}
		if onlyBelow(d) {
			c.Tags = append(c.Tags, "kind-only-below-handler")
			dist["kind-only-below-another-handler"]++
		}
		for _, h := range d.handles() {
			if h.Mount != "" {
				dist["mounted-mux"]++
				break
			}
		}
		for _, s := range ob.subs {
			if s.rejected {
				rejectedSeen++
				c.Tags = append(c.Tags, "conn-rejected-subject")
				break
			}
		}
		npat := 0
		if d.ResSet {
			npat += 3 * len(d.Res)
		}
		if d.AccSet {
			npat += len(d.Acc)
		}
		elim := (d.ResSet || d.AccSet) && len(ob.subs) < npat && ob.err == 0
		if elim {
			eliminatedSeen++
			dist["overlap-eliminated"]++
		}
		dflt := (!d.ResSet && hasRes(d)) || (!d.AccSet && hasAcc(d))
		if dflt {
			dist["default-ownership-used"]++
		}
		switch ob.err {
		case 1:
			dist["no-resources"]++
		case 2:
			dist["subscribe-error"]++
		}
		c.Nontrivial = elim || dflt
		if c.Nontrivial {
			dist["nontrivial"]++
		}
		if iv != "" {
			impl = append(impl, ImplViolation{What: iv, Desc: full, Tags: c.Tags})
		}
		cases = append(cases, c)
	}

	kindSets := [][]string{{"get"}, {"call"}, {"auth"}, {"access"}, {}, {"get", "call", "auth", "access"}, {"new"}, {"get", "access"}}
	names := []string{"", "a", "a.b"}
	queues := []string{"default", "off", "qg"}
	hpats := []string{"model", "$id", ">", "x.*.y"}

	if o.Replay != "" {
		var d desc
		if err := LoadReplay(o.Replay, &d); err != nil {
			panic(err)
		}
		switch {
		case d.IsNats:
			srv := startServer()
			cases = append(cases, natsDifferential(srv, []string{d.NatsSub}, []string{d.NatsSbj})...)
			srv.Shutdown()
		case d.Live:
			srv := startServer()
			ob, iv := runLive(srv, d)
			srv.Shutdown()
			cases = append(cases, Case{Term: caseTerm(d, ob), Desc: d})
			if iv != "" {
				impl = append(impl, ImplViolation{What: iv, Desc: d})
			}
		default:
			add("replay", d)
		}
	} else {
		// (a) defaults and nil / empty lists: every name x handler kinds x queue x nil/empty combination
		hp := 0
		for _, n := range names {
			for _, ks := range kindSets {
				for _, q := range queues {
					for m := 0; m < 4; m++ {
						d := desc{Name: n, Kinds: ks, Queue: q, HPat: hpats[hp%len(hpats)], Extra: hp % 3,
							ResSet: m&1 != 0, AccSet: m&2 != 0}
						hp++
						add("defaults", d)
					}
				}
			}
		}
		// (b) explicit lists, exhaustive over the valid entries of <= 2 tokens over {a,b,*,>}
		all2 := entries([]string{"a", "b", "*", ">"}, 2)
		var valid2 []string
		for _, e := range all2 {
			if specValid(e) {
				valid2 = append(valid2, e)
			}
		}
		maxLen := 2
		if thorough {
			maxLen = 3
		}
		var lists [][]string
		var genL func(cur []string, n int)
		genL = func(cur []string, n int) {
			lists = append(lists, append([]string{}, cur...))
			if n == 0 {
				return
			}
			for _, e := range valid2 {
				genL(append(append([]string{}, cur...), e), n-1)
			}
		}
		genL(nil, maxLen)
		allKinds := []string{"get", "call", "auth", "access"}
		for i, l := range lists {
			n := names[i%len(names)]
			q := queues[i%2] // default / off
			add("exhaustive-resources", desc{Name: n, Res: l, ResSet: true, Acc: nil, AccSet: i%2 == 0, Kinds: allKinds, HPat: "model", Queue: q, Extra: i % 2})
			add("exhaustive-access", desc{Name: n, Res: nil, ResSet: true, Acc: l, AccSet: true, Kinds: allKinds, HPat: "model", Queue: q, Extra: (i + 1) % 2})
		}
		// (c) random lists: <= 4 entries of <= 3 tokens (invalid ones such as ">.a" included), both lists set
		nr := 300
		if thorough {
			nr = 6000
		}
		if o.N > 0 {
			nr = o.N
		}
		all3 := entries([]string{"a", "b", "*", ">"}, 3)
		var valid3 []string
		for _, e := range all3 {
			if specValid(e) {
				valid3 = append(valid3, e)
			}
		}
		pickList := func(pool []string) ([]string, bool) {
			switch r.Intn(8) {
			case 0:
				return nil, false
			case 1:
				return []string{}, true
			}
			n := 1 + r.Intn(4)
			l := make([]string, 0, n)
			for i := 0; i < n; i++ {
				if len(l) > 0 && r.Chance(20) {
					l = append(l, l[r.Intn(len(l))]) // duplicate
				} else if len(l) > 0 && r.Chance(20) {
					b := l[r.Intn(len(l))] // nested below an existing entry
					if !strings.HasSuffix(b, ">") {
						l = append(l, b+"."+r.Pick([]string{"a", "*", ">"}))
					} else {
						l = append(l, strings.TrimSuffix(b, ">")+r.Pick([]string{"a", "*", "a.>"}))
					}
				} else {
					l = append(l, r.Pick(pool))
				}
			}
			return l, true
		}
		for i := 0; i < nr; i++ {
			pool := valid3
			kind := "random-valid"
			if r.Chance(15) {
				pool = all3
				kind = "random-any"
			}
			rs, rset := pickList(pool)
			as, aset := pickList(pool)
			d := desc{Name: r.Pick(names), Res: rs, ResSet: rset, Acc: as, AccSet: aset,
				Kinds: kindSets[r.Intn(len(kindSets))], HPat: r.Pick(hpats), Queue: r.Pick(queues), Extra: r.Intn(3)}
			add(kind, d)
		}
		// (d) malformed entries: empty, empty tokens, whitespace, $tags, wildcard characters inside a token
		bad := []string{"", "a..b", "a.", ".a", "a b", "a\tb", "$x", "a.$x", "a*", "a>", "*a", ">.a", "a.>.b", "a.b.c.d.e"}
		for i, b := range bad {
			for _, other := range []string{"a", "a.>", ">"} {
				l := []string{other, b}
				if i%2 == 0 {
					l = []string{b, other}
				}
				add("malformed", desc{Name: names[i%3], Res: l, ResSet: true, Acc: nil, AccSet: true, Kinds: []string{"get", "access"}, HPat: "model", Queue: queues[i%3], Extra: 1})
				add("malformed", desc{Name: names[i%3], Res: nil, ResSet: true, Acc: l, AccSet: true, Kinds: []string{"get", "access"}, HPat: "model", Queue: queues[i%3], Extra: 1})
			}
		}
		// (e) a handler registered on the service's own name (pattern "")
		for _, n := range names[1:] {
			for _, ks := range [][]string{{"get"}, {"access"}, {"get", "access"}} {
				add("root-handler", desc{Name: n, Kinds: ks, HPat: "", Queue: "off", Extra: 1})
			}
		}
		// (g) handler layouts: 1-3 Handle calls on nested patterns, placeholder / wildcard children,
		// mounted muxes with and without a root handler, the root pattern; every handle gets every
		// choice of kinds, so that a kind occurs only below another handler, only on a wildcard child,
		// only inside a mounted mux, ...
		shapes := [][]hdl{
			{{Pat: "a"}},
			{{Pat: "a.$id"}},
			{{Pat: "a"}, {Pat: "a.$id"}},
			{{Pat: "a"}, {Pat: "a.>"}},
			{{Pat: "a"}, {Pat: "a.b"}},
			{{Pat: "a.$id"}, {Pat: "a.$id.b"}},
			{{Pat: "a.*"}, {Pat: "a.*.b"}},
			{{Pat: ""}, {Pat: "a"}},
			{{Pat: ""}, {Pat: "$id.b"}},
			{{Pat: ">"}, {Pat: "a"}},
			{{Pat: "a"}, {Mount: "m", Pat: ""}},
			{{Mount: "m", Pat: ""}, {Mount: "m", Pat: "x"}},
			{{Pat: "a"}, {Mount: "a.m", Pat: "x"}},
			{{Pat: "a"}, {Mount: "a.m", Pat: ""}},
			{{Mount: "m", Pat: "x"}, {Mount: "m", Pat: "x.$id"}},
			{{Pat: "a"}, {Pat: "a.$id"}, {Pat: "a.$id.b"}},
			{{Pat: ""}, {Pat: "a"}, {Mount: "a.m", Pat: "x.>"}},
		}
		choices := [][]string{{}, {"get"}, {"access"}, {"get", "access"}, {"call", "auth"}}
		if !thorough {
			choices = choices[:4]
		}
		li := 0
		for _, sh := range shapes {
			total := 1
			for range sh {
				total *= len(choices)
			}
			for code := 0; code < total; code++ {
				l := make([]hdl, len(sh))
				c := code
				for i, h := range sh {
					h.Kinds = choices[c%len(choices)]
					c /= len(choices)
					l[i] = h
				}
				d := desc{Name: names[li%len(names)], Layout: l, Queue: queues[li%len(queues)], Extra: li % 2}
				if thorough {
					for _, n := range names {
						d.Name = n
						add("handler-layout", d)
					}
				} else {
					add("handler-layout", d)
				}
				li++
			}
		}
		// (j) long explicit ownership lists (the elimination compares every subject with every other one:
		// sizes around 64 / 85 / 86 / 128 / 256 / 257 / 300 entries, i.e. below and above 256 expanded
		// subjects), with one covering entry and entries nested below it, duplicates and a few disjoint ones
		longList := func(n int, style int) []string {
			l := make([]string, 0, n)
			for i := 0; len(l) < n; i++ {
				switch {
				case style != 2 && i == n/2:
					l = append(l, "l.>") // covers the nested entries before and after it
				case style == 1 && i%7 == 3:
					l = append(l, fmt.Sprintf("l.k.b%d", i-3)) // duplicate of an earlier entry
				case style == 1 && i%11 == 5:
					l = append(l, fmt.Sprintf("d%d.x", i)) // disjoint
				case style == 1 && i%13 == 6:
					l = append(l, "l.k.*") // nested wildcard covering part of the list
				case style == 2 && i%2 == 1:
					l = append(l, fmt.Sprintf("d%d.*", i)) // style 2: pairwise disjoint, a few nested below their neighbour
				case style == 2:
					l = append(l, fmt.Sprintf("d%d.x", i+1))
				default:
					l = append(l, fmt.Sprintf("l.k.b%d", i))
				}
			}
			return l
		}
		type longCfg struct{ nres, nacc, style int }
		longs := []longCfg{{85, 0, 1}, {86, 0, 0}, {0, 257, 1}, {64, 65, 1}}
		if thorough {
			longs = append(longs, longCfg{100, 0, 1}, longCfg{0, 256, 1}, longCfg{0, 257, 0}, longCfg{64, 0, 1}, longCfg{85, 1, 1}, longCfg{85, 2, 0}, longCfg{86, 0, 1}, longCfg{128, 0, 0},
				longCfg{128, 128, 1}, longCfg{0, 300, 1}, longCfg{0, 257, 1}, longCfg{60, 77, 0}, longCfg{86, 0, 2}, longCfg{40, 137, 2},
				longCfg{256, 0, 0}, longCfg{257, 257, 1}, longCfg{300, 0, 1}, longCfg{150, 150, 0})
		}
		for i, lc := range longs {
			d := desc{Name: names[i%len(names)], Kinds: []string{"get", "access"}, HPat: "model", Queue: queues[i%len(queues)], Extra: 1,
				ResSet: true, AccSet: true, Res: []string{}, Acc: []string{}}
			if lc.nres > 0 {
				d.Res = longList(lc.nres, lc.style)
			}
			if lc.nacc > 0 {
				d.Acc = longList(lc.nacc, lc.style)
			}
			add("long-ownership-list", d)
		}
		// (i) construction orders: the same final mux tree (a handler two or three mounted muxes deep,
		// optionally another handler on the outer mux or on the service) built by different sequences of
		// NewMux / Handle / Mount / Route calls; the expectation depends on the final pattern set only
		nm := func(id int, path string) op { return op{Op: "newmux", Mux: id, Path: path} }
		hd := func(id int, pat string, k []string) op { return op{Op: "handle", Mux: id, Pat: pat, Kinds: k} }
		mt := func(parent int, path string, sub int) op { return op{Op: "mount", Mux: parent, Path: path, Sub: sub} }
		rt := func(parent int, path string, sub int, inner ...op) op {
			return op{Op: "route", Mux: parent, Path: path, Sub: sub, Inner: inner}
		}
		deepKinds := [][]string{{"get"}, {"access"}, {"get", "access"}, {"call", "auth"}}
		bi := 0
		for _, k := range deepKinds {
			x := func(id int) op { return hd(id, "x", k) }
			orders := map[string][]op{
				// depth 2: service <- a <- b, handler b's "x" (full pattern a.b.x)
				"d2 outer mounted first, then inner (with its handler) mounted into it": {nm(1, ""), nm(2, ""), x(2), mt(0, "a", 1), mt(1, "b", 2)},
				"d2 innermost first":                                    {nm(1, ""), nm(2, ""), x(2), mt(1, "b", 2), mt(0, "a", 1)},
				"d2 handler after both mounts":                          {nm(1, ""), nm(2, ""), mt(0, "a", 1), mt(1, "b", 2), x(2)},
				"d2 inner mounted, handler, outer mounted":              {nm(1, ""), nm(2, ""), mt(1, "b", 2), x(2), mt(0, "a", 1)},
				"d2 outer mounted, handler, inner mounted":              {nm(1, ""), nm(2, ""), mt(0, "a", 1), x(2), mt(1, "b", 2)},
				"d2 through the service with pattern a.b.x":             {nm(1, ""), mt(0, "a", 1), hd(0, "a.b.x", k)},
				"d2 through the outer mux with pattern b.x":             {nm(1, ""), nm(2, ""), mt(0, "a", 1), mt(1, "b", 2), hd(1, "b.x", k)},
				"d2 through the outer mux before it is mounted":         {nm(1, ""), nm(2, ""), mt(1, "b", 2), hd(1, "b.x", k), mt(0, "a", 1)},
				"d2 nested Route callbacks":                             {rt(0, "a", 1, rt(1, "b", 2, x(2)))},
				"d2 Route outer, then Route inner on the mounted outer": {rt(0, "a", 1), rt(1, "b", 2, x(2))},
				"d2 Route outer, then Mount inner with handler":         {rt(0, "a", 1), nm(2, ""), x(2), mt(1, "b", 2)},
				"d2 Route both, handler afterwards":                     {rt(0, "a", 1), rt(1, "b", 2), x(2)},
				"d2 mux paths instead of mount paths, outer first":      {nm(1, "a"), nm(2, "b"), x(2), mt(0, "", 1), mt(1, "", 2)},
				"d2 mux paths instead of mount paths, inner first":      {nm(1, "a"), nm(2, "b"), x(2), mt(1, "", 2), mt(0, "", 1)},
				// depth 3: service <- a <- b <- c, handler c's "x" (full pattern a.b.c.x)
				"d3 outermost first":             {nm(1, ""), nm(2, ""), nm(3, ""), x(3), mt(0, "a", 1), mt(1, "b", 2), mt(2, "c", 3)},
				"d3 innermost first":             {nm(1, ""), nm(2, ""), nm(3, ""), x(3), mt(2, "c", 3), mt(1, "b", 2), mt(0, "a", 1)},
				"d3 inner pair, outer, middle":   {nm(1, ""), nm(2, ""), nm(3, ""), x(3), mt(2, "c", 3), mt(0, "a", 1), mt(1, "b", 2)},
				"d3 middle pair, inner, outer":   {nm(1, ""), nm(2, ""), nm(3, ""), x(3), mt(1, "b", 2), mt(2, "c", 3), mt(0, "a", 1)},
				"d3 middle pair, outer, inner":   {nm(1, ""), nm(2, ""), nm(3, ""), x(3), mt(1, "b", 2), mt(0, "a", 1), mt(2, "c", 3)},
				"d3 all mounts, then handler":    {nm(1, ""), nm(2, ""), nm(3, ""), mt(0, "a", 1), mt(1, "b", 2), mt(2, "c", 3), x(3)},
				"d3 Route chain outermost first": {rt(0, "a", 1), rt(1, "b", 2), rt(2, "c", 3, x(3))},
				"d3 nested Route callbacks":      {rt(0, "a", 1, rt(1, "b", 2, rt(2, "c", 3, x(3))))},
			}
			var keys []string
			for key := range orders {
				keys = append(keys, key)
			}
			sort.Strings(keys)
			for _, key := range keys {
				ops := orders[key]
				// 0: nothing else registered; 1: the service has a handler of the other kind class;
				// 2: the outer mux gets a handler without methods before everything else
				for variant := 0; variant < 3; variant++ {
					d := desc{Name: names[bi%len(names)], Queue: queues[bi%len(queues)], Extra: bi % 2, Order: key}
					d.Build = append([]op{}, ops...)
					switch variant {
					case 1:
						other := []string{"access"}
						if has(k, "access") {
							other = []string{"call"}
						}
						d.Build = append([]op{hd(0, "z", other)}, d.Build...)
					case 2:
						if ops[0].Op != "newmux" {
							continue
						}
						d.Build = append([]op{ops[0], hd(1, "y", nil)}, ops[1:]...)
					}
					bi++
					add("construction-order", d)
				}
			}
		}
		// (h) stop/start cycles of ONE Service object: run with configuration A, Shutdown, reconfigure to B
		// while stopped (other lists, back to nil, explicitly empty, handlers added), Serve again on a
		// fresh connection; every run is one case carrying the configuration in force during that run
		type own struct {
			res  []string
			rset bool
			acc  []string
			aset bool
		}
		owns := []own{
			{nil, false, nil, false},
			{[]string{}, true, []string{}, true},
			{[]string{"a.>"}, true, []string{"a.*"}, true},
			{[]string{"b", "b.>", "b.c"}, true, []string{">"}, true},
			{nil, false, []string{"x.>"}, true},
			{[]string{"x.*"}, true, nil, false},
			{[]string{"a.>"}, true, []string{}, true},
		}
		ph := func(o own, add []hdl, q string, extra int) phase {
			return phase{Reconfigure: true, Res: o.res, ResSet: o.rset, Acc: o.acc, AccSet: o.aset, Add: add, Queue: q, Extra: extra}
		}
		both := []hdl{{Pat: "model", Kinds: []string{"get", "access"}}}
		ri := 0
		for _, a := range owns {
			for _, b := range owns {
				d := desc{Name: names[ri%len(names)], Res: a.res, ResSet: a.rset, Acc: a.acc, AccSet: a.aset, Layout: both,
					Queue: queues[ri%len(queues)], Extra: ri % 2, Restart: []phase{ph(b, nil, "", 1)}}
				if ri%5 == 0 {
					d.Restart = append(d.Restart, ph(a, nil, queues[(ri+1)%len(queues)], 0)) // and back to A
				}
				ri++
				add("restart", d)
			}
		}
		// handlers registered while stopped change the default ownership
		getOnly := []hdl{{Pat: "model", Kinds: []string{"get"}}}
		accOnly := []hdl{{Pat: "model.$id", Kinds: []string{"access"}}}
		accMounted := []hdl{{Mount: "m", Pat: "x", Kinds: []string{"access"}}}
		for i, n := range names {
			add("restart", desc{Name: n, Layout: getOnly, Queue: "default", Extra: 1,
				Restart: []phase{ph(owns[0], accOnly, "", 1)}})
			add("restart", desc{Name: n, Layout: getOnly, Queue: "off", Extra: 0,
				Restart: []phase{ph(owns[0], accMounted, "", 1), ph(owns[2], nil, "", 1), ph(owns[0], nil, "", 1)}})
			add("restart", desc{Name: n, Layout: accOnly, Queue: queues[i%3], Extra: 1,
				Restart: []phase{ph(owns[5], getOnly, "", 0), ph(owns[0], nil, "", 2)}})
			add("restart", desc{Name: n, Queue: "off", Extra: 0, // nothing registered: no resources to serve
				Restart: []phase{ph(owns[0], getOnly, "", 1), ph(owns[0], accOnly, "", 1)}})
			add("restart", desc{Name: n, Res: []string{"a.>", "a.b"}, ResSet: true, Queue: "off", Extra: 0, // explicit lists, no handler
				Restart: []phase{ph(owns[0], both, "", 1)}})
		}
		if *staleDefaults {
			for _, n := range names {
				add("restart-no-reconfigure", desc{Name: n, Layout: getOnly, Queue: "off", Extra: 0,
					Restart: []phase{{Add: accOnly, Extra: 1}}})
				add("restart-no-reconfigure", desc{Name: n, Layout: accOnly, Queue: "off", Extra: 0,
					Restart: []phase{{Add: getOnly, Extra: 1}}})
			}
		}
		// random sequences of 2-3 runs
		nseq := 40
		if thorough {
			nseq = 600
		}
		randOwn := func() own {
			var o own
			o.res, o.rset = pickList(valid3)
			o.acc, o.aset = pickList(valid3)
			return o
		}
		for i := 0; i < nseq; i++ {
			a := randOwn()
			d := desc{Name: r.Pick(names), Res: a.res, ResSet: a.rset, Acc: a.acc, AccSet: a.aset,
				Kinds: kindSets[r.Intn(len(kindSets))], HPat: r.Pick(hpats), Queue: r.Pick(queues), Extra: r.Intn(2)}
			for k := 1 + r.Intn(2); k > 0; k-- {
				var addH []hdl
				if r.Chance(30) {
					addH = []hdl{{Pat: fmt.Sprintf("added%d.$id", k), Kinds: kindSets[r.Intn(len(kindSets))]}}
				}
				q := ""
				if r.Chance(30) {
					q = r.Pick(queues)
				}
				d.Restart = append(d.Restart, ph(randOwn(), addH, q, r.Intn(2)))
			}
			add("restart-random", d)
		}
		// (f) thorough: embedded nats-server
		if thorough {
			srv := startServer()
			subs := append(entries([]string{"a", "b", "*", ">"}, 3), "a*", "a>", "*a", "a.b.c.>", "a.*.c.*")
			subjects := append(entries([]string{"a", "b"}, 3), "a.b.c.d", "a.b.c", "a.a.c.b")
			nc := natsDifferential(srv, subs, subjects)
			dist["nats-differential"] = len(nc)
			cases = append(cases, nc...)
			live := []desc{
				{Name: "a", Kinds: []string{"get", "access"}, HPat: "model", Queue: "default", Extra: 2},
				{Name: "", Kinds: []string{"get", "call", "auth", "access"}, HPat: "model", Queue: "off", Extra: 1},
				{Name: "a.b", Kinds: []string{"call"}, HPat: "$id", Queue: "qg", Extra: 1},
				{Name: "a", Res: []string{"a.>", "a.b", "a.b", "b.*"}, ResSet: true, Acc: []string{">", "a"}, AccSet: true, Kinds: []string{"get"}, HPat: "model", Queue: "off", Extra: 1},
				{Name: "a", Res: []string{"t.>", "t.>"}, ResSet: true, Acc: []string{}, AccSet: true, Kinds: []string{"get"}, HPat: "model", Queue: "qg", Extra: 1},
				{Name: "", Res: []string{"a.*", "a.b.>", "*.b"}, ResSet: true, Kinds: []string{"access"}, HPat: "model", Queue: "off", Extra: 2},
			}
			for _, d := range live {
				d.Live = true
				ob, iv := runLive(srv, d)
				c := Case{Term: caseTerm(d, ob), Desc: d, Nontrivial: true}
				dist["live-reconnect"]++
				if iv != "" {
					impl = append(impl, ImplViolation{What: iv, Desc: d})
				}
				cases = append(cases, c)
			}
			srv.Shutdown()
		}
	}
	extra["conn_rejected_subject_cases"] = rejectedSeen
	extra["overlap_eliminated_cases"] = eliminatedSeen
	Emit(o, "C09", "From GoRes Require Import Run.Run_C09.", "scase",
		"service names {\"\",a,a.b} x ownership lists (nil / empty / exhaustive over valid entries of <= 2 tokens over {a,b,*,>} with <= 2 entries quick, <= 3 thorough / random <= 4 entries of <= 3 tokens with duplicates and nesting / malformed entries) x handler kinds x handler layout (1-3 Handle calls: nested patterns, placeholder / wildcard children, mounted muxes, root pattern, each with every choice of kinds) x queue group default/off/named x 0-2 further ResetAll; thorough adds an embedded nats-server differential of subject validity and matching and live reconnect runs; non-trivial = a pattern was eliminated as overlapping or the default ownership was used; distinct by configuration and observation",
		cases, dist, extra, impl, 150)
}
