// Correspondence harness for C17 (pattern.go, validators, IDTransformer).
package main

import (
	"fmt"
	"strings"

	res "github.com/jirenius/go-res"
	"github.com/jirenius/go-res/store"

	. "verifharness/common"
)

type desc struct {
	P   string `json:"pattern"`
	S   string `json:"name"`
	Tag string `json:"tag"`
	Val string `json:"val"`
}

var coverNames []string

func init() {
	toks := []string{"a", "b", "zz", ""}
	var gen func(prefix []string, depth int)
	gen = func(prefix []string, depth int) {
		if len(prefix) > 0 {
			coverNames = append(coverNames, strings.Join(prefix, "."))
		}
		if depth == 0 {
			return
		}
		for _, t := range toks {
			gen(append(append([]string{}, prefix...), t), depth-1)
		}
	}
	gen(nil, 4)
}

func safe(f func()) (panicked bool) {
	defer func() {
		if recover() != nil {
			panicked = true
		}
	}()
	f()
	return
}

func mkCase(d desc) Case {
	p := res.Pattern(d.P)
	var c Case
	c.Desc = d
	var validP, matches, vok, replM, ridS, partS, pathP, cex, validS, pathS, reg, routed, nosep bool
	var vals map[string]string
	var repl, replTag string
	idx := -1
	var idBack string
	var idBackOK bool
	pan := safe(func() {
		validP = p.IsValid()
		matches = p.Matches(d.S)
		vals, vok = p.Values(d.S)
		repl = string(p.ReplaceTags(vals))
		replM = res.Pattern(repl).Matches(d.S)
		replTag = string(p.ReplaceTag(d.Tag, d.Val))
		idx = p.IndexWildcard()
		ridS = res.IsValidRID(d.S)
		validS = res.Pattern(d.S).IsValid()
		pathS = res.VerifIsValidPath(d.S)
		partS = res.VerifIsValidPart(d.S)
		pathP = res.VerifIsValidPath(d.P)
		t := store.IDTransformer(d.Tag, nil)
		rid := t.IDToRID(d.Val, nil, p)
		if m, ok := p.Values(rid); ok {
			if _, has := m[d.Tag]; has {
				idBack = t.RIDToID(rid, m)
				idBackOK = true
			}
		}
		// registration and routing of the single pattern on a Mux with path "svc" (C17: validity is consistent with what
		// registration and routing accept): the pattern registers iff it is valid (and names no tag twice); a plain
		// name is routed iff the pattern matches it; a name that merely starts with the path is never routed
		if d.P != "" {
			m := res.NewMux("svc")
			reg = !safe(func() { m.Handle(d.P, res.GetResource(func(res.GetRequest) {})) })
			if reg {
				safe(func() { routed = m.GetHandler("svc."+d.S) != nil })
				if d.S != "" && d.S[0] != '.' {
					safe(func() { nosep = m.GetHandler("svc"+d.S) != nil })
				}
			}
		}
		if validP && matches && res.Pattern(d.S).IsValid() {
			sp := res.Pattern(d.S)
			for _, n := range coverNames {
				if sp.Matches(n) && !p.Matches(n) {
					cex = true
					break
				}
			}
		}
	})
	if pan {
		c.Tags = append(c.Tags, "panic")
	}
	c.Term = fmt.Sprintf("PC %s %s %s %s %s %s %s %s %s %s %s %s %s %s %s %s %s %s %s %s %s",
		B(d.P), B(d.S), B(d.Tag), B(d.Val), Bool(validP), Bool(matches), OptAMap(vals, vok), B(repl), Bool(replM),
		B(replTag), OptN(idx, idx >= 0), Bool(ridS), Bool(partS), Bool(pathP), OptB(idBack, idBackOK), Bool(cex), Bool(validS), Bool(pathS), Bool(reg), Bool(routed), Bool(nosep))
	// non-trivial: a special character occurs not at token start, or the name has an empty token,
	// or (valid pattern with a wildcard and the name matches)
	midSpecial := false
	for _, s := range []string{d.P, d.S} {
		for i := 1; i < len(s); i++ {
			if strings.ContainsRune("$*>", rune(s[i])) && s[i-1] != '.' {
				midSpecial = true
			}
		}
	}
	emptyTok := d.S == "" || strings.Contains(d.S, "..") || strings.HasPrefix(d.S, ".") || strings.HasSuffix(d.S, ".")
	c.Nontrivial = midSpecial || emptyTok || (validP && idx >= 0 && matches)
	if midSpecial {
		c.Tags = append(c.Tags, "mid-token-special")
	}
	return c
}

func main() {
	o := ParseOpts()
	r := NewRng(o.Seed)
	var cases []Case
	dist := map[string]int{}
	add := func(kind string, d desc) {
		c := mkCase(d)
		dist[kind]++
		if c.Nontrivial {
			dist["nontrivial"]++
		}
		cases = append(cases, c)
	}
	if o.Replay != "" {
		var d desc
		if err := LoadReplay(o.Replay, &d); err != nil {
			panic(err)
		}
		add("replay", d)
	} else {
		// (a) bounded-exhaustive over the special alphabet
		alpha := []byte("ab.$*>?")
		maxLen := 2
		if o.Tier == "thorough" {
			maxLen = 3
		}
		var strs []string
		var gen func(cur []byte, n int)
		gen = func(cur []byte, n int) {
			strs = append(strs, string(cur))
			if n == 0 {
				return
			}
			for _, ch := range alpha {
				gen(append(append([]byte{}, cur...), ch), n-1)
			}
		}
		gen(nil, maxLen)
		for _, p := range strs {
			for _, s := range strs {
				tag, val := "a", "b"
				if i := strings.IndexByte(p, '$'); i >= 0 {
					e := strings.IndexByte(p[i:], '.')
					if e < 0 {
						e = len(p) - i
					}
					tag = p[i+1 : i+e]
				}
				add("exhaustive", desc{p, s, tag, val})
			}
		}
		// (b) random structured patterns and names
		n := 700
		if o.Tier == "thorough" {
			n = 12000
		}
		if o.N > 0 {
			n = o.N
		}
		lits := []string{"a", "b", "ab", "user", "x1", "a$b", "a*", "b>", "$", "a?b", "é", "~", "{}", "-"}
		tags := []string{"$id", "$a", "$b", "$$x", "$a$b", "$id"}
		for i := 0; i < n; i++ {
			nt := 1 + r.Intn(5)
			var pt, st []string
			var tagNames []string
			for j := 0; j < nt; j++ {
				switch k := r.Intn(10); {
				case k < 4:
					l := r.Pick(lits)
					pt = append(pt, l)
					st = append(st, l)
				case k < 7:
					t := r.Pick(tags)
					pt = append(pt, t)
					tagNames = append(tagNames, t[1:])
					st = append(st, r.Pick([]string{"42", "a", "b", "", "$q", "x.y", ">", "a$b"}))
				case k < 8:
					pt = append(pt, "*")
					st = append(st, r.Pick([]string{"42", "a", "", "*"}))
				case k < 9 && j == nt-1:
					pt = append(pt, ">")
					st = append(st, r.Pick([]string{"a", "a.b", "a.b.c", "", ">"}))
				default:
					pt = append(pt, r.Pick(lits))
					st = append(st, r.Pick(lits))
				}
			}
			p := strings.Join(pt, ".")
			s := strings.Join(st, ".")
			// mutate sometimes
			switch r.Intn(12) {
			case 0:
				s = s + ".x"
			case 1:
				if len(s) > 0 {
					s = s[:len(s)-1]
				}
			case 2:
				s = strings.Join(pt, ".") // pattern vs itself (covers)
			case 3:
				p = p + "."
			case 4:
				// second pattern instead of a name
				for j := range st {
					if r.Chance(40) {
						st[j] = r.Pick([]string{"*", "$z", ">", "a"})
					}
				}
				s = strings.Join(st, ".")
			case 5:
				if len(p) > 0 {
					bp := []byte(p)
					bp[r.Intn(len(bp))] = byte(r.Intn(256))
					p = string(bp)
				}
			case 6:
				if len(s) > 0 {
					bs := []byte(s)
					bs[r.Intn(len(bs))] = byte(r.Intn(256))
					s = string(bs)
				}
			}
			tag := "id"
			if len(tagNames) > 0 && r.Chance(85) {
				tag = tagNames[r.Intn(len(tagNames))]
			}
			val := r.Pick([]string{"42", "abc", "x", "", "a.b", "$v", "*", "a?b", "ö", "7"})
			add("random", desc{p, s, tag, val})
		}
		// (b2) multi-tag patterns against names whose tokens look like tags of the SAME pattern ("$"+another tag's
		// name, the tag's own name, "$$"...): substituting extracted values back must not re-substitute them
		tagSets := [][]string{{"a", "b"}, {"b", "a"}, {"id", "a"}, {"shelf", "book"}, {"shelf", "book", "page"}, {"a", "b", "id"}}
		for _, ts := range tagSets {
			var pt []string
			for i, t := range ts {
				if i == 1 {
					pt = append(pt, "lib")
				}
				pt = append(pt, "$"+t)
			}
			p := strings.Join(pt, ".")
			vals := []string{"x", "42"}
			for _, t := range ts {
				vals = append(vals, "$"+t, t)
			}
			var rec func(i int, cur []string)
			rec = func(i int, cur []string) {
				if i == len(pt) {
					add("tagvalues", desc{p, strings.Join(cur, "."), ts[0], "$" + ts[len(ts)-1]})
					return
				}
				if pt[i] == "lib" {
					rec(i+1, append(append([]string{}, cur...), "lib"))
					return
				}
				for _, v := range vals {
					rec(i+1, append(append([]string{}, cur...), v))
				}
			}
			if len(ts) <= 2 || o.Tier == "thorough" {
				rec(0, nil)
			} else {
				// three tags: a diagonal sample in the quick tier
				for k := 0; k < len(vals); k++ {
					add("tagvalues", desc{p, strings.Join([]string{vals[k], "lib", vals[(k+1)%len(vals)], vals[(k+3)%len(vals)]}, "."), ts[0], "$" + ts[1]})
				}
			}
		}
		// (b3) patterns in which a tag occurs more than once (Pattern allows it; only Mux registration refuses it),
		// against names that give the repeated tag the same or different values: the map Values returns holds
		// exactly the tags of the pattern, and substituting it back must replace EVERY occurrence
		for _, p := range []string{"$a.$a", "$a.x.$a", "$a.$b.$a", "$a.$a.$a", "$ab.$ab", "$a.$b.$a.$b", "lib.$id.ref.$id", "$a.$a.>", "$a.*.$a"} {
			toks := strings.Split(p, ".")
			vals := []string{"x", "y", "$a"}
			var rec func(i int, cur []string)
			rec = func(i int, cur []string) {
				if i == len(toks) {
					add("repeated-tag", desc{p, strings.Join(cur, "."), strings.TrimPrefix(toks[0], "$"), "v"})
					return
				}
				if toks[i][0] != '$' && toks[i] != "*" && toks[i] != ">" {
					rec(i+1, append(append([]string{}, cur...), toks[i]))
					return
				}
				for _, v := range vals {
					rec(i+1, append(append([]string{}, cur...), v))
				}
			}
			rec(0, nil)
		}
		// (c) every byte value in each position of a length-3 string for the validators
		if o.Tier == "thorough" {
			for pos := 0; pos < 3; pos++ {
				for b := 0; b < 256; b++ {
					x := []byte("aaa")
					x[pos] = byte(b)
					add("bytesweep", desc{string(x), string(x), "a", string(x)})
				}
			}
		} else {
			for b := 0; b < 256; b += 1 {
				x := []byte("a.a")
				x[2] = byte(b)
				add("bytesweep", desc{string(x), string(x), "a", string(x)})
				// and inside a single token (name parts, tag values, event and method names have no dots)
				y := []byte("aa")
				y[b%2] = byte(b)
				add("bytesweep", desc{string(y), string(y), "a", string(y)})
			}
		}
	}
	Emit(o, "C17", "From GoRes Require Import Run.Run_C17.", "pcase",
		"bounded-exhaustive pattern x name pairs over {a,b,.,$,*,>,?} (len<=2 quick, <=3 thorough) + random structured patterns/names with mutations + byte sweep; non-trivial = a special character occurs mid-token, or the name has an empty token, or a valid wildcard pattern matches; distinct by (pattern,name,tag,val)",
		cases, dist, nil, nil, 2000)
}
