// Correspondence harness for C19 (resprot.SendRequest).
//
// Three ways of driving the real SendRequest, all over an embedded NATS server so that the
// inbox subscription is a real *nats.Subscription whose release can be observed:
//
//	scripted : a scripted res.Conn; when SendRequest publishes, the scripted arrivals are put
//	           on the subscription channel at multiples of a 40 ms grid (no network in between)
//	nats-raw : same scripts, but the arrivals are published to the reply inbox through the server
//	service  : a real res.Service whose call handler plays a script of Timeout()/responses
//
// Scripts are generated so that every timer-versus-message decision is >= 120 ms away from a
// tie (Run_C19.separated re-checks this with the model), so scheduler jitter cannot flip an outcome.
package main

import (
	"encoding/json"
	"errors"
	"fmt"
	"math"
	"os"
	"strings"
	"sync"
	"time"

	res "github.com/jirenius/go-res"
	"github.com/jirenius/go-res/resprot"
	"github.com/nats-io/nats-server/v2/server"
	nats "github.com/nats-io/nats.go"

	. "verifharness/common"
)

const gridMs = 40
const marginMs = 120

// ---- descriptions (replayable) ----

type arrival struct {
	AtMs    int64  `json:"at_ms"`
	Payload []byte `json:"payload_b64"`
	Text    string `json:"text"`
}

type step struct {
	Op string `json:"op"` // sleep | timeout | ok | notfound | error | resource
	Ms int64  `json:"ms,omitempty"`
	I  int    `json:"i,omitempty"`
}

type desc struct {
	Mode      string    `json:"mode"` // scripted | nats-raw | service
	ID        int       `json:"id"`
	Ncb       int       `json:"callbacks"`
	Fail      string    `json:"fail"`          // "" | marshal | subscribe | subscribe-closed | publish | publish-maxpayload
	Err       string    `json:"err,omitempty"` // which error VALUE the failing step returns (see mkErr)
	Req       string    `json:"request"`
	TimeoutMs int64     `json:"timeout_ms"`
	Arr       []arrival `json:"arrivals,omitempty"`
	Steps     []step    `json:"steps,omitempty"`
	Plan      string    `json:"plan"`
	Burst     bool      `json:"burst,omitempty"`
	Overflow  bool      `json:"three_back_to_back,omitempty"`
	CbDelayMs int64     `json:"callback_blocks_ms,omitempty"` // every extension callback sleeps this long
	Race      bool      `json:"race,omitempty"`               // timer and messages are meant to be ready together
	Long      int       `json:"long_prefix,omitempty"`        // number of timeout pre-responses of a long-history script
}

// ---- payload catalogue ----

type pl struct {
	s    string
	kind int   // 0 valid timeout pre-response, 1 pre-response without effect, 2 real response / not a pre-response
	ms   int64 // announced milliseconds (kind 0)
}

var validPre = []pl{
	{`timeout:"200"`, 0, 200}, {`timeout:"280"`, 0, 280}, {`timeout:"360"`, 0, 360}, {`timeout:"160"`, 0, 160},
	{`timeout:"+240"`, 0, 240}, {`timeout:"\x32\x34\x30"`, 0, 240}, {`timeout:"\062\u0030\U00000030"`, 0, 200},
	{`foo:"bar" timeout:"200"`, 0, 200}, {`x:"a\"b"   timeout:"320"`, 0, 320}, {`timeout:"200" timeout:"1"`, 0, 200},
	{`Timeout:"1" timeout:"240"`, 0, 240}, {`timeout:"0200"`, 0, 200}, {`T:"" timeout:"160" rest`, 0, 160},
	{`timeout:"200" `, 0, 200}, {"timeout:\"240\"\n", 0, 240}, {"timeout:\"280\"\t\r\n ", 0, 280}, {"timeout:\"320\"\r", 0, 320},
	{`timeout:"0"`, 0, 0}, {`timeout:"-40"`, 0, -40}, {`timeout:"-0"`, 0, 0},
	{`timeout:"9300000000000"`, 0, 9300000000000},        // wraps to a negative Duration
	{`timeout:"-9223372036854775808"`, 0, math.MinInt64}, // * 1e6 wraps to 0
	{`timeout:"86400000"`, 0, 86400000},                  // a day: the script is made to end with a response
	{`timeout:"18446744073910"`, 0, 18446744073910},      // wraps to a small positive Duration (200.448384 ms)
}

var badPre = []string{
	`timeout:200`, `timeout:"abc"`, `timeout:"12.5"`, `timeout:""`, `timeout:"200`, `timeout`, `null`, `true`, `false`,
	`hello world`, `timeout :"200"`, `timeout: "200"`, `timeout:"1_000"`, `timeout:"0x10"`, `timeout:"9223372036854775808"`,
	`timeout:'200'`, `T`, "timeout:\"2\n0\"", `timeout:"\q200"`, `Timeout:"200"`, `TIMEOUT:"200"`, `timeouts:"200"`,
	`x timeout:"200"`, `x:"1 timeout:"200"`, `timeout:"200\"`, `timeout:"\x3"`, `timeout:"\400"`, `timeout:"\ud800"`,
	`timeout:"--5"`, `timeout:"+"`, `timeout:" 200"`, `timeout:"200 "`, "timeout:\"\xff\"", `timeout:"x" timeout:"200"`,
	"a\x7f:\"1\" timeout:\"200\"", `timeout:"２００"`, "z", `error`, `timeout:"1e3"`, `timeout:"99999999999999999999"`,
	"k:\"v\"\ttimeout:\"200\"", "k:\"v\"\ntimeout:\"200\"", "timeout\t:\"200\"", "timeout:\n\"200\"", `timeout:"\'200"`,
}

// JSON whitespace: padding a response with it changes neither its classification nor its content
var jsonWS = []string{" ", "\t", "\r", "\n"}

func wsRun(r *Rng, max int) string {
	n := r.Intn(max + 1)
	var sb strings.Builder
	for k := 0; k < n; k++ {
		sb.WriteString(r.Pick(jsonWS))
	}
	return sb.String()
}

func realPayload(r *Rng, i int) string {
	p := realPayload0(r, i)
	if len(p) > 0 && p[0] == '{' && r.Chance(40) {
		// leading and/or trailing whitespace (a padded message never starts with a letter)
		switch r.Intn(3) {
		case 0:
			p = wsRun(r, 3) + p
		case 1:
			p = p + wsRun(r, 3)
		default:
			p = wsRun(r, 3) + p + wsRun(r, 3)
		}
	}
	return p
}

func realPayload0(r *Rng, i int) string {
	switch r.Intn(16) {
	case 0, 1, 2, 3:
		return fmt.Sprintf(`{"result":{"i":%d}}`, i)
	case 4, 5:
		return fmt.Sprintf(`{"resource":{"rid":"test.model.%d"}}`, i)
	case 6, 7:
		return fmt.Sprintf(`{"error":{"code":"system.notFound","message":"Not found %d"}}`, i)
	case 8:
		return fmt.Sprintf(`{"result":null,"x":%d}`, i)
	case 9:
		return r.Pick([]string{``, `{`, `{}`, `[1,2]`, `42`, `"str"`, "\xff\xfe", `{"result":1} trailing`, `-1`, `{"error":null}`})
	case 10:
		return fmt.Sprintf(` {"result":%d}`, i) // leading space: not a pre-response
	case 11:
		return r.Pick(jsonWS) + fmt.Sprintf(`timeout:"%d"`, 200+i) // leading whitespace: not a pre-response, not JSON either
	case 12:
		return fmt.Sprintf(`{"result":%d,"error":{"code":"a.b","message":"both %d"}}`, i, i)
	case 13:
		return fmt.Sprintf(`@timeout:"%d"`, 200+i)
	case 14:
		return fmt.Sprintf("[timeout:\"%d\"", 200+i)
	default:
		return fmt.Sprintf("`timeout:\"%d\"", 200+i)
	}
}

func dur(ms int64) time.Duration { return time.Duration(ms) * time.Millisecond } // wraps like the code under test

// ---- script generator (constructive: keeps every decision >= marginMs away from a tie) ----

func genArrivals(r *Rng, T int64, minGap int64, noBurst bool) ([]arrival, string, map[string]int) {
	st := map[string]int{}
	var arr []arrival
	used := map[string]bool{}
	add := func(at int64, p string) {
		arr = append(arr, arrival{AtMs: at, Payload: []byte(p), Text: fmt.Sprintf("%q", p)})
	}
	pickBad := func() string {
		for k := 0; k < 50; k++ {
			p := r.Pick(badPre)
			if !used[p] {
				used[p] = true
				return p
			}
		}
		return fmt.Sprintf("junk%d", len(arr))
	}
	pickReal := func() string {
		for {
			p := realPayload(r, len(arr)+1)
			if !used[p] {
				used[p] = true
				return p
			}
		}
	}
	anyPayload := func() string {
		switch r.Intn(3) {
		case 0:
			return validPre[r.Intn(len(validPre))].s
		case 1:
			return pickBad()
		}
		return pickReal()
	}
	nowNs := time.Duration(0)
	dlNs := dur(T)
	last := int64(0)
	n := r.Intn(6)
	plan := "silence"
	trailing := func() {
		k := r.Intn(3)
		for j := 0; j < k && len(arr) < 6; j++ {
			g := int64(r.Intn(4)) * gridMs
			if g < minGap {
				g = minGap
			}
			last += g
			add(last, anyPayload())
			st["trailing"]++
		}
	}
	toMs := func(d time.Duration) int64 { return int64(d / time.Millisecond) }
	for len(arr) < n {
		eff := dlNs
		if eff < nowNs {
			eff = nowNs
		}
		room := toMs(eff-nowNs) - marginMs // latest in-time offset from now
		far := eff-nowNs > 3*time.Second
		canIn := room >= 0 && (room >= minGap)
		act := r.Intn(10)
		if far {
			act = 0
		}
		if canIn && act < 7 {
			maxSteps := room / gridMs
			if maxSteps > 4 {
				maxSteps = 4
			}
			g := int64(r.Intn(int(maxSteps)+1)) * gridMs
			if noBurst && len(arr) > 0 && g == 0 {
				g = gridMs
			}
			if g < minGap {
				g = minGap
			}
			if g > room {
				break
			}
			t := toMs(nowNs) + g
			if g == 0 && len(arr) > 0 {
				st["same-time"]++
			}
			last = t
			nowNs = dur(t)
			k := r.Intn(10)
			if far && len(arr)+1 >= n {
				k = 9
			}
			switch {
			case k < 4:
				v := validPre[r.Intn(len(validPre))]
				if far && dur(v.ms) < 3*time.Second {
					// keep the far deadline: use an ineffective pre-response instead
					add(t, pickBad())
					st["bad-pre-received"]++
					break
				}
				add(t, v.s)
				dlNs = nowNs + dur(v.ms)
				st["valid-pre-received"]++
				if dur(v.ms) <= 0 {
					st["nonpositive-extension"]++
				}
			case k < 7:
				add(t, pickBad())
				st["bad-pre-received"]++
			default:
				add(t, pickReal())
				plan = "answer"
				trailing()
				return arr, plan, st
			}
			continue
		}
		if act < 9 || !canIn {
			// a late arrival: the timer fires first
			t := int64((eff+time.Millisecond-1)/time.Millisecond) + marginMs + int64(r.Intn(3))*gridMs
			if t < last+minGap {
				t = last + minGap
			}
			t = (t + gridMs - 1) / gridMs * gridMs
			last = t
			add(t, anyPayload())
			plan = "late"
			trailing()
			return arr, plan, st
		}
		break
	}
	// the script ends in silence; a far deadline must not make the run take forever
	eff := dlNs
	if eff < nowNs {
		eff = nowNs
	}
	if eff-nowNs > 3*time.Second {
		g := int64(gridMs)
		if g < minGap {
			g = minGap
		}
		last = toMs(nowNs) + g
		add(last, pickReal())
		plan = "answer"
	}
	return arr, plan, st
}

// ---- environment ----

type env struct {
	srv    *server.Server
	cli    *nats.Conn // the connection SendRequest subscribes on
	feed   *nats.Conn // raw publisher
	closed *nats.Conn // a closed connection
	mon    *nats.Conn
	monMu  sync.Mutex
	seen   map[string][][]byte
	svc    *res.Service
	svcNc  *nats.Conn
	doneMu sync.Mutex
	done   map[int]chan struct{}
}

func must(err error) {
	if err != nil {
		fmt.Fprintln(os.Stderr, "harness:", err)
		os.Exit(3)
	}
}

func newEnv(withService bool) *env {
	e := &env{seen: map[string][][]byte{}, done: map[int]chan struct{}{}}
	s, err := server.NewServer(&server.Options{Host: "127.0.0.1", Port: -1, NoLog: true, NoSigs: true})
	must(err)
	go s.Start()
	if !s.ReadyForConnections(10 * time.Second) {
		must(errors.New("embedded nats-server did not start"))
	}
	e.srv = s
	url := s.ClientURL()
	e.cli, err = nats.Connect(url)
	must(err)
	e.feed, err = nats.Connect(url)
	must(err)
	e.closed, err = nats.Connect(url)
	must(err)
	e.closed.Close()
	if withService {
		e.mon, err = nats.Connect(url)
		must(err)
		_, err = e.mon.Subscribe("_INBOX.*", func(m *nats.Msg) {
			e.monMu.Lock()
			e.seen[m.Subject] = append(e.seen[m.Subject], append([]byte(nil), m.Data...))
			e.monMu.Unlock()
		})
		must(err)
		must(e.mon.Flush())
		e.svcNc, err = nats.Connect(url)
		must(err)
		svc := res.NewService("vsvc")
		svc.SetLogger(nil)
		svc.SetWorkerCount(128)
		svc.Handle("m.$id", res.Call("run", e.handler))
		ready := make(chan struct{})
		svc.SetOnServe(func(*res.Service) { close(ready) })
		go svc.Serve(e.svcNc)
		select {
		case <-ready:
		case <-time.After(10 * time.Second):
			must(errors.New("service did not start"))
		}
		must(e.svcNc.Flush())
		e.svc = svc
	}
	return e
}

func (e *env) close() {
	if e.svc != nil {
		e.svc.Shutdown()
	}
	for _, c := range []*nats.Conn{e.cli, e.feed, e.mon, e.svcNc} {
		if c != nil {
			c.Close()
		}
	}
	e.srv.Shutdown()
}

type svcParams struct {
	ID    int    `json:"id"`
	Steps []step `json:"steps"`
}

func (e *env) handler(r res.CallRequest) {
	var p svcParams
	r.ParseParams(&p)
	defer func() {
		e.doneMu.Lock()
		ch := e.done[p.ID]
		e.doneMu.Unlock()
		if ch != nil {
			close(ch)
		}
	}()
	start := time.Now()
	var at int64
	for _, s := range p.Steps {
		switch s.Op {
		case "sleep":
			at += s.Ms
			time.Sleep(time.Until(start.Add(dur(at))))
		case "timeout":
			r.Timeout(dur(s.Ms))
		case "ok":
			r.OK(map[string]int{"i": s.I})
		case "notfound":
			r.NotFound()
		case "error":
			r.Error(&res.Error{Code: "test.custom", Message: fmt.Sprintf("custom %d", s.I)})
		case "resource":
			r.Resource(fmt.Sprintf("vsvc.m.%d", s.I))
		}
	}
}

// ---- the scripted connection ----

type pubRec struct {
	subj, reply string
	data        []byte
}

type sconn struct {
	e       *env
	d       *desc
	mu      sync.Mutex
	subs    []*nats.Subscription
	subj    []string
	chs     []chan *nats.Msg
	pubs    []pubRec
	pubOK   bool
	lastErr error
	extra   []string
	stop    chan struct{}
	fed     chan struct{}
}

// ---- the error values a failing step returns, each built together with its description as a
// Coq errval term (Client/Model.v).  The description comes from how the error is BUILT here,
// not from inspecting it with the code under test. ----

var errKinds = []string{"plain", "wrapped", "connclosed", "accessdenied", "timeout", "notfound", "custom", "customdata",
	"typednil", "wrapres", "wraptimeout", "resinternal", "emptymsg"}

func eRes(code, msg string) string { return "(ERes " + B(code) + " " + B(msg) + ")" }

func mkErr(kind string) (error, string) {
	switch kind {
	case "wrapped":
		in := errors.New("verif: inner cause")
		w := fmt.Errorf("verif: step refused: %w", in)
		return w, "(EWrap " + B("verif: step refused: verif: inner cause") + " (EPlain " + B("verif: inner cause") + "))"
	case "connclosed":
		return nats.ErrConnectionClosed, "(EPlain " + B("nats: connection closed") + ")"
	case "accessdenied":
		return res.ErrAccessDenied, eRes("system.accessDenied", "Access denied")
	case "timeout":
		return res.ErrTimeout, eRes("system.timeout", "Request timeout")
	case "notfound":
		return res.ErrNotFound, eRes("system.notFound", "Not found")
	case "custom":
		return &res.Error{Code: "custom.x", Message: "Custom x"}, eRes("custom.x", "Custom x")
	case "customdata":
		return &res.Error{Code: "custom.withData", Message: "Custom with data", Data: map[string]int{"a": 1}}, eRes("custom.withData", "Custom with data")
	case "typednil":
		var e *res.Error
		return e, "EResNil"
	case "wrapres":
		return fmt.Errorf("verif: denied: %w", res.ErrAccessDenied),
			"(EWrap " + B("verif: denied: Access denied") + " " + eRes("system.accessDenied", "Access denied") + ")"
	case "wraptimeout":
		return fmt.Errorf("verif: gave up: %w", res.ErrTimeout),
			"(EWrap " + B("verif: gave up: Request timeout") + " " + eRes("system.timeout", "Request timeout") + ")"
	case "resinternal":
		return &res.Error{Code: "system.internalError", Message: "Internal error: below"}, eRes("system.internalError", "Internal error: below")
	case "emptymsg":
		return &res.Error{Code: "custom.empty"}, eRes("custom.empty", "")
	}
	return errors.New("verif: step refused"), "(EPlain " + B("verif: step refused") + ")"
}

// a request value whose MarshalJSON fails with the given error: json.Marshal wraps it in a
// *json.MarshalerError, whose Error() is prefix + inner.Error(), evaluated when called
type errMarshaler struct{ e error }

func (m errMarshaler) MarshalJSON() ([]byte, error) { return nil, m.e }

var marshalerPrefix = func() string {
	_, err := json.Marshal(errMarshaler{errors.New("\x00X")})
	return strings.TrimSuffix(err.Error(), "\x00X")
}()

func (c *sconn) Publish(subject string, payload []byte) error {
	c.mu.Lock()
	c.extra = append(c.extra, "Publish("+subject+")")
	c.mu.Unlock()
	return nil
}

func (c *sconn) ChanQueueSubscribe(subject, queue string, ch chan *nats.Msg) (*nats.Subscription, error) {
	c.mu.Lock()
	c.extra = append(c.extra, "ChanQueueSubscribe("+subject+")")
	c.mu.Unlock()
	return c.ChanSubscribe(subject, ch)
}

func (c *sconn) Close() {
	c.mu.Lock()
	c.extra = append(c.extra, "Close()")
	c.mu.Unlock()
}

func (c *sconn) ChanSubscribe(subject string, ch chan *nats.Msg) (*nats.Subscription, error) {
	var sub *nats.Subscription
	var err error
	switch c.d.Fail {
	case "subscribe":
		err, _ = mkErr(c.d.Err)
	case "subscribe-closed":
		sub, err = c.e.closed.ChanSubscribe(subject, ch)
	default:
		sub, err = c.e.cli.ChanSubscribe(subject, ch)
		if err == nil && c.d.Mode != "scripted" {
			err = c.e.cli.Flush() // the server knows the subscription before anything is published
		}
	}
	c.mu.Lock()
	defer c.mu.Unlock()
	if err != nil {
		c.lastErr = err
		return nil, err
	}
	c.subs = append(c.subs, sub)
	c.subj = append(c.subj, subject)
	c.chs = append(c.chs, ch)
	return sub, nil
}

func (c *sconn) PublishRequest(subject, reply string, data []byte) error {
	c.mu.Lock()
	c.pubs = append(c.pubs, pubRec{subject, reply, append([]byte(nil), data...)})
	var ch chan *nats.Msg
	var sub *nats.Subscription
	for i, s := range c.subj {
		if s == reply {
			ch, sub = c.chs[i], c.subs[i]
		}
	}
	c.mu.Unlock()
	switch c.d.Fail {
	case "publish":
		err, _ := mkErr(c.d.Err)
		c.lastErr = err
		return err
	case "publish-maxpayload":
		err := c.e.cli.PublishRequest(subject, reply, data)
		c.lastErr = err
		if err == nil {
			c.mu.Lock()
			c.pubOK = true
			c.mu.Unlock()
		}
		return err
	}
	c.mu.Lock()
	c.pubOK = true
	c.mu.Unlock()
	t0 := time.Now()
	switch c.d.Mode {
	case "service":
		close(c.fed)
		return c.e.cli.PublishRequest(subject, reply, data)
	case "nats-raw":
		go func() {
			defer close(c.fed)
			for _, a := range c.d.Arr {
				select {
				case <-time.After(time.Until(t0.Add(dur(a.AtMs)))):
				case <-c.stop:
					return
				}
				lateWake(t0.Add(dur(a.AtMs)))
				c.e.feed.Publish(reply, a.Payload)
			}
		}()
	default:
		go func() {
			defer close(c.fed)
			if ch == nil {
				return
			}
			for _, a := range c.d.Arr {
				select {
				case <-time.After(time.Until(t0.Add(dur(a.AtMs)))):
				case <-c.stop:
					return
				}
				lateWake(t0.Add(dur(a.AtMs)))
				select {
				case ch <- &nats.Msg{Subject: reply, Data: append([]byte(nil), a.Payload...), Sub: sub}:
				case <-c.stop:
					return
				}
			}
		}()
	}
	return nil
}

// ---- scheduler-jitter probe: a script during which a 5 ms sleep overshot by more than
// jitterLimit is re-run (the measurement, not the comparison, is what gets repeated) ----

const jitterLimit = 40 * time.Millisecond

var probeMu sync.Mutex
var probeBad []time.Time
var probeMax time.Duration
var probeStop = make(chan struct{})

func probe() {
	for {
		select {
		case <-probeStop:
			return
		default:
		}
		t := time.Now()
		time.Sleep(5 * time.Millisecond)
		over := time.Since(t) - 5*time.Millisecond
		probeMu.Lock()
		if over > probeMax {
			probeMax = over
		}
		if over > jitterLimit {
			probeBad = append(probeBad, t)
		}
		probeMu.Unlock()
	}
}

func lateWake(due time.Time) {
	if over := time.Since(due); over > jitterLimit {
		probeMu.Lock()
		probeBad = append(probeBad, due)
		if over > probeMax {
			probeMax = over
		}
		probeMu.Unlock()
	}
}

func jittered(from, to time.Time) bool {
	probeMu.Lock()
	defer probeMu.Unlock()
	for _, t := range probeBad {
		if !t.Before(from.Add(-100*time.Millisecond)) && !t.After(to) {
			return true
		}
	}
	return false
}

var rerunMu sync.Mutex
var reruns int

func runStable(e *env, d *desc) (Case, []ImplViolation) {
	for try := 0; ; try++ {
		from := time.Now()
		c, iv := runOne(e, d)
		if try >= 3 || !jittered(from, time.Now()) {
			return c, iv
		}
		rerunMu.Lock()
		reruns++
		rerunMu.Unlock()
		time.Sleep(time.Duration(100*(try+1)) * time.Millisecond)
	}
}

// ---- running one script ----

func reqValue(kind string, d *desc) interface{} {
	switch kind {
	case "nil":
		return nil
	case "params":
		return resprot.Request{Params: map[string]int{"a": 1}, CID: "cid"}
	case "string":
		return "hello"
	case "map":
		return map[string]interface{}{"query": "x=1", "n": []int{1, 2}}
	case "rawok":
		return json.RawMessage(`{"params":[1,2,3]}`)
	case "chan":
		return make(chan int)
	case "func":
		return func() {}
	case "rawbad":
		return json.RawMessage(`[broken}`)
	case "inf":
		return math.Inf(1)
	case "chanfield":
		return resprot.Request{Params: make(chan string)}
	case "big":
		return strings.Repeat("x", 2<<20)
	case "marshaler":
		e, _ := mkErr(d.Err)
		return errMarshaler{e}
	case "marshalerfield":
		e, _ := mkErr(d.Err)
		return resprot.Request{Params: errMarshaler{e}}
	case "steps":
		return resprot.Request{Params: svcParams{ID: d.ID, Steps: d.Steps}}
	}
	return nil
}

func summaryOf(result []byte, resource string, hasErr bool, code, msg string, data interface{}, coarse bool) string {
	var sb strings.Builder
	if result == nil {
		sb.WriteString("R<nil>")
	} else {
		sb.WriteString("R:" + string(result))
	}
	sb.WriteString("|S:" + resource)
	if !hasErr {
		sb.WriteString("|E<nil>")
	} else {
		if coarse && code == res.CodeInternalError {
			msg = "*"
		}
		dt, _ := json.Marshal(data)
		sb.WriteString("|E:" + code + "|" + msg + "|" + string(dt))
	}
	return sb.String()
}

func summary(r resprot.Response, coarse bool) string {
	if r.Error == nil {
		return summaryOf(r.Result, string(r.Resource), false, "", "", nil, coarse)
	}
	return summaryOf(r.Result, string(r.Resource), true, r.Error.Code, r.Error.Message, r.Error.Data, coarse)
}

// refParse is the harness' own reference for "the parsed message": encoding/json into a struct
// of its own plus the protocol rule that one of result / resource / error must be present.
// It does not call resprot.ParseResponse.  An invalid response is summarised coarsely
// (code only), a valid one in full.
type refError struct {
	Code    string      `json:"code"`
	Message string      `json:"message"`
	Data    interface{} `json:"data,omitempty"`
}
type refResponse struct {
	Result   json.RawMessage `json:"result"`
	Resource struct {
		RID string `json:"rid"`
	} `json:"resource"`
	Error *refError `json:"error"`
}

func refParse(data []byte) string {
	var r refResponse
	invalid := len(data) == 0
	if !invalid {
		if err := json.Unmarshal(data, &r); err != nil {
			invalid = true
		} else if r.Error == nil && r.Resource.RID == "" && r.Result == nil {
			invalid = true
		}
	}
	if invalid {
		return summaryOf(r.Result, r.Resource.RID, true, "system.internalError", "*", nil, true)
	}
	if r.Error != nil {
		return summaryOf(r.Result, r.Resource.RID, true, r.Error.Code, r.Error.Message, r.Error.Data, false)
	}
	return summaryOf(r.Result, r.Resource.RID, false, "", "", nil, false)
}

type cbRec struct {
	i int
	d time.Duration
}

func safeText(err error) (t string) {
	defer func() {
		if recover() != nil {
			t = "<Error() panicked>"
		}
	}()
	return err.Error()
}

// the Coq term of the scripted failure: step + error value
func failTerm(d *desc, marshalErr, lastErr error) string {
	ev := ""
	switch d.Fail {
	case "":
		return "FNone"
	case "subscribe", "publish":
		_, ev = mkErr(d.Err)
	case "marshal":
		if d.Req == "marshaler" || d.Req == "marshalerfield" {
			_, in := mkErr(d.Err)
			ev = "(ELazy " + B(marshalerPrefix) + " " + in + ")"
		} else if marshalErr != nil {
			ev = "(EPlain " + B(safeText(marshalErr)) + ")" // encoding/json's own error (unsupported type/value ...)
		}
	default: // real errors of the nats client
		if lastErr != nil {
			ev = "(EPlain " + B(safeText(lastErr)) + ")"
		}
	}
	if ev == "" {
		ev = "(EPlain [])"
	}
	switch d.Fail {
	case "marshal":
		return "(FMarshal " + ev + ")"
	case "subscribe", "subscribe-closed":
		return "(FSubscribe " + ev + ")"
	}
	return "(FPublish " + ev + ")"
}

func runOne(e *env, d *desc) (Case, []ImplViolation) {
	var impl []ImplViolation
	c := &sconn{e: e, d: d, stop: make(chan struct{}), fed: make(chan struct{})}
	req := reqValue(d.Req, d)
	var expData []byte
	var marshalErr error
	if req == nil {
		expData = []byte(`{}`)
	} else {
		expData, marshalErr = json.Marshal(req)
	}
	var cbmu sync.Mutex
	var cbs []cbRec
	fs := make([]func(time.Duration), d.Ncb)
	for i := range fs {
		i := i
		fs[i] = func(dd time.Duration) {
			cbmu.Lock()
			cbs = append(cbs, cbRec{i, dd})
			cbmu.Unlock()
			if d.CbDelayMs > 0 {
				time.Sleep(dur(d.CbDelayMs))
			}
		}
	}
	var doneCh chan struct{}
	if d.Mode == "service" {
		doneCh = make(chan struct{})
		e.doneMu.Lock()
		e.done[d.ID] = doneCh
		e.doneMu.Unlock()
	}
	subject := fmt.Sprintf("call.vsvc.m.%d.run", d.ID)
	type ret struct {
		r   resprot.Response
		el  time.Duration
		pan interface{}
	}
	rc := make(chan ret, 1)
	go func() {
		var out ret
		defer func() {
			if v := recover(); v != nil {
				out.pan = v
			}
			rc <- out
		}()
		start := time.Now()
		out.r = resprot.SendRequest(c, subject, req, dur(d.TimeoutMs), fs...)
		out.el = time.Since(start)
	}()
	var got ret
	hung := false
	select {
	case got = <-rc:
	case <-time.After(30 * time.Second):
		hung = true
	}
	close(c.stop)
	if hung {
		impl = append(impl, ImplViolation{What: "SendRequest did not return within 30 s", Desc: d, Tags: []string{"hang"}})
	}
	if got.pan != nil {
		impl = append(impl, ImplViolation{What: fmt.Sprintf("SendRequest panicked: %v", got.pan), Desc: d, Tags: []string{"panic"}})
	}
	c.mu.Lock()
	published := c.pubOK
	c.mu.Unlock()
	if published || len(c.pubs) > 0 {
		if d.Fail == "" {
			select {
			case <-c.fed:
			case <-time.After(5 * time.Second):
			}
		}
	}
	arr := d.Arr
	if d.Mode == "service" {
		// what the service really sent, stamped with the nominal times of the handler script
		var times []int64
		var at int64
		replied := false
		for _, s := range d.Steps {
			switch s.Op {
			case "sleep":
				at += s.Ms
			case "timeout":
				times = append(times, at)
			default:
				if !replied {
					times = append(times, at)
					replied = true
				}
			}
		}
		if !replied {
			times = append(times, at)
		}
		select {
		case <-doneCh:
		case <-time.After(20 * time.Second):
			impl = append(impl, ImplViolation{What: "harness: service handler did not finish", Desc: d, Tags: []string{"harness"}})
		}
		e.svcNc.Flush()
		inbox := ""
		c.mu.Lock()
		if len(c.subj) > 0 {
			inbox = c.subj[0]
		}
		c.mu.Unlock()
		var seen [][]byte
		for k := 0; k < 300; k++ {
			e.mon.Flush()
			e.monMu.Lock()
			seen = e.seen[inbox]
			e.monMu.Unlock()
			if len(seen) >= len(times) {
				break
			}
			time.Sleep(10 * time.Millisecond)
		}
		if len(seen) != len(times) {
			impl = append(impl, ImplViolation{What: fmt.Sprintf("harness: service sent %d messages, script expects %d", len(seen), len(times)), Desc: d, Tags: []string{"harness"}})
		}
		arr = nil
		for i, t := range times {
			if i < len(seen) {
				arr = append(arr, arrival{AtMs: t, Payload: seen[i], Text: fmt.Sprintf("%q", seen[i])})
			}
		}
		e.monMu.Lock()
		delete(e.seen, inbox)
		e.monMu.Unlock()
		e.doneMu.Lock()
		delete(e.done, d.ID)
		e.doneMu.Unlock()
	}

	// observations
	c.mu.Lock()
	defer c.mu.Unlock()
	live := 0
	for _, s := range c.subs {
		if s.IsValid() {
			live++
		}
	}
	subscribed := len(c.subs) > 0
	released := live == 0 && subscribed
	pubok := true
	if d.Fail == "" {
		pubok = len(c.pubs) == 1 && len(c.subj) == 1 && c.pubs[0].subj == subject && c.pubs[0].reply == c.subj[0] &&
			string(c.pubs[0].data) == string(expData) && strings.HasPrefix(c.subj[0], "_INBOX.")
	}
	if len(c.extra) > 0 {
		pubok = false
	}
	if len(c.subs) > 1 || len(c.pubs) > 1 {
		pubok = false
	}
	var injected error
	switch d.Fail {
	case "marshal":
		injected = marshalErr
	default:
		injected = c.lastErr
	}
	if injected == nil && d.Fail != "" {
		impl = append(impl, ImplViolation{What: "harness: the failing step did not fail", Desc: d, Tags: []string{"harness"}})
	}

	var arrT, parseT []string
	seenP := map[string]bool{}
	for _, a := range arr {
		arrT = append(arrT, "("+Z(int(dur(a.AtMs)))+","+B(string(a.Payload))+")")
		if !seenP[string(a.Payload)] {
			seenP[string(a.Payload)] = true
			parseT = append(parseT, "("+B(string(a.Payload))+","+B(refParse(a.Payload))+")")
		}
	}
	var cbT []string
	cbmu.Lock()
	for _, x := range cbs {
		cbT = append(cbT, "("+Nat(x.i)+","+Z(int(x.d))+")")
	}
	ncbs := len(cbs)
	cbmu.Unlock()
	elapsedMs := int64(got.el / time.Millisecond)
	var cs Case
	dd := *d
	if d.Mode == "service" {
		dd.Arr = arr
	}
	cs.Desc = dd
	cs.Term = fmt.Sprintf("CC %s %s %s %s %s %s %s %s %s %s %s %s %s %s %s %s",
		Nat(d.Ncb), failTerm(d, marshalErr, c.lastErr), Z(int(dur(d.TimeoutMs))), Z(int(dur(d.CbDelayMs))), Bool(d.Race), List(arrT), List(parseT),
		B(summary(got.r, false)), B(summary(got.r, true)), List(cbT), Bool(subscribed), Bool(published), Bool(released), N(live), Z(int(dur(elapsedMs))), Bool(pubok))
	kb, _ := json.Marshal(struct {
		M, F, R string
		N       int
		T       int64
		A       []arrival
		S       []step
	}{d.Mode, d.Fail + "/" + d.Err, d.Req, d.Ncb, d.TimeoutMs, d.Arr, d.Steps})
	cs.Key = string(kb)
	pre := 0
	for _, a := range arr {
		if len(a.Payload) > 0 && (a.Payload[0]|32) >= 'a' && (a.Payload[0]|32) <= 'z' {
			pre++
		}
	}
	cs.Nontrivial = d.Fail != "" || pre > 0
	cs.Tags = []string{"mode:" + d.Mode, "plan:" + d.Plan}
	if d.Fail != "" {
		cs.Tags = append(cs.Tags, "fail:"+d.Fail)
	}
	if d.Err != "" {
		cs.Tags = append(cs.Tags, "err:"+d.Err)
	}
	if ncbs > 0 {
		cs.Tags = append(cs.Tags, "extended")
	}
	if d.Burst {
		cs.Tags = append(cs.Tags, "burst")
	}
	if d.Overflow {
		cs.Tags = append(cs.Tags, "inbox-overflow")
	}
	if d.Long > 0 {
		cs.Tags = append(cs.Tags, fmt.Sprintf("long:%d", d.Long))
	}
	if d.Race {
		cs.Tags = append(cs.Tags, "race")
		if summary(got.r, false) == summary(resprot.Response{Error: res.ErrTimeout}, false) {
			raceCount("timer-chosen")
		} else {
			raceCount("message-chosen")
		}
	}
	return cs, impl
}

// ---- generators of descriptions ----

var okReqs = []string{"nil", "params", "string", "map", "rawok", "nil"}
var badReqs = []string{"chan", "func", "rawbad", "inf", "chanfield"}
var timeouts = []int64{160, 200, 240, 320, 400, 200, 240}

func genScripted(r *Rng, id int, mode string, dist map[string]int) *desc {
	d := &desc{Mode: mode, ID: id, Ncb: r.Intn(4), Req: r.Pick(okReqs)}
	d.TimeoutMs = timeouts[r.Intn(len(timeouts))]
	if r.Chance(5) {
		d.TimeoutMs = []int64{0, -40, -1000}[r.Intn(3)]
	}
	minGap, noBurst := int64(0), false
	if mode == "nats-raw" {
		minGap, noBurst = gridMs, true
	}
	var st map[string]int
	d.Arr, d.Plan, st = genArrivals(r, d.TimeoutMs, minGap, noBurst)
	for k, v := range st {
		dist[mode+":"+k] += v
	}
	dist[mode+":plan-"+d.Plan]++
	dist[fmt.Sprintf("%s:arrivals-%d", mode, len(d.Arr))]++
	return d
}

// k-th failing script: the first len(failCombos) cover every (step, error value) pair once
var failSteps = []string{"subscribe", "publish", "marshal"}

func genFailing(r *Rng, id, k int, dist map[string]int) *desc {
	d := &desc{Mode: "scripted", ID: id, Ncb: r.Intn(4), Req: r.Pick(okReqs)}
	d.TimeoutMs = timeouts[r.Intn(len(timeouts))]
	nCombos := len(failSteps) * len(errKinds)
	if k < nCombos {
		d.Fail, d.Err = failSteps[k/len(errKinds)], errKinds[k%len(errKinds)]
	} else {
		d.Fail = r.Pick([]string{"marshal", "subscribe", "subscribe-closed", "publish", "publish-maxpayload", "marshal", "publish", "subscribe"})
		d.Err = r.Pick(errKinds)
	}
	switch d.Fail {
	case "marshal":
		switch {
		case k < nCombos:
			d.Req = "marshaler"
		case r.Chance(50):
			d.Req = r.Pick([]string{"marshaler", "marshalerfield"})
		default:
			d.Req, d.Err = r.Pick(badReqs), ""
		}
	case "publish-maxpayload":
		d.Req, d.Err = "big", ""
	case "subscribe-closed":
		d.Err = ""
	}
	// arrivals that would be delivered if the call wrongly went on
	d.Arr, _, _ = genArrivals(r, d.TimeoutMs, 0, false)
	d.Plan = "fail"
	dist["fail:"+d.Fail]++
	if d.Err != "" {
		dist["fail-error:"+d.Err]++
	}
	return d
}

// a handler script for the real service: sleeps on the grid, Timeout() announcements, one response
func genService(r *Rng, id int, dist map[string]int) *desc {
	d := &desc{Mode: "service", ID: id, Ncb: r.Intn(3), Req: "steps"}
	d.TimeoutMs = timeouts[r.Intn(len(timeouts))]
	now, dl := int64(0), d.TimeoutMs
	d.Plan = "answer"
	n := r.Intn(4)
	respond := func() {
		i := len(d.Steps) + 1
		d.Steps = append(d.Steps, step{Op: r.Pick([]string{"ok", "ok", "notfound", "error", "resource"}), I: i})
	}
	for k := 0; k <= n; k++ {
		room := dl - now - marginMs
		if room < gridMs || r.Chance(12) {
			// respond too late (or never within the deadline)
			g := dl - now + marginMs + int64(r.Intn(3))*gridMs
			if g < gridMs {
				g = gridMs
			}
			g = (g + gridMs - 1) / gridMs * gridMs
			d.Steps = append(d.Steps, step{Op: "sleep", Ms: g})
			d.Plan = "late"
			if r.Chance(50) {
				d.Steps = append(d.Steps, step{Op: "timeout", Ms: 200})
				d.Steps = append(d.Steps, step{Op: "sleep", Ms: gridMs})
			}
			respond()
			dist["service:plan-late"]++
			return d
		}
		steps := room / gridMs
		if steps > 4 {
			steps = 4
		}
		g := (1 + int64(r.Intn(int(steps)))) * gridMs
		d.Steps = append(d.Steps, step{Op: "sleep", Ms: g})
		now += g
		if k == n {
			break
		}
		ms := []int64{160, 200, 240, 280, 320, 0}[r.Intn(6)]
		d.Steps = append(d.Steps, step{Op: "timeout", Ms: ms})
		dl = now + ms
		dist["service:timeout-sent"]++
		if ms >= marginMs && r.Chance(25) {
			// the usual handler shape: announce, then answer at once (two messages back to back)
			respond()
			d.Burst = true
			dist["service:burst"]++
			dist["service:plan-answer"]++
			return d
		}
	}
	if dl-now >= marginMs {
		if r.Chance(15) {
			// no explicit response: the service sends its missing-response error when the handler returns
			dist["service:missing-response"]++
		} else {
			respond()
			if r.Chance(30) {
				d.Steps = append(d.Steps, step{Op: "sleep", Ms: gridMs}, step{Op: "timeout", Ms: 200}) // a pre-response after the response
			}
		}
		dist["service:plan-answer"]++
	} else {
		d.Steps = append(d.Steps, step{Op: "sleep", Ms: 2 * marginMs})
		respond()
		d.Plan = "late"
		dist["service:plan-late"]++
	}
	return d
}

// ---- race scripts: the deadline expires while messages sit unprocessed in the inbox (slow
// extension callbacks), or a message arrives at the deadline.  select may go either way, so each
// script is repeated; Run_C19 accepts exactly the results Client/Model.v wait_nd allows. ----

var raceMu sync.Mutex
var raceStat = map[string]int{}

func raceCount(k string) {
	raceMu.Lock()
	raceStat[k]++
	raceMu.Unlock()
}

func raceScripts(r *Rng, rounds int, dist map[string]int) []*desc {
	var out []*desc
	mk := func(name string, ncb int, cbMs, T int64, arr ...arrival) {
		for i := range arr {
			arr[i].Text = fmt.Sprintf("%q", arr[i].Payload)
		}
		out = append(out, &desc{Mode: "scripted", Req: "nil", Ncb: ncb, CbDelayMs: cbMs, Race: true, TimeoutMs: T, Plan: "race:" + name, Arr: arr})
		dist["race:"+name]++
	}
	A := func(at int64, p string) arrival { return arrival{AtMs: at, Payload: []byte(p)} }
	for k := 0; k < rounds; k++ {
		res1 := fmt.Sprintf(`{"result":{"race":%d}}`, k)
		// a 40 ms announcement whose callback(s) block 200 ms in all: the new deadline (80) passes and
		// the following messages queue up; at 240 the timer and the queue are both ready
		mk("slow-cb/queued-pre", 1, 200, 200, A(40, `timeout:"40"`), A(120, `timeout:"360"`), A(160, res1))
		mk("slow-cb/queued-bad-pre", 1, 200, 200, A(40, `timeout:"40"`), A(120, `timeout:"abc"`), A(160, res1))
		mk("slow-cb/queued-response", 1, 200, 200, A(40, `timeout:"40"`), A(120, res1), A(160, `timeout:"360"`))
		mk("slow-cb/two-callbacks", 2, 100, 200, A(40, `timeout:"0"`), A(80, `hello`), A(120, `timeout:"400"`), A(160, res1))
		mk("slow-cb/queued-pre-only", 1, 200, 200, A(40, `timeout:"40"`), A(120, `timeout:"360"`))
	}
	deltas := []int64{0, 2, -2, 5, -5}
	for k := 0; k < (rounds+3)/4; k++ {
		for _, dl := range deltas {
			res1 := fmt.Sprintf(`{"result":{"tie":%d}}`, k)
			// a message arriving at the deadline (+- a few ms)
			mk("at-deadline/pre", 1, 0, 200, A(200+dl, `timeout:"360"`), A(360, res1))
			mk("at-deadline/response", 1, 0, 200, A(200+dl, res1))
			mk("at-extended-deadline/pre", 1, 0, 200, A(40, `timeout:"160"`), A(200+dl, `timeout:"abc"`), A(200+dl, `timeout:"360"`), A(400, res1))
		}
	}
	return out
}

// ---- long histories on the real-NATS legs: behaviour must not change after N messages ----
// n timeout pre-responses with long announced durations (every one moves the deadline far beyond
// the end of the script, so nothing here is timing-sensitive), then the response.  spaced: 4 ms
// apart, any n; burst: all n+1 messages back to back, n+1 <= inboxCap (what the unchanged code
// guarantees to take without loss).
const inboxCap = 32 // resprot.inboxChannelSize
const longSpacingMs = 4

var longAnnounce = []int64{3000, 3200, 2800}

func genLong(r *Rng, id int, mode string, n int, burst bool, dist map[string]int) *desc {
	d := &desc{Mode: mode, ID: id, Ncb: 1 + r.Intn(2), Req: "nil", TimeoutMs: 400, Plan: "answer", Long: n, Burst: burst}
	gap := int64(longSpacingMs)
	if burst {
		gap = 0
	}
	at := int64(gridMs)
	kind := "spaced"
	if burst {
		kind = "burst"
	}
	dist[fmt.Sprintf("%s:long-%s", mode, kind)]++
	if mode == "service" {
		d.Req = "steps"
		d.Steps = append(d.Steps, step{Op: "sleep", Ms: at})
		for i := 0; i < n; i++ {
			d.Steps = append(d.Steps, step{Op: "timeout", Ms: longAnnounce[i%len(longAnnounce)]})
			if gap > 0 {
				d.Steps = append(d.Steps, step{Op: "sleep", Ms: gap})
			}
		}
		d.Steps = append(d.Steps, step{Op: r.Pick([]string{"ok", "ok", "notfound", "error", "resource"}), I: id})
		return d
	}
	for i := 0; i < n; i++ {
		p := fmt.Sprintf(`timeout:"%d"`, longAnnounce[i%len(longAnnounce)])
		d.Arr = append(d.Arr, arrival{AtMs: at, Payload: []byte(p), Text: fmt.Sprintf("%q", p)})
		at += gap
	}
	p := fmt.Sprintf(`{"result":{"long":%d}}`, id)
	d.Arr = append(d.Arr, arrival{AtMs: at, Payload: []byte(p), Text: fmt.Sprintf("%q", p)})
	return d
}

func longCounts(r *Rng, tier string) (spaced, burst []int) {
	spaced = []int{0, 1, 2, 31, 32, 33, 40, 64, 100}
	burst = []int{2, 8, 16, inboxCap - 2, inboxCap - 1}
	if tier == "thorough" {
		spaced = append(spaced, 15, 16, 17, 30, 34, 63, 65, 127, 128, 129, 200, 255, 256, 257, 300)
		for i := 0; i < 12; i++ {
			spaced = append(spaced, 3+r.Intn(298))
		}
		for k := 3; k < inboxCap-2; k += 3 {
			burst = append(burst, k)
		}
	}
	return
}

// two announcements and the response back to back: three messages reach the client connection
// faster than a capacity-1 inbox channel could take them (the defect fixed by c11361e)
func genOverflow(r *Rng, id int, dist map[string]int) *desc {
	d := &desc{Mode: "service", ID: id, Ncb: r.Intn(3), Req: "steps", TimeoutMs: 320, Plan: "answer", Burst: true, Overflow: true}
	g := int64(1+r.Intn(3)) * gridMs
	d.Steps = []step{{Op: "sleep", Ms: g}, {Op: "timeout", Ms: 200}, {Op: "timeout", Ms: 240}, {Op: "ok", I: id}}
	dist["service:three-back-to-back"]++
	return d
}

func runBatch(e *env, ds []*desc, width int, r *Rng) ([]Case, []ImplViolation) {
	cases := make([]Case, len(ds))
	impls := make([][]ImplViolation, len(ds))
	for off := 0; off < len(ds); off += width {
		end := off + width
		if end > len(ds) {
			end = len(ds)
		}
		var wg sync.WaitGroup
		for i := off; i < end; i++ {
			i := i
			jitter := time.Duration(r.Intn(400*1000)) * time.Microsecond
			wg.Add(1)
			go func() {
				defer wg.Done()
				time.Sleep(jitter)
				cases[i], impls[i] = runStable(e, ds[i])
			}()
		}
		wg.Wait()
	}
	var all []ImplViolation
	for _, x := range impls {
		all = append(all, x...)
	}
	return cases, all
}

func main() {
	o := ParseOpts()
	r := NewRng(o.Seed)
	dist := map[string]int{}
	var ds []*desc
	withService := false
	if o.Replay != "" {
		var d desc
		if err := LoadReplay(o.Replay, &d); err != nil {
			panic(err)
		}
		if d.Mode == "service" {
			withService = true
		}
		ds = append(ds, &d)
	} else {
		nScripted, nFail, nRaw, nSvc := 1000, 120, 40, 40
		if o.Tier == "thorough" {
			nScripted, nFail, nRaw, nSvc = 6000, 400, 600, 600
		}
		if o.N > 0 {
			nScripted = o.N
		}
		id := 0
		// fixed small scripts first (smallest descriptions first)
		fixed := []*desc{
			{Mode: "scripted", Req: "nil", TimeoutMs: 200, Plan: "silence"},
			{Mode: "scripted", Req: "nil", TimeoutMs: 200, Plan: "answer", Arr: []arrival{{AtMs: 40, Payload: []byte(`{"result":1}`)}}},
			{Mode: "scripted", Req: "nil", Ncb: 2, TimeoutMs: 200, Plan: "answer", Arr: []arrival{{AtMs: 40, Payload: []byte(`timeout:"320"`)}, {AtMs: 240, Payload: []byte(`{"result":2}`)}}},
			{Mode: "scripted", Req: "nil", Ncb: 1, TimeoutMs: 200, Plan: "silence", Arr: []arrival{{AtMs: 40, Payload: []byte(`timeout:"320"`)}}},
			{Mode: "scripted", Req: "nil", Ncb: 1, TimeoutMs: 320, Plan: "late", Arr: []arrival{{AtMs: 40, Payload: []byte(`timeout:"160"`)}, {AtMs: 320, Payload: []byte(`{"result":3}`)}}},
			{Mode: "scripted", Req: "nil", Ncb: 1, TimeoutMs: 200, Plan: "late", Arr: []arrival{{AtMs: 40, Payload: []byte(`timeout:"abc"`)}, {AtMs: 320, Payload: []byte(`{"result":4}`)}}},
			{Mode: "scripted", Req: "nil", Ncb: 1, TimeoutMs: 200, Plan: "answer", Arr: []arrival{{AtMs: 40, Payload: []byte(`{"result":5}`)}, {AtMs: 40, Payload: []byte(`{"result":6}`)}}},
		}
		// every JSON whitespace byte (and all four together) before, after and around each kind of
		// response, directly and after a timeout pre-response
		for wi, ws := range append(append([]string{}, jsonWS...), " \t\r\n", "\n\n  ") {
			for ki, body := range []string{`{"result":{"w":%d}}`, `{"resource":{"rid":"test.ws.%d"}}`, `{"error":{"code":"test.ws","message":"ws %d"}}`} {
				for pos := 0; pos < 3; pos++ {
					n := wi*9 + ki*3 + pos
					p := fmt.Sprintf(body, n)
					switch pos {
					case 0:
						p = ws + p
					case 1:
						p = p + ws
					default:
						p = ws + p + ws
					}
					d := &desc{Mode: "scripted", Req: "nil", Ncb: 1, TimeoutMs: 200, Plan: "answer"}
					if n%2 == 0 {
						d.Arr = []arrival{{AtMs: 40, Payload: []byte(p)}}
					} else {
						d.Arr = []arrival{{AtMs: 40, Payload: []byte("timeout:\"320\"" + ws)}, {AtMs: 240, Payload: []byte(p)}}
					}
					dist["fixed:whitespace-padded"]++
					fixed = append(fixed, d)
				}
			}
		}
		for _, d := range fixed {
			id++
			d.ID = id
			for i := range d.Arr {
				d.Arr[i].Text = fmt.Sprintf("%q", d.Arr[i].Payload)
			}
			dist["fixed"]++
			ds = append(ds, d)
		}
		for i := 0; i < nScripted; i++ {
			id++
			ds = append(ds, genScripted(r, id, "scripted", dist))
		}
		{
			rounds := 30
			if o.Tier == "thorough" {
				rounds = 120
			}
			for _, d := range raceScripts(r, rounds, dist) {
				id++
				d.ID = id
				ds = append(ds, d)
			}
		}
		for i := 0; i < nFail; i++ {
			id++
			ds = append(ds, genFailing(r, id, i, dist))
		}
		for i := 0; i < nRaw; i++ {
			id++
			ds = append(ds, genScripted(r, id, "nats-raw", dist))
		}
		for i := 0; i < nSvc; i++ {
			id++
			ds = append(ds, genService(r, id, dist))
			withService = true
		}
		{
			spaced, burst := longCounts(r, o.Tier)
			for _, mode := range []string{"nats-raw", "service"} {
				for _, n := range spaced {
					id++
					ds = append(ds, genLong(r, id, mode, n, false, dist))
				}
				for _, n := range burst {
					id++
					ds = append(ds, genLong(r, id, mode, n, true, dist))
				}
			}
			withService = true
		}
		if o.Tier == "thorough" && os.Getenv("VERIF_C19_OVERFLOW") != "0" {
			for i := 0; i < 8; i++ {
				id++
				ds = append(ds, genOverflow(r, id, dist))
			}
		}
	}
	t0 := time.Now()
	e := newEnv(withService)
	// scripted / failing scripts in wide batches, network modes in narrower ones
	var cases []Case
	var impl []ImplViolation
	group := func(mode string, width int) {
		var sel []*desc
		for _, d := range ds {
			m := d.Mode
			if d.Req == "big" {
				m = "big"
			}
			if m == mode {
				sel = append(sel, d)
			}
		}
		if len(sel) == 0 {
			return
		}
		cs, iv := runBatch(e, sel, width, r)
		cases = append(cases, cs...)
		impl = append(impl, iv...)
	}
	go probe()
	// warm-up (not recorded): first calls pay for page faults, thread start-up, connection set-up
	{
		var wds []*desc
		wr := NewRng(12345)
		for i := 0; i < 40; i++ {
			wds = append(wds, genScripted(wr, 1000000+i, "scripted", map[string]int{}))
		}
		runBatch(e, wds, 40, wr)
		probeMu.Lock()
		probeBad, probeMax = nil, 0
		probeMu.Unlock()
		reruns = 0
	}
	group("scripted", 700)
	group("big", 4)
	group("nats-raw", 300)
	group("service", 100)
	// all subscriptions of all calls must be gone, on the client and on the server
	e.cli.Flush()
	cliSubs := e.cli.NumSubscriptions()
	if cliSubs != 0 {
		impl = append(impl, ImplViolation{What: fmt.Sprintf("%d inbox subscriptions still registered on the client connection after %d calls", cliSubs, len(cases)),
			Desc: map[string]int{"calls": len(cases)}, Tags: []string{"leak"}})
	}
	extra := map[string]interface{}{
		"client_subscriptions_after_all_calls": cliSubs,
		"harness_wall_s":                       math.Round(time.Since(t0).Seconds()*10) / 10,
	}
	close(probeStop)
	probeMu.Lock()
	extra["max_scheduler_overshoot_ms"] = int64(probeMax / time.Millisecond)
	extra["scripts_rerun_because_of_jitter"] = reruns
	extra["race_scripts_timer_chosen"] = raceStat["timer-chosen"]
	extra["race_scripts_message_chosen"] = raceStat["message-chosen"]
	probeMu.Unlock()
	e.close()
	nontriv := 0
	for _, c := range cases {
		if c.Nontrivial {
			nontriv++
		}
	}
	dist["nontrivial"] = nontriv
	Emit(o, "C19", "From GoRes Require Import Run.Run_C19.", "ccase",
		"SendRequest against a scripted res.Conn over an embedded nats-server: 0-6 arrivals on a 40 ms grid mixing valid timeout pre-responses (incl. escapes, signs, int64 wrap-around, several tags), pre-responses without effect, result/resource/error responses (also padded with leading/trailing JSON whitespace: every whitespace byte and combinations, directly and after a pre-response) and garbage; failing marshal/subscribe/publish, each with every kind of error value (plain, wrapped, nats sentinel, *res.Error with its own code incl. system.timeout, with Data, nil *res.Error, wrapper around a *res.Error; marshal through a failing MarshalJSON); plus arrivals sent through the server and a real res.Service playing handler scripts (many more in thorough), including long histories on both real-NATS legs: 0..100 (thorough ..300) timeout pre-responses 4 ms apart before the response, around every power of two and the inbox capacity 32, and back-to-back bursts up to that capacity; every timer-vs-message decision >= 120 ms from a tie, except in the race scripts (slow extension callbacks during which the deadline expires and messages queue up; arrivals at the deadline +-5 ms), which are repeated 30x (thorough 120x) and compared with the set of results the model allows; non-trivial = a failing step or at least one pre-response in the script; distinct by script",
		cases, dist, extra, impl, 100)
}
