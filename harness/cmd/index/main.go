// Correspondence harness for C13 (index queries) and C14 (query-change
// notifications) against the real BadgerDB + badgerstore.Store + QueryStore.
// One binary; -prop C13|C14 selects the case generator.
package main

import (
	"bytes"
	"encoding/hex"
	"errors"
	"encoding/json"
	"flag"
	"fmt"
	"net/url"
	"os"
	"sort"
	"strconv"
	"strings"
	"sync"
	"sync/atomic"
	"time"

	"github.com/dgraph-io/badger"
	res "github.com/jirenius/go-res"
	"github.com/jirenius/go-res/store"
	"github.com/jirenius/go-res/store/badgerstore"
	"github.com/jirenius/go-res/store/mockstore"
	nats "github.com/nats-io/nats.go"

	. "verifharness/common"
)

// ---------------------------------------------------------------- values, indexes, queries

type val struct {
	A []byte
	B []byte
}

type gateT struct {
	entered chan struct{}
	release chan struct{}
	key     []byte // only a value with this key A stops at the gate (nil: any value)
}

var gate, gate2 atomic.Value // *gateT or (*gateT)(nil)

// index "k": key A, never nil.  The first (matching) call while a gate is armed blocks.
func keyA(v interface{}) []byte {
	for _, gv := range []*atomic.Value{&gate, &gate2} {
		if g, _ := gv.Load().(*gateT); g != nil && (g.key == nil || bytes.Equal(g.key, v.(val).A)) {
			if gv.CompareAndSwap(g, (*gateT)(nil)) {
				close(g.entered)
				<-g.release
			}
		}
	}
	return append([]byte{}, v.(val).A...)
}

// index "kb": key B, nil = not indexed.
func keyB(v interface{}) []byte { return v.(val).B }

var filters = []func([]byte) bool{
	nil,
	func(k []byte) bool { return len(k)%2 == 0 },
	func(k []byte) bool { return len(k) > 0 && k[0] < 98 },
	func(k []byte) bool { return len(k) == 0 || k[0] != 0 },
}

type qd struct {
	I int    `json:"i"`
	P string `json:"p"` // hex
	F int    `json:"f"`
	O int    `json:"o"`
	L int    `json:"l"`
	R bool   `json:"r"`
}

func (q qd) prefix() []byte { b, _ := hex.DecodeString(q.P); return b }
func (q qd) values() url.Values {
	r := "0"
	if q.R {
		r = "1"
	}
	return url.Values{"i": {strconv.Itoa(q.I)}, "p": {q.P}, "f": {strconv.Itoa(q.F)}, "o": {strconv.Itoa(q.O)}, "l": {strconv.Itoa(q.L)}, "r": {r}}
}
func (q qd) coq() string {
	return fmt.Sprintf("(QD %d %s %d %s %s %s)", q.I, B(string(q.prefix())), q.F, Z(q.O), Z(q.L), Bool(q.R))
}

func atoiDef(s string, d int) int {
	if s == "" {
		return d
	}
	n, err := strconv.Atoi(s)
	if err != nil {
		return d
	}
	return n
}

func parseQ(q url.Values) qd {
	return qd{I: atoiDef(q.Get("i"), 0), P: q.Get("p"), F: atoiDef(q.Get("f"), 0), O: atoiDef(q.Get("o"), 0), L: atoiDef(q.Get("l"), -1), R: q.Get("r") == "1"}
}

func mkIQ(qs *badgerstore.QueryStore, uv url.Values) (*badgerstore.IndexQuery, error) {
	if uv.Get("bad") != "" {
		return nil, errors.New("invalid query")
	}
	q := parseQ(uv)
	name := "k"
	if q.I == 1 {
		name = "kb"
	}
	f := q.F
	if f < 0 || f >= len(filters) {
		f = 0
	}
	return &badgerstore.IndexQuery{Index: qs.Index(name), KeyPrefix: q.prefix(), FilterKeys: filters[f], Offset: q.O, Limit: q.L, Reverse: q.R}, nil
}

// ---------------------------------------------------------------- environment

type env struct {
	dir string
	db  *badger.DB
	st  *badgerstore.Store
	qs  *badgerstore.QueryStore
	ids []string // the ids the histories use
	vp  string   // what the store puts before an id to form the value key
}

func newEnv() *env { return newEnvOpt(false, mkIQ) }

// unprefixed: Store without prefix (the raw value key is the id itself) and ids among which are "k;" and "kb;",
// the bytewise successors of the index prefixes "k:" and "kb:" - the keys a reverse scan seeks to.
var succIDs = []string{"1", "2", "k;", "kb;"}

func newEnvOpt(unprefixed bool, iq func(*badgerstore.QueryStore, url.Values) (*badgerstore.IndexQuery, error)) *env {
	dir, err := os.MkdirTemp("", "verif-index-")
	if err != nil {
		panic(err)
	}
	opts := badger.DefaultOptions(dir)
	opts.Logger = nil
	opts.SyncWrites = false
	db, err := badger.Open(opts)
	if err != nil {
		os.RemoveAll(dir)
		panic(err)
	}
	st := badgerstore.NewStore(db).SetType(val{})
	ids, vp := allIDs, "v."
	if unprefixed {
		ids, vp = succIDs, ""
	} else {
		st.SetPrefix("v")
	}
	qs := badgerstore.NewQueryStore(st, iq).
		AddIndex(badgerstore.Index{Name: "k", Key: keyA}).
		AddIndex(badgerstore.Index{Name: "kb", Key: keyB})
	return &env{dir: dir, db: db, st: st, qs: qs, ids: ids, vp: vp}
}

func (e *env) close() {
	e.qs.Flush()
	e.db.Close()
	os.RemoveAll(e.dir)
}

type seedT struct {
	ID   string `json:"id"`
	A    string `json:"a"`
	B    string `json:"b"`
	BNil bool   `json:"bnil"`
}

type mut struct {
	Seeds []seedT `json:"seeds,omitempty"` // op "i": Store.Init adding these seeds (ID is then "\x00init")
	Op   string `json:"op"` // c u d i
	ID   string `json:"id"`
	A    string `json:"a"` // hex
	B    string `json:"b"` // hex
	BNil bool   `json:"bnil"`
}

func (m mut) val() val {
	a, _ := hex.DecodeString(m.A)
	v := val{A: a}
	if !m.BNil {
		b, _ := hex.DecodeString(m.B)
		v.B = append([]byte{}, b...)
	}
	return v
}

func valCoq(v val) string {
	return "(" + B(string(v.A)) + "," + OptB(string(v.B), v.B != nil) + ")"
}
func ovalCoq(v interface{}) string {
	if v == nil {
		return "None"
	}
	return "(Some " + valCoq(v.(val)) + ")"
}
func (m mut) coq() string { return m.coqOrdered(nil) }

// coqOrdered: for an Init step the seeds are listed in the order the store notified them (first), then the rest
func (m mut) coqOrdered(notified []string) string {
	switch m.Op {
	case "c":
		return "SMut (MCreate " + B(m.ID) + " " + valCoq(m.val()) + ")"
	case "u":
		return "SMut (MUpdate " + B(m.ID) + " " + valCoq(m.val()) + ")"
	case "i":
		var parts []string
		used := map[int]bool{}
		emit := func(i int) {
			sd := m.Seeds[i]
			used[i] = true
			parts = append(parts, "("+B(sd.ID)+","+valCoq(mut{A: sd.A, B: sd.B, BNil: sd.BNil}.val())+")")
		}
		for _, id := range notified {
			for i, sd := range m.Seeds {
				if sd.ID == id && !used[i] {
					emit(i)
				}
			}
		}
		for i := range m.Seeds {
			if !used[i] {
				emit(i)
			}
		}
		return "SInit " + List(parts)
	}
	return "SMut (MDelete " + B(m.ID) + ")"
}

func (e *env) apply(m mut) error {
	if m.Op == "i" {
		return e.st.Init(func(add func(id string, v interface{})) error {
			for _, sd := range m.Seeds {
				add(sd.ID, mut{A: sd.A, B: sd.B, BNil: sd.BNil}.val())
			}
			return nil
		})
	}
	w := e.st.Write(m.ID)
	defer w.Close()
	return applyIn(w, m)
}

func applyIn(w store.WriteTxn, m mut) error {
	switch m.Op {
	case "c":
		return w.Create(m.val())
	case "u":
		return w.Update(m.val())
	}
	return w.Delete()
}

// applyAll applies a mutation list. Consecutive mutations on the same id are, depending on the position, made
// through ONE write transaction (sometimes after a Value() call on it): what an application handler that does
// several things to a resource looks like, and what a per-transaction cache must survive.
func (e *env) applyAll(ms []mut) {
	for i := 0; i < len(ms); {
		if ms[i].Op == "i" {
			e.apply(ms[i])
			i++
			continue
		}
		j := i + 1
		for j < len(ms) && ms[j].ID == ms[i].ID {
			j++
		}
		if j-i >= 2 && (i+len(ms))%3 != 0 {
			w := e.st.Write(ms[i].ID)
			if (i+j)%2 == 0 {
				w.Value()
			}
			for k := i; k < j; k++ {
				applyIn(w, ms[k])
			}
			w.Close()
		} else {
			for k := i; k < j; k++ {
				e.apply(ms[k])
			}
		}
		i = j
	}
}

// applyBacklog stalls the index consumer inside Index.Key (the first index task blocks on a gate) while one
// writer goroutine issues the mutations in order.  The task queue holds 256 tasks: the writer runs until it has
// issued everything or stops making progress (blocked on the full queue), then the gate is released.  Commit
// order = the order of ms (one writer), so per-id order of everything downstream must be that order.
func (e *env) applyBacklog(ms []mut, dist map[string]int) bool {
	g := &gateT{entered: make(chan struct{}), release: make(chan struct{})}
	gate.Store(g)
	var issued int64
	done := make(chan struct{})
	go func() {
		for _, m := range ms {
			e.apply(m)
			atomic.AddInt64(&issued, 1)
		}
		close(done)
	}()
	select {
	case <-g.entered:
		dist["backlog_consumer_stalled"]++
	case <-done:
	case <-time.After(5 * time.Second):
	}
	last, lastT := int64(-1), time.Now()
	for {
		n := atomic.LoadInt64(&issued)
		if n == int64(len(ms)) {
			break
		}
		if n != last {
			last, lastT = n, time.Now()
		} else if time.Since(lastT) > 200*time.Millisecond {
			break
		}
		time.Sleep(5 * time.Millisecond)
	}
	n := int(atomic.LoadInt64(&issued))
	dist["backlog_mutations_issued_while_stalled"] += n
	if n > 256 {
		dist["backlog_runs_past_queue_capacity"]++
	}
	gate.Store((*gateT)(nil))
	close(g.release)
	select {
	case <-done:
		return true
	case <-time.After(90 * time.Second):
		return false
	}
}

// query runs one index query; kind 0 ok, 1 error, 2 panic.
func (e *env) query(q qd) (ids []string, kind int) {
	defer func() {
		if r := recover(); r != nil {
			ids, kind = nil, 2
		}
	}()
	r, err := e.qs.Query(q.values())
	if err != nil {
		return nil, 1
	}
	return r.([]string), 0
}

func outcomeCoq(ids []string, kind int) string {
	switch kind {
	case 1:
		return "FErr"
	case 2:
		return "FPanic"
	}
	return "(FOk " + BList(ids) + ")"
}

var allIDs = []string{"1", "2", "3", "4"}

func (e *env) stored() string {
	var parts []string
	for _, id := range append([]string{""}, e.ids...) {
		v, err := e.st.Get(id)
		if err == nil {
			parts = append(parts, "("+B(id)+","+valCoq(v.(val))+")")
		}
	}
	return List(parts)
}

func (e *env) storedVals() map[string]val {
	m := map[string]val{}
	for _, id := range e.ids {
		v, err := e.st.Get(id)
		if err == nil {
			m[id] = v.(val)
		}
	}
	return m
}

// every key of the database, in iteration order: index entries and raw value keys
func (e *env) indexKeys() []string {
	var keys []string
	e.db.View(func(txn *badger.Txn) error {
		o := badger.DefaultIteratorOptions
		o.PrefetchValues = false
		it := txn.NewIterator(o)
		defer it.Close()
		for it.Rewind(); it.Valid(); it.Next() {
			keys = append(keys, string(it.Item().KeyCopy(nil)))
		}
		return nil
	})
	return keys
}

// ---------------------------------------------------------------- generators

var keyPool = []string{"", "a", "ab", "abc", "b", "ba", "a\xff", "\xff", "\xff\xff", "a:", ":", "a\xffz", "c"}
var nulPool = []string{"a\x00", "\x00", "a\x00b", "a\x00\x00", "ab\x00"}

func genKey(r *Rng, nul bool) string {
	if nul && r.Chance(45) {
		return r.Pick(nulPool)
	}
	if r.Chance(8) {
		n := 1 + r.Intn(3)
		b := make([]byte, n)
		for i := range b {
			b[i] = byte(1 + r.Intn(255))
		}
		return string(b)
	}
	return r.Pick(keyPool)
}

func genHistory(r *Rng, n int, nul bool) []mut { return genHistoryIDs(r, n, nul, allIDs) }

func genHistoryIDs(r *Rng, n int, nul bool, allIDs []string) []mut {
	exists := map[string]bool{}
	cur := map[string]mut{}
	var ms []mut
	// Store.Init steps: the first one after 0-5 ordinary mutations (creates BEFORE the first Init), its seeds all
	// new / naming existing ids with other keys / mixed; a later one on the initialised store
	initAt, init2At, inited := -1, -1, false
	if n >= 3 && r.Chance(45) {
		initAt = r.Intn(6)
		if initAt >= n {
			initAt = n - 1
		}
		if r.Chance(50) {
			init2At = initAt + 1 + r.Intn(n)
		}
	}
	for len(ms) < n {
		if len(ms) == initAt || len(ms) == init2At {
			mode := r.Intn(3) // 0 new ids only, 1 existing ids only, 2 any
			var pool []string
			for _, id := range allIDs {
				if mode == 2 || (mode == 0) == !exists[id] {
					pool = append(pool, id)
				}
			}
			if len(pool) == 0 {
				pool = allIDs
			}
			im := mut{Op: "i", ID: "\x00init"}
			picked := map[string]bool{}
			for k := 1 + r.Intn(3); k > 0; k-- {
				id := r.Pick(pool)
				if picked[id] {
					continue
				}
				picked[id] = true
				sd := seedT{ID: id, A: hex.EncodeToString([]byte(genKey(r, nul)))}
				if r.Chance(35) {
					sd.BNil = true
				} else {
					sd.B = hex.EncodeToString([]byte(genKey(r, nul)))
				}
				im.Seeds = append(im.Seeds, sd)
			}
			ms = append(ms, im)
			if !inited {
				inited = true
				for _, sd := range im.Seeds {
					if !exists[sd.ID] {
						exists[sd.ID] = true
						cur[sd.ID] = mut{Op: "c", ID: sd.ID, A: sd.A, B: sd.B, BNil: sd.BNil}
					}
				}
			}
			continue
		}
		id := r.Pick(allIDs)
		m := mut{ID: id}
		k := r.Intn(100)
		switch {
		case !exists[id] && k < 80:
			m.Op = "c"
		case !exists[id]:
			m.Op = r.Pick([]string{"u", "d"}) // fails: not found
		case k < 12:
			m.Op = "c" // fails: duplicate
		case k < 75:
			m.Op = "u"
		default:
			m.Op = "d"
		}
		if r.Chance(1) {
			m.ID = ""
			m.Op = "c" // fails: missing id
		}
		if m.Op != "d" {
			m.A = hex.EncodeToString([]byte(genKey(r, nul)))
			if r.Chance(35) {
				m.BNil = true
			} else {
				m.B = hex.EncodeToString([]byte(genKey(r, nul)))
			}
			if m.Op == "u" && exists[id] && r.Chance(35) {
				// update keeping a key (or both)
				c := cur[id]
				if r.Bool() {
					m.A = c.A
				} else {
					m.B, m.BNil = c.B, c.BNil
				}
				if r.Chance(30) {
					m.A, m.B, m.BNil = c.A, c.B, c.BNil
				}
			}
		}
		ms = append(ms, m)
		switch {
		case m.Op == "c" && !exists[m.ID] && m.ID != "":
			exists[m.ID] = true
			cur[m.ID] = m
		case m.Op == "u" && exists[m.ID]:
			cur[m.ID] = m
		case m.Op == "d" && exists[m.ID]:
			delete(exists, m.ID)
			delete(cur, m.ID)
		}
	}
	return ms
}

// prefix variants around the keys that occur in the history
func prefixVariants(r *Rng, ms []mut) []string {
	var keys []string
	for _, m := range ms {
		for _, sd := range m.Seeds {
			a, _ := hex.DecodeString(sd.A)
			keys = append(keys, string(a))
		}
		if m.Op != "d" && m.Op != "i" {
			a, _ := hex.DecodeString(m.A)
			keys = append(keys, string(a))
			if !m.BNil {
				b, _ := hex.DecodeString(m.B)
				keys = append(keys, string(b))
			}
		}
	}
	if len(keys) == 0 {
		keys = []string{"a"}
	}
	k := func() string { return keys[r.Intn(len(keys))] }
	full := k()
	part := k()
	if len(part) > 1 {
		part = part[:1+r.Intn(len(part)-1)]
	}
	return []string{
		"",                   // empty
		part,                 // partial
		full,                 // full key
		k() + "z",            // longer than the key
		k() + "\x00",         // the separator byte
		k() + "\x00" + r.Pick(allIDs), // the separator and an id
		k() + ":",            // the name separator
		r.Pick([]string{"\xff", "\xff\xff", "a\xff", "a\xff\xff"}), // prefix successor carries
		string([]byte{byte(r.Intn(256))}),
	}
}

var prefixKinds = []string{"empty", "partial", "full", "longer", "nul", "nul+id", "colon", "ff", "random"}

func hasNulKey(vals map[string]val) bool {
	for _, v := range vals {
		if strings.IndexByte(string(v.A), 0) >= 0 || strings.IndexByte(string(v.B), 0) >= 0 {
			return true
		}
	}
	return false
}

// ---------------------------------------------------------------- C13

type c13desc struct {
	Muts    []mut `json:"muts"`
	Queries []qd  `json:"queries"`
	Racing  bool  `json:"racing_queries"`
	// Backlog: the index worker is stalled inside Index.Key while one writer issues all mutations (more than
	// the 256-slot task queue holds), then released; see applyBacklog.
	Backlog bool `json:"backlog"`
	// Unprefixed: Store without prefix; the ids include "k;" / "kb;" whose raw value keys are exactly the
	// prefix successors of "k:" / "kb:" (the key a Reverse scan seeks to and has to step over).
	Unprefixed bool `json:"unprefixed_store"`
	// Overlap != 0: the overlapping-Flush scenario (see flushOverlap), Muts/Queries are what it ran
	Overlap int `json:"overlapping_flush"`
	// Big: a large index population (hundreds of entries under one key prefix, ids in prefix relation around
	// positions 256 and 512 of the scan); the ids are those of Muts
	Big bool `json:"big_population"`
	// Foreign: raw keys (hex) written into the database after the Flush, under an index prefix but without the
	// NUL separator: FetchCollection's "index entry is invalid" error path (correspondence only)
	Foreign []string `json:"foreign_keys,omitempty"`
}

func runC13(d c13desc, dist map[string]int, impl *[]ImplViolation) Case {
	if d.Overlap != 0 {
		return flushOverlap(d.Overlap, dist, impl)
	}
	e := newEnvOpt(d.Unprefixed, mkIQ)
	if d.Big {
		seen := map[string]bool{}
		e.ids = nil
		for _, m := range d.Muts {
			if !seen[m.ID] {
				seen[m.ID] = true
				e.ids = append(e.ids, m.ID)
			}
		}
		sort.Strings(e.ids)
	}
	defer e.close()
	var stop int32
	var wg sync.WaitGroup
	var raceBad int32
	if d.Racing && len(d.Queries) > 0 {
		wg.Add(1)
		go func() {
			defer wg.Done()
			for i := 0; atomic.LoadInt32(&stop) == 0; i++ {
				if _, kind := e.query(d.Queries[i%len(d.Queries)]); kind != 0 {
					atomic.StoreInt32(&raceBad, int32(kind))
				}
			}
		}()
	}
	if d.Backlog {
		if !e.applyBacklog(d.Muts, dist) {
			*impl = append(*impl, ImplViolation{What: "backlog scenario: the writer did not finish after the stalled index task was released (writer or index queue hung)", Desc: d, Tags: []string{"backlog"}})
		}
	} else {
		e.applyAll(d.Muts)
	}
	e.qs.Flush()
	atomic.StoreInt32(&stop, 1)
	wg.Wait()
	if raceBad != 0 {
		*impl = append(*impl, ImplViolation{What: fmt.Sprintf("a query racing with index maintenance failed (kind %d: 1 error, 2 panic)", raceBad), Desc: d})
	}
	var foreign []string
	for _, h := range d.Foreign {
		k, _ := hex.DecodeString(h)
		foreign = append(foreign, string(k))
		e.db.Update(func(txn *badger.Txn) error { return txn.Set(k, nil) })
	}
	stored := e.stored()
	vals := e.storedVals()
	keys := BList(e.indexKeys())
	var qos []string
	nonEmpty, multi := 0, 0
	for _, q := range d.Queries {
		ids, kind := e.query(q)
		qos = append(qos, "QO "+q.coq()+" "+outcomeCoq(ids, kind))
		if len(ids) > 0 {
			nonEmpty++
		}
		if len(ids) > 1 {
			multi++
		}
		if kind != 0 {
			dist["query_error"]++
		}
	}
	if !d.Unprefixed && len(d.Foreign) == 0 && len(d.Muts)%5 == 0 {
		// RebuildIndexes on a flushed store must reproduce the key space
		if err := e.qs.RebuildIndexes(); err != nil || BList(e.indexKeys()) != keys {
			*impl = append(*impl, ImplViolation{What: fmt.Sprintf("QueryStore.RebuildIndexes does not reproduce the index key space of the flushed store (error %v)", err), Desc: d, Tags: []string{"rebuild"}})
		}
		dist["rebuild_index_checks"]++
	}
	dist["queries"] += len(d.Queries)
	dist["queries_nonempty_result"] += nonEmpty
	dist["queries_multi_result"] += multi
	var ms []string
	for _, m := range d.Muts {
		ms = append(ms, m.coq())
	}
	var c Case
	c.Desc = d
	c.Term = "C13 " + List(ms) + " " + stored + " " + B(e.vp) + " " + keys + " " + BList(foreign) + " " + List(qos)
	c.Nontrivial = multi > 0 && len(vals) >= 2
	if hasNulKey(vals) {
		c.Tags = append(c.Tags, "nul-in-key")
		dist["cases_nul_in_key"]++
	}
	return c
}

var qdist map[string]int

func genQueries(r *Rng, ms []mut, full bool, n int) []qd {
	pv := prefixVariants(r, ms)
	var qs []qd
	if full {
		for i := 0; i < 2; i++ {
			for _, p := range pv {
				for f := 0; f < 2; f++ {
					ff := f * (1 + r.Intn(3))
					for o := 0; o <= 3; o++ {
						for l := -1; l <= 3; l++ {
							for _, rev := range []bool{false, true} {
								qs = append(qs, qd{I: i, P: hex.EncodeToString([]byte(p)), F: ff, O: o, L: l, R: rev})
							}
						}
					}
				}
			}
		}
		return qs
	}
	for len(qs) < n {
		f := 0
		if r.Chance(40) {
			f = 1 + r.Intn(3)
		}
		o := r.Intn(4)
		if r.Chance(5) {
			o = -1
		}
		l := r.Intn(5) - 1
		if r.Chance(3) {
			l = -3
		}
		pk := r.Intn(len(pv))
		if r.Chance(50) {
			pk = r.Intn(3) // empty / partial / full: the prefixes that select something
		}
		if qdist != nil {
			qdist["prefix_"+prefixKinds[pk]]++
			if f != 0 {
				qdist["with_filter"]++
			}
			switch {
			case l < 0:
				qdist["limit_negative"]++
			case l == 0:
				qdist["limit_zero"]++
			}
		}
		rev := r.Bool()
		if rev && qdist != nil {
			qdist["reverse"]++
		}
		qs = append(qs, qd{I: r.Intn(2), P: hex.EncodeToString([]byte(pv[pk])), F: f, O: o, L: l, R: rev})
	}
	return qs
}

// gatedApply applies a mutation whose index task is to stop at gate g.  true: the writer returned and the gate
// is held by the index worker (the situation the scenarios need).  false: the gate was entered on the WRITER's
// goroutine (the store calls Index.Key inside the write), so nothing is queued that a Flush could wait for; the
// gate is released at once and the scenario is skipped.
func (e *env) gatedApply(m mut, g *gateT, dist map[string]int) bool {
	done := make(chan struct{})
	go func() { e.apply(m); close(done) }()
	select {
	case <-g.entered:
	case <-time.After(5 * time.Second):
	}
	select {
	case <-done:
		return true
	case <-time.After(300 * time.Millisecond):
	}
	gate.Store((*gateT)(nil))
	gate2.Store((*gateT)(nil))
	close(g.release)
	<-done
	dist["gate_entered_on_the_writer_goroutine"]++
	return false
}

// Flush must not return while an index task accepted before it still runs: hold
// the task inside the user Key callback, call Flush, release.
func flushRace(impl *[]ImplViolation, dist map[string]int) {
	e := newEnv()
	defer e.close()
	e.apply(mut{Op: "c", ID: "1", A: "61", BNil: true})
	e.qs.Flush()
	g := &gateT{entered: make(chan struct{}), release: make(chan struct{})}
	gate.Store(g)
	if !e.gatedApply(mut{Op: "u", ID: "1", A: "62", BNil: true}, g, dist) {
		return
	}
	desc := map[string]interface{}{"scenario": "flush-race", "history": "create 1 {A:a}; Flush; update 1 {A:b} with Index.Key blocked; Flush"}
	select {
	case <-g.entered:
	case <-time.After(5 * time.Second):
		gate.Store((*gateT)(nil))
		*impl = append(*impl, ImplViolation{What: "harness lost the index task (Index.Key gate never entered)", Desc: desc})
		return
	}
	done := make(chan struct{})
	go func() { e.qs.Flush(); close(done) }()
	early := false
	select {
	case <-done:
		early = true
	case <-time.After(60 * time.Millisecond):
	}
	var staleIDs []string
	if early {
		staleIDs, _ = e.query(qd{I: 0, P: "62", L: -1})
	}
	close(g.release)
	select {
	case <-done:
	case <-time.After(5 * time.Second):
		*impl = append(*impl, ImplViolation{What: "QueryStore.Flush did not return after the index task finished", Desc: desc})
		return
	}
	dist["flush_race_runs"]++
	if early {
		*impl = append(*impl, ImplViolation{What: fmt.Sprintf("QueryStore.Flush returned while an index task accepted before the call was still running (query for the new key returned %v)", staleIDs), Desc: desc, Tags: []string{"flush-race"}})
		return
	}
	if ids, _ := e.query(qd{I: 0, P: "62", L: -1}); len(ids) != 1 {
		*impl = append(*impl, ImplViolation{What: "after Flush the index does not reflect the mutation", Desc: desc})
	}
}

// genBig: n values that all carry index key "kk" (index "k") - and every third one also key "kk" of index "kb" -
// so that one prefix holds n entries ordered by id.  The ids are laid out so that at the scan positions 255-258,
// 511-514, 767-... (forward and, by symmetry of the construction, reverse) sit ids in prefix relation: "b" followed
// by "b0".."b9", "1" followed by "10", "100".  Queries: whole prefix / full key, forward and reverse, offsets and
// limits crossing multiples of 256, with and without key filter.
func genBig(r *Rng, n int) c13desc {
	var ids []string
	block := 0
	for len(ids) < n {
		// plain ids up to just before the next multiple of 256, then a cluster of ids extending each other
		next := (len(ids)/256+1)*256 - 1 - r.Intn(2)
		for len(ids) < next && len(ids) < n {
			ids = append(ids, fmt.Sprintf("%c%03d", 'a'+2*block, len(ids)))
		}
		stem := string(rune('b' + 2*block))
		cluster := []string{stem}
		for k := 0; k < 6; k++ {
			cluster = append(cluster, stem+strconv.Itoa(k))
		}
		cluster = append(cluster, stem+"00", stem+"1x")
		for _, id := range cluster {
			if len(ids) < n {
				ids = append(ids, id)
			}
		}
		block++
	}
	// creation order shuffled, plus a few updates and deletes that keep the population
	perm := make([]string, len(ids))
	copy(perm, ids)
	for i := len(perm) - 1; i > 0; i-- {
		j := r.Intn(i + 1)
		perm[i], perm[j] = perm[j], perm[i]
	}
	kk := hex.EncodeToString([]byte("kk"))
	var ms []mut
	for i, id := range perm {
		m := mut{Op: "c", ID: id, A: kk, BNil: i%3 != 0, B: kk}
		if m.BNil {
			m.B = ""
		}
		ms = append(ms, m)
	}
	for k := 0; k < 6; k++ {
		id := perm[r.Intn(len(perm))]
		ms = append(ms, mut{Op: "u", ID: id, A: hex.EncodeToString([]byte("zz")), BNil: true}, mut{Op: "u", ID: id, A: kk, BNil: true})
	}
	var qs []qd
	for _, p := range []string{"", "kk", "k"} {
		ph := hex.EncodeToString([]byte(p))
		for _, rev := range []bool{false, true} {
			qs = append(qs, qd{P: ph, L: -1, R: rev})
		}
	}
	offs := []int{0, 250, 255, 256, 257, 300, 510, 512, 513, 770}
	lims := []int{-1, 1, 3, 12, 300}
	for k := 0; k < 24; k++ {
		qs = append(qs, qd{I: r.Intn(3) / 2, P: hex.EncodeToString([]byte(r.Pick([]string{"", "kk"}))), F: r.Intn(2) * (1 + 2*r.Intn(2)),
			O: offs[r.Intn(len(offs))], L: lims[r.Intn(len(lims))], R: r.Bool()})
	}
	return c13desc{Muts: ms, Queries: qs, Big: true}
}

// flushOverlap: overlapping QueryStore.Flush calls.  The index worker is stalled inside Index.Key (task of an
// update), then the actors start one after the other, each on its own goroutine: a flusher just calls Flush, a
// writer commits a create and then calls Flush.  The first gate is released; the index task of the LAST writer is
// held by a second gate for a while.  Whoever is last takes, right after its own Flush returned, the stored
// values, the key space and some queries: they must reflect every mutation committed before that Flush call.
//   1: flusher, writer      2: writer, flusher      3: writer, writer      4: flusher, writer, writer
func flushOverlap(variant int, dist map[string]int, impl *[]ImplViolation) Case {
	e := newEnv()
	defer e.close()
	type actor struct{ m *mut }
	w := func(id, key string) actor {
		return actor{&mut{Op: "c", ID: id, A: hex.EncodeToString([]byte(key)), BNil: true}}
	}
	var actors []actor
	switch variant {
	case 1:
		actors = []actor{{}, w("2", "c")}
	case 2:
		actors = []actor{w("2", "c"), {}}
	case 3:
		actors = []actor{w("2", "c"), w("3", "d")}
	default:
		variant = 4
		actors = []actor{{}, w("2", "c"), w("3", "d")}
	}
	muts := []mut{{Op: "c", ID: "1", A: "61", BNil: true}, {Op: "u", ID: "1", A: "62", BNil: true}}
	lastKey := []byte("c")
	for _, a := range actors {
		if a.m != nil {
			muts = append(muts, *a.m)
			lastKey, _ = hex.DecodeString(a.m.A)
		}
	}
	queries := []qd{{L: -1}, {P: "63", L: -1}, {P: "64", L: -1}, {L: -1, R: true}, {P: "62", L: 2}, {I: 1, L: -1}}
	d := c13desc{Muts: muts, Queries: queries, Overlap: variant}
	var c Case
	c.Desc = d
	e.apply(muts[0])
	e.qs.Flush()
	g1 := &gateT{entered: make(chan struct{}), release: make(chan struct{}), key: []byte("b")}
	g2 := &gateT{entered: make(chan struct{}), release: make(chan struct{}), key: lastKey}
	gate.Store(g1)
	gate2.Store(g2)
	if !e.gatedApply(muts[1], g1, dist) {
		return Case{Term: "C13 [] [] [] [] [] []", Desc: d}
	}
	var stored, keys string
	var qos []string
	dones := make([]chan struct{}, len(actors))
	for i, a := range actors {
		i, a := i, a
		dones[i] = make(chan struct{})
		go func() {
			defer close(dones[i])
			if a.m != nil {
				e.apply(*a.m)
			}
			e.qs.Flush()
			if i == len(actors)-1 {
				stored = e.stored()
				keys = BList(e.indexKeys())
				for _, q := range queries {
					ids, kind := e.query(q)
					qos = append(qos, "QO "+q.coq()+" "+outcomeCoq(ids, kind))
				}
			}
		}()
		time.Sleep(30 * time.Millisecond) // let it queue its index task / Flush sentinel before the next actor starts
	}
	close(g1.release)
	last := dones[len(actors)-1]
	select {
	case <-last:
		dist["overlap_last_flush_returned_while_its_index_task_was_held"]++
	case <-time.After(150 * time.Millisecond):
	}
	gate.Store((*gateT)(nil))
	gate2.Store((*gateT)(nil))
	close(g2.release)
	for _, dn := range dones {
		select {
		case <-dn:
		case <-time.After(10 * time.Second):
			*impl = append(*impl, ImplViolation{What: "overlapping Flush: a Flush call did not return after the index tasks were released", Desc: d, Tags: []string{"flush-overlap"}})
			return Case{Term: "C13 [] [] [] [] [] []", Desc: d}
		}
	}
	var ms []string
	for _, m := range muts {
		ms = append(ms, m.coq())
	}
	c.Term = "C13 " + List(ms) + " " + stored + " " + B(e.vp) + " " + keys + " [] " + List(qos)
	c.Nontrivial = true
	dist["overlapping_flush_scenarios"]++
	return c
}

// freshRace: "fresh object over an existing database, first operations concurrent".  A database is seeded and
// initialised through one Store / QueryStore and reopened; then, 20 times, a FRESH Store object (typed with
// SetType, or untyped: SetType never called) is put over it, Init is called (a no-op: the store is initialised
// already) and at once six transactions run concurrently on different ids - Read+Value, Update, Create, Delete,
// Get, Exists - on the plain Store or on a Store that a fresh QueryStore (two indexes) listens to.
func freshRace(typed, viaQS bool, dist map[string]int) {
	dir, err := os.MkdirTemp("", "verif-index-")
	if err != nil {
		panic(err)
	}
	defer os.RemoveAll(dir)
	open := func() *badger.DB {
		opts := badger.DefaultOptions(dir)
		opts.Logger = nil
		opts.SyncWrites = false
		db, err := badger.Open(opts)
		if err != nil {
			panic(err)
		}
		return db
	}
	mkVal := func(a string) interface{} {
		if typed {
			return val{A: []byte(a)}
		}
		return map[string]interface{}{"A": a}
	}
	keyOf := func(field string) func(interface{}) []byte {
		return func(v interface{}) []byte {
			if typed {
				if field == "A" {
					return append([]byte{}, v.(val).A...)
				}
				return v.(val).B
			}
			m, _ := v.(map[string]interface{})
			if s, ok := m[field].(string); ok {
				return []byte(s)
			}
			return nil
		}
	}
	mkStore := func(db *badger.DB) (*badgerstore.Store, *badgerstore.QueryStore) {
		st := badgerstore.NewStore(db)
		if typed {
			st.SetType(val{})
		}
		st.SetPrefix("v")
		var qs *badgerstore.QueryStore
		if viaQS {
			var shared *badgerstore.IndexQuery
			qs = badgerstore.NewQueryStore(st, func(*badgerstore.QueryStore, url.Values) (*badgerstore.IndexQuery, error) { return shared, nil }).
				AddIndex(badgerstore.Index{Name: "k", Key: keyOf("A")}).
				AddIndex(badgerstore.Index{Name: "kb", Key: keyOf("B")})
			shared = &badgerstore.IndexQuery{Index: qs.Index("k"), Limit: -1}
		}
		return st, qs
	}
	ids := []string{"1", "2", "3", "4", "5", "6"}
	db := open()
	st0, qs0 := mkStore(db)
	st0.Init(func(add func(id string, v interface{})) error {
		for _, id := range ids {
			add(id, mkVal("a"+id))
		}
		return nil
	})
	if qs0 != nil {
		qs0.Flush()
	}
	db.Close()
	db = open()
	defer db.Close()
	for round := 0; round < 20; round++ {
		st, qs := mkStore(db)
		st.Init(func(func(id string, v interface{})) error { return nil }) // initialised already: returns early
		start := make(chan struct{})
		var wg sync.WaitGroup
		run := func(f func()) {
			wg.Add(1)
			go func() { defer wg.Done(); <-start; f() }()
		}
		run(func() { r := st.Read("1"); r.Value(); r.Close() })
		run(func() { w := st.Write("2"); w.Update(mkVal(fmt.Sprintf("u%d", round))); w.Close() })
		run(func() { w := st.Write(fmt.Sprintf("n%d", round)); w.Create(mkVal("c")); w.Close() })
		run(func() { w := st.Write("3"); w.Delete(); w.Create(mkVal("d")); w.Close() })
		run(func() { st.Get("4") })
		run(func() { r := st.Read("5"); r.Exists(); r.Close() })
		if qs != nil {
			run(func() { qs.Query(nil) })
		}
		close(start)
		wg.Wait()
		if qs != nil {
			qs.Flush()
		}
	}
	dist["fresh_object_rounds"] += 20
}

// sameResourceOverlap: a query resource served by store.QueryHandler whose pattern also carries the
// application's own call handler, plus Service.With callbacks on the same resource.  They are one worker group, so
// they run one at a time and may touch per-resource memory without synchronisation.  Two call requests and a With
// callback are put in flight together (each holds the resource for a few milliseconds), several rounds.
// Returns whether two callbacks of the resource were ever inside at the same time.
func sameResourceOverlap(dist map[string]int) (overlapped bool) {
	e := newEnv()
	defer e.close()
	e.apply(mut{Op: "c", ID: "1", A: "61", BNil: true})
	e.qs.Flush()
	var inside, over int32
	counter := 0 // plain per-resource memory of the application
	enter := func() {
		if atomic.AddInt32(&inside, 1) > 1 {
			atomic.StoreInt32(&over, 1)
		}
		counter++
		time.Sleep(3 * time.Millisecond)
		counter++
		atomic.AddInt32(&inside, -1)
	}
	var logErrs int32
	svc := res.NewService("t")
	svc.SetLogger(nolog{&logErrs})
	svc.Handle("s", res.Collection,
		store.QueryHandler{}.WithQueryStore(e.qs).WithQueryRequestHandler(func(rname string, pp map[string]string, q url.Values) (url.Values, string, error) {
			return q, q.Encode() + "&n=1", nil
		}),
		res.Call("bump", func(r res.CallRequest) {
			enter()
			r.OK(nil)
		}))
	conn := newConn()
	started := make(chan struct{})
	var once sync.Once
	conn.onPub = func(subj string, _ []byte) {
		if subj == "system.reset" {
			once.Do(func() { close(started) })
		}
	}
	go svc.Serve(conn)
	select {
	case <-started:
	case <-time.After(5 * time.Second):
	}
	for round := 0; round < 6; round++ {
		var wg sync.WaitGroup
		for k := 0; k < 2; k++ {
			wg.Add(1)
			go func() { defer wg.Done(); conn.request("call.t.s.bump", []byte(`{}`)) }()
		}
		wg.Add(2)
		go func() { defer wg.Done(); conn.request("get.t.s", []byte(`{"query":"l=-1"}`)) }()
		withDone := make(chan struct{})
		go func() {
			defer wg.Done()
			if svc.With("t.s", func(r res.Resource) { enter(); close(withDone) }) == nil {
				select {
				case <-withDone:
				case <-time.After(5 * time.Second):
				}
			}
		}()
		wg.Wait()
	}
	svc.Shutdown()
	dist["same_resource_callbacks_run"] += counter / 2
	return atomic.LoadInt32(&over) == 1
}

// mainRace (-race-subset): for a -race build.  Concurrent index queries - directly and through a QueryHandler -
// whose IndexQuery callback returns ONE shared *IndexQuery per scenario (negative limit / offset variants; a
// fresh shared value per scenario since a write to it shows on first use), plus a concurrent writer.
func mainRace(o Opts) {
	dist := map[string]int{}
	var impl []ImplViolation
	var cases []Case
	type variant struct{ off, lim int }
	vs := []variant{{0, -1}, {-1, -1}, {-1, 2}, {2, -3}, {0, 3}, {-2, -2}}
	rounds := 2
	if o.Tier == "thorough" {
		rounds = 10
	}
	for k := 0; k < rounds; k++ {
		for _, v := range vs {
			var shared *badgerstore.IndexQuery
			e := newEnvOpt(false, func(qs *badgerstore.QueryStore, _ url.Values) (*badgerstore.IndexQuery, error) {
				return shared, nil
			})
			shared = &badgerstore.IndexQuery{Index: e.qs.Index("k"), Offset: v.off, Limit: v.lim, Reverse: k%2 == 1}
			for i, id := range allIDs {
				e.apply(mut{Op: "c", ID: id, A: hex.EncodeToString([]byte{byte('a' + i)}), BNil: true})
			}
			e.qs.Flush()
			var logErrs int32
			svc := res.NewService("t")
			svc.SetLogger(nolog{&logErrs})
			svc.Handle("all", res.Collection, store.QueryHandler{QueryStore: e.qs})
			svc.Handle("p.$x", res.Collection, store.QueryHandler{QueryStore: e.qs,
				RequestHandler:    func(string, map[string]string) (url.Values, error) { return nil, nil },
				AffectedResources: func(res.Pattern, store.QueryChange) []string { return []string{"t.p.61", "t.p.62"} }})
			conn := newConn()
			started := make(chan struct{})
			var once sync.Once
			conn.onPub = func(subj string, _ []byte) {
				if subj == "system.reset" {
					once.Do(func() { close(started) })
				}
			}
			go svc.Serve(conn)
			select {
			case <-started:
			case <-time.After(5 * time.Second):
			}
			start := make(chan struct{})
			var wg sync.WaitGroup
			for g := 0; g < 4; g++ {
				wg.Add(1)
				go func() {
					defer wg.Done()
					<-start
					for i := 0; i < 150; i++ {
						e.qs.Query(nil)
					}
				}()
			}
			for _, rid := range []string{"t.all", "t.p.61", "t.p.62"} {
				rid := rid
				wg.Add(1)
				go func() {
					defer wg.Done()
					<-start
					for i := 0; i < 40; i++ {
						conn.request("get."+rid, []byte(`{}`))
					}
				}()
			}
			wg.Add(1)
			go func() {
				defer wg.Done()
				<-start
				for i := 0; i < 60; i++ {
					e.apply(mut{Op: "u", ID: allIDs[i%4], A: hex.EncodeToString([]byte{byte('a' + i%7)}), BNil: i%2 == 0, B: "62"})
				}
			}()
			close(start)
			wg.Wait()
			e.qs.Flush()
			svc.Shutdown()
			e.close()
			dist["race_scenarios"]++
			cases = append(cases, Case{Term: "C13 [] [] [] [] [] []", Desc: map[string]interface{}{"scenario": "shared-index-query", "offset": v.off, "limit": v.lim}})
		}
	}
	// the application's own callbacks on the pattern of a query QueryHandler
	for k := 0; k < 2; k++ {
		if sameResourceOverlap(dist) {
			impl = append(impl, ImplViolation{What: "two callbacks of one resource (call handler / With callback on the pattern of a query QueryHandler) ran at the same time", Desc: "same-resource-overlap", Tags: []string{"callback-overlap"}})
		}
		dist["race_scenarios"]++
		cases = append(cases, Case{Term: "C13 [] [] [] [] [] []", Desc: map[string]interface{}{"scenario": "same-resource-callbacks"}})
	}
	// fresh Store / QueryStore objects over an existing, initialised database: first operations concurrent
	for _, typed := range []bool{false, true} {
		for _, viaQS := range []bool{false, true} {
			freshRace(typed, viaQS, dist)
			dist["race_scenarios"]++
			cases = append(cases, Case{Term: "C13 [] [] [] [] [] []", Desc: map[string]interface{}{"scenario": "fresh-object-first-operations", "typed": typed, "query_store": viaQS}})
		}
	}
	Emit(o, "C13", "From GoRes Require Import Run.Run_C13.", "c13case",
		"race-detector subset: concurrent index queries (4 goroutines directly, 3 through store.QueryHandler get requests) sharing one *IndexQuery returned by the query callback, with a concurrent writer; and fresh Store / QueryStore objects (typed and untyped, 20 each) put over an existing initialised database whose first six transactions (Read+Value, Update, Create, Delete+Create, Get, Exists, and a query) run concurrently on different ids; outputs are not compared",
		cases, dist, nil, impl, 40)
}

func mainC13(o Opts, nul bool) {
	r := NewRng(o.Seed)
	var cases []Case
	dist := map[string]int{}
	qdist = dist
	var impl []ImplViolation
	if o.Replay != "" {
		var d c13desc
		if err := LoadReplay(o.Replay, &d); err != nil {
			panic(err)
		}
		if len(d.Muts) == 0 && len(d.Queries) == 0 {
			flushRace(&impl, dist)
		} else {
			cases = append(cases, runC13(d, dist, &impl))
		}
	} else {
		n, nq, races := 150, 90, 3
		if o.Tier == "thorough" {
			n, nq, races = 1500, 0, 20
		}
		if o.N > 0 {
			n = o.N
		}
		for i := 0; i < n; i++ {
			hl := 1 + r.Intn(30)
			if i < 12 {
				hl = 1 + i/3
			}
			useNul := nul && i%9 == 4
			unpref := !useNul && i%3 == 2
			ms := genHistory(r, hl, useNul)
			if unpref {
				ms = genHistoryIDs(r, hl, false, succIDs)
				dist["histories_unprefixed_store_successor_ids"]++
			}
			full := o.Tier == "thorough" && i%10 == 0
			if o.Tier == "thorough" && !full {
				nq = 150
			}
			d := c13desc{Muts: ms, Queries: genQueries(r, ms, full, nq), Racing: i%4 == 1, Unprefixed: unpref}
			c := runC13(d, dist, &impl)
			dist["histories"]++
			dist["mutations"] += hl
			if c.Nontrivial {
				dist["nontrivial"]++
			}
			cases = append(cases, c)
		}
		// large index populations: scans crossing 256 / 512 / ... entries under one prefix
		bigs := []int{300, 540}
		if o.Tier == "thorough" {
			bigs = []int{300, 540, 800, 1100, 1100}
		}
		if o.N > 0 && o.N < 20 {
			bigs = nil
		}
		for _, bn := range bigs {
			c := runC13(genBig(r, bn), dist, &impl)
			dist["big_population_histories"]++
			dist["big_population_entries"] += bn
			cases = append(cases, c)
		}
		// a key under an index prefix that is no index entry: the error path of FetchCollection / Query
		for fi, fk := range []string{"k:zz", "kb:a"} {
			ms := genHistory(r, 6+fi, false)
			qs := genQueries(r, ms, false, 40)
			qs = append(qs, qd{I: fi, L: -1}, qd{I: fi, L: -1, R: true}, qd{I: 1 - fi, L: -1})
			d := c13desc{Muts: ms, Queries: qs, Foreign: []string{hex.EncodeToString([]byte(fk))}}
			cases = append(cases, runC13(d, dist, &impl))
			dist["histories_with_malformed_foreign_key"]++
		}
		// backlog histories: > 256 outstanding index tasks, further key-changing writes and deletes on ids
		// that still have an unapplied change queued, release, Flush, then the usual queries
		backlog := []int{330, 560}
		if o.Tier == "thorough" {
			backlog = []int{300, 420, 560, 800, 1200, 2000}
		}
		if o.N > 0 && o.N < 20 {
			backlog = nil
		}
		for bi, bn := range backlog {
			ms := genHistory(r, bn, false)
			d := c13desc{Muts: ms, Queries: genQueries(r, ms, false, 120), Racing: bi%2 == 1, Backlog: true}
			c := runC13(d, dist, &impl)
			dist["backlog_histories"]++
			dist["mutations"] += bn
			if c.Nontrivial {
				dist["nontrivial"]++
			}
			cases = append(cases, c)
		}
		for i := 0; i < races; i++ {
			flushRace(&impl, dist)
		}
		// overlapping Flush calls from several goroutines, a mutation queued between them
		rounds := 1
		if o.Tier == "thorough" {
			rounds = 5
		}
		for k := 0; k < rounds; k++ {
			for v := 1; v <= 4; v++ {
				cases = append(cases, flushOverlap(v, dist, &impl))
			}
		}
	}
	Emit(o, "C13", "From GoRes Require Import Run.Run_C13.", "c13case",
		"random mutation histories (1-30 creates / key-changing and key-keeping updates / deletes / failing operations over 4 ids, two indexes, one with nil keys) on a real BadgerDB, Flush, then index queries: prefix (empty, partial, full key, longer, containing NUL / ':' / 0xFF) x key filter x offset -1..3 x limit -3..3 x Reverse; every fourth history with queries racing the index maintenance; backlog histories (one writer issues 300-600, thorough up to 2000, mutations while the index worker is stalled inside Index.Key so the 256-slot task queue fills up, then release and Flush); every third history on a Store without prefix whose ids include \"k;\" / \"kb;\" (raw value keys exactly equal to the prefix successor a Reverse scan seeks to; the whole key space is compared); large index populations (300 and 540, thorough up to 1100, entries under one key prefix with ids extending each other around scan positions 256 / 512 / 768; offsets and limits crossing those positions, both directions, with and without filter); Flush-race scenario with the index task held in Index.Key; overlapping-Flush scenarios (a flusher / writer+flusher pair or triple in both orders while the index worker is stalled, the last one snapshots values, key space and queries right after its own Flush); non-trivial = at least 2 stored values and a query returning at least 2 ids; distinct by (history, queries)",
		cases, dist, map[string]interface{}{"nul_keys": nul}, impl, 40)
}

// ---------------------------------------------------------------- C14

type subT struct {
	RID string `json:"rid"`
	CQ  string `json:"cq"`
	IsQ bool   `json:"isq"`
	Q   qd     `json:"q"`
}

type c14desc struct {
	Segs     [][]mut `json:"segments"`
	Queries  []qd    `json:"queries"`
	Handlers bool    `json:"handlers"`
	Delayed  bool    `json:"delayed_gateway"` // query requests are sent only after the segment's Flush
	// Backlog: the index consumer is stalled inside Index.Key (first index task) while ONE writer goroutine
	// issues all mutations of the segment (more than the task queue holds), then released.
	Backlog bool   `json:"backlog"`
	// Inject: AffectedResources of "t.p.$x" also returns a resource whose resourceEvent fails (alternately a
	// name no handler serves and a parameter the RequestHandler rejects): 0 never, 1 first, 2 last, 3 between
	// the genuine ones, 4 rotating through 1-3 from call to call.
	Inject int    `json:"inject_failing_resource"`
	Subs   []subT `json:"subs"`
	// observations only (not an input): AffectedResources calls where a resource announced before the failing
	// one was not reset (legitimate when the change does not affect it)
	NoReset []interface{} `json:"observed_not_reset_before_failing,omitempty"`
}

type cbRec struct {
	n             int
	id            string
	before, after interface{}
	results       []string
	affected      []bool
}

type pubRec struct{ kind, rid string }

type ar2call struct {
	change string
	rids   []string
	fail   int // index of the failing resource, -1 none
	pos    int
}

type respRec struct {
	sub, evt, kind int
	val            string // Coq term of the rvalue
}

type segRec struct {
	changes []string
	chIDs   []string
	cbs     []cbRec
	pubs    []pubRec
	ar2     []string
	ar2pos  []int
	ar2log  []ar2call
	ar4     []string
	resps   []respRec
}

// ---- recording connection (implements res.Conn) and a minimal gateway

type rsub struct {
	parts []string
	fwc   bool
	ch    chan *nats.Msg
}

func (s *rsub) matches(subj string) bool {
	mp := strings.Split(subj, ".")
	if len(mp) < len(s.parts) || (!s.fwc && len(mp) != len(s.parts)) {
		return false
	}
	for i := range s.parts {
		if s.parts[i] != mp[i] && s.parts[i] != "*" {
			return false
		}
	}
	return true
}

type rconn struct {
	mu      sync.Mutex
	subs    []*rsub
	replies map[string]chan []byte
	n       int
	onPub   func(subj string, payload []byte)
}

func newConn() *rconn { return &rconn{replies: map[string]chan []byte{}} }

func (c *rconn) Publish(subj string, payload []byte) error {
	c.mu.Lock()
	ch := c.replies[subj]
	f := c.onPub
	c.mu.Unlock()
	if ch != nil {
		ch <- append([]byte{}, payload...)
		return nil
	}
	if f != nil {
		f(subj, payload)
	}
	return nil
}
func (c *rconn) PublishRequest(subj, reply string, data []byte) error { return nil }
func (c *rconn) ChanSubscribe(subj string, ch chan *nats.Msg) (*nats.Subscription, error) {
	return c.ChanQueueSubscribe(subj, "", ch)
}
func (c *rconn) ChanQueueSubscribe(subj, queue string, ch chan *nats.Msg) (*nats.Subscription, error) {
	s := &rsub{ch: ch}
	s.fwc = subj == ">" || strings.HasSuffix(subj, ".>")
	s.parts = strings.Split(subj, ".")
	if s.fwc {
		s.parts = s.parts[:len(s.parts)-1]
	}
	c.mu.Lock()
	c.subs = append(c.subs, s)
	c.mu.Unlock()
	return &nats.Subscription{Subject: subj}, nil
}
func (c *rconn) Close() {}

// request delivers a message to the first matching subscription and waits for the reply.
func (c *rconn) request(subj string, payload []byte) ([]byte, bool) {
	c.mu.Lock()
	c.n++
	reply := "_REPLY." + strconv.Itoa(c.n)
	rch := make(chan []byte, 4)
	c.replies[reply] = rch
	var target *rsub
	for _, s := range c.subs {
		if s.matches(subj) {
			target = s
		}
	}
	c.mu.Unlock()
	defer func() {
		c.mu.Lock()
		delete(c.replies, reply)
		c.mu.Unlock()
	}()
	if target == nil {
		return nil, false
	}
	select {
	case target.ch <- &nats.Msg{Subject: subj, Reply: reply, Data: payload}:
	case <-time.After(5 * time.Second):
		return nil, false
	}
	for {
		select {
		case b := <-rch:
			if strings.HasPrefix(string(b), "timeout:") {
				continue
			}
			return b, true
		case <-time.After(5 * time.Second):
			return nil, false
		}
	}
}

type nolog struct{ errs *int32 }

func (l nolog) Infof(string, ...interface{})  {}
func (l nolog) Tracef(string, ...interface{}) {}
func (l nolog) Errorf(f string, v ...interface{}) {
	atomic.AddInt32(l.errs, 1)
}

type wireResp struct {
	Result *struct {
		Collection json.RawMessage    `json:"collection"`
		Model      json.RawMessage    `json:"model"`
		Events     *[]json.RawMessage `json:"events"`
	} `json:"result"`
	Error *json.RawMessage `json:"error"`
}

// responses carrying "collection":null (FetchCollection returned a nil slice for
// Limit == 0 before fix 8791deb and QueryHandler passed it on); read as the
// empty collection, counted.
var nullCollections, nullSeen int32

// a collection / model member: an id string or a resource reference {"rid":"..."}
func member(b json.RawMessage) (string, bool) {
	var s string
	if json.Unmarshal(b, &s) == nil {
		return s, true
	}
	var r struct {
		RID *string `json:"rid"`
	}
	if json.Unmarshal(b, &r) == nil && r.RID != nil {
		return *r.RID, true
	}
	return "", false
}

const emptyColl = "(VColl [])"

// parse a get / query response: kind 0 no events, 1 collection or model, 2 error;
// the value as a Coq rvalue term
func parseResp(b []byte, ok bool) (int, string) {
	if !ok {
		return 2, emptyColl
	}
	var w wireResp
	if err := json.Unmarshal(b, &w); err != nil || w.Result == nil {
		return 2, emptyColl
	}
	// the value is read by its JSON shape (a handler may send an id list as "model" or a map as "collection"
	// when its resource type does not fit its transformer)
	raw := w.Result.Collection
	if len(raw) == 0 {
		raw = w.Result.Model
	}
	if len(raw) > 0 {
		if string(raw) == "null" {
			atomic.AddInt32(&nullCollections, 1)
			return 1, emptyColl
		}
		var arr []json.RawMessage
		if json.Unmarshal(raw, &arr) == nil {
			var ids []string
			for _, m := range arr {
				v, ok := member(m)
				if !ok {
					return 2, emptyColl
				}
				ids = append(ids, v)
			}
			return 1, "(VColl " + BList(ids) + ")"
		}
		var obj map[string]json.RawMessage
		if json.Unmarshal(raw, &obj) == nil && obj != nil {
			m := map[string]string{}
			for k, x := range obj {
				v, ok := member(x)
				if !ok {
					return 2, emptyColl
				}
				m[k] = v
			}
			return 1, "(VModel " + AMap(m) + ")"
		}
		return 2, emptyColl
	}
	if w.Result.Events != nil && len(*w.Result.Events) == 0 {
		return 0, emptyColl
	}
	return 2, emptyColl
}

func itemRef(id string) string { return "t.item." + id }

func natList(xs []int) string {
	ys := make([]string, len(xs))
	for i, x := range xs {
		ys[i] = Nat(x)
	}
	return List(ys)
}

func firstByteRID(k []byte) (string, bool) {
	if len(k) == 0 {
		return "", false
	}
	return "t.p." + hex.EncodeToString(k[:1]), true
}

func runC14(d c14desc, dist map[string]int, impl *[]ImplViolation) Case {
	e := newEnv()
	var mu sync.Mutex
	seg := &segRec{}
	var gwWG sync.WaitGroup
	hang := false

	// Store.OnChange reports
	e.st.OnChange(func(id string, before, after interface{}) {
		mu.Lock()
		seg.changes = append(seg.changes, "("+B(id)+","+ovalCoq(before)+","+ovalCoq(after)+")")
		seg.chIDs = append(seg.chIDs, id)
		mu.Unlock()
	})
	// two recording callbacks
	for n := 0; n < 2; n++ {
		n := n
		e.qs.OnQueryChange(func(qc store.QueryChange) {
			rec := cbRec{n: n, id: qc.ID(), before: qc.Before(), after: qc.After()}
			for _, q := range d.Queries {
				ids, kind := e.query(q)
				rec.results = append(rec.results, outcomeCoq(ids, kind))
				_, aff, err := qc.Events(q.values())
				if err != nil {
					aff = false
					dist["events_error"]++
				}
				rec.affected = append(rec.affected, aff)
			}
			mu.Lock()
			seg.cbs = append(seg.cbs, rec)
			mu.Unlock()
		})
	}

	var svc *res.Service
	var conn *rconn
	var logErrs int32
	evtCount := map[string]int{}
	arCalls := 0
	var pending []func()
	if d.Handlers {
		svc = res.NewService("t")
		svc.SetLogger(nolog{&logErrs})
		svc.SetQueryEventDuration(3 * time.Second)
		svc.Handle("all", res.Collection, store.QueryHandler{QueryStore: e.qs,
			RequestHandler: func(rname string, pp map[string]string) (url.Values, error) {
				return qd{L: -1}.values(), nil
			}})
		svc.Handle("p.$x", res.Collection, store.QueryHandler{QueryStore: e.qs,
			Transformer: store.IDToRIDCollectionTransformer(itemRef),
			RequestHandler: func(rname string, pp map[string]string) (url.Values, error) {
				if _, err := hex.DecodeString(pp["x"]); err != nil {
					return nil, errors.New("invalid path parameter")
				}
				return qd{P: pp["x"], L: -1}.values(), nil
			},
			AffectedResources: func(p res.Pattern, qc store.QueryChange) []string {
				var rids, recs []string
				for _, v := range []interface{}{qc.Before(), qc.After()} {
					if v == nil {
						continue
					}
					if rid, ok := firstByteRID(keyA(v)); ok {
						rids = append(rids, rid)
						recs = append(recs, "("+B(rid)+",(Some "+qd{P: rid[len("t.p."):], L: -1}.coq()+"))")
					}
				}
				mu.Lock()
				defer mu.Unlock()
				fail := -1
				if d.Inject != 0 {
					arCalls++
					bad := "t.nosuch.x" // no handler serves it: Service.Resource fails
					if arCalls%2 == 0 {
						bad = "t.p.zz" // served, but the RequestHandler rejects the parameter
					}
					mode := d.Inject
					if mode == 4 {
						mode = 1 + arCalls%3
					}
					switch {
					case mode == 1:
						fail = 0
					case mode == 3 && len(rids) >= 2:
						fail = 1
					default:
						fail = len(rids)
					}
					rids = append(rids[:fail:fail], append([]string{bad}, rids[fail:]...)...)
					recs = append(recs[:fail:fail], append([]string{"(" + B(bad) + ",None)"}, recs[fail:]...)...)
				}
				seg.ar2 = append(seg.ar2, List(recs))
				seg.ar2pos = append(seg.ar2pos, len(seg.pubs))
				seg.ar2log = append(seg.ar2log, ar2call{change: qc.ID(), rids: append([]string{}, rids...), fail: fail, pos: len(seg.pubs)})
				return rids
			}})
		svc.Handle("q", res.Collection, store.QueryHandler{QueryStore: e.qs,
			QueryRequestHandler: func(rname string, pp map[string]string, q url.Values) (url.Values, string, error) {
				return q, q.Encode(), nil
			}})
		svc.Handle("qp.$i", res.Model, store.QueryHandler{QueryStore: e.qs,
			Transformer: store.IDToRIDModelTransformer(itemRef),
			QueryRequestHandler: func(rname string, pp map[string]string, q url.Values) (url.Values, string, error) {
				q2 := url.Values{}
				for k, v := range q {
					q2[k] = v
				}
				q2.Set("i", pp["i"])
				return q2, q.Encode(), nil
			},
			AffectedResources: func(p res.Pattern, qc store.QueryChange) []string {
				rids := []string{"t.qp.0", "t.qp.1"}
				mu.Lock()
				seg.ar4 = append(seg.ar4, BList(rids))
				mu.Unlock()
				return rids
			}})
		conn = newConn()
		started := make(chan struct{})
		var once sync.Once
		conn.onPub = func(subj string, payload []byte) {
			if os.Getenv("VERIF_DEBUG") != "" {
				fmt.Fprintf(os.Stderr, "PUB %s %s\n", subj, payload)
			}
			switch {
			case subj == "system.reset":
				var ev struct {
					Resources []string `json:"resources"`
				}
				json.Unmarshal(payload, &ev)
				for _, rid := range ev.Resources {
					if strings.HasSuffix(rid, ">") { // the reset of the whole service sent by Serve
						once.Do(func() { close(started) })
						return
					}
				}
				mu.Lock()
				for _, rid := range ev.Resources {
					seg.pubs = append(seg.pubs, pubRec{"PReset", rid})
				}
				mu.Unlock()
			case strings.HasPrefix(subj, "event.") && strings.HasSuffix(subj, ".query"):
				rid := subj[len("event.") : len(subj)-len(".query")]
				var ev struct {
					Subject string `json:"subject"`
				}
				json.Unmarshal(payload, &ev)
				mu.Lock()
				seg.pubs = append(seg.pubs, pubRec{"PQueryEvent", rid})
				ord := evtCount[rid]
				evtCount[rid]++
				cur := seg
				mu.Unlock()
				// the gateway: one query request per client query subscribed on rid,
				// at once or (delayed mode) only after the segment's Flush
				for i, s := range d.Subs {
					if !s.IsQ || s.RID != rid {
						continue
					}
					i, s := i, s
					ask := func() {
						defer gwWG.Done()
						pl, _ := json.Marshal(map[string]string{"query": s.CQ})
						b, ok := conn.request(ev.Subject, pl)
						kind, v := parseResp(b, ok)
						mu.Lock()
						if !ok {
							hang = true
						}
						cur.resps = append(cur.resps, respRec{i, ord, kind, v})
						mu.Unlock()
					}
					gwWG.Add(1)
					if d.Delayed {
						mu.Lock()
						pending = append(pending, ask)
						mu.Unlock()
					} else {
						go ask()
					}
				}
			default:
				mu.Lock()
				seg.pubs = append(seg.pubs, pubRec{"PReset", "unexpected:" + subj})
				mu.Unlock()
			}
		}
		go svc.Serve(conn)
		select {
		case <-started:
		case <-time.After(5 * time.Second):
			*impl = append(*impl, ImplViolation{What: "service did not start on the recording connection", Desc: d})
		}
	}

	fresh := func() []string {
		var out []string
		for _, s := range d.Subs {
			pl := []byte(`{}`)
			if s.IsQ {
				pl, _ = json.Marshal(map[string]string{"query": s.CQ})
			}
			b, ok := conn.request("get."+s.RID, pl)
			kind, v := parseResp(b, ok)
			if kind == 1 {
				out = append(out, "(Some "+v+")")
			} else {
				out = append(out, "None")
			}
		}
		return out
	}

	var segTerms []string
	nAffT, nAffF, nCbs, nChanged, nResets, nQEv, nRespRes, nRespNo := 0, 0, 0, 0, 0, 0, 0, 0
	prev := make([]string, len(d.Queries))
	for i := range prev {
		prev[i] = "(FOk [])"
	}
	nilkey := false
	for _, ms := range d.Segs {
		mu.Lock()
		seg = &segRec{}
		for k := range evtCount {
			delete(evtCount, k)
		}
		cur := seg
		mu.Unlock()
		if d.Backlog {
			if !e.applyBacklog(ms, dist) {
				*impl = append(*impl, ImplViolation{What: "backlog scenario: the writer did not finish after the stalled index task was released (writer or index queue hung)", Desc: d, Tags: []string{"backlog"}})
			}
		} else {
			e.applyAll(ms)
		}
		e.qs.Flush()
		mu.Lock()
		launch := pending
		pending = nil
		mu.Unlock()
		for _, f := range launch {
			go f()
		}
		gwDone := make(chan struct{})
		go func() { gwWG.Wait(); close(gwDone) }()
		select {
		case <-gwDone:
		case <-time.After(12 * time.Second):
			hang = true
		}
		var results []string
		for i, q := range d.Queries {
			ids, kind := e.query(q)
			o := outcomeCoq(ids, kind)
			results = append(results, o)
			if o != prev[i] {
				nChanged++
			}
			prev[i] = o
		}
		var fr []string
		if d.Handlers {
			fr = fresh()
		}
		storedNow := e.stored()
		mu.Lock()
		var mts, cbs, pubs, resps []string
		for _, m := range ms {
			mts = append(mts, m.coqOrdered(cur.chIDs))
		}
		for _, c := range cur.cbs {
			var affs []string
			for qi, a := range c.affected {
				affs = append(affs, Bool(a))
				if a {
					nAffT++
					// classify the corner the pre-fix affectsQuery got wrong
					q := d.Queries[qi]
					if len(q.prefix()) == 0 && q.I == 1 {
						bn := c.before != nil && c.before.(val).B == nil
						an := c.after != nil && c.after.(val).B == nil
						if bn || an {
							nilkey = true
						}
					}
				} else {
					nAffF++
				}
			}
			nCbs++
			cbs = append(cbs, fmt.Sprintf("CB %s %s %s %s %s %s", Nat(c.n), B(c.id), ovalCoq(c.before), ovalCoq(c.after), List(c.results), List(affs)))
		}
		for _, p := range cur.pubs {
			pubs = append(pubs, p.kind+" "+B(p.rid))
			if p.kind == "PReset" {
				nResets++
			} else {
				nQEv++
			}
		}
		sort.Slice(cur.resps, func(i, j int) bool {
			a, b := cur.resps[i], cur.resps[j]
			if a.evt != b.evt {
				return a.evt < b.evt
			}
			return a.sub < b.sub
		})
		for _, r := range cur.resps {
			resps = append(resps, fmt.Sprintf("RO %s %s %d %s", Nat(r.sub), Nat(r.evt), r.kind, r.val))
			if r.kind == 1 {
				nRespRes++
			} else if r.kind == 0 {
				nRespNo++
			}
		}
		segTerms = append(segTerms, fmt.Sprintf("SG %s %s %s %s %s %s %s %s %s %s %s", List(mts), List(cur.changes), List(cbs), List(results),
			List(pubs), List(cur.ar2), natList(cur.ar2pos), List(cur.ar4), List(resps), List(fr), storedNow))
		// for the replay: announced-before-failing resources that got no reset
		for _, a := range cur.ar2log {
			if a.fail <= 0 {
				continue
			}
			got := map[string]bool{}
			for _, p := range cur.pubs[a.pos:] {
				if p.kind != "PReset" {
					break
				}
				got[p.rid] = true
			}
			for _, rid := range a.rids[:a.fail] {
				if !got[rid] && len(d.NoReset) < 6 {
					d.NoReset = append(d.NoReset, map[string]interface{}{"change_id": a.change, "affected_resources": a.rids, "failing": a.rids[a.fail], "not_reset": rid})
				}
			}
			dist["affected_resources_calls_with_failing_after_genuine"]++
		}
		for _, a := range cur.ar2log {
			if a.fail == 0 {
				dist["affected_resources_calls_with_failing_first"]++
			}
		}
		mu.Unlock()
	}
	sawNull := false
	if n := atomic.LoadInt32(&nullCollections); n > nullSeen {
		nullSeen = n
		sawNull = true // "collection":null on the wire (Limit 0 before fix 8791deb): counted, read as the empty collection
	}
	if hang {
		*impl = append(*impl, ImplViolation{What: "a query request sent on a query event got no response (or the gateway goroutines hung)", Desc: d})
	}
	if svc != nil {
		svc.Shutdown()
	}
	hasNul := hasNulKey(e.storedVals())
	e.close()

	var qsT, subsT []string
	for _, q := range d.Queries {
		qsT = append(qsT, q.coq())
	}
	for _, s := range d.Subs {
		subsT = append(subsT, fmt.Sprintf("SUB %s %s %s %s", B(s.RID), B(s.CQ), Bool(s.IsQ), s.Q.coq()))
	}
	var c Case
	c.Desc = d
	c.Term = fmt.Sprintf("Hist (C14 %s %s %s %s %s %s)", List(qsT), Bool(d.Handlers), Bool(d.Delayed), Bool(d.Inject != 0), List(subsT), List(segTerms))
	c.Nontrivial = nAffT > 0 && nAffF > 0
	if nilkey {
		c.Tags = append(c.Tags, "nilkey-empty-prefix")
		dist["cases_nilkey_empty_prefix"]++
	}
	if hasNul {
		c.Tags = append(c.Tags, "nul-in-key")
	}
	if sawNull {
		c.Tags = append(c.Tags, "null-collection")
		dist["cases_null_collection"]++
	}
	dist["callbacks"] += nCbs
	dist["events_affected_true"] += nAffT
	dist["events_affected_false"] += nAffF
	dist["segment_query_results_changed"] += nChanged
	dist["handler_resets"] += nResets
	dist["handler_query_events"] += nQEv
	dist["query_responses_result"] += nRespRes
	dist["query_responses_no_events"] += nRespNo
	dist["service_logged_errors"] += int(logErrs)
	return c
}

// a backlog case: one segment of n mutations over the 4 ids (many key-changing writes to the same id on both
// sides of the queue capacity), consumer stalled, no handler layer
func genBacklog(r *Rng, n int) c14desc {
	ms := genHistory(r, n, false)
	qs := genQueries(r, ms, false, 6)
	qs[0] = qd{I: 1, P: "", F: 0, O: 0, L: -1}
	qs[1] = qd{I: 0, P: "", F: 0, O: 0, L: -1}
	return c14desc{Segs: [][]mut{ms}, Queries: qs, Backlog: true}
}

// ---------------------------------------------------------------- directed handler scenarios

type evDesc struct {
	Name     string             `json:"name"`  // add remove change or anything else
	Value    string             `json:"value"` // id of an add / remove event
	BadValue bool               `json:"bad_value"` // the Value is a number instead of a string
	Idx      int                `json:"idx"`
	Changed  map[string]*string `json:"changed,omitempty"` // nil value = delete action
}

type dirDesc struct {
	Directed bool     `json:"directed"`
	HasStore bool     `json:"with_query_store"`
	TKind    int      `json:"type"` // 0 unset 1 model 2 collection 3 another value
	Wild     bool     `json:"placeholder_pattern"`
	QRH      int      `json:"query_request_handler"` // 0 unset 1 ok 2 error 3 empty normalized query
	RH       int      `json:"request_handler"`       // 0 unset 1 ok 2 error
	Trans    int      `json:"transformer"`           // 0 none 1 IDToRIDCollectionTransformer 2 IDToRIDModelTransformer
	ARSet    bool     `json:"affected_resources_set"`
	AR       []string `json:"affected_resources"`
	QueryIDs []string `json:"query_ids"`
	QueryErr bool     `json:"query_error"`
	QueryBad bool     `json:"query_not_a_string_slice"` // only with a transformer: TransformResult fails
	EvErr    bool     `json:"events_error"`
	EvReset  bool     `json:"events_reset"`
	Evs      []evDesc `json:"events"`
	Expire   bool     `json:"wait_for_query_event_expiry"`
}

func dRef(id string) string { return "d.i." + id }

func evCoq(name string, value string, isStr bool, idx int, changed map[string]*string) string {
	switch name {
	case "add":
		if !isStr {
			return "EvBad true " + Z(idx)
		}
		return "EvAdd " + B(value) + " " + Z(idx)
	case "remove":
		if !isStr {
			return "EvBad false " + Z(idx)
		}
		return "EvRemove " + B(value) + " " + Z(idx)
	case "change":
		keys := make([]string, 0, len(changed))
		for k := range changed {
			keys = append(keys, k)
		}
		sort.Strings(keys)
		var parts []string
		for _, k := range keys {
			if changed[k] == nil {
				parts = append(parts, "("+B(k)+",None)")
			} else {
				parts = append(parts, "("+B(k)+",Some "+B(*changed[k])+")")
			}
		}
		return "EvChange " + List(parts)
	}
	return "EvOther"
}

// an event as published on the wire (resource event payload or the data of a query response event)
func wireEvent(name string, data []byte) string {
	switch name {
	case "add":
		var a struct {
			Value json.RawMessage `json:"value"`
			Idx   int             `json:"idx"`
		}
		json.Unmarshal(data, &a)
		v, ok := member(a.Value)
		return "(" + evCoq("add", v, ok, a.Idx, nil) + ")"
	case "remove":
		var a struct {
			Idx int `json:"idx"`
		}
		json.Unmarshal(data, &a)
		return "(" + evCoq("remove", "", true, a.Idx, nil) + ")"
	case "change":
		var a struct {
			Values map[string]json.RawMessage `json:"values"`
		}
		json.Unmarshal(data, &a)
		ch := map[string]*string{}
		for k, x := range a.Values {
			if v, ok := member(x); ok {
				v := v
				ch[k] = &v
			} else {
				ch[k] = nil // {"action":"delete"}
			}
		}
		return "(" + evCoq("change", "", true, 0, ch) + ")"
	}
	return "EvOther"
}

func safeCall(f func()) (panicked bool) {
	defer func() {
		if recover() != nil {
			panicked = true
		}
	}()
	f()
	return
}

func runDirected(d dirDesc, dist map[string]int, impl *[]ImplViolation) Case {
	var c Case
	c.Desc = d
	ms := mockstore.NewQueryStore(func(q url.Values) (interface{}, error) {
		switch {
		case d.QueryErr:
			return nil, errors.New("store failure")
		case d.QueryBad:
			return 42, nil
		}
		return append([]string{}, d.QueryIDs...), nil
	})
	qh := store.QueryHandler{}
	if d.HasStore {
		qh = qh.WithQueryStore(ms)
	}
	switch d.QRH {
	case 1:
		qh = qh.WithQueryRequestHandler(func(rname string, pp map[string]string, q url.Values) (url.Values, string, error) {
			return q, q.Encode(), nil
		})
	case 2:
		qh = qh.WithQueryRequestHandler(func(string, map[string]string, url.Values) (url.Values, string, error) {
			return nil, "", &res.Error{Code: "d.invalidQuery", Message: "rejected"}
		})
	case 3:
		qh = qh.WithQueryRequestHandler(func(rname string, pp map[string]string, q url.Values) (url.Values, string, error) {
			return q, "", nil
		})
	}
	switch d.RH {
	case 1:
		qh = qh.WithRequestHandler(func(string, map[string]string) (url.Values, error) { return url.Values{"x": {"1"}}, nil })
	case 2:
		qh = qh.WithRequestHandler(func(string, map[string]string) (url.Values, error) { return nil, errors.New("rejected") })
	}
	switch d.Trans {
	case 1:
		qh = qh.WithTransformer(store.IDToRIDCollectionTransformer(dRef))
	case 2:
		qh = qh.WithTransformer(store.IDToRIDModelTransformer(dRef))
	}
	if d.ARSet {
		qh = qh.WithAffectedResources(func(_ res.Pattern, qc store.QueryChange) []string {
			if qc.ID() != "1" || qc.Before() != nil || qc.After() == nil {
				return nil // the change is handed to the callback as it was triggered
			}
			return append([]string{}, d.AR...)
		})
	}
	var logErrs int32
	svc := res.NewService("d")
	svc.SetLogger(nolog{&logErrs})
	svc.SetQueryEventDuration(40 * time.Millisecond)
	pat := "x"
	if d.Wild {
		pat = "$p"
	}
	opts := []res.Option{qh}
	switch d.TKind {
	case 1:
		opts = append(opts, res.Model)
	case 2:
		opts = append(opts, res.Collection)
	case 3:
		opts = append(opts, res.OptionFunc(func(h *res.Handler) { h.Type = res.ResourceType(7) }))
	}
	setupPanic := safeCall(func() { svc.Handle(pat, opts...) })
	// which announced names the service resolves
	known := map[string]bool{"d.x": true}
	for _, r := range d.AR {
		parts := strings.Split(r, ".")
		if r == "d.x" || (d.Wild && len(parts) == 2 && parts[0] == "d") {
			known[r] = true
		}
	}
	var knownL []string
	for k := range known {
		knownL = append(knownL, k)
	}
	sort.Strings(knownL)

	getTerm, pubsTerm, respsTerm := "None", "[]", "[]"
	changePanic := false
	if !setupPanic {
		var mu sync.Mutex
		var pubs, resps []string
		var gw sync.WaitGroup
		conn := newConn()
		started := make(chan struct{})
		var once sync.Once
		conn.onPub = func(subj string, payload []byte) {
			switch {
			case subj == "system.reset":
				var ev struct {
					Resources []string `json:"resources"`
				}
				json.Unmarshal(payload, &ev)
				for _, rid := range ev.Resources {
					if strings.HasSuffix(rid, ">") {
						once.Do(func() { close(started) })
						return
					}
				}
				mu.Lock()
				for _, rid := range ev.Resources {
					pubs = append(pubs, "PReset "+B(rid))
				}
				mu.Unlock()
			case strings.HasPrefix(subj, "event.") && strings.HasSuffix(subj, ".query"):
				rid := subj[len("event.") : len(subj)-len(".query")]
				var ev struct {
					Subject string `json:"subject"`
				}
				json.Unmarshal(payload, &ev)
				mu.Lock()
				pubs = append(pubs, "PQueryEvent "+B(rid))
				slot := len(resps)
				resps = append(resps, "DRErr")
				mu.Unlock()
				gw.Add(1)
				go func() {
					defer gw.Done()
					b, ok := conn.request(ev.Subject, []byte(`{"query":"a=1"}`))
					term := "DRErr"
					var w struct {
						Result *struct {
							Events *[]struct {
								Event string          `json:"event"`
								Data  json.RawMessage `json:"data"`
							} `json:"events"`
						} `json:"result"`
					}
					if ok && json.Unmarshal(b, &w) == nil && w.Result != nil && w.Result.Events != nil {
						var evs []string
						for _, e := range *w.Result.Events {
							evs = append(evs, wireEvent(e.Event, e.Data))
						}
						term = "DREvents " + List(evs)
					} else if kind, v := parseResp(b, ok); kind == 1 {
						term = "DRValue " + v
					}
					mu.Lock()
					resps[slot] = term
					mu.Unlock()
				}()
			case strings.HasPrefix(subj, "event."):
				i := strings.LastIndexByte(subj, '.')
				rid, name := subj[len("event."):i], subj[i+1:]
				mu.Lock()
				pubs = append(pubs, "PEvent "+B(rid)+" "+wireEvent(name, payload))
				mu.Unlock()
			}
		}
		go svc.Serve(conn)
		select {
		case <-started:
		case <-time.After(5 * time.Second):
			*impl = append(*impl, ImplViolation{What: "directed scenario: the service did not start", Desc: d})
		}
		pl := []byte(`{}`)
		if d.QRH != 0 {
			pl = []byte(`{"query":"a=1"}`)
		}
		b, ok := conn.request("get.d.x", pl)
		if kind, v := parseResp(b, ok); kind == 1 {
			getTerm = "(Some " + v + ")"
		}
		changePanic = safeCall(func() {
			if !d.EvErr && !d.EvReset && len(d.Evs) == 0 {
				ms.TriggerQueryChange(mockstore.QueryChange{IDValue: "1", AfterValue: 1}) // no OnEvents: (nil, false, nil)
				return
			}
			ms.TriggerQueryChange(mockstore.QueryChange{IDValue: "1", AfterValue: 1, OnEvents: func(q url.Values) ([]store.ResultEvent, bool, error) {
				if d.EvErr {
					return nil, false, errors.New("events failure")
				}
				var evs []store.ResultEvent
				for _, e := range d.Evs {
					re := store.ResultEvent{Name: e.Name, Idx: e.Idx, Value: e.Value}
					if e.BadValue {
						re.Value = 7
					}
					if e.Name == "change" {
						re.Value = nil
						re.Changed = map[string]interface{}{}
						for k, v := range e.Changed {
							if v == nil {
								re.Changed[k] = res.DeleteAction
							} else {
								re.Changed[k] = *v
							}
						}
					}
					evs = append(evs, re)
				}
				return evs, d.EvReset, nil
			}})
		})
		gwDone := make(chan struct{})
		go func() { gw.Wait(); close(gwDone) }()
		select {
		case <-gwDone:
		case <-time.After(12 * time.Second):
			*impl = append(*impl, ImplViolation{What: "directed scenario: a query request got no answer", Desc: d})
		}
		if d.Expire {
			time.Sleep(90 * time.Millisecond) // the query event expires: final callback call with nil
			dist["directed_query_event_expired"]++
		}
		svc.Shutdown()
		mu.Lock()
		pubsTerm, respsTerm = List(pubs), List(resps)
		mu.Unlock()
	}
	var evs []string
	for _, e := range d.Evs {
		evs = append(evs, "("+evCoq(e.Name, e.Value, !e.BadValue, e.Idx, e.Changed)+")")
	}
	query := "(Some " + BList(d.QueryIDs) + ")"
	if d.QueryErr || d.QueryBad {
		query = "None"
	}
	events := "(Some (" + List(evs) + "," + Bool(d.EvReset) + "))"
	if d.EvErr {
		events = "None"
	}
	ar := "None"
	if d.ARSet {
		ar = "(Some " + BList(d.AR) + ")"
	}
	c.Term = fmt.Sprintf("Dir (DC %s %d %s %d %d %d %s %s %s %s %s %s %s %s %s)", Bool(d.HasStore), d.TKind, Bool(d.Wild), d.QRH, d.RH, d.Trans,
		ar, BList(knownL), query, events, Bool(setupPanic), getTerm, pubsTerm, Bool(changePanic), respsTerm)
	c.Nontrivial = !setupPanic && (len(d.Evs) > 0 || d.EvReset)
	dist["directed_scenarios"]++
	if setupPanic {
		dist["directed_setup_panics"]++
	}
	if changePanic {
		dist["directed_change_handler_panics"]++
	}
	return c
}

func sp(s string) *string { return &s }

// the directed scenarios: every branch of querystorehandler.go and of the two QueryTransformers
func directedList(r *Rng, extra int) []dirDesc {
	base := func() dirDesc {
		return dirDesc{Directed: true, HasStore: true, TKind: 2, QueryIDs: []string{"1", "2"}}
	}
	var ds []dirDesc
	add := func(f func(d *dirDesc)) {
		d := base()
		f(&d)
		ds = append(ds, d)
	}
	adds := []evDesc{{Name: "remove", Value: "1", Idx: 0}, {Name: "add", Value: "3", Idx: 1}}
	// invalid configurations
	add(func(d *dirDesc) { d.HasStore = false })
	add(func(d *dirDesc) { d.QRH, d.RH = 1, 1 })
	add(func(d *dirDesc) { d.Wild = true })
	add(func(d *dirDesc) { d.TKind = 0 })
	add(func(d *dirDesc) { d.TKind = 3 })
	// ordinary resources
	add(func(d *dirDesc) { d.EvReset = true })
	add(func(d *dirDesc) { d.RH = 1; d.EvReset = true })
	add(func(d *dirDesc) { d.RH = 2; d.EvReset = true })
	add(func(d *dirDesc) { d.QueryErr = true })
	add(func(d *dirDesc) { d.Trans = 1; d.QueryBad = true; d.EvReset = true })
	add(func(d *dirDesc) { d.TKind, d.Trans, d.QueryBad = 1, 2, true })
	add(func(d *dirDesc) { d.EvErr = true })
	add(func(d *dirDesc) {})
	add(func(d *dirDesc) { d.Evs = adds })
	add(func(d *dirDesc) { d.Trans = 1; d.Evs = adds })
	add(func(d *dirDesc) { d.Trans = 1; d.Evs = []evDesc{{Name: "add", BadValue: true, Idx: 0}} })
	add(func(d *dirDesc) { d.Evs = []evDesc{{Name: "add", BadValue: true, Idx: 0}, {Name: "remove", BadValue: true, Idx: 1}} })
	add(func(d *dirDesc) { d.Evs = []evDesc{{Name: "add", Value: "3", Idx: 0}, {Name: "move", Idx: 1}} })
	add(func(d *dirDesc) { d.Evs = []evDesc{{Name: "add", Value: "3", Idx: -1}} })
	add(func(d *dirDesc) { d.Evs = []evDesc{{Name: "change", Changed: map[string]*string{"a": sp("b")}}} })
	add(func(d *dirDesc) { d.TKind, d.Trans, d.Evs = 1, 2, adds })
	add(func(d *dirDesc) { d.TKind, d.Trans = 1, 2; d.Evs = []evDesc{{Name: "remove", BadValue: true, Idx: 0}} })
	add(func(d *dirDesc) { d.TKind, d.Trans = 1, 2; d.EvReset = true })
	add(func(d *dirDesc) { d.TKind = 1; d.Evs = []evDesc{{Name: "change", Changed: map[string]*string{"1": sp("x"), "2": nil}}, {Name: "change"}} })
	add(func(d *dirDesc) { d.TKind = 1; d.Evs = adds })
	add(func(d *dirDesc) { d.Wild, d.ARSet, d.AR = true, true, []string{"d.y", "d.x", "d.z"}; d.EvReset = true })
	add(func(d *dirDesc) { d.Wild, d.ARSet, d.AR = true, true, []string{"d.x", "e.nosuch", "d.z"}; d.Evs = adds })
	add(func(d *dirDesc) { d.Wild, d.ARSet, d.AR = true, true, nil; d.EvReset = true })
	// query resources
	add(func(d *dirDesc) { d.QRH = 1; d.EvReset = true; d.Expire = true })
	add(func(d *dirDesc) { d.QRH = 2; d.EvReset = true })
	add(func(d *dirDesc) { d.QRH = 3; d.EvReset = true })
	add(func(d *dirDesc) { d.QRH = 1; d.QueryErr = true; d.EvReset = true })
	add(func(d *dirDesc) { d.QRH = 1; d.EvErr = true })
	add(func(d *dirDesc) { d.QRH = 1 })
	add(func(d *dirDesc) { d.QRH = 1; d.Evs = adds })
	add(func(d *dirDesc) { d.QRH, d.Trans = 1, 1; d.Evs = adds; d.Expire = true })
	add(func(d *dirDesc) { d.QRH, d.Trans = 1, 1; d.Evs = []evDesc{{Name: "add", BadValue: true, Idx: 0}} })
	add(func(d *dirDesc) { d.QRH = 1; d.Evs = []evDesc{{Name: "add", Value: "3", Idx: 0}, {Name: "move", Idx: 1}} })
	add(func(d *dirDesc) { d.QRH = 1; d.Evs = []evDesc{{Name: "add", Value: "3", Idx: -2}} })
	add(func(d *dirDesc) { d.QRH = 1; d.Evs = []evDesc{{Name: "change", Changed: map[string]*string{"a": sp("b")}}} })
	add(func(d *dirDesc) { d.QRH, d.TKind, d.Trans = 1, 1, 2; d.Evs = adds })
	add(func(d *dirDesc) { d.QRH, d.TKind, d.Trans = 1, 1, 2; d.EvReset = true })
	add(func(d *dirDesc) { d.QRH, d.TKind = 1, 1; d.Evs = []evDesc{{Name: "change", Changed: map[string]*string{"1": nil}}, {Name: "change"}} })
	add(func(d *dirDesc) { d.QRH, d.TKind = 1, 1; d.Evs = adds })
	add(func(d *dirDesc) { d.QRH, d.Wild, d.ARSet, d.AR = 1, true, true, []string{"d.x", "d.y"}; d.EvReset = true })
	add(func(d *dirDesc) { d.QRH, d.Wild, d.ARSet, d.AR = 1, true, true, []string{"d.x", "e.nosuch", "d.y"}; d.EvReset = true })
	// random combinations
	for i := 0; i < extra; i++ {
		d := base()
		d.TKind = 1 + r.Intn(2)
		d.QRH = r.Intn(2) * (1 + r.Intn(3))
		if d.QRH == 0 {
			d.RH = r.Intn(3)
		}
		d.Trans = r.Intn(3)
		if r.Chance(40) {
			d.Wild, d.ARSet = true, true
			d.AR = [][]string{{"d.x"}, {"d.y", "d.x"}, {"d.x", "d.x"}, {"e.nosuch", "d.x"}, {}}[r.Intn(5)]
		}
		switch r.Intn(6) {
		case 0:
			d.QueryErr = true
		case 1:
			if d.Trans != 0 {
				d.QueryBad = true
			}
		}
		switch r.Intn(7) {
		case 0:
			d.EvErr = true
		case 1, 2:
			d.EvReset = true
		case 3:
		default:
			n := 1 + r.Intn(3)
			for k := 0; k < n; k++ {
				switch r.Intn(6) {
				case 0:
					d.Evs = append(d.Evs, evDesc{Name: "change", Changed: map[string]*string{r.Pick([]string{"1", "2", "3"}): sp("v")}})
				case 1:
					d.Evs = append(d.Evs, evDesc{Name: "add", BadValue: true, Idx: r.Intn(2)})
				case 2:
					d.Evs = append(d.Evs, evDesc{Name: "remove", Value: r.Pick([]string{"1", "2"}), Idx: r.Intn(2)})
				default:
					d.Evs = append(d.Evs, evDesc{Name: "add", Value: r.Pick([]string{"3", "4", "1"}), Idx: r.Intn(3) - r.Intn(2)*r.Intn(2)})
				}
			}
		}
		ds = append(ds, d)
	}
	return ds
}

// corner paths of badgerstore.QueryStore that no history reaches; expected = what the code does
func bsDirected(dist map[string]int) Case {
	e := newEnv()
	var logErrs int32
	e.qs.SetLogger(nolog{&logErrs})
	var exp, obs []string
	flag := func(want, got bool) { exp = append(exp, Bool(want)); obs = append(obs, Bool(got)) }
	flag(true, safeCall(func() { e.qs.AddIndex(badgerstore.Index{Name: "k", Key: keyB}) }))    // duplicate index: panic
	flag(true, safeCall(func() { e.qs.Index("nosuch") }))                                       // unknown index: panic
	flag(true, badgerstore.NewQueryStore(e.st, mkIQ).RebuildIndexes() == nil)                 // no index: nothing to do
	_, err := e.qs.Query(url.Values{"bad": {"1"}})
	flag(true, err != nil) // the query callback's error is returned
	cbs, evErr := 0, false
	e.qs.OnQueryChange(func(qc store.QueryChange) {
		cbs++
		evs, reset, err := qc.Events(url.Values{"bad": {"1"}})
		evErr = err != nil && !reset && evs == nil
	})
	e.apply(mut{Op: "c", ID: "1", A: "61", BNil: true})
	e.qs.Flush()
	flag(true, cbs == 1 && evErr) // Events with a query the callback rejects: (nil, false, err)
	// an index key longer than badger accepts: the index transaction collects the error, logs it, runs no callback
	big := hex.EncodeToString(bytes.Repeat([]byte("x"), 70000))
	cbs = 0
	before := atomic.LoadInt32(&logErrs)
	e.apply(mut{Op: "c", ID: "2", A: big, BNil: true})
	e.qs.Flush()
	flag(true, atomic.LoadInt32(&logErrs) > before)
	flag(true, cbs == 0)
	before = atomic.LoadInt32(&logErrs)
	e.apply(mut{Op: "u", ID: "2", A: "62", BNil: true}) // deleting the oversized entry fails as well
	e.qs.Flush()
	flag(true, atomic.LoadInt32(&logErrs) > before)
	tevs, terr := store.IDToRIDModelTransformer(dRef).TransformEvents(nil)
	flag(true, len(tevs) == 0 && terr == nil) // no events: no change event
	e.close()
	dist["badgerstore_directed"]++
	return Case{Term: "BsDir " + List(exp) + " " + List(obs), Desc: map[string]interface{}{"directed": true, "scenario": "badgerstore-corner-paths",
		"checks": []string{"AddIndex duplicate panics", "Index of an unknown name panics", "RebuildIndexes without index is a no-op", "Query returns the query callback's error",
			"Events returns the query callback's error", "oversized index key: error logged", "oversized index key: no query-change callback", "deleting the oversized entry: error logged", "IDToRIDModelTransformer.TransformEvents of no events is no events"}}}
}

func genC14(r *Rng, i int, thorough bool) c14desc {
	hl := 1 + r.Intn(30)
	if i < 10 {
		hl = 1 + i/2
	}
	ms := genHistory(r, hl, false) // no NUL bytes in keys here: that limitation belongs to C13
	// segments: all single mutations / random runs / one run
	var segs [][]mut
	mode := i % 3
	for len(ms) > 0 {
		n := 1
		if mode == 1 {
			n = 1 + r.Intn(5)
		} else if mode == 2 {
			n = len(ms)
		}
		if n > len(ms) {
			n = len(ms)
		}
		if ms[0].Op == "i" {
			n = 1 // a Store.Init call is a segment of its own
		} else {
			for k := 1; k < n; k++ {
				if ms[k].Op == "i" {
					n = k
					break
				}
			}
		}
		segs = append(segs, ms[:n])
		ms = ms[n:]
	}
	var all []mut
	for _, s := range segs {
		all = append(all, s...)
	}
	nq := 8
	if thorough {
		nq = 16
	}
	qs := genQueries(r, all, false, nq)
	// always one query in the corner the pre-fix affectsQuery got wrong:
	// index "kb" (nil keys), empty prefix, a filter accepting the empty key
	qs[0] = qd{I: 1, P: "", F: 1, O: 0, L: -1}
	qs[1] = qd{I: 0, P: "", F: 0, O: 0, L: -1}
	d := c14desc{Segs: segs, Queries: qs, Handlers: i%5 != 4, Delayed: i%2 == 1}
	if d.Handlers && i%3 != 0 {
		d.Inject = 1 + (i/3)%4
	}
	if d.Handlers {
		cq := func(q qd, dropI bool) string {
			v := q.values()
			if dropI {
				v.Del("i")
			}
			return v.Encode()
		}
		pv := prefixVariants(r, all)
		d.Subs = []subT{
			{RID: "t.all", Q: qd{L: -1}},
			{RID: "t.p.61", Q: qd{P: "61", L: -1}},
			{RID: "t.p.62", Q: qd{P: "62", L: -1}},
			{RID: "t.p." + hex.EncodeToString([]byte{byte(1 + r.Intn(255))}), Q: qd{L: -1}},
		}
		d.Subs[3].Q.P = d.Subs[3].RID[len("t.p."):]
		for k := 0; k < 3; k++ {
			q := qd{I: r.Intn(2), P: hex.EncodeToString([]byte(pv[r.Intn(4)])), F: r.Intn(2) * (1 + r.Intn(3)), O: r.Intn(2), L: r.Intn(4) - 1, R: r.Bool()}
			if k == 0 {
				q = qd{I: 1, P: "", F: 1, L: -1}
			}
			d.Subs = append(d.Subs, subT{RID: "t.q", CQ: cq(q, false), IsQ: true, Q: q})
		}
		for k := 0; k < 2; k++ {
			q := qd{I: k, P: hex.EncodeToString([]byte(pv[r.Intn(3)])), F: 0, O: 0, L: r.Intn(4) - 1, R: r.Bool()}
			d.Subs = append(d.Subs, subT{RID: "t.qp." + strconv.Itoa(k), CQ: cq(q, true), IsQ: true, Q: q})
		}
	}
	return d
}

func mainC14(o Opts) {
	r := NewRng(o.Seed)
	var cases []Case
	dist := map[string]int{}
	var impl []ImplViolation
	if o.Replay != "" {
		var dd dirDesc
		var d c14desc
		var sc struct {
			Scenario string `json:"scenario"`
		}
		if LoadReplay(o.Replay, &sc) == nil && sc.Scenario == "same-resource-callbacks" {
			if sameResourceOverlap(dist) {
				impl = append(impl, ImplViolation{What: "two callbacks of one resource (the application's call handler / Service.With callback registered on the pattern of a query store.QueryHandler) ran at the same time: the handler layer made a serial resource concurrent", Desc: map[string]interface{}{"scenario": "same-resource-callbacks"}, Tags: []string{"callback-overlap"}})
			}
		} else if err := LoadReplay(o.Replay, &dd); err == nil && dd.Directed {
			cases = append(cases, runDirected(dd, dist, &impl))
		} else if err := LoadReplay(o.Replay, &d); err != nil {
			panic(err)
		} else if len(d.Segs) == 0 {
			cases = append(cases, bsDirected(dist))
		} else {
			cases = append(cases, runC14(d, dist, &impl))
		}
	} else {
		n := 110
		if o.Tier == "thorough" {
			n = 1500
		}
		if o.N > 0 {
			n = o.N
		}
		backlog := []int{330, 560}
		if o.Tier == "thorough" {
			backlog = []int{300, 420, 560, 800, 1200, 2000}
		}
		if o.N > 0 && o.N < 20 {
			backlog = nil
		}
		for i := 0; i < n+len(backlog); i++ {
			var d c14desc
			if i < n {
				d = genC14(r, i, o.Tier == "thorough")
			} else {
				d = genBacklog(r, backlog[i-n])
				dist["backlog_histories"]++
			}
			c := runC14(d, dist, &impl)
			dist["histories"]++
			if d.Handlers {
				dist["histories_with_handlers"]++
				if d.Delayed {
					dist["histories_with_delayed_gateway"]++
				}
			}
			for _, s := range d.Segs {
				dist["segments"]++
				dist["mutations"] += len(s)
			}
			if c.Nontrivial {
				dist["nontrivial"]++
			}
			cases = append(cases, c)
		}
		if !(o.N > 0 && o.N < 20) {
			extra := 40
			if o.Tier == "thorough" {
				extra = 1500
			}
			// callbacks of one resource never overlap, also on the pattern of a query QueryHandler
			if sameResourceOverlap(dist) {
				impl = append(impl, ImplViolation{What: "two callbacks of one resource (the application's call handler / Service.With callback registered on the pattern of a query store.QueryHandler) ran at the same time: the handler layer made a serial resource concurrent", Desc: map[string]interface{}{"scenario": "same-resource-callbacks", "service": "t", "pattern": "s", "in_flight": "2 call requests, 1 get request, 1 With callback"}, Tags: []string{"callback-overlap"}})
			}
			dist["same_resource_overlap_checks"]++
			for _, dd := range directedList(r, extra) {
				cases = append(cases, runDirected(dd, dist, &impl))
			}
			cases = append(cases, bsDirected(dist))
		}
	}
	dist["responses_with_null_collection"] = int(nullCollections)
	Emit(o, "C14", "From GoRes Require Import Run.Run_C14.", "c14any",
		"random mutation histories (as C13) cut into segments (single mutations / runs of 1-5 / one run), QueryStore.Flush after each segment; two recording OnQueryChange callbacks that run 8 (thorough 16) index queries and Events() inside the callback; Store.OnChange reports; in 4 of 5 histories a res.Service with four store.QueryHandler resources (ordinary / query resource x without / with path parameters and AffectedResources; IDToRIDCollectionTransformer on the ordinary path-parameter collection, IDToRIDModelTransformer on the query model with a path parameter) on a recording connection playing the gateway (query requests for every subscribed client query, sent at once or - every second history - only after all mutations of the segment were indexed; fresh gets after each segment); in two thirds of the handler histories AffectedResources of the ordinary path-parameter resource also returns a resource whose resourceEvent fails (unknown name / rejected parameter) first, last, in the middle or rotating; plus directed handler scenarios (store.QueryHandler built through the With... option API on a real res.Service over mockstore.QueryStore: invalid configurations with their panics, failing request handlers / stores / transformers, stores answering with add / remove / change events through the two shipped QueryTransformers, unknown announced resources, query event expiry; about 45 fixed and 40 random combinations) and one scenario for the corner paths of badgerstore.QueryStore; plus backlog histories: one writer goroutine issues 300-600 (thorough up to 2000) mutations over the 4 ids while the index consumer is stalled inside Index.Key, so the 256-slot task queue fills up, then the consumer is released; non-trivial = some Events() call reported affected and some unaffected; distinct by (segments, queries, subscriptions)",
		cases, dist, nil, impl, 25)
}

// nulKeyFindingRegistered reports whether the committed known-findings list
// (read only) has the layout limitation registered; only then do NUL-key
// histories not fail the check, so only then are they generated by default.
func nulKeyFindingRegistered() bool {
	root := os.Getenv("VERIF_ROOT")
	if root == "" {
		root = "/verif"
	}
	b, err := os.ReadFile(root + "/known_findings.json")
	if err != nil {
		return false
	}
	var kf struct {
		Findings []struct {
			Property string `json:"property"`
			Status   string `json:"status"`
			Tag      string `json:"tag"`
		} `json:"findings"`
	}
	if json.Unmarshal(b, &kf) != nil {
		return false
	}
	for _, f := range kf.Findings {
		if f.Property == "C13" && f.Status == "known" && f.Tag == "nul-in-key" {
			return true
		}
	}
	return false
}

func main() {
	prop := flag.String("prop", "C13", "C13|C14")
	nulMode := flag.String("nulkeys", "auto", "C13: histories with NUL bytes inside index keys (known finding nul-in-key): on|off|auto (auto = on iff /verif/known_findings.json registers C13 / nul-in-key as known)")
	raceSubset := flag.Bool("race-subset", false, "only the concurrent shared-IndexQuery scenarios (for -race builds, C16)")
	o := ParseOpts()
	gate.Store((*gateT)(nil))
	gate2.Store((*gateT)(nil))
	nul := *nulMode == "on" || (*nulMode == "auto" && nulKeyFindingRegistered())
	if *raceSubset {
		mainRace(o)
		return
	}
	switch *prop {
	case "C13":
		mainC13(o, nul)
	case "C14":
		mainC14(o)
	default:
		fmt.Fprintln(os.Stderr, "unknown -prop")
		os.Exit(2)
	}
}
